#!/usr/bin/env python3
"""Translator: /repo sources -> coq/Gen/*.v.

Re-reads, on every run, everything in the Rust sources that is *data* or
*straight-line arithmetic* (tables, constants, salts, SIMD/pseudo-SIMD kernels,
invariant!/unsafe sites, the feature graph) and writes it as Coq definitions.
It fails loudly (TranslateError) on anything it cannot read: an unparsable
kernel, a table of unexpected arity or an unknown operator is a broken
obligation, never a skip.

Files are written only when their content changed so that make's timestamp
cache stays sound.
"""
import os
import re
import sys
import json

REPO = os.environ.get("VERIF_REPO", "/repo")
SRC = os.path.join(REPO, "fast-tlsh", "src")
VERIF = os.path.dirname(os.path.dirname(os.path.abspath(__file__)))
GEN = os.path.join(VERIF, "coq", "Gen")


class TranslateError(Exception):
    pass


def read(rel):
    p = os.path.join(SRC, rel)
    try:
        with open(p, encoding="utf-8") as f:
            return f.read()
    except OSError as e:
        raise TranslateError(f"cannot read {p}: {e}")


def strip_comments(s):
    # remove // comments (incl. doc) and /* */ blocks; keep string literals simple
    s = re.sub(r"/\*.*?\*/", " ", s, flags=re.S)
    out = []
    for line in s.split("\n"):
        # naive: cut at // unless inside a string literal containing //
        i = 0
        instr = False
        cut = len(line)
        while i < len(line):
            c = line[i]
            if instr:
                if c == "\\":
                    i += 2
                    continue
                if c == '"':
                    instr = False
            else:
                if c == '"':
                    instr = True
                elif c == "'" and i + 2 < len(line) and line[i + 2] == "'":
                    i += 3
                    continue
                elif c == "/" and i + 1 < len(line) and line[i + 1] == "/":
                    cut = i
                    break
            i += 1
        out.append(line[:cut])
    return "\n".join(out)


INT_SUFFIX = r"(?:u8|u16|u32|u64|usize|i8|i16|i32|i64|isize)?"


def parse_int_literal(tok):
    t = tok.strip().replace("_", "")
    m = re.fullmatch(r"b'(.)'", tok.strip())
    if m:
        return ord(m.group(1))
    m = re.fullmatch(r"(0x[0-9a-fA-F]+|0b[01]+|0o[0-7]+|[0-9]+)" + INT_SUFFIX, t)
    if not m:
        raise TranslateError(f"not an integer literal: {tok!r}")
    return int(m.group(1), 0)


def find_array_literal(text, name, cfg_filter=None, occurrence=0):
    """Return list of ints of `const|static NAME: [T; N] = [ ... ];` (literal arrays only).
    occurrence selects among several cfg-variant definitions in file order."""
    pat = re.compile(r"(?:pub(?:\([a-z]+\))?\s+)?(?:const|static)\s+" + re.escape(name) +
                     r"\s*:\s*\[\s*([A-Za-z0-9_]+)\s*;\s*([A-Za-z0-9_]+)\s*\]\s*=\s*\[", re.S)
    ms = list(pat.finditer(text))
    if len(ms) <= occurrence:
        raise TranslateError(f"array literal {name} (occurrence {occurrence}) not found")
    m = ms[occurrence]
    i = m.end()
    depth = 1
    j = i
    while j < len(text) and depth > 0:
        if text[j] == "[":
            depth += 1
        elif text[j] == "]":
            depth -= 1
        j += 1
    body = text[i:j - 1]
    toks = [t for t in (x.strip() for x in body.split(",")) if t]
    vals = [parse_int_literal(t) for t in toks]
    return m.group(1), m.group(2), vals


def find_const_expr(text, name):
    m = re.search(r"(?:pub(?:\([a-z]+\))?\s+)?const\s+" + re.escape(name) +
                  r"\s*:\s*[A-Za-z0-9_]+\s*=\s*([^;]+);", text)
    if not m:
        raise TranslateError(f"const {name} not found")
    return m.group(1).strip()


def find_macro_const(text, name):
    m = re.search(r"macro_rules!\s*" + re.escape(name) + r"\s*\{\s*\(\)\s*=>\s*\{\s*([^}]+?)\s*\}\s*;?\s*\}", text)
    if not m:
        raise TranslateError(f"macro constant {name} not found")
    return m.group(1).strip()


def eval_const_expr(expr, env):
    """Evaluate a small integer constant expression (+ - * / parentheses, `as T`, names, mac!())."""
    e = expr
    e = re.sub(r"\bas\s+[A-Za-z0-9_]+", "", e)
    e = re.sub(r"([A-Za-z_][A-Za-z0-9_]*)!\(\)", lambda m: "(" + str(env["!" + m.group(1)]) + ")", e)
    e = re.sub(r"(?:[A-Za-z_][A-Za-z0-9_]*::)+", "", e)

    def lit(m):
        return str(parse_int_literal(m.group(0)))
    e = re.sub(r"\b(0x[0-9a-fA-F_]+|0b[01_]+|[0-9][0-9_]*)" + INT_SUFFIX + r"\b", lit, e)

    def name(m):
        n = m.group(0)
        if n in env:
            return "(" + str(env[n]) + ")"
        raise TranslateError(f"unknown name {n} in constant expression {expr!r}")
    e = re.sub(r"\b[A-Za-z_][A-Za-z0-9_]*\b", name, e)
    if not re.fullmatch(r"[0-9+\-*/() \t\n]+", e):
        raise TranslateError(f"unsupported constant expression {expr!r} -> {e!r}")
    e = e.replace("/", "//")
    try:
        return int(eval(e, {"__builtins__": {}}, {}))
    except Exception as ex:  # noqa
        raise TranslateError(f"cannot evaluate {expr!r}: {ex}")


def coq_list_N(vals, per_line=16):
    # `::` chains parse an order of magnitude faster than the [a; b] notation
    lines = []
    for i in range(0, len(vals), per_line):
        lines.append("  " + " :: ".join(str(v) for v in vals[i:i + per_line]))
    return "(\n" + " ::\n".join(lines) + " :: nil)%N"


def write_if_changed(path, content):
    try:
        with open(path, encoding="utf-8") as f:
            if f.read() == content:
                return False
    except OSError:
        pass
    os.makedirs(os.path.dirname(path), exist_ok=True)
    tmp = path + ".tmp%d" % os.getpid()
    with open(tmp, "w", encoding="utf-8") as f:
        f.write(content)
    os.replace(tmp, path)
    return True


HEADER = "(* GENERATED by lib/translate.py from %s -- do not edit; regenerated on every run *)\n" \
         "From Coq Require Import NArith List.\nImport ListNotations.\nOpen Scope N_scope.\n\n"


# ----------------------------------------------------------------------------
# Tables and constants
# ----------------------------------------------------------------------------

def gen_tables():
    out = {}
    pearson = strip_comments(read("pearson.rs"))
    _, n, subst = find_array_literal(pearson, "SUBST_TABLE")
    if len(subst) != 256:
        raise TranslateError(f"SUBST_TABLE has {len(subst)} entries")
    out["subst_table"] = subst
    init_state = eval_const_expr(find_const_expr(pearson, "INITIAL_STATE"), {})
    out["pearson_initial_state"] = init_state

    length = strip_comments(read("length.rs"))
    encsz = eval_const_expr(find_const_expr(length, "ENCODED_VALUE_SIZE"), {})
    _, _, top = find_array_literal(length, "TOP_VALUE_BY_ENCODING")
    if len(top) != encsz:
        raise TranslateError(f"TOP_VALUE_BY_ENCODING has {len(top)} entries, ENCODED_VALUE_SIZE={encsz}")
    out["top_value"] = top
    out["encoded_value_size"] = encsz
    # MIN / MIN_CONSERVATIVE per bucket count, in source order Short, Normal, Long
    mins = re.findall(r"impl\s+ConstrainedLengthProcessingInfo\s+for\s+LengthProcessingInfo<\s*(NUM_BUCKETS_[A-Z]+)\s*>"
                      r".*?const\s+MIN\s*:\s*u32\s*=\s*([^;]+);\s*const\s+MIN_CONSERVATIVE\s*:\s*u32\s*=\s*([^;]+);",
                      length, flags=re.S)
    got = {k: (eval_const_expr(a, {}), eval_const_expr(b, {})) for k, a, b in mins}
    for k in ("NUM_BUCKETS_SHORT", "NUM_BUCKETS_NORMAL", "NUM_BUCKETS_LONG"):
        if k not in got:
            raise TranslateError(f"length limits for {k} not found")
    out["len_min"] = {k: got[k][0] for k in got}
    out["len_min_conservative"] = {k: got[k][1] for k in got}
    mx = find_const_expr(length, "MAX")
    if not re.fullmatch(r"TOP_VALUE_BY_ENCODING\s*\[\s*TOP_VALUE_BY_ENCODING\s*\.\s*len\(\)\s*-\s*1\s*\]", mx):
        raise TranslateError(f"unexpected MAX definition {mx!r}")
    out["len_max"] = top[-1]

    hexs = strip_comments(read("parse/hex_str.rs"))
    _, _, nib = find_array_literal(hexs, "HEX_UPPER_NIBBLE_TABLE")
    if len(nib) != 16:
        raise TranslateError("HEX_UPPER_NIBBLE_TABLE arity")
    out["hex_upper_nibble"] = nib
    t1, _, lo16 = find_array_literal(hexs, "HEX_REV_TABLE_LO", occurrence=0)
    t2, _, lo8 = find_array_literal(hexs, "HEX_REV_TABLE_LO", occurrence=1)
    if len(lo16) != 256 or len(lo8) != 256:
        raise TranslateError("HEX_REV_TABLE_LO arity")
    out["hex_rev_lo_u16"] = lo16
    out["hex_rev_lo_u8"] = lo8
    invs = re.findall(r"const\s+HEX_INVALID\s*:\s*HexDecodeTableType\s*=\s*([^;]+);", hexs)
    if len(invs) != 2:
        raise TranslateError("expected two HEX_INVALID definitions")
    out["hex_invalid_u16"] = parse_int_literal(invs[0])
    out["hex_invalid_u8"] = parse_int_literal(invs[1])

    buckets = strip_comments(read("buckets.rs"))
    env = {}
    for k in ("NUM_BUCKETS_SHORT", "NUM_BUCKETS_NORMAL", "NUM_BUCKETS_LONG"):
        env[k] = eval_const_expr(find_const_expr(buckets, k), env)
    out["num_buckets"] = dict(env)
    mnz = re.findall(r"impl\s+FuzzyHashBucketMapper\s+for\s+FuzzyHashBucketsInfo<\s*(NUM_BUCKETS_[A-Z]+)\s*>"
                     r".*?const\s+MIN_NONZERO_BUCKETS\s*:\s*usize\s*=\s*([^;]+);"
                     r".*?(tlsh_b_mapping_(?:48|256))\(b0,\s*b1,\s*b2,\s*b3\)"
                     r".*?const\s+IS_B_MAPPING_CONSTRAINED_WITHIN_BUCKETS\s*:\s*bool\s*=\s*(true|false)\s*;",
                     buckets, flags=re.S)
    if len(mnz) != 3:
        raise TranslateError("bucket mapper impls not found")
    out["min_nonzero"] = {k: eval_const_expr(e, env) for k, e, _, _ in mnz}
    out["b_mapping_kind"] = {k: (48 if f.endswith("48") else 256) for k, _, f, _ in mnz}
    out["b_mapping_constrained"] = {k: (c == "true") for k, _, _, c in mnz}

    cks = strip_comments(read("hash/checksum.rs"))
    out["checksum_size_normal"] = eval_const_expr(find_const_expr(cks, "CHECKSUM_SIZE_NORMAL"), {})
    out["checksum_size_long"] = eval_const_expr(find_const_expr(cks, "CHECKSUM_SIZE_LONG"), {})

    body = strip_comments(read("compare/dist_body.rs"))
    benv = {}
    benv["BODY_OUTLIER_VALUE"] = eval_const_expr(find_const_expr(body, "BODY_OUTLIER_VALUE"), benv)
    for k in ("MAX_DISTANCE_SHORT", "MAX_DISTANCE_NORMAL", "MAX_DISTANCE_LONG"):
        benv[k] = eval_const_expr(find_const_expr(body, k), benv)
    out["dist_body"] = benv

    dl = strip_comments(read("compare/dist_length.rs"))
    lm = parse_int_literal(find_macro_const(dl, "length_mult"))
    out["length_mult"] = lm
    out["length_max_distance"] = eval_const_expr(find_const_expr(dl, "MAX_DISTANCE"), {"!length_mult": lm})
    dq = strip_comments(read("compare/dist_qratios.rs"))
    qm = parse_int_literal(find_macro_const(dq, "qratio_mult"))
    out["qratio_mult"] = qm
    out["qratios_max_distance"] = eval_const_expr(find_const_expr(dq, "MAX_DISTANCE"), {"!qratio_mult": qm})

    gen = strip_comments(read("generate.rs"))
    out["window_size"] = eval_const_expr(find_const_expr(gen, "WINDOW_SIZE"), {})
    flags = dict(re.findall(r"const\s+([A-Z_]+)\s*=\s*(0x[0-9a-fA-F]+)\s*;", gen))
    for k in ("PURE_INTEGER_QRATIO_COMPUTATION", "ALLOW_SMALL_SIZE_FILES",
              "ALLOW_STATISTICALLY_WEAK_BUCKETS_HALF", "ALLOW_STATISTICALLY_WEAK_BUCKETS_QUARTER"):
        if k not in flags:
            raise TranslateError(f"flag {k} not found")
    out["flags"] = {k: int(v, 16) for k, v in flags.items()}
    # the six bucket-update triplets: increment(Self::b_mapping(salt, bA, bB, bC))
    trip = re.findall(r"self\.buckets\.increment\(\s*Self::b_mapping\(\s*(0x[0-9a-fA-F]+|[0-9]+)\s*,\s*b([0-4])\s*,\s*b([0-4])\s*,\s*b([0-4])\s*\)\s*\)", gen)
    if len(trip) != 6:
        raise TranslateError(f"expected 6 bucket-update lines, found {len(trip)}")
    out["bucket_triplets"] = [(int(s, 0), int(a), int(b), int(c)) for s, a, b, c in trip]
    m = re.search(r"self\.checksum\.update\(\s*b([0-4])\s*,\s*b([0-4])\s*\)", gen)
    if not m:
        raise TranslateError("checksum update call not found")
    out["checksum_args"] = (int(m.group(1)), int(m.group(2)))
    m = re.search(r"\(b0,\s*b1,\s*b2,\s*b3\)\s*=\s*\(b1,\s*b2,\s*b3,\s*b4\)", gen)
    if not m:
        raise TranslateError("window shift not found")
    # checksum chain (which state byte salts which)
    ch1 = re.findall(r"self\.data\[(\d)\]\s*=\s*FuzzyHashBucketsInfo::<SIZE_BUCKETS>::b_mapping\(\s*(\d+)\s*,\s*curr\s*,\s*prev\s*,\s*self\.data\[(\d)\]\s*\)", cks)
    ch3 = re.findall(r"self\.data\[(\d)\]\s*=\s*tlsh_b_mapping_256\(\s*self\.data\[(\d)\]\s*,\s*curr\s*,\s*prev\s*,\s*self\.data\[(\d)\]\s*\)", cks)
    if len(ch1) != 2 or len(ch3) != 2:
        raise TranslateError(f"checksum update bodies not recognised ({len(ch1)}, {len(ch3)})")
    for d, s, e in ch1:
        if (d, s, e) != ("0", "0", "0"):
            raise TranslateError("unexpected checksum byte-0 update")
    if [tuple(map(int, x)) for x in ch3] != [(1, 0, 1), (2, 1, 2)]:
        raise TranslateError("unexpected checksum byte-1/2 update chain")
    out["checksum_chain"] = [(0, -1, 0), (1, 0, 1), (2, 1, 2)]  # (dst, salt-from (-1 = literal 0), state)

    easy = strip_comments(read("generate_easy_std.rs"))
    out["stream_buffer_size"] = eval_const_expr(find_const_expr(easy, "BUFFER_SIZE"), {})
    return out


def emit_tables(t):
    s = HEADER % "pearson.rs, length.rs, parse/hex_str.rs, buckets.rs, hash/checksum.rs, compare/*.rs, generate.rs"
    s += "Definition subst_table : list N := " + coq_list_N(t["subst_table"]) + ".\n\n"
    s += "Definition pearson_initial_state : N := %d.\n\n" % t["pearson_initial_state"]
    s += "Definition top_value : list N := " + coq_list_N(t["top_value"], 8) + ".\n\n"
    s += "Definition encoded_value_size : N := %d.\n" % t["encoded_value_size"]
    s += "Definition len_max : N := %d.\n\n" % t["len_max"]
    s += "Definition hex_upper_nibble : list N := " + coq_list_N(t["hex_upper_nibble"]) + ".\n\n"
    s += "Definition hex_rev_lo_u16 : list N := " + coq_list_N(t["hex_rev_lo_u16"]) + ".\n\n"
    s += "Definition hex_rev_lo_u8 : list N := " + coq_list_N(t["hex_rev_lo_u8"]) + ".\n\n"
    s += "Definition hex_invalid_u16 : N := %d.\nDefinition hex_invalid_u8 : N := %d.\n\n" % (
        t["hex_invalid_u16"], t["hex_invalid_u8"])
    nb = t["num_buckets"]
    for k, short in (("NUM_BUCKETS_SHORT", "short"), ("NUM_BUCKETS_NORMAL", "normal"), ("NUM_BUCKETS_LONG", "long")):
        s += "Definition num_buckets_%s : N := %d.\n" % (short, nb[k])
        s += "Definition len_min_%s : N := %d.\n" % (short, t["len_min"][k])
        s += "Definition len_min_conservative_%s : N := %d.\n" % (short, t["len_min_conservative"][k])
        s += "Definition min_nonzero_%s : N := %d.\n" % (short, t["min_nonzero"][k])
        s += "Definition b_mapping_kind_%s : N := %d.\n" % (short, t["b_mapping_kind"][k])
        s += "Definition b_mapping_constrained_%s : bool := %s.\n" % (short, "true" if t["b_mapping_constrained"][k] else "false")
    s += "\nDefinition checksum_size_normal : N := %d.\nDefinition checksum_size_long : N := %d.\n" % (
        t["checksum_size_normal"], t["checksum_size_long"])
    db = t["dist_body"]
    s += "\nDefinition body_outlier_value : N := %d.\n" % db["BODY_OUTLIER_VALUE"]
    s += "Definition body_max_distance_short : N := %d.\nDefinition body_max_distance_normal : N := %d.\nDefinition body_max_distance_long : N := %d.\n" % (
        db["MAX_DISTANCE_SHORT"], db["MAX_DISTANCE_NORMAL"], db["MAX_DISTANCE_LONG"])
    s += "Definition length_mult : N := %d.\nDefinition length_max_distance : N := %d.\n" % (t["length_mult"], t["length_max_distance"])
    s += "Definition qratio_mult : N := %d.\nDefinition qratios_max_distance : N := %d.\n" % (t["qratio_mult"], t["qratios_max_distance"])
    s += "\nDefinition window_size : N := %d.\n" % t["window_size"]
    fl = t["flags"]
    s += "Definition flag_pure_integer_qratio : N := %d.\nDefinition flag_allow_small : N := %d.\nDefinition flag_allow_half : N := %d.\nDefinition flag_allow_quarter : N := %d.\n" % (
        fl["PURE_INTEGER_QRATIO_COMPUTATION"], fl["ALLOW_SMALL_SIZE_FILES"],
        fl["ALLOW_STATISTICALLY_WEAK_BUCKETS_HALF"], fl["ALLOW_STATISTICALLY_WEAK_BUCKETS_QUARTER"])
    s += "\n(* increment(b_mapping(salt, b_i, b_j, b_k)) lines of Generator::update, in source order;\n   window bytes are b0 (oldest) .. b4 (newest). *)\n"
    s += "Definition bucket_triplets : list (N * (N * N * N)) := [\n  " + ";\n  ".join(
        "(%d, (%d, %d, %d))" % x for x in t["bucket_triplets"]) + "\n].\n"
    s += "Definition checksum_args : N * N := (%d, %d).\n" % t["checksum_args"]
    s += "Definition stream_buffer_size : N := %d.\n" % t["stream_buffer_size"]
    return s


# ----------------------------------------------------------------------------
# main
# ----------------------------------------------------------------------------

def run(verbose=False):
    """Regenerate coq/Gen. Returns dict with extracted values (for the cross-check)."""
    t = gen_tables()
    changed = []
    if write_if_changed(os.path.join(GEN, "Tables.v"), emit_tables(t)):
        changed.append("Tables.v")
    extra = {}
    try:
        import translate_kernels
        extra = translate_kernels.run(GEN, write_if_changed)
        changed += extra.get("changed", [])
    except ImportError:
        pass
    import translate_agg
    agg = translate_agg.run(GEN, write_if_changed)
    changed += agg.get("changed", [])
    extra["agg"] = agg
    import translate_sites
    sites = translate_sites.run(GEN, write_if_changed)
    changed += sites.get("changed", [])
    extra["sites"] = sites
    # C18's cfg inventory: its own failure must not take the other properties' checks down with it
    try:
        import translate_alloc
        al = translate_alloc.run(GEN, write_if_changed)
        extra["alloc"] = al
    except Exception as e:  # noqa: BLE001 -- reported by the C18 check as a broken obligation
        extra["alloc_error"] = "%s: %s" % (type(e).__name__, e)
    if verbose:
        print("translate: regenerated", changed if changed else "(nothing changed)")
    t["_changed"] = changed
    t["_extra"] = extra
    return t


if __name__ == "__main__":
    sys.path.insert(0, os.path.dirname(os.path.abspath(__file__)))
    try:
        t = run(verbose=True)
    except TranslateError as e:
        print("TRANSLATE-ERROR:", e)
        sys.exit(2)
    if "--json" in sys.argv:
        t.pop("_extra", None)
        print(json.dumps(t, default=str))
