"""Translator part 5 (C18): the conditional-compilation structure of the crate, as data.

Walks the module tree from src/lib.rs, resolving `#[cfg(..)]` / `#![cfg(..)]` attributes, `cfg_if!` chains and
`mod x;` declarations, and records every place that names something which exists only when `std` or `alloc` is
linked, together with the conjunction of the cfg predicates that guard it:

  KStd        a `std::..` path, or a std-only macro (println!, eprintln!, print!, eprint!, dbg!, is_*_feature_detected!)
  KAllocPath  an `alloc::..` path
  KHeap       a heap type / macro / method that the core prelude does not have (Vec, String, Box, vec!, format!,
              .to_vec(), .to_string(), .to_owned(), ...)

It also extracts the two facts of lib.rs that decide what is linked (`#![cfg_attr(not(..), no_std)]` and the cfg on
`extern crate alloc;`) and the intra-crate feature implications of Cargo.toml.  Output: coq/Gen/AllocSites.v;
Props/C18.v states its theorems about THESE regenerated lists."""
import os
import re

import translate as T

HEAP_TYPES = {"Vec", "String", "Box", "Rc", "Arc", "Cow", "BTreeMap", "BTreeSet", "HashMap", "HashSet", "VecDeque",
              "BinaryHeap", "LinkedList", "ToString", "ToOwned", "CString", "OsString", "PathBuf"}
HEAP_MACROS = {"vec", "format"}
STD_MACROS = {"println", "eprintln", "print", "eprint", "dbg"}
HEAP_METHODS = {"to_vec", "to_string", "to_owned", "into_boxed_slice", "into_boxed_str", "into_owned",
                "to_uppercase", "to_lowercase",
                # slice methods that live in `alloc` (the stable sorts need a scratch buffer), not in `core`
                "sort", "sort_by", "sort_by_key", "sort_by_cached_key", "repeat", "concat"}
ITEM_KW = {"fn", "impl", "struct", "enum", "trait", "type", "use", "let", "const", "static", "mod", "unsafe", "extern",
           "pub", "union", "macro_rules", "async", "default"}
SEMI_KW = {"use", "let", "const", "static", "type", "return", "extern"}


class AllocTranslateError(T.TranslateError):
    pass


# ------------------------------------------------------------------------------------------- lexer
def lex(src):
    """-> list of (kind, text); kinds: id, str, chr, life, num, p.  Comments are dropped."""
    toks = []
    i, n = 0, len(src)
    while i < n:
        c = src[i]
        if c.isspace():
            i += 1
        elif src.startswith("//", i):
            j = src.find("\n", i)
            i = n if j < 0 else j
        elif src.startswith("/*", i):
            depth, i = 1, i + 2
            while i < n and depth:
                if src.startswith("/*", i):
                    depth += 1
                    i += 2
                elif src.startswith("*/", i):
                    depth -= 1
                    i += 2
                else:
                    i += 1
        elif c == '"' or (c in "rb" and re.match(r'(?:b?r#*"|b")', src[i:i + 12])):
            m = re.match(r'b?r(#*)"', src[i:])
            if m:
                close = '"' + m.group(1)
                j = src.find(close, i + m.end())
                if j < 0:
                    raise AllocTranslateError("unterminated raw string")
                toks.append(("str", src[i + m.end():j]))
                i = j + len(close)
            else:
                j = i + (2 if c == "b" else 1)
                buf = []
                while j < n and src[j] != '"':
                    if src[j] == "\\":
                        buf.append(src[j:j + 2])
                        j += 2
                    else:
                        buf.append(src[j])
                        j += 1
                toks.append(("str", "".join(buf)))
                i = j + 1
        elif c == "'" or (c == "b" and src.startswith("b'", i)):
            k = i + (1 if c == "b" else 0)
            m = re.match(r"'(?:\\(?:x[0-9a-fA-F]{2}|u\{[0-9a-fA-F_]+\}|.)|[^\\'])'", src[k:])
            if m:
                toks.append(("chr", m.group(0)))
                i = k + m.end()
            else:
                m = re.match(r"'[A-Za-z_][A-Za-z0-9_]*", src[k:])
                if not m:
                    raise AllocTranslateError("cannot lex quote at offset %d" % i)
                toks.append(("life", m.group(0)))
                i = k + m.end()
        elif c.isalpha() or c == "_":
            m = re.match(r"[A-Za-z_][A-Za-z0-9_]*", src[i:])
            toks.append(("id", m.group(0)))
            i += m.end()
        elif c.isdigit():
            m = re.match(r"[0-9][0-9A-Za-z_]*(?:\.[0-9][0-9A-Za-z_]*)?", src[i:])
            toks.append(("num", m.group(0)))
            i += m.end()
        elif src.startswith("::", i):
            toks.append(("p", "::"))
            i += 2
        else:
            toks.append(("p", c))
            i += 1
    return toks


OPEN = {"(": ")", "[": "]", "{": "}"}


def match_close(toks, i):
    """index of the bracket closing toks[i]"""
    stack = []
    j = i
    while j < len(toks):
        k, t = toks[j]
        if k == "p":
            if t in OPEN:
                stack.append(OPEN[t])
            elif t in (")", "]", "}"):
                if not stack or stack.pop() != t:
                    raise AllocTranslateError("unbalanced bracket")
                if not stack:
                    return j
        j += 1
    raise AllocTranslateError("unbalanced bracket (eof)")


# ------------------------------------------------------------------------------------------- cfg predicates
def parse_pred(toks, i):
    """toks[i:] starts a cfg predicate; -> (pred, next index).  pred: ('var', name) | ('not', p) | ('all', [..]) | ('any', [..])"""
    k, t = toks[i]
    if k != "id":
        raise AllocTranslateError("cfg predicate: unexpected token %r" % (t,))
    if t in ("all", "any", "not") and toks[i + 1] == ("p", "("):
        end = match_close(toks, i + 1)
        parts = []
        j = i + 2
        while j < end:
            p, j = parse_pred(toks, j)
            parts.append(p)
            if toks[j] == ("p", ","):
                j += 1
        if t == "not":
            if len(parts) != 1:
                raise AllocTranslateError("not() with %d operands" % len(parts))
            return ("not", parts[0]), end + 1
        return (t, parts), end + 1
    if toks[i + 1] == ("p", "=") and toks[i + 2][0] == "str":
        v = toks[i + 2][1]
        name = ("f:" + v) if t == "feature" else (t + "=" + v)
        return ("var", name), i + 3
    return ("var", t), i + 1


def p_and(*ps):
    out = []
    for p in ps:
        if p == ("all", []):
            continue
        if p[0] == "all":
            out.extend(p[1])
        else:
            out.append(p)
    return ("all", out)


TRUE = ("all", [])


def coq_str(s):
    return '"' + s.replace('"', '""') + '"'


def coq_form(p):
    if p[0] == "var":
        return "FVar " + coq_str(p[1])
    if p[0] == "not":
        return "FNot (" + coq_form(p[1]) + ")"
    if p[0] == "all":
        if not p[1]:
            return "FTrue"
        return "FAnd [" + "; ".join(coq_form(x) for x in p[1]) + "]"
    if p[0] == "any":
        return "FOr [" + "; ".join(coq_form(x) for x in p[1]) + "]"
    raise AllocTranslateError("bad pred")


def py_eval(p, env):
    if p[0] == "var":
        return bool(env.get(p[1], False))
    if p[0] == "not":
        return not py_eval(p[1], env)
    if p[0] == "all":
        return all(py_eval(x, env) for x in p[1])
    return any(py_eval(x, env) for x in p[1])


def py_vars(p, acc=None):
    acc = acc if acc is not None else []
    if p[0] == "var":
        if p[1] not in acc:
            acc.append(p[1])
    elif p[0] == "not":
        py_vars(p[1], acc)
    else:
        for x in p[1]:
            py_vars(x, acc)
    return acc


# ------------------------------------------------------------------------------------------- walker
class Walker:
    def __init__(self):
        self.sites = []        # (file, kind, text, pred)
        self.guards = {}       # coq text of every distinct guard conjunction met -> pred (for BUILD's cfg coverage)
        self.facts = {}        # 'no_std' -> pred, 'extern_alloc' -> pred
        self.files = []

    def file(self, rel, pred):
        path = os.path.join(T.SRC, rel)
        with open(path) as f:
            toks = lex(f.read())
        self.files.append(rel)
        self.walk(toks, 0, len(toks), pred, rel)

    def child(self, rel, name):
        d, b = os.path.split(rel)
        base = d if b in ("lib.rs", "mod.rs") else os.path.join(d, b[:-3])
        for cand in (os.path.join(base, name + ".rs"), os.path.join(base, name, "mod.rs")):
            if os.path.exists(os.path.join(T.SRC, cand)):
                return cand
        raise AllocTranslateError("module file for `mod %s;` declared in %s not found" % (name, rel))

    def attr(self, toks, i):
        """toks[i] == '#'; -> (pred or None, index after the attribute, inner?)"""
        inner = toks[i + 1] == ("p", "!")
        j = i + (2 if inner else 1)
        if toks[j] != ("p", "["):
            return None, i + 1, False
        end = match_close(toks, j)
        pred = None
        if toks[j + 1] == ("id", "cfg") and toks[j + 2] == ("p", "("):
            pred, k = parse_pred(toks, j + 3)
            if k != match_close(toks, j + 2):
                raise AllocTranslateError("cfg(..) with trailing tokens")
        elif toks[j + 1] == ("id", "cfg_attr") and toks[j + 2] == ("p", "("):
            cend = match_close(toks, j + 2)
            p, k = parse_pred(toks, j + 3)
            rest = [t for _, t in toks[k:cend]]
            if inner and rest[:2] == [",", "no_std"]:
                self.facts["no_std"] = p
        return pred, end + 1, inner

    def item_end(self, toks, i, hi):
        j = i
        # skip visibility
        if toks[j] == ("id", "pub"):
            j += 1
            if j < hi and toks[j] == ("p", "("):
                j = match_close(toks, j) + 1
        kw = toks[j][1] if j < hi and toks[j][0] == "id" else ""
        itemlike = toks[i][1] in ITEM_KW if toks[i][0] == "id" else False
        fieldlike = (not itemlike) and j + 1 < hi and toks[j][0] == "id" and toks[j + 1] == ("p", ":")
        angle = 0
        while j < hi:
            k, t = toks[j]
            if k == "p":
                if t in ("(", "["):
                    j = match_close(toks, j) + 1
                    continue
                if t == "{":
                    e = match_close(toks, j)
                    if kw in SEMI_KW:
                        j = e + 1
                        continue
                    if e + 1 < hi and toks[e + 1] == ("id", "else"):
                        j = e + 1
                        continue
                    return e + 1
                if t == ";":
                    return j + 1
                if fieldlike and t == "<":
                    angle += 1
                if fieldlike and t == ">":
                    angle -= 1
                if t == "," and not itemlike and angle <= 0:
                    return j + 1
                if t in (")", "]", "}"):
                    return j
            j += 1
        return hi

    def cfg_if(self, toks, i, pred, rel):
        """toks[i] == '{' of a cfg_if! invocation; returns index after it"""
        end = match_close(toks, i)
        j = i + 1
        neg = []
        while j < end:
            if toks[j] == ("id", "if"):
                if toks[j + 1] != ("p", "#"):
                    raise AllocTranslateError("cfg_if!: expected #[cfg(..)] in %s" % rel)
                p, k, _ = self.attr(toks, j + 1)
                if p is None or toks[k] != ("p", "{"):
                    raise AllocTranslateError("cfg_if!: malformed branch in %s" % rel)
                e = match_close(toks, k)
                pb = p_and(pred, *neg, p)
                self.guards.setdefault(coq_form(pb), pb)
                self.walk(toks, k + 1, e, pb, rel)
                neg.append(("not", p))
                j = e + 1
            elif toks[j] == ("id", "else"):
                if toks[j + 1] == ("id", "if"):
                    j += 1
                    continue
                if toks[j + 1] != ("p", "{"):
                    raise AllocTranslateError("cfg_if!: malformed else in %s" % rel)
                e = match_close(toks, j + 1)
                pb = p_and(pred, *neg)
                self.guards.setdefault(coq_form(pb), pb)
                self.walk(toks, j + 2, e, pb, rel)
                j = e + 1
            else:
                raise AllocTranslateError("cfg_if!: unexpected token %r in %s" % (toks[j][1], rel))
        return end + 1

    def site(self, rel, kind, text, pred):
        self.sites.append((rel, kind, text, pred))

    def walk(self, toks, lo, hi, pred, rel):
        i = lo
        while i < hi:
            k, t = toks[i]
            if k == "p" and t == "#" and i + 1 < hi and toks[i + 1][1] in ("[", "!"):
                preds = []
                j = i
                inner_seen = False
                while j < hi and toks[j] == ("p", "#") and toks[j + 1][1] in ("[", "!"):
                    p, j2, inner = self.attr(toks, j)
                    if j2 == j + 1:
                        break
                    if inner:
                        inner_seen = True
                        if p is not None:
                            pred = p_and(pred, p)       # the rest of this scope
                            self.guards.setdefault(coq_form(pred), pred)
                    elif p is not None:
                        preds.append(p)
                    j = j2
                if j == i:
                    i += 1
                    continue
                if inner_seen and not preds:
                    i = j
                    continue
                e = self.item_end(toks, j, hi)
                if e <= j:
                    e = j + 1
                p2 = p_and(pred, *preds)
                self.guards.setdefault(coq_form(p2), p2)
                # `extern crate alloc;`
                if [x[1] for x in toks[j:j + 3]] == ["extern", "crate", "alloc"]:
                    self.facts["extern_alloc"] = p2
                self.walk(toks, j, e, p2, rel)
                i = e
                continue
            if k == "id":
                prev = toks[i - 1] if i > lo else ("", "")
                nxt = toks[i + 1] if i + 1 < hi else ("", "")
                if t == "cfg_if" and nxt == ("p", "!") and toks[i + 2] == ("p", "{"):
                    i = self.cfg_if(toks, i + 2, pred, rel)
                    continue
                if t == "mod" and nxt[0] == "id" and i + 2 < hi and toks[i + 2] == ("p", ";"):
                    self.file(self.child(rel, nxt[1]), pred)
                    i += 3
                    continue
                if [x[1] for x in toks[i:i + 3]] == ["extern", "crate", "alloc"] and "extern_alloc" not in self.facts:
                    self.facts["extern_alloc"] = pred
                if t == "std" and nxt == ("p", "::") and prev[1] not in ("::", "."):
                    self.site(rel, "KStd", self.path_text(toks, i, hi), pred)
                elif t == "alloc" and nxt == ("p", "::") and prev[1] not in ("::", "."):
                    self.site(rel, "KAllocPath", self.path_text(toks, i, hi), pred)
                elif t in HEAP_TYPES:
                    self.site(rel, "KHeap", t, pred)
                elif t in HEAP_MACROS and nxt == ("p", "!"):
                    self.site(rel, "KHeap", t + "!", pred)
                elif (t in STD_MACROS or (t.startswith("is_") and t.endswith("_feature_detected"))) and nxt == ("p", "!"):
                    # std-only macros (core has no run-time CPU feature detection)
                    self.site(rel, "KStd", t + "!", pred)
                elif t in HEAP_METHODS and prev == ("p", ".") and nxt == ("p", "("):
                    self.site(rel, "KHeap", "." + t + "()", pred)
            i += 1

    @staticmethod
    def path_text(toks, i, hi):
        parts = [toks[i][1]]
        j = i + 1
        while j + 1 < hi and toks[j] == ("p", "::") and toks[j + 1][0] == "id" and len(parts) < 4:
            parts.append(toks[j + 1][1])
            j += 2
        if j < hi and toks[j] == ("p", "::") and j + 1 < hi and toks[j + 1] == ("p", "{"):
            parts.append("{..}")
        return "::".join(parts)


def feature_graph():
    """intra-crate implications of Cargo.toml's [features] (dep:.. and pkg?/feat entries concern other crates)"""
    import configs
    g = configs.cargo_feature_graph()
    out = []
    for f in sorted(g):
        deps = [d for d in g[f] if not d.startswith("dep:") and "/" not in d]
        out.append((f, deps))
    return out


def collect():
    w = Walker()
    w.file("lib.rs", TRUE)
    if "no_std" not in w.facts:
        raise AllocTranslateError("lib.rs no longer has `#![cfg_attr(<pred>, no_std)]`")
    if "extern_alloc" not in w.facts:
        raise AllocTranslateError("lib.rs no longer declares `extern crate alloc;`")
    # dedupe, keep first-appearance order
    seen = set()
    sites = []
    for s in w.sites:
        key = (s[0], s[1], s[2], coq_form(s[3]))
        if key not in seen:
            seen.add(key)
            sites.append(s)
    return w, sites


def run(gen_dir, write_if_changed):
    w, sites = collect()
    g = feature_graph()
    s = ("(* GENERATED by lib/translate_alloc.py from fast-tlsh/Cargo.toml [features] and every module reachable from "
         "fast-tlsh/src/lib.rs (cfg structure) -- do not edit; regenerated on every run *)\n"
         "From Coq Require Import List String.\nFrom TlshV Require Import Model.MCfgForm.\n"
         "Import ListNotations.\nOpen Scope string_scope.\n\n")
    s += "(* [features] of Cargo.toml: enabling the first enables the others (entries about other crates dropped) *)\n"
    s += "Definition feature_graph : fgraph := [\n  " + ";\n  ".join(
        "(%s, [%s])" % (coq_str("f:" + f), "; ".join(coq_str("f:" + d) for d in deps)) for f, deps in g) + "\n].\n\n"
    s += "(* lib.rs: #![cfg_attr(P, no_std)] -- std is linked exactly when P is false *)\n"
    s += "Definition no_std_when : form := %s.\n" % coq_form(w.facts["no_std"])
    s += "Definition std_linked : form := FNot no_std_when.\n"
    s += "(* lib.rs: the cfg on `extern crate alloc;` *)\n"
    s += "Definition alloc_linked : form := %s.\n\n" % coq_form(w.facts["extern_alloc"])
    s += "(* every place naming something that exists only with std or alloc: file, kind, text, guarding cfg *)\n"
    s += "Definition sites : list site := [\n  " + ";\n  ".join(
        "mk_site %s %s %s (%s)" % (coq_str(f), k, coq_str(t), coq_form(p)) for f, k, t, p in sites) + "\n].\n\n"
    s += "Definition walked_files : list string := [\n  " + ";\n  ".join(coq_str(f) for f in w.files) + "\n].\n"
    write_if_changed(os.path.join(gen_dir, "AllocSites.v"), s)
    return {"alloc_sites": len(sites), "alloc_files": len(w.files)}


if __name__ == "__main__":
    w, sites = collect()
    for f, k, t, p in sites:
        if "test" not in coq_form(p):
            print(f, k, t, coq_form(p))
    print(len(sites), "sites;", len(w.files), "files")
    print("no_std when", coq_form(w.facts["no_std"]))
    print("extern alloc when", coq_form(w.facts["extern_alloc"]))
