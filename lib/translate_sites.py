"""Translator part 3: inventory of every place where the code hands an assumption to the optimiser or
leaves the safe language: invariant!(..) sites, `unsafe {` blocks, unreachable_unchecked,
from_utf8_unchecked, raw-pointer SIMD loads, #[target_feature].  Written to coq/Gen/Sites.v as data;
Props/C17.v proves it EQUAL to the audited list, so a new or changed site breaks an obligation."""
import os
import re

import translate as T


def rs_files():
    out = []
    for root, _, files in os.walk(T.SRC):
        for f in files:
            if f.endswith(".rs") and f != "tests.rs" and "verif" not in f and "fuzzer" not in f:
                out.append(os.path.relpath(os.path.join(root, f), T.SRC))
    return sorted(out)


def norm(e):
    return " ".join(e.split())


def coq_str(s):
    return '"' + s.replace('"', '""') + '"'


def run(gen_dir, write_if_changed):
    inv = []       # (file, expression)
    counts = []    # (file, unsafe blocks, unchecked calls, raw loads, target_feature attrs)
    for rel in rs_files():
        txt = T.strip_comments(T.read(rel))
        # drop cfg(fast_tlsh_verif)-guarded items (our own instrumentation)
        txt = re.sub(r"#\[cfg\(fast_tlsh_verif\)\](?:\s*#\[[^\]]*\])*\s*(?:pub(?:\([a-z]+\))?\s+)?(?:mod|fn|use|impl)[^;{]*(?:;|\{)", " ", txt)
        if rel == "macros.rs":
            continue
        for m in re.finditer(r"\binvariant!\s*\(", txt):
            i = m.end()
            depth = 1
            j = i
            while depth and j < len(txt):
                if txt[j] == "(":
                    depth += 1
                elif txt[j] == ")":
                    depth -= 1
                j += 1
            inv.append((rel, norm(txt[i:j - 1])))
        n_unsafe = len(re.findall(r"\bunsafe\s*\{", txt))
        n_unchecked = len(re.findall(r"\b(?:unreachable_unchecked|from_utf8_unchecked|get_unchecked(?:_mut)?|assume)\s*\(", txt))
        n_loads = len(re.findall(r"\b_mm(?:256)?_loadu_si(?:128|256)\s*\(", txt)) + len(re.findall(r"\bv128_load\s*\(", txt))
        n_tf = len(re.findall(r"target_feature\s*\(\s*enable", txt))
        if n_unsafe or n_unchecked or n_loads or n_tf:
            counts.append((rel, n_unsafe, n_unchecked, n_loads, n_tf))
    s = T.HEADER % "every .rs file under fast-tlsh/src (invariant!/unsafe inventory)"
    s = s.replace("From Coq Require Import NArith List.", "From Coq Require Import NArith List String.")
    if "String" not in s:
        s += "From Coq Require Import String.\n"
    s += "Open Scope string_scope.\n\n"
    s += "(* every invariant!(expr): (file, expression text) in file order *)\n"
    s += "Definition invariant_sites : list (string * string) := [\n  " + ";\n  ".join(
        "(%s, %s)" % (coq_str(f), coq_str(e)) for f, e in inv) + "\n].\n\n"
    s += "(* per file: unsafe blocks, *_unchecked / assume calls, raw-pointer SIMD loads, #[target_feature] attributes *)\n"
    s += "Definition unsafe_sites : list (string * (N * N * N * N)) := [\n  " + ";\n  ".join(
        "(%s, (%d, %d, %d, %d))" % (coq_str(f), a, b, c, d) for f, a, b, c, d in counts) + "\n]%N.\n"
    changed = []
    if write_if_changed(os.path.join(gen_dir, "Sites.v"), s):
        changed.append("Sites.v")
    return {"invariant_sites": inv, "unsafe_sites": counts, "changed": changed}
