"""Harness build configurations (cargo features of the harness forward to fast-tlsh's) and the
model flags (Model/Dispatch.v cfg_of_flags) that mirror the cfg_if branches each one compiles.

flags: 1 strict-parser, 2 unsafe, 3 no debug assertions/overflow checks (release), 4 whole-table
length search, 10/11/12 hex decode half/quarter/min table, 13/14 hex encode half/min table,
15 simd parse hex, 16 simd convert hex, 17 low-memory buckets, 18 pearson double table,
19 dist-length table, 20/21 dist-qratios table / double table, 30.. body backend, 40.. aggregation backend
"""
import os
import core

CONFIGS = {}


def reg(name, features, rustflags="", profile="dev", flags=()):
    core.register_config(name, features, rustflags, profile)
    CONFIGS[name] = {"features": features, "rustflags": rustflags, "profile": profile, "flags": list(flags)}


def F(*names):
    return ["--features", ",".join(names)] if names else []


# default build of fast-tlsh: std, easy-functions, opt-default (length table, qratios double table,
# pearson double table), simd (all four opt-simd-*), detect-features
reg("default", F("tlsh-default"), flags=[15, 16, 18, 19, 21, 34])
reg("strict", F("tlsh-default", "f-strict-parser"), flags=[1, 15, 16, 18, 19, 21, 34])

reg("release", F("tlsh-default"), profile="release", flags=[3, 15, 16, 18, 19, 21, 34])

SETUP_CONFIGS = ["default", "release"]


def flags(name):
    return CONFIGS[name]["flags"]

# serde configurations (harness feature serde-suite pulls serde_json / ciborium / postcard)
reg("serde", F("tlsh-default", "serde-suite"), flags=[15, 16, 18, 19, 21, 34])
reg("serde-strict", F("tlsh-default", "serde-suite", "f-strict-parser"), flags=[1, 15, 16, 18, 19, 21, 34])
reg("serde-buffered", F("tlsh-default", "serde-suite", "f-serde-buffered"), flags=[15, 16, 18, 19, 21, 34])

# feature `unsafe`, release profile (no debug assertions / overflow checks): a false invariant!() is UB here
reg("unsafe-release", F("tlsh-default", "f-unsafe"), profile="release", flags=[2, 3, 15, 16, 18, 19, 21, 34])

# ---- C07: the configuration matrix (every cfg_if branch compiled in at least one build) ----
BASE = ("f-std", "f-easy-functions")
reg("nosimd", F(*BASE, "f-opt-default"), flags=[18, 19, 21, 31])
reg("embedded", F(*BASE, "f-opt-embedded-default"), flags=[13, 19, 20, 31])
reg("lowmem", F(*BASE, "f-opt-low-memory-hex-str-decode-half-table", "f-opt-low-memory-hex-str-encode-min-table",
                "f-opt-low-memory-buckets"), flags=[10, 14, 17, 31])
reg("decq", F(*BASE, "f-opt-low-memory-hex-str-decode-quarter-table", "f-opt-dist-qratios-table-double"), flags=[11, 21, 31])
reg("decmin", F(*BASE, "f-opt-low-memory-hex-str-decode-min-table", "f-opt-pearson-table-double"), flags=[12, 18, 31])
reg("static-sse2", F(*BASE, "f-opt-default", "f-simd"), flags=[15, 16, 18, 19, 21, 32])
reg("static-ssse3", F(*BASE, "f-opt-default", "f-simd"), rustflags="-C target-feature=+ssse3", flags=[15, 16, 18, 19, 21, 32])
reg("static-sse41", F(*BASE, "f-opt-default", "f-simd"), rustflags="-C target-feature=+sse4.1", flags=[15, 16, 18, 19, 21, 33])
reg("static-avx2", F(*BASE, "f-opt-default", "f-simd"), rustflags="-C target-feature=+avx2", flags=[15, 16, 18, 19, 21, 34])
reg("unsafe-debug", F("tlsh-default", "f-unsafe"), flags=[2, 15, 16, 18, 19, 21, 34])
# combinations of non-default features (flags are DERIVED from the feature closure, see derived_flags below)
reg("mixed-a", F(*BASE, "f-simd", "f-opt-low-memory-buckets", "f-opt-low-memory-hex-str-decode-half-table", "f-opt-dist-qratios-table"))
reg("mixed-b", F(*BASE, "f-opt-embedded-default", "f-opt-simd-body-comparison", "f-opt-simd-bucket-aggregation",
                 "f-opt-low-memory-hex-str-decode-min-table", "f-opt-pearson-table-double"), rustflags="-C target-feature=+ssse3")
reg("strict-decq", F(*BASE, "f-strict-parser", "f-opt-low-memory-hex-str-decode-quarter-table", "f-opt-low-memory-hex-str-encode-min-table",
                     "f-opt-dist-qratios-table-double"))
reg("strict-decmin", F(*BASE, "f-strict-parser", "f-opt-low-memory-hex-str-decode-min-table", "f-opt-dist-qratios-table-double"))
reg("strict-nosimd", F(*BASE, "f-strict-parser", "f-opt-low-memory-hex-str-decode-half-table", "f-opt-pearson-table-double"))
reg("strict-unsafe", F("tlsh-default", "f-strict-parser", "f-unsafe"))
reg("simd-decmin", F("tlsh-default", "f-opt-low-memory-hex-str-decode-min-table", "f-opt-low-memory-hex-str-encode-half-table"))
reg("serde-buffered-strict", F("tlsh-default", "serde-suite", "f-serde-buffered", "f-strict-parser"))
CFG_QUICK = ["default", "nosimd", "embedded", "lowmem", "decq", "decmin", "static-sse2", "mixed-a", "unsafe-debug"]
CFG_ALL = ["default", "nosimd", "embedded", "lowmem", "decq", "decmin", "static-sse2", "static-ssse3", "static-sse41",
           "static-avx2", "unsafe-debug", "unsafe-release", "release", "mixed-a", "mixed-b"]


# ---- model flags derived from the CURRENT Cargo.toml feature graph (tie for C07) ----
def cargo_feature_graph(path=None):
    import re
    path = path or os.path.join(core.REPO, "fast-tlsh", "Cargo.toml")
    txt = open(path).read()
    m = re.search(r"^\[features\]\s*$(.*?)^\[", txt, flags=re.S | re.M)
    body = m.group(1) if m else ""
    graph = {}
    for fm in re.finditer(r"^([A-Za-z0-9_-]+)\s*=\s*\[(.*?)\]", body, flags=re.S | re.M):
        deps = re.findall(r'"([^"]+)"', fm.group(2))
        graph[fm.group(1)] = [d for d in deps if "/" not in d and not d.startswith("dep:")]
    return graph


def feature_closure(graph, roots):
    seen, todo = set(), list(roots)
    while todo:
        f = todo.pop()
        if f in seen:
            continue
        seen.add(f)
        todo += graph.get(f, [])
    return seen


def derived_flags(name):
    """what the cfg_if ladders select for this configuration, from the feature closure, the target features and the profile"""
    c = CONFIGS[name]
    feats = []
    args = c["features"]
    if args:
        for f in args[1].split(","):
            feats.append("default" if f == "tlsh-default" else "serde" if f == "serde-suite" else f[2:] if f.startswith("f-") else f)
    cl = feature_closure(cargo_feature_graph(), feats)
    fl = []
    if "strict-parser" in cl:
        fl.append(1)
    if "unsafe" in cl:
        fl.append(2)
    if c["profile"] == "release":
        fl.append(3)
    for feat, flag in (("opt-low-memory-hex-str-decode-min-table", 12), ("opt-low-memory-hex-str-decode-quarter-table", 11),
                       ("opt-low-memory-hex-str-decode-half-table", 10)):
        if feat in cl:
            fl.append(flag)
            break
    for feat, flag in (("opt-low-memory-hex-str-encode-min-table", 14), ("opt-low-memory-hex-str-encode-half-table", 13)):
        if feat in cl:
            fl.append(flag)
            break
    for feat, flag in (("opt-simd-parse-hex", 15), ("opt-simd-convert-hex", 16), ("opt-low-memory-buckets", 17),
                       ("opt-pearson-table-double", 18), ("opt-dist-length-table", 19)):
        if feat in cl:
            fl.append(flag)
    if "opt-dist-qratios-table-double" in cl:
        fl.append(21)
    elif "opt-dist-qratios-table" in cl:
        fl.append(20)
    if "simd-per-arch" in cl and "opt-simd-body-comparison" in cl:
        rf = c["rustflags"]
        if "detect-features" in cl or "+avx2" in rf:
            fl.append(34)          # runtime detection on this CPU selects AVX2
        elif "+sse4.1" in rf:
            fl.append(33)
        else:
            fl.append(32)
    else:
        fl.append(31)
    return sorted(fl)


for _n in ("mixed-a", "mixed-b", "strict-decq", "strict-decmin", "strict-nosimd", "strict-unsafe", "simd-decmin", "serde-buffered-strict"):
    CONFIGS[_n]["flags"] = derived_flags(_n)
