"""Harness build configurations (cargo features of the harness forward to fast-tlsh's) and the
model flags (Model/Dispatch.v cfg_of_flags) that mirror the cfg_if branches each one compiles.

flags: 1 strict-parser, 2 unsafe, 3 no debug assertions/overflow checks (release), 4 whole-table
length search, 10/11/12 hex decode half/quarter/min table, 13/14 hex encode half/min table,
15 simd parse hex, 16 simd convert hex, 17 low-memory buckets, 18 pearson double table,
19 dist-length table, 20/21 dist-qratios table / double table, 30.. body backend, 40.. aggregation backend
"""
import core

CONFIGS = {}


def reg(name, features, rustflags="", profile="dev", flags=()):
    core.register_config(name, features, rustflags, profile)
    CONFIGS[name] = {"features": features, "rustflags": rustflags, "profile": profile, "flags": list(flags)}


def F(*names):
    return ["--features", ",".join(names)] if names else []


# default build of fast-tlsh: std, easy-functions, opt-default (length table, qratios double table,
# pearson double table), simd (all four opt-simd-*), detect-features
reg("default", F("tlsh-default"), flags=[15, 16, 18, 19, 21, 34])
reg("strict", F("tlsh-default", "f-strict-parser"), flags=[1, 15, 16, 18, 19, 21, 34])

reg("release", F("tlsh-default"), profile="release", flags=[3, 15, 16, 18, 19, 21, 34])

SETUP_CONFIGS = ["default", "release"]


def flags(name):
    return CONFIGS[name]["flags"]

# serde configurations (harness feature serde-suite pulls serde_json / ciborium / postcard)
reg("serde", F("tlsh-default", "serde-suite"), flags=[15, 16, 18, 19, 21, 34])
reg("serde-strict", F("tlsh-default", "serde-suite", "f-strict-parser"), flags=[1, 15, 16, 18, 19, 21, 34])
reg("serde-buffered", F("tlsh-default", "serde-suite", "f-serde-buffered"), flags=[15, 16, 18, 19, 21, 34])

# feature `unsafe`, release profile (no debug assertions / overflow checks): a false invariant!() is UB here
reg("unsafe-release", F("tlsh-default", "f-unsafe"), profile="release", flags=[2, 3, 15, 16, 18, 19, 21, 34])

# ---- C07: the configuration matrix (every cfg_if branch compiled in at least one build) ----
BASE = ("f-std", "f-easy-functions")
reg("nosimd", F(*BASE, "f-opt-default"), flags=[18, 19, 21, 31])
reg("embedded", F(*BASE, "f-opt-embedded-default"), flags=[13, 19, 20, 31])
reg("lowmem", F(*BASE, "f-opt-low-memory-hex-str-decode-half-table", "f-opt-low-memory-hex-str-encode-min-table",
                "f-opt-low-memory-buckets"), flags=[10, 14, 17, 31])
reg("decq", F(*BASE, "f-opt-low-memory-hex-str-decode-quarter-table", "f-opt-dist-qratios-table-double"), flags=[11, 21, 31])
reg("decmin", F(*BASE, "f-opt-low-memory-hex-str-decode-min-table", "f-opt-pearson-table-double"), flags=[12, 18, 31])
reg("static-sse2", F(*BASE, "f-opt-default", "f-simd"), flags=[15, 16, 18, 19, 21, 32])
reg("static-ssse3", F(*BASE, "f-opt-default", "f-simd"), rustflags="-C target-feature=+ssse3", flags=[15, 16, 18, 19, 21, 32])
reg("static-sse41", F(*BASE, "f-opt-default", "f-simd"), rustflags="-C target-feature=+sse4.1", flags=[15, 16, 18, 19, 21, 33])
reg("static-avx2", F(*BASE, "f-opt-default", "f-simd"), rustflags="-C target-feature=+avx2", flags=[15, 16, 18, 19, 21, 34])
reg("unsafe-debug", F("tlsh-default", "f-unsafe"), flags=[2, 15, 16, 18, 19, 21, 34])
CFG_QUICK = ["default", "nosimd", "lowmem", "static-sse2"]
CFG_ALL = ["default", "nosimd", "embedded", "lowmem", "decq", "decmin", "static-sse2", "static-ssse3", "static-sse41",
           "static-avx2", "unsafe-debug", "unsafe-release", "release"]
