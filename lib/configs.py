"""Harness build configurations (cargo features of the harness forward to fast-tlsh's)."""
import core

core.register_config("default", ["--features", "tlsh-default"], "", "dev")

SETUP_CONFIGS = ["default"]
