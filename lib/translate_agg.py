"""Translator, part 4: the SIMD bucket-aggregation kernels (`sub_aggregation` in
generate/bucket_aggregation/x86_{sse2,ssse3,avx2}.rs) -> coq/Gen/AggKernels.v, programs of the
language of coq/Model/MAgg.v (one instruction per intrinsic / scalar operator).

The unsigned-compare idiom is recognised syntactically and only in exactly this form:
    qvK   = _mm[256]_set1_epi32((qK ^ 0x80000000) as i32)
    hibit = _mm[256]_set1_epi32(0x80000000u32 as i32)
    data  = _mm[256]_xor_si*(_mm[256]_loadu_si*(buckets.as_ptr() as *const _), hibit)
    _mm[256]_cmpgt_epi32(data, qvK)                     ->  ACmp K
Any other use of qvK / hibit / data, any unknown intrinsic, any statement that is not a `let`
(besides the leading assert!) raises TranslateError."""
import os
import re

from translate import TranslateError, read, strip_comments, HEADER
from translate_kernels import parse_expr, extract_fn, const_value

KERNELS = [("agg_sse2", "generate/bucket_aggregation/x86_sse2.rs", 4),
           ("agg_ssse3", "generate/bucket_aggregation/x86_ssse3.rs", 4),
           ("agg_avx2", "generate/bucket_aggregation/x86_avx2.rs", 8)]

VEC_BIN = {"_mm_xor_si128": "AXor", "_mm256_xor_si256": "AXor", "_mm_or_si128": "AOr", "_mm256_or_si256": "AOr",
           "_mm_and_si128": "AAnd", "_mm256_and_si256": "AAnd"}


class K:
    def __init__(self, lanes):
        self.lanes = lanes
        self.instrs = []
        self.env = {}

    def emit(self, s, kind):
        self.instrs.append(s)
        return (kind, len(self.instrs) - 1)


def is_hibit_const(e):
    try:
        return const_value(e) & 0xFFFFFFFF == 0x80000000
    except TranslateError:
        return False


def lower(k, e):
    t = e[0]
    if t == "var":
        if e[1] in k.env:
            return k.env[e[1]]
        raise TranslateError("agg kernel: unknown variable %s" % e[1])
    if t == "cast":
        inner = lower(k, e[1])
        if inner[0] == "s" and e[2] == "u8":
            return k.emit("SCast8 %d" % inner[1], "s")
        if inner[0] == "s" and e[2] in ("u32", "i32", "usize"):
            return inner
        if inner[0] in ("qraw",) and e[2] == "i32":
            return inner
        raise TranslateError("agg kernel: unsupported cast of %r to %s" % (inner, e[2]))
    if t == "num":
        return ("c", e[1])
    if t == "neg":
        return ("c", -const_value(e[1]))
    if t == "bin":
        op, a, b = e[1], lower(k, e[2]), lower(k, e[3])
        if op == "^" and a[0] == "q" and b[0] == "c" and b[1] & 0xFFFFFFFF == 0x80000000:
            return ("qraw", a[1])
        if op == "&" and a[0] == "s" and b[0] == "c":
            return k.emit("SAndC %d %d" % (a[1], b[1]), "s")
        if op == "|" and a[0] == "s" and b[0] == "s":
            return k.emit("SOr %d %d" % (a[1], b[1]), "s")
        if op == ">>" and a[0] == "s" and b[0] == "c":
            return k.emit("SShr %d %d" % (a[1], b[1]), "s")
        raise TranslateError("agg kernel: unsupported scalar expression %s on %r, %r" % (op, a, b))
    if t == "call":
        name, generic, args = e[1], e[2], e[3]
        if name in ("_mm_set1_epi32", "_mm256_set1_epi32"):
            if is_hibit_const(args[0]):
                return ("hibit",)
            a = lower(k, args[0])
            if a[0] == "qraw":
                return ("qv", a[1])
            raise TranslateError("agg kernel: set1_epi32 of something that is neither q ^ 0x80000000 nor 0x80000000")
        if name == "LOADBUCKETS":
            return ("load",)
        if name in VEC_BIN:
            a, b = lower(k, args[0]), lower(k, args[1])
            if VEC_BIN[name] == "AXor" and a[0] == "load" and b[0] == "hibit":
                return ("data",)
            if a[0] == "v" and b[0] == "v":
                return k.emit("%s %d %d" % (VEC_BIN[name], a[1], b[1]), "v")
            raise TranslateError("agg kernel: %s on %r, %r" % (name, a, b))
        if name in ("_mm_cmpgt_epi32", "_mm256_cmpgt_epi32"):
            a, b = lower(k, args[0]), lower(k, args[1])
            if a[0] == "data" and b[0] == "qv":
                return k.emit("ACmp %d" % b[1], "v")
            raise TranslateError("agg kernel: cmpgt_epi32 outside the unsigned-compare idiom (%r, %r)" % (a, b))
        if name == "_mm_packs_epi16":
            a, b = lower(k, args[0]), lower(k, args[1])
            if a[0] == "v" and b[0] == "undef":
                return k.emit("APacksUndef %d" % a[1], "v")
            raise TranslateError("agg kernel: packs_epi16 with a second operand other than _mm_undefined_si128()")
        if name == "_mm_undefined_si128":
            return ("undef",)
        if name in ("_mm_set_epi8", "_mm256_set_epi8"):
            vals = [const_value(x) & 0xFF for x in args]
            if len(vals) != (16 if name == "_mm_set_epi8" else 32):
                raise TranslateError("agg kernel: set_epi8 arity")
            return ("pat", list(reversed(vals)))           # arguments are e15..e0: memory order is reversed
        if name in ("_mm_shuffle_epi8", "_mm256_shuffle_epi8"):
            a, b = lower(k, args[0]), lower(k, args[1])
            if a[0] == "v" and b[0] == "pat":
                return k.emit("AShuffle %d [%s]" % (a[1], "; ".join(str(x) for x in b[1])), "v")
            raise TranslateError("agg kernel: shuffle_epi8 with a non-constant pattern")
        if name in ("_mm_movemask_epi8", "_mm256_movemask_epi8"):
            a = lower(k, args[0])
            if a[0] == "v":
                return k.emit("AMovemask %d" % a[1], "s")
            raise TranslateError("agg kernel: movemask of %r" % (a,))
        raise TranslateError("agg kernel: unknown intrinsic %s" % name)
    raise TranslateError("agg kernel: unsupported expression %r" % (e,))


def split_top(s):
    out, depth, cur = [], 0, ""
    for ch in s:
        if ch == "(":
            depth += 1
        elif ch == ")":
            depth -= 1
        if ch == "," and depth == 0:
            out.append(cur)
            cur = ""
        else:
            cur += ch
    out.append(cur)
    return [x.strip() for x in out]


def translate(rel, lanes):
    text = strip_comments(read(rel))
    text = re.sub(r"_mm(?:256)?_loadu_si(?:128|256)\(\s*buckets\.as_ptr\(\)\s*as\s*\*const\s*__m(?:128|256)i\s*,?\s*\)", "LOADBUCKETS()", text)
    m = re.search(r"fn\s+sub_aggregation\s*\(([^)]*)\)\s*->\s*(\([^)]*\)|[A-Za-z0-9_]+)\s*\{", text)
    if not m:
        raise TranslateError("sub_aggregation not found in %s" % rel)
    i = m.end()
    depth, j = 1, i
    while j < len(text) and depth:
        depth += {"{": 1, "}": -1}.get(text[j], 0)
        j += 1
    body = text[i:j - 1]
    params = [p.split(":")[0].strip() for p in m.group(1).split(",") if p.strip()]
    if params != ["buckets", "q1", "q2", "q3"]:
        raise TranslateError("sub_aggregation parameters changed: %r" % params)
    parts = [p.strip() for p in body.split(";")]
    k = K(lanes)
    k.env = {"q1": ("q", 1), "q2": ("q", 2), "q3": ("q", 3)}
    asserted = None
    for p in parts[:-1]:
        if not p:
            continue
        ma = re.fullmatch(r"assert!\(\s*buckets\.len\(\)\s*>=\s*(\d+)\s*\)", p)
        if ma:
            asserted = int(ma.group(1))
            continue
        ml = re.fullmatch(r"let\s+([A-Za-z_][A-Za-z0-9_]*)\s*=\s*(.+)", p, flags=re.S)
        if not ml:
            raise TranslateError("agg kernel statement not a `let`: %r" % p[:60])
        k.env[ml.group(1)] = lower(k, parse_expr(ml.group(2)))
    if asserted != lanes:
        raise TranslateError("%s: the load reads %d u32 but the kernel asserts buckets.len() >= %r" % (rel, lanes, asserted))
    final = parts[-1].strip()
    if final.startswith("(") and final.endswith(")") and len(split_top(final[1:-1])) > 1:
        outs = [lower(k, parse_expr(x)) for x in split_top(final[1:-1])]
    else:
        outs = [lower(k, parse_expr(final))]
    for o in outs:
        if o[0] != "s":
            raise TranslateError("agg kernel result is not a scalar: %r" % (o,))
    return k, [o[1] for o in outs]


def run(gen_dir, write_if_changed):
    s = HEADER % "generate/bucket_aggregation/x86_{sse2,ssse3,avx2}.rs (sub_aggregation)"
    s += "From TlshV Require Import Model.MAgg.\n\n"
    info = {}
    for name, rel, lanes in KERNELS:
        k, outs = translate(rel, lanes)
        s += "(* %d instructions, %d lanes *)\nDefinition %s_prog : aprogram := (\n  " % (len(k.instrs), lanes, name)
        s += " ::\n  ".join(k.instrs) + " :: nil).\n"
        s += "Definition %s_results : list nat := (%s :: nil)%%nat.\n" % (name, " :: ".join(str(x) for x in outs))
        s += "Definition %s_lanes : nat := %d.\n\n" % (name, lanes)
        info[name] = {"instrs": len(k.instrs), "lanes": lanes}
    changed = []
    if write_if_changed(os.path.join(gen_dir, "AggKernels.v"), s):
        changed.append("AggKernels.v")
    return {"changed": changed, "agg": info}
