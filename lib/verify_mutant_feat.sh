#!/bin/bash
# verify_mutant_feat.sh <dir> <ID> <cargo args for the demo...>: like verify_mutant.sh, for a demo that needs a non-default
# feature set / profile: default-feature suite with the change must pass; demo (with the given args) fails with the change, passes without.
set -u
D=$1; ID=$2; shift 2
cd $D || exit 2
export CARGO_NET_OFFLINE=true
T="--target-dir $D/target"
DEMO=fast-tlsh/tests/demo_$ID.rs
git diff --quiet -- fast-tlsh/src && { echo "NO-CHANGE-APPLIED"; exit 2; }
mv $DEMO /tmp/demo_$ID.rs.aside
S=$(cargo test --workspace --no-fail-fast --offline $T 2>&1 | grep -E "^test result" | head -1)
mv /tmp/demo_$ID.rs.aside $DEMO
echo "SUITE-WITH-CHANGE: $S"
W=$(cargo test --offline $T -p fast-tlsh "$@" --test demo_$ID 2>&1 | grep -E "^test result" | tr '\n' ';')
echo "DEMO-WITH-CHANGE: $W"
git diff -- fast-tlsh/src > $D/patch.verified.diff
git apply -R $D/patch.verified.diff
O=$(cargo test --offline $T -p fast-tlsh "$@" --test demo_$ID 2>&1 | grep -E "^test result" | tr '\n' ';')
echo "DEMO-WITHOUT-CHANGE: $O"
git apply $D/patch.verified.diff
echo "$S" | grep -q "149 passed; 0 failed" && echo "$W" | grep -q "FAILED" && echo "$O" | grep -q "ok\." && ! echo "$O" | grep -q FAILED && echo "VERIFIED $ID"
