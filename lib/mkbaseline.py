#!/usr/bin/env python3
"""Rewrite lib/source_baseline.json from /repo's current (clean) tree -- run after committing a fix: to /repo."""
import json, os, subprocess, sys
sys.path.insert(0, os.path.dirname(os.path.abspath(__file__)))
import core
if subprocess.run("git -C /repo status --porcelain", shell=True, capture_output=True, text=True).stdout.strip():
    sys.exit("refusing: /repo has uncommitted changes")
head = subprocess.run("git -C /repo rev-parse HEAD", shell=True, capture_output=True, text=True).stdout.strip()
json.dump({"repo_commit": head,
           "note": "sha256 (first 20 hex digits) of every source file of /repo/fast-tlsh at the audited commit (pinned tree + the three "
                   "fix: commits); regenerate with lib/mkbaseline.py after a new fix: commit",
           "files": core.source_hashes(), "literals": __import__("srcdict").current()}, open(core.BASELINE, "w"), indent=0, sort_keys=True)
print("baseline written for", head)
