"""Independent Python restatement of the property texts, used ONLY by the failing-input search
(to decide, on a concrete case, whether the *property* fails on the implementation).  It never
stands in for a theorem and is not part of the model."""
from suites import VARIANTS

HEXD = "0123456789ABCDEF"


def swap(b):
    return ((b << 4) | (b >> 4)) & 0xFF


def fmt(v, binb, prefix=True):
    ck = VARIANTS[v][0]
    head = bytes(swap(x) for x in binb[:ck + 2])
    return (b"T1" if prefix else b"") + (head + bytes(binb[ck + 2:])).hex().upper().encode()


def is_hexdigit(c):
    return (48 <= c <= 57) or (65 <= c <= 70) or (97 <= c <= 102)


def parse_lenient(v, s, mode):
    """-> ('ok', bytes) | ('err', kind)"""
    L = VARIANTS[v][4]
    n = len(s)
    if mode == "auto":
        if n == L - 2:
            p = "empty"
        elif n == L:
            p = "with"
        else:
            return ("err", "InvalidStringLength")
    else:
        p = mode
        if (p == "empty" and n != L - 2) or (p == "with" and n != L):
            return ("err", "InvalidStringLength")
    digits = s
    if p == "with":
        if s[:2] != b"T1":
            return ("err", "InvalidPrefix")
        digits = s[2:]
    if not all(is_hexdigit(c) for c in digits):
        return ("err", "InvalidCharacter")
    raw = bytes(int(digits[i:i + 2].decode(), 16) for i in range(0, len(digits), 2))
    ck = VARIANTS[v][0]
    return ("ok", bytes(swap(x) for x in raw[:ck + 2]) + raw[ck + 2:])


def strict_valid(v, binb):
    ck = VARIANTS[v][0]
    if v == "S" and binb[0] > 48:
        return "InvalidChecksum"
    if binb[ck] >= 170:
        return "LengthIsTooLarge"
    return None


def unhex(tok):
    assert tok.startswith("x")
    return bytes.fromhex(tok[1:])


# ---- distance (C02 / C08 reference) ----

def ring(x, y, n):
    d = (x - y) % n
    return min(d, n - d)


def dist(v, a, b, mode="default"):
    ck = VARIANTS[v][0]
    d = 0
    for i in range(ck):
        d += 1 if a[i] != b[i] else 0
    if mode == "default":
        r = ring(a[ck], b[ck], 256)
        d += r if r <= 1 else r * 12
    for sh in (0, 4):
        r = ring((a[ck + 1] >> sh) & 15, (b[ck + 1] >> sh) & 15, 16)
        d += r if r <= 1 else (r - 1) * 12
    for x, y in zip(a[ck + 2:], b[ck + 2:]):
        for k in range(4):
            q = abs(((x >> (2 * k)) & 3) - ((y >> (2 * k)) & 3))
            d += 6 if q == 3 else q
    return d


# ---- length code (C09 reference): the GOLDEN table of the reference (coq/Spec/SpecTables.v), never the source's ----
_TOPVAL = None


def spec_topval():
    global _TOPVAL
    if _TOPVAL is None:
        import os
        import re
        txt = open(os.path.join(os.path.dirname(os.path.dirname(os.path.abspath(__file__))), "coq", "Spec", "SpecTables.v")).read()
        m = re.search(r"Definition topval : list N := \((.*?)nil\)", txt, flags=re.S)
        _TOPVAL = [int(x) for x in re.findall(r"\d+", m.group(1))]
        assert len(_TOPVAL) == 170 and _TOPVAL[-1] == 4224281216
    return _TOPVAL


def spec_code(n):
    """least i with n <= topval[i]; 0 for n = 0; None above the maximum"""
    if n == 0:
        return 0
    import bisect
    t = spec_topval()
    i = bisect.bisect_left(t, n)
    return i if i < len(t) else None
