"""Differential coverage-guided search (libFuzzer through cargo-fuzz, nightly toolchain, offline): /repo's current library
against the audited baseline snapshot /verif/baseline/fast-tlsh.  Used only by the escalation of the quick command, i.e. only when
the sources a property's model covers differ from the baseline, and only to FIND candidate inputs: every candidate is then run
through the implementation and the verified model by the ordinary correspondence machinery, which alone decides."""
import hashlib
import os
import re
import shutil

import core

# operation numbers of fuzz/fuzz_targets/diff.rs relevant to each property
OPS_FOR = {
    "C01": [3], "C03": [3], "C10": [3], "C02": [2], "C08": [2], "C04": [0, 4, 7], "C05": [0, 1, 7], "C06": [1, 6], "C14": [4], "C13": [5, 0, 7],
    "C17": [0, 1, 2, 3, 4, 5, 6, 7],
}


def seeds(corpus_dir, ops):
    import suites
    rng = core.Rng(7)
    os.makedirs(corpus_dir, exist_ok=True)
    k = 0
    for vi, v in enumerate(suites.VNAMES):
        size = suites.VARIANTS[v][3]
        b = suites.plausible_bin(rng, v)
        b2 = suites.plausible_bin(rng, v)
        s = suites.ref_format(v, b, True).encode()
        items = {0: [bytes([0, vi, 0]) + s, bytes([0, vi, 2]) + s[2:].lower()], 1: [bytes([1, vi, 0]) + b],
                 2: [bytes([2, vi, 0]) + b + b2, bytes([2, vi, 0]) + b + b],
                 3: [bytes([3, vi, 30, 5]) + suites.gen_data(rng, 300), bytes([3, vi, 0x80, 2]) + suites.gen_data(rng, 700, 4),
                     bytes([3, vi, 0x20 | 16, 200]) + suites.gen_data(rng, 60), bytes([3, vi, 0x40 | 2, 255, 9]) + suites.gen_data(rng, 120)],
                 4: [bytes([4, vi, a]) + b + rng.bytes(suites.VARIANTS[v][4] + 6) for a in (0, 1, 2)],
                 5: [bytes([5, vi, 0]) + s + b"|" + suites.ref_format(v, b2, True).encode()],
                 6: [bytes([6, vi, 17]) + b], 7: [bytes([7, vi, 0]) + s, bytes([7, vi, 0]) + "T\u00e9".encode() + s[3:]]}
        for op in ops:
            for it in items.get(op, []):
                # the first byte selects among the allowed ops: re-encode the selector
                it = bytes([ops.index(op)]) + it[1:]
                open(os.path.join(corpus_dir, "seed%03d" % k), "wb").write(it)
                k += 1


def search(pid, seconds=75, workers=8):
    """-> (candidate case lines, note)"""
    ops = OPS_FOR.get(pid)
    if not ops:
        return [], "no differential target for this property"
    tag = hashlib.sha256(core.REPO.encode()).hexdigest()[:8]
    stage = os.path.join(core.BUILD, "fuzz-stage-" + tag)
    shutil.rmtree(stage, ignore_errors=True)
    shutil.copytree(os.path.join(core.VERIF, "fuzz"), stage, ignore=shutil.ignore_patterns("target", "corpus", "artifacts"))
    ct = open(os.path.join(stage, "Cargo.toml")).read().replace('path = "/repo/fast-tlsh"', 'path = "%s/fast-tlsh"' % core.REPO)
    ct = ct.replace('path = "/verif/baseline/fast-tlsh"', 'path = "%s/baseline/fast-tlsh"' % core.VERIF)
    open(os.path.join(stage, "Cargo.toml"), "w").write(ct)
    lock = os.path.join(core.REPO, "Cargo.lock")
    corpus = os.path.join(stage, "corpus-" + pid)
    seeds(corpus, ops)
    tdir = os.path.join(core.BUILD, "fuzz-target" + ("" if core.REPO == "/repo" else "-alt-" + tag))
    dict_path = os.path.join(stage, "dict.txt")
    try:
        import srcdict
        with open(dict_path, "w") as f:
            for seq in srcdict.new_literals()["seqs"]:
                f.write('"%s"\n' % "".join("\\x%02x" % b for b in seq))
            f.write('"T1"\n')
    except Exception:  # noqa: BLE001
        open(dict_path, "w").write('"T1"\n')
    cmd = ["cargo", "+nightly", "fuzz", "run", "--fuzz-dir", stage, "-s", "none", "--target-dir", tdir, "diff", corpus, "--",
           "-max_total_time=%d" % seconds, "-fork=%d" % workers, "-use_value_profile=1", "-max_len=900", "-dict=" + dict_path,
           "-timeout=20", "-rss_limit_mb=4096"]
    env = {"VERIF_FUZZ_OPS": ",".join(str(o) for o in ops), "CARGO_NET_OFFLINE": "true", "RUSTFLAGS": ""}
    with core.Lock("fuzz"):
        rc, out = core.run(cmd, cwd=stage, timeout=seconds + 900, env=env)
    lines = []
    for m in re.finditer(r"^DIFF-CASE (.*)$", out, flags=re.M):
        if m.group(1) not in lines:
            lines.append(m.group(1).strip())
    note = "differential search: ops %s, %d s x %d workers, rc=%d, %d candidate line(s)" % (ops, seconds, workers, rc, len(lines))
    if "error: could not compile" in out or ("error[" in out and not lines):
        note += " (the fuzz target did not build: " + " ".join(out.split())[-300:] + ")"
    shutil.rmtree(stage, ignore_errors=True)
    return lines[:40], note
