#!/usr/bin/env python3
"""seed_prompt.py <Cxx> [worktree id]: print the task text handed to a fresh sub-agent that is to write a seeded change for one
property (only the property's text and its own scratch worktree /tmp/wt-<id>; nothing from /verif).  Usage:
  git -C /repo worktree add --detach /tmp/wt-C05 HEAD && python3 lib/seed_prompt.py C05 > /tmp/wt-C05/TASK.md
then start the agent with "Read /tmp/wt-C05/TASK.md and carry out exactly the task it describes ..." plus a hint for variety
(what earlier rounds already tried; see DESIGN.md 10.4)."""
import json
import os
import sys

pid = sys.argv[1]
wid = sys.argv[2] if len(sys.argv) > 2 else pid
prop = None
for l in open(os.path.join(os.path.dirname(os.path.abspath(__file__)), "..", "properties.jsonl")):
    d = json.loads(l)
    if d["id"] == pid:
        prop = "%s: %s\n\n%s\n" % (d["id"], d["title"], d["statement"])
if prop is None:
    sys.exit("unknown property")
print(f"""You are helping test a verification tool by writing a realistic *bug injection* ("seeded change") for the Rust library
a4lg/fast-tlsh (a pure-Rust TLSH fuzzy hash library). You work ONLY inside your own scratch git worktree at /tmp/wt-{wid}
(a checkout of the library; the crate is in /tmp/wt-{wid}/fast-tlsh). Do not read or touch /repo, /verif or any other directory
outside /tmp/wt-{wid}. There is no network; always use `cargo ... --offline` and always pass `--target-dir /tmp/wt-{wid}/target`.

The property the library is supposed to satisfy:

{prop}

Task: make a small source change under /tmp/wt-{wid}/fast-tlsh/src that BREAKS this property while
 (a) the crate still compiles, and
 (b) the existing test suite still passes completely:  cd /tmp/wt-{wid} && cargo test --workspace --no-fail-fast --offline --target-dir /tmp/wt-{wid}/target   (149 unit tests, must all pass with your change),
and write a demonstration: an integration test file /tmp/wt-{wid}/fast-tlsh/tests/demo_{pid}.rs that uses only the public API of the
crate (`tlsh::...`), FAILS with your change and PASSES on the unchanged code. Run it with
  cargo test --offline --target-dir /tmp/wt-{wid}/target -p fast-tlsh --test demo_{pid}

The change should look like a plausible mistake or "optimisation" a maintainer could make (an off-by-one, a wrong constant or mask,
a swapped argument, a missing case, an early return, a wrongly shared table, a wrong cfg branch...), and it must need something SPECIFIC
to manifest -- an unusual input, a particular value combination, a multi-step sequence of operations, a boundary, or two cooperating
sites that each look fine alone -- not something ordinary use would expose at once. Do not add cfg flags, env-var switches, or anything
that looks like a deliberate backdoor. Do not modify existing tests. Note the code in `#[cfg(fast_tlsh_verif)]` blocks is inactive
instrumentation: leave it alone and do not rely on it.

Verify all three facts yourself (suite passes with the change; demo fails with the change; demo passes after `git stash`-free revert:
use `git diff -- fast-tlsh/src > /tmp/wt-{wid}/my.patch; git apply -R /tmp/wt-{wid}/my.patch; <run demo>; git apply /tmp/wt-{wid}/my.patch` --
never use git stash, the stash is shared between worktrees). Leave the worktree WITH your change applied and the demo file in place.
Also write /tmp/wt-{wid}/NOTES.md (a few lines: what you changed, why it breaks the property, what is needed for it to manifest).

Final answer: a short report (the diff, what is needed to manifest, and the three verification results).""")
