"""Case generators for the correspondence suites (structured, mostly-valid inputs plus a
separate malformed stream).  Every random choice derives from the Rng passed in."""
from core import hx

VARIANTS = {
    # name: (checksum size, buckets, body size, size in bytes, len in str)
    "S": (1, 48, 12, 15, 32),
    "N": (1, 128, 32, 35, 72),
    "NL": (3, 128, 32, 37, 76),
    "L": (1, 256, 64, 67, 136),
    "LL": (3, 256, 64, 69, 140),
}
VNAMES = ["S", "N", "NL", "L", "LL"]


def swap(b):
    return ((b << 4) | (b >> 4)) & 0xFF


def ref_format(v, binb, prefix=True):
    """Python reference formatter used only to *generate* valid inputs."""
    ck = VARIANTS[v][0]
    head = bytes(swap(x) for x in binb[:ck + 2])
    s = (head + bytes(binb[ck + 2:])).hex().upper()
    return ("T1" if prefix else "") + s


def random_bin(rng, v):
    size = VARIANTS[v][3]
    k = rng.below(10)
    if k == 0:
        return bytes(size)
    if k == 1:
        return bytes([0xFF] * size)
    if k == 2:
        b = bytearray(size)
        b[rng.below(size)] = rng.below(256)
        return bytes(b)
    if k == 3:
        return bytes([rng.choice([0x00, 0x55, 0xAA, 0xFF, 0x0F, 0xF0, 0x33, 0xCC])] * size)
    return rng.bytes(size)


def plausible_bin(rng, v):
    """A hash that also passes the strict parser (length code < 170, Short checksum <= 48)."""
    b = bytearray(random_bin(rng, v))
    ck = VARIANTS[v][0]
    b[ck] = rng.below(170)
    if v == "S":
        b[0] = rng.below(49)
    return bytes(b)


def mixed_case(rng, s):
    k = rng.below(4)
    if k == 0:
        return s
    if k == 1:
        return s[:2] + s[2:].lower() if s.startswith("T1") else s.lower()
    out = []
    for i, c in enumerate(s):
        if s.startswith("T1") and i < 2:
            out.append(c)
        else:
            out.append(c.lower() if rng.chance(1, 2) else c)
    return "".join(out)


INTERESTING_BYTES = [0x00, 0x1F, 0x20, 0x2F, 0x30, 0x39, 0x3A, 0x40, 0x41, 0x46, 0x47, 0x54, 0x60, 0x61,
                     0x66, 0x67, 0x74, 0x7F, 0x80, 0xC3, 0xFF, 0x31]


def hex_roundtrip_cases(rng, tier):
    n = 12 if tier == "quick" else 400
    cases = []
    for v in VNAMES:
        size, ls = VARIANTS[v][3], VARIANTS[v][4]
        cases.append("consts %s" % v)
        for _ in range(n):
            b = plausible_bin(rng, v) if rng.chance(3, 4) else random_bin(rng, v)
            cases.append("display %s %s" % (v, hx(b)))
            cases.append("parts %s %s" % (v, hx(b)))
            cases.append("frombytes %s %s" % (v, hx(b)))
            cases.append("fromarray %s %s" % (v, hx(b)))
            cases.append("clearcks %s %s" % (v, hx(b)))
            cases.append("fmt %s %s with %s" % (v, hx(b), hx(rng.bytes(ls))))
            cases.append("fmt %s %s empty %s" % (v, hx(b), hx(rng.bytes(ls - 2))))
            cases.append("storebytes %s %s %s" % (v, hx(b), hx(rng.bytes(size))))
            s = ref_format(v, b, True)
            for mode in ("auto", "with", "empty"):
                t = mixed_case(rng, s)
                cases.append("parse %s %s %s" % (v, mode, hx(t.encode())))
                cases.append("parse %s %s %s" % (v, mode, hx(t[2:].encode())))
            cases.append("fromstr %s %s" % (v, hx(mixed_case(rng, s).encode())))
            cases.append("fromstr %s %s" % (v, hx(mixed_case(rng, s)[2:].encode())))
        # every value of every header byte (checksum / length / q ratios), both directions
        ck = VARIANTS[v][0]
        base = bytearray(plausible_bin(rng, v))
        step = 1 if tier != "quick" else 1
        for pos in range(ck + 2):
            for val in range(0, 256, step):
                b = bytearray(base)
                b[pos] = val
                cases.append("display %s %s" % (v, hx(b)))
                cases.append("parse %s auto %s" % (v, hx(ref_format(v, b, True).encode())))
                if val % 16 == 0 or tier != "quick":
                    cases.append("parts %s %s" % (v, hx(b)))
        # quartile indices
        for i in list(range(0, 9)) + [VARIANTS[v][1] - 1, VARIANTS[v][1], VARIANTS[v][1] + 1, 255, 256, 1 << 20, (1 << 59)]:
            cases.append("quartile %s %s %d" % (v, hx(base), i))
        # every body byte value at one body position
        for val in range(256):
            b = bytearray(base)
            b[ck + 2 + rng.below(VARIANTS[v][2])] = val
            cases.append("display %s %s" % (v, hx(b)))
            if val % 8 == 0:
                cases.append("parts %s %s" % (v, hx(b)))
        # patterned hashes: every byte equal; header uniform with a periodic body (period 2, 3, 4); header = first body byte etc.
        # (a shortcut that tests "uniform" incompletely)
        for A, B in ((0x00, 0xFF), (0x12, 0xED), (0xA7, 0x58), (0x00, 0x01), (0xFF, 0xFE), (0x5A, 0x5A)):
            hdr = ck + 2
            pats = [[A] * size, [A] * hdr + [A if j % 2 == 0 else B for j in range(size - hdr)],
                    [A] * hdr + [B if j % 2 == 0 else A for j in range(size - hdr)],
                    [A] * hdr + [(A, B, B)[j % 3] for j in range(size - hdr)], [A] * hdr + [(A, A, B, B)[j % 4] for j in range(size - hdr)],
                    [B] * hdr + [A] * (size - hdr), [A if j % 2 == 0 else B for j in range(size)]]
            for pb in pats:
                b = bytes(pb)
                s = ref_format(v, b, True)
                cases.append("display %s %s" % (v, hx(b)))
                cases.append("fmt %s %s with %s" % (v, hx(b), hx(rng.bytes(ls))))
                cases.append("fmt %s %s empty %s" % (v, hx(b), hx(rng.bytes(ls - 2))))
                cases.append("parse %s auto %s" % (v, hx(s.encode())))
                cases.append("parts %s %s" % (v, hx(b)))
                cases.append("fromstr %s %s" % (v, hx(s[2:].lower().encode())))
        # literals that are new in the current source (empty on the audited tree): every byte sequence at every offset of the
        # binary form, every small integer at every header byte; through every direction
        for b in dict_bins(rng, v):
            s = ref_format(v, b, True)
            cases.append("display %s %s" % (v, hx(b)))
            cases.append("parts %s %s" % (v, hx(b)))
            cases.append("frombytes %s %s" % (v, hx(b)))
            cases.append("clearcks %s %s" % (v, hx(b)))
            cases.append("fmt %s %s with %s" % (v, hx(b), hx(rng.bytes(ls))))
            cases.append("storebytes %s %s %s" % (v, hx(b), hx(rng.bytes(size))))
            cases.append("parse %s auto %s" % (v, hx(s.encode())))
            cases.append("parse %s %s %s" % (v, rng.choice(["auto", "empty"]), hx(s[2:].lower().encode())))
            cases.append("fromstr %s %s" % (v, hx(mixed_case(rng, s).encode())))
    return cases


def dict_bins(rng, v):
    import srcdict
    dic = srcdict.new_literals()
    size, ck = VARIANTS[v][3], VARIANTS[v][0]
    out = []
    for seq in dic["seqs"]:
        if len(seq) > size:
            continue
        base = bytearray(plausible_bin(rng, v))
        offs = list(range(0, size - len(seq) + 1))
        for off in offs:
            b = bytearray(base)
            b[off:off + len(seq)] = bytes(seq)
            out.append(bytes(b))
    for n in dic["ints"]:
        if n < 256:
            for pos in list(range(ck + 2)) + [ck + 2, size - 1]:
                b = bytearray(plausible_bin(rng, v))
                b[pos] = n
                out.append(bytes(b))
    return out[:4000]


def affixed(good):
    """`good` = a well-formed prefixed string (bytes): the same with a second prefix, white space, NUL, a digit or a sign in
    front of or behind it, with and without its own prefix"""
    out = []
    body = good[2:]
    for pre in (b"T1", b"t1", b" ", b"\t", b"\n", b"\x00", b"0", b"+", b"0x", b"T1T1", b"\xef\xbb\xbf"):
        out.append(pre + good)
        out.append(pre + body)
    for post in (b"T1", b" ", b"\n", b"\r\n", b"\x00", b"0", b"00", b";"):
        out.append(good + post)
        out.append(body + post)
    out.append(b" " + good + b" ")
    out.append(b"T1" + good[:-2])       # doubled prefix at the right total length
    out.append(b"T1" + body[:-2])
    return out


def hex_malformed_cases(rng, tier):
    cases = []
    for v in VNAMES:
        ls = VARIANTS[v][4]
        good = ref_format(v, plausible_bin(rng, v), True).encode()
        # single-byte damage: interesting values at every position; every value at selected positions
        full_positions = {0, 1, 2, 3, 2 + 2 * VARIANTS[v][0], ls - 1, ls // 2}
        for pos in range(ls):
            vals = range(256) if (pos in full_positions or tier != "quick") else INTERESTING_BYTES + [rng.below(256)]
            for val in vals:
                d = bytearray(good)
                d[pos] = val
                for mode in (("auto", "with") if pos < 2 or val % 3 == 0 else ("auto",)):
                    cases.append("parse %s %s %s" % (v, mode, hx(d)))
                if pos >= 2:
                    cases.append("parse %s %s %s" % (v, rng.choice(["auto", "empty"]), hx(d[2:])))
        # all lengths 0..2*LEN+2
        for L in range(0, 2 * ls + 3):
            content = (good * 3)[:L]
            for mode in ("auto", "with", "empty"):
                cases.append("parse %s %s %s" % (v, mode, hx(content)))
            if L >= 2:
                cases.append("parse %s auto %s" % (v, hx(content[2:] + b"00")[:1 + 2 * L]))
        # wrong length TOGETHER WITH a bad prefix / a bad header or body character, in every mode: a wrong length is always a length error
        for L in sorted(set([0, 1, 2, 3, 4, ls - 3, ls - 2, ls - 1, ls + 1, ls + 2, ls + 3, 2 * ls, 2 * ls - 2, 200])):
            if L < 0 or L in (ls, ls - 2):
                continue
            base = (good * 3)[:L]
            variants = [b"T2" + base[2:], b"t1" + base[2:], base[:3] + b"g" + base[4:], base[:2] + b"@" + base[3:],
                        base[:L - 1] + b"G" if L else base, b"X" * L]
            for d in variants:
                d = d[:L] if len(d) >= L else d + b"0" * (L - len(d))
                for mode in ("auto", "with", "empty"):
                    cases.append("parse %s %s %s" % (v, mode, hx(d)))
        # prefix variants
        for pfx in (b"T1", b"t1", b"T2", b"T0", b"1T", b"TT", b"11", b"\x00\x00", b"T\xff", b"\xd41", b" 1", b"T "):
            for mode in ("auto", "with", "empty"):
                cases.append("parse %s %s %s" % (v, mode, hx(pfx + good[2:])))
        # damage on lower-case and mixed-case spellings (a rejecting path that looks at letter case)
        for base in (good[:2] + good[2:].lower(), mixed_case(rng, good.decode()).encode()):
            for pos in sorted(set([2, 3, 2 + 2 * VARIANTS[v][0], ls // 2, ls - 2, ls - 1] + [rng.below(ls) for _ in range(4)])):
                for val in (0x47, 0x67, 0x40, 0x7A, 0x00, 0xFF):
                    d = bytearray(base)
                    d[pos] = val
                    cases.append("parse %s %s %s" % (v, rng.choice(["auto", "with"]), hx(d)))
        # a well-formed string with something stuck in front of / behind it (a parser that strips or trims first would accept these)
        for d in affixed(good):
            for mode in ("auto", "with", "empty"):
                cases.append("parse %s %s %s" % (v, mode, hx(d)))
            if all(c < 128 for c in d):
                cases.append("fromstr %s %s" % (v, hx(d)))
        # from_str_with(&str, explicit / automatic mode) on well-formed and affixed strings (ASCII)
        for d in [good, good[2:], good.lower()] + affixed(good):
            if all(c < 128 for c in d):
                for mode in ("auto", "with", "empty"):
                    cases.append("fromstrm %s %s %s" % (v, mode, hx(d)))
        # two adjacent damaged characters (aligned and unaligned pairs) at every position
        for pos in range(ls - 1):
            for a, b in ((0x40, 0x40), (0x7A, 0x7A), (0xFF, 0x80), (0x67, 0x47), (0x2F, 0x3A), (0x00, 0x00),
                         (rng.choice(INTERESTING_BYTES), rng.choice(INTERESTING_BYTES))):
                d = bytearray(good)
                d[pos], d[pos + 1] = a, b
                cases.append("parse %s %s %s" % (v, "auto" if pos % 2 else "with", hx(d)))
        # one damaged character in each of two DIFFERENT fields (prefix, checksum, length, Q ratios, first / middle / last body digits)
        ckd = 2 * VARIANTS[v][0]
        fields = [(0, 2), (2, 2 + ckd), (2 + ckd, 4 + ckd), (4 + ckd, 6 + ckd), (6 + ckd, 8 + ckd), (ls // 2, ls // 2 + 2), (ls - 2, ls)]
        for fa in range(len(fields)):
            for fb in range(fa + 1, len(fields)):
                for va, vb in ((0x47, 0x47), (0x40, 0x80), (0x67, 0x00)):
                    d = bytearray(good)
                    d[fields[fa][0] + rng.below(fields[fa][1] - fields[fa][0])] = va
                    d[fields[fb][0] + rng.below(fields[fb][1] - fields[fb][0])] = vb
                    for mode in ("auto", "with"):
                        cases.append("parse %s %s %s" % (v, mode, hx(d)))
                    if fa > 0:
                        cases.append("parse %s %s %s" % (v, rng.choice(["auto", "empty"]), hx(d[2:])))
        # two damaged positions (error precedence)
        for _ in range(40 if tier == "quick" else 2000):
            d = bytearray(good)
            for _k in range(2):
                d[rng.below(ls)] = rng.choice(INTERESTING_BYTES)
            cases.append("parse %s %s %s" % (v, rng.choice(["auto", "with"]), hx(d)))
        # binary slices of every length
        size = VARIANTS[v][3]
        for L in range(0, 2 * size + 3):
            cases.append("frombytes %s %s" % (v, hx(rng.bytes(L))))
        # the TEXT form (and other well-formed things of the wrong kind) handed to the binary parser
        for t in (good, good[2:], good.lower(), good[2:].lower(), b"T1" + b"7" * (ls - 2), b"0" * ls, b"0" * (ls - 2), good[:size], good[2:2 + size]):
            cases.append("frombytes %s %s" % (v, hx(t)))
        # fromstr (UTF-8 only): a 2-, 3- or 4-byte character replacing as many ASCII bytes (same byte length) at every offset of the
        # prefix / header and at a few body offsets
        for ch in ("\u00e9", "\u20ac", "\U0001F600"):
            enc = ch.encode("utf-8")
            for off in list(range(0, 8)) + [ls // 2, ls - len(enc)]:
                if off + len(enc) <= ls:
                    d = good[:off] + enc + good[off + len(enc):]
                    cases.append("fromstr %s %s" % (v, hx(d)))
                    cases.append("parse %s auto %s" % (v, hx(d)))
                if 2 <= off and off + len(enc) <= ls:
                    d2 = good[2:off] + enc + good[off + len(enc):]
                    cases.append("fromstr %s %s" % (v, hx(d2)))
        # fromstr (UTF-8 only): ASCII damage
        for _ in range(30 if tier == "quick" else 1000):
            d = bytearray(good)
            d[rng.below(ls)] = rng.below(128)
            cases.append("fromstr %s %s" % (v, hx(d)))
    return cases


def hex_pair_sweep_cases(rng, tier):
    """Every one of the 65536 character pairs at a header pair position and at a body pair position
    (complete for damage confined to one digit pair)."""
    cases = []
    vs = ["N"] if tier == "quick" else VNAMES
    for v in vs:
        good = bytearray(ref_format(v, plausible_bin(rng, v), True).encode())
        ck = VARIANTS[v][0]
        positions = [2, 2 + 2 * ck + 4] if tier == "quick" else [2, 2 + 2 * ck, 2 + 2 * ck + 2, 2 + 2 * ck + 4, VARIANTS[v][4] - 2]
        for pos in positions:
            for a in range(256):
                for b in range(256):
                    d = bytearray(good)
                    d[pos], d[pos + 1] = a, b
                    cases.append("parse %s auto %s" % (v, hx(d)))
    return cases


def hex_buffer_cases(rng, tier):
    cases = []
    for v in VNAMES:
        size, ls = VARIANTS[v][3], VARIANTS[v][4]
        reps = 1 if tier == "quick" else 6
        for _ in range(reps):
            b = plausible_bin(rng, v)
            for L in range(0, ls + 65):
                cases.append("fmt %s %s with %s" % (v, hx(b), hx(rng.bytes(L))))
            for L in range(0, ls - 2 + 65):
                cases.append("fmt %s %s empty %s" % (v, hx(b), hx(rng.bytes(L))))
            for L in range(0, size + 65):
                cases.append("storebytes %s %s %s" % (v, hx(b), hx(rng.bytes(L))))
        # special hash values (all-zero checksum as after clear_checksum, all-FF, zero length / Q ratios) into slightly larger buffers
        ck = VARIANTS[v][0]
        for special in range(6):
            b = bytearray(plausible_bin(rng, v))
            if special == 0:
                b[:ck] = bytes(ck)
            elif special == 1:
                b[:ck] = b"\xff" * ck
            elif special == 2:
                b[ck] = 0
            elif special == 3:
                b[ck + 1] = 0
            elif special == 4:
                b = bytearray(size)
            else:
                b = bytearray(b"\xff" * size)
            for extra in (0, 1, 2, 5):
                cases.append("fmt %s %s with %s" % (v, hx(b), hx(rng.bytes(ls + extra))))
                cases.append("fmt %s %s empty %s" % (v, hx(b), hx(rng.bytes(ls - 2 + extra))))
                cases.append("storebytes %s %s %s" % (v, hx(b), hx(rng.bytes(size + extra))))
        # every start alignment of the destination (offsets 0..16 into an aligned arena), both prefixes, a few excess sizes
        b = plausible_bin(rng, v)
        for off in range(0, 17):
            for extra in (0, 1, 7):
                cases.append("fmto %s %s with %d %s" % (v, hx(b), off, hx(rng.bytes(ls + extra))))
                cases.append("fmto %s %s empty %d %s" % (v, hx(b), off, hx(rng.bytes(ls - 2 + extra))))
        # much larger buffers: around every power of two up to 64 KiB (a length that is reduced modulo something, a block-wise
        # encoder, an alignment-dependent path)
        b = plausible_bin(rng, v)
        big = sorted(set(x for k in range(8, 17) for x in range(2 ** k - 3, 2 ** k + 9)))
        if tier == "quick":
            big = [x for x in big if x < 5000] + [65535, 65536, 65538, 65539]
        for L in big:
            cases.append("fmt %s %s with %s" % (v, hx(b), hx(rng.bytes(L))))
            cases.append("fmt %s %s empty %s" % (v, hx(b), hx(rng.bytes(L))))
            cases.append("storebytes %s %s %s" % (v, hx(b), hx(rng.bytes(L))))
    return cases


# ------------------------------------------------------------------------------------------
# generator suites
# ------------------------------------------------------------------------------------------

THRESHOLD_LENGTHS = [0, 1, 2, 3, 4, 5, 6, 9, 10, 11, 17, 18, 19, 49, 50, 51, 64, 127, 128, 129, 255, 256, 257]


def gen_data(rng, n, kind=None):
    """n bytes of seeded data of a given texture."""
    kind = kind if kind is not None else rng.below(8)
    if kind == 0:
        return rng.bytes(n)
    if kind == 1:
        return bytes([rng.below(256)] * n)
    if kind == 2:
        period = bytes(rng.bytes(1 + rng.below(7)))
        return (period * (n // len(period) + 1))[:n]
    if kind == 3:
        alpha = rng.bytes(2 + rng.below(6))
        return bytes(alpha[rng.below(len(alpha))] for _ in range(n))
    if kind == 4:
        words = [b"the ", b"quick ", b"brown ", b"fox ", b"jumps ", b"over ", b"lazy ", b"dog. ", b"Lorem ", b"ipsum "]
        out = b""
        while len(out) < n:
            out += rng.choice(words)
        return out[:n]
    if kind == 5:
        period = bytes(rng.bytes(16 + rng.below(48)))
        return (period * (n // len(period) + 1))[:n]
    if kind == 6:
        return bytes((i * (1 + rng.below(3)) + rng.below(2)) & 0xFF for i in range(n))
    return rng.bytes(n)


def gen_hash_cases(rng, tier):
    """hash V opts data: every variant x all 32 option settings on each datum."""
    cases = []
    lens = list(THRESHOLD_LENGTHS)
    extra = 6 if tier == "quick" else 60
    for _ in range(extra):
        lens.append(rng.choice([60, 100, 200, 300, 500, 800, 1200, 2000]) + rng.below(50))
    big = [5000] if tier == "quick" else [5000, 20000, 70000]
    for v in VNAMES:
        for n in lens + big:
            for k in ([None] if tier == "quick" else [None, None]):
                d = gen_data(rng, n, k)
                opts = range(32) if (n <= 600 or tier != "quick") else [0, 2, 3, 30, 31]
                for o in opts:
                    cases.append("hash %s %d %s" % (v, o, hx(d)))
        # texture sweep at a size that passes the length gate
        for kind in range(7):
            d = gen_data(rng, 150 + rng.below(300), kind)
            for o in (0, 2, 1, 3, 8, 10, 16, 18, 31):
                cases.append("hash %s %d %s" % (v, o, hx(d)))
        cases.append("hashbuf %s %s" % (v, hx(gen_data(rng, 300, 4))))
    # input lengths around every integer literal that is new in the current source (empty on the audited tree)
    import srcdict
    for x in srcdict.derived_lengths(srcdict.new_literals()["ints"]):
        if x <= 70000:
            for r in (-1, 0, 1, 2, 3, 4, 5):
                if x + r >= 0:
                    v = rng.choice(VNAMES)
                    d = gen_data(rng, x + r)
                    for o in (0, 2, 30):
                        cases.append("hash %s %d %s" % (v, o, hx(d)))
    return cases


def split_pieces(rng, d):
    """Split d into successive pieces, favouring empty and 1-5 byte pieces."""
    out = []
    i = 0
    while i < len(d):
        k = rng.below(10)
        if k < 5:
            n = rng.below(6)
        elif k < 8:
            n = rng.below(40)
        else:
            n = rng.below(max(1, len(d)))
        out.append(d[i:i + n])
        i += n
    if rng.chance(1, 3):
        out.append(b"")
    return out


def gen_hist_cases(rng, tier):
    """Histories over update / finalize / processed_len / raw-state / clone / pop / swap."""
    cases = []
    n = 60 if tier == "quick" else 3000
    for v in VNAMES:
        for _ in range(n):
            total = rng.choice(THRESHOLD_LENGTHS + [70, 150, 300, 600])
            d = gen_data(rng, total)
            ops = []
            for piece in split_pieces(rng, d):
                ops.append("u %s" % hx(piece))
                r = rng.below(12)
                if r == 0:
                    ops.append("f %d" % rng.below(32))
                elif r == 1:
                    ops.append("l")
                elif r == 2:
                    ops.append("r")
                elif r == 3:
                    ops.append("c")
                elif r == 4:
                    ops.append("w")
                elif r == 5:
                    ops.append("p")
                elif r == 6:
                    ops.append("fd")
            ops += ["l", "r", "f %d" % rng.below(32), "f 30", "w", "l", "f 30"]
            cases.append("hist %s %s" % (v, " ".join(ops)))
            # the same bytes in one update: must give the same observations
            cases.append("hist %s u %s l r f 30 f 2 f 0" % (v, hx(d)))
        # Clone::clone_from in place (cf: top := copy of the generator below it; cn: top := a fresh generator), with used and
        # young generators on either side, then continued
        for _ in range(12 if tier == "quick" else 300):
            a = gen_data(rng, rng.choice([0, 1, 3, 4, 5, 9, 64, 300]))
            b = gen_data(rng, rng.choice([0, 1, 2, 4, 5, 6, 70, 300]))
            c = gen_data(rng, rng.choice([1, 5, 60, 200]))
            cases.append("hist %s u %s c p c uzero 0 w p u %s l r" % (v, hx(a), hx(c)))  # exercise the stack ops together
            cases.append("hist %s u %s c cn u %s cf u %s l r f 30 w u %s l r f 30" % (v, hx(a), hx(b), hx(c), hx(c)))
            cases.append("hist %s u %s c u %s w cf u %s l r f 30 f 2" % (v, hx(a), hx(b), hx(c)))
            cases.append("hist %s u %s cn u %s l r f 30 fd" % (v, hx(a), hx(b + c)))
    return cases


def le32s(vals):
    out = bytearray()
    for x in vals:
        out += int(x).to_bytes(4, "little")
    return bytes(out)


def gen_inject_cases(rng, tier):
    """Histories started from injected raw states (counters near 2^24, 2^31, 2^32; lengths near
    MAX, 2^32-4, 2^32)."""
    MAX = 4224281216
    cases = []
    n = 8 if tier == "quick" else 200
    specials = [0, 1, 2, 3, 2 ** 24 - 1, 2 ** 24, 2 ** 24 + 1, 42949672, 42949673, 2 ** 31 - 1, 2 ** 31, 2 ** 31 + 1,
                2 ** 32 - 2, 2 ** 32 - 1]
    for v in VNAMES:
        ck = VARIANTS[v][0]
        nb = VARIANTS[v][1]
        for _ in range(n):
            kind = rng.below(4)
            if kind == 0:
                bk = [rng.choice(specials) for _ in range(256)]
            elif kind == 1:
                bk = [rng.below(2 ** 32) for _ in range(256)]
            elif kind == 2:
                nz = rng.choice([0, 1, nb // 4, nb // 4 + 1, nb // 2 - 1, nb // 2, nb // 2 + 1, 17, 18, 19, nb])
                bk = [0] * 256
                for i in rng_sample(rng, nb, min(nz, nb)):
                    bk[i] = 1 + rng.below(5) if rng.chance(1, 2) else rng.choice(specials[1:])
            else:
                bk = [rng.below(1000) for _ in range(256)]
            length = rng.choice([0, 10, 46, 124, 300, 5000, MAX - 10, MAX - 5, MAX - 4, MAX - 3, MAX, MAX + 1,
                                 2 ** 32 - 10, 2 ** 32 - 6, 2 ** 32 - 5, 2 ** 32 - 4])
            cks = rng.bytes(ck)
            tail = rng.bytes(4)
            ops = []
            for _k in range(1 + rng.below(6)):
                ops.append("u %s" % hx(rng.bytes(rng.choice([0, 1, 2, 3, 4, 5, 6, 7, 8, 9, 13]))))
                ops.append(rng.choice(["l", "f %d" % rng.below(32), "r", "l"]))
            ops += ["l", "r", "f 30", "f 2"]
            cases.append("hist %s inject %s %d %s %s 4 %s" % (v, hx(le32s(bk)), length, hx(cks), hx(tail), " ".join(ops)))
    return cases


def rng_sample(rng, n, k):
    idx = list(range(n))
    out = []
    for _ in range(k):
        j = rng.below(len(idx))
        out.append(idx.pop(j))
    return out


# ------------------------------------------------------------------------------------------
# distance suites
# ------------------------------------------------------------------------------------------

BACKENDS = ["dispatch", "pseudo32", "pseudo64", "sse2", "sse41", "avx2"]


def dist_header_cases(tier):
    """Header parts enumerated exhaustively: 256 x 256 each."""
    cases = []
    for a in range(256):
        for b in range(256):
            cases.append("dlen %d %d" % (a, b))
            cases.append("dq %d %d" % (a, b))
            cases.append("dck1 %d %d" % (a, b))
    for x in range(16):
        for y in range(16):
            cases.append("ring %d %d 16" % (x, y))
    for x in range(0, 256, 3):
        for y in range(0, 256, 5):
            cases.append("ring %d %d 0" % (x, y))
    return cases


def dist_body_cases(rng, tier):
    """Every byte position x all 65536 byte pairs against random backgrounds (per backend in thorough),
    plus random and adversarial whole bodies."""
    cases = []
    for size in (12, 32, 64):
        bgs = 1
        positions = range(size) if tier != "quick" else sorted(set([0, 3, 4, 7, 8, 11, size - 1, size // 2] + [rng.below(size) for _ in range(2)]))
        for pos in positions:
            for _ in range(bgs):
                ba, bb = bytearray(rng.bytes(size)), bytearray(rng.bytes(size))
                if rng.chance(1, 3):
                    bb = bytearray(ba)
                step = 1 if tier != "quick" else 1
                for x in range(0, 256, step):
                    for y in range(256):
                        # quick: a third of the 65536 pairs at ~10 positions; thorough: half of them at EVERY position
                        # (3.5 M cases; the complete 65536-pair enumeration per lane is the in-kernel sweep)
                        if (x * 256 + y + pos) % (3 if tier == "quick" else 2):
                            continue
                        a, b = bytearray(ba), bytearray(bb)
                        a[pos], b[pos] = x, y
                        be = "dispatch" if tier == "quick" else BACKENDS[(x + y) % len(BACKENDS)]
                        cases.append("dbody %d %s %s %s" % (size, be, hx(a), hx(b)))
        # block patterns: each 4-, 8- or 16-byte block of the two bodies is identical / differs in every byte / differs in every
        # dibit by 3 / is random (a fast path or a horizontal reduction keyed on whole SIMD lanes or registers)
        for blk in (4, 8, 16):
            nblk = size // blk
            if nblk < 1:
                continue
            import itertools
            lim = 300 if tier == "quick" else 5000
            if 4 ** nblk <= lim:
                pats = list(itertools.product(range(4), repeat=nblk))
            else:
                # mostly "identical" / "all different" blocks (the patterns a whole-lane shortcut keys on), some arbitrary ones
                pats = [tuple(rng.choice([0, 1]) if rng.chance(3, 4) else rng.below(4) for _ in range(nblk)) for _ in range(lim)]
                pats += [tuple(1 if (m >> k) & 1 else 0 for k in range(nblk)) for m in range(min(2 ** nblk, 256))]
            for pat in pats:
                a, b = bytearray(rng.bytes(size)), bytearray(size)
                for k, kind in enumerate(pat):
                    for j in range(k * blk, (k + 1) * blk):
                        if kind == 0:
                            b[j] = a[j]
                        elif kind == 1:
                            b[j] = (a[j] + 1 + rng.below(255)) % 256
                        elif kind == 2:
                            b[j] = a[j] ^ 0xFF
                        else:
                            b[j] = rng.below(256)
                for j in range(nblk * blk, size):
                    b[j] = a[j]
                for be in (BACKENDS if tier != "quick" else ["dispatch", BACKENDS[(sum(pat) + blk) % len(BACKENDS)]]):
                    cases.append("dbody %d %s %s %s" % (size, be, hx(a), hx(b)))
        # every backend on random / adversarial bodies
        n = 300 if tier == "quick" else 20000
        for be in BACKENDS:
            for _ in range(n):
                k = rng.below(6)
                if k == 0:
                    a, b = bytes(size), bytes([0xFF] * size)
                elif k == 1:
                    a = bytes([rng.choice([0x00, 0x55, 0xAA, 0xFF])] * size)
                    b = bytes([rng.choice([0x00, 0x55, 0xAA, 0xFF])] * size)
                elif k == 2:
                    a = rng.bytes(size)
                    b = bytearray(a)
                    b[rng.below(size)] ^= 1 << rng.below(8)
                    b = bytes(b)
                else:
                    a, b = rng.bytes(size), rng.bytes(size)
                cases.append("dbody %d %s %s %s" % (size, be, hx(a), hx(b)))
    return cases


def dist_header_combo_cases(rng, tier):
    """Whole hashes with the SAME body and checksum whose headers differ in SEVERAL fields at once: every combination of the low
    nibbles of the two length codes and of the two Q2 (resp. Q1) ratios, both modes (a shortcut keyed on a packed / hashed header)."""
    cases = []
    vs = ["N"] if tier == "quick" else VNAMES
    for v in vs:
        ck = VARIANTS[v][0]
        base = bytearray(plausible_bin(rng, v))
        hi = rng.choice([0x10, 0x40, 0x90])
        for which in (("q2",) if tier == "quick" else ("q2", "q1")):
            for i in range(16):
                for j in range(16):
                    for k in range(16):
                        for l in range(16):
                            if tier == "quick" and (i * 4096 + j * 256 + k * 16 + l) % 2 and not (i ^ j) == (k ^ l):
                                continue
                            a, b = bytearray(base), bytearray(base)
                            a[ck], b[ck] = hi + i, hi + j
                            c = base[ck + 1]
                            if which == "q2":
                                a[ck + 1], b[ck + 1] = (k << 4) | (c & 15), (l << 4) | (c & 15)
                            else:
                                a[ck + 1], b[ck + 1] = (c & 0xF0) | k, (c & 0xF0) | l
                            cases.append("cmp %s %s %s %s" % (v, hx(a), hx(b), "default" if (i + k) % 2 else "nolength"))
    return cases


def dict_pairs(rng):
    """whole-hash pairs built from the dictionary-spliced binaries (empty on the audited tree)"""
    cases = []
    for v in VNAMES:
        bins = dict_bins(rng, v)
        for b in bins[:600]:
            other = rng.choice([plausible_bin(rng, v), b, rng.choice(bins)])
            for m in ("default", "nolength"):
                cases.append("cmp %s %s %s %s" % (v, hx(b), hx(other), m))
                cases.append("cmp %s %s %s %s" % (v, hx(other), hx(b), m))
    return cases


def dist_whole_cases(rng, tier):
    cases = []
    n = 400 if tier == "quick" else 50000
    for v in VNAMES:
        cases.append("maxdist %s default" % v)
        cases.append("maxdist %s nolength" % v)
        cases.append("partmax %s" % v)
        size = VARIANTS[v][3]
        ck = VARIANTS[v][0]
        for _ in range(n):
            a = bytearray(random_bin(rng, v))
            k = rng.below(5)
            if k == 0:
                b = bytearray(a)
            elif k == 1:
                b = bytearray(a)
                b[rng.below(size)] ^= 1 << rng.below(8)
            elif k == 2:
                b = bytearray(a)
                for i in range(ck):
                    b[i] ^= rng.choice([0x80, 0x01, 0xFF, 0x00])
            else:
                b = bytearray(random_bin(rng, v))
            for mode in ("default", "nolength"):
                cases.append("cmp %s %s %s %s" % (v, hx(a), hx(b), mode))
        # the maximum is attained
        a = bytearray(size)
        b = bytearray([0xFF] * size)
        a[ck], b[ck] = 0, 128
        a[ck + 1], b[ck + 1] = 0x00, 0x88
        for i in range(ck):
            a[i], b[i] = 1, 2
        cases.append("cmp %s %s %s default" % (v, hx(a), hx(b)))
        cases.append("cmp %s %s %s nolength" % (v, hx(a), hx(b)))
    cases += dict_pairs(rng)
    return cases
