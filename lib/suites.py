"""Case generators for the correspondence suites (structured, mostly-valid inputs plus a
separate malformed stream).  Every random choice derives from the Rng passed in."""
from core import hx

VARIANTS = {
    # name: (checksum size, buckets, body size, size in bytes, len in str)
    "S": (1, 48, 12, 15, 32),
    "N": (1, 128, 32, 35, 72),
    "NL": (3, 128, 32, 37, 76),
    "L": (1, 256, 64, 67, 136),
    "LL": (3, 256, 64, 69, 140),
}
VNAMES = ["S", "N", "NL", "L", "LL"]


def swap(b):
    return ((b << 4) | (b >> 4)) & 0xFF


def ref_format(v, binb, prefix=True):
    """Python reference formatter used only to *generate* valid inputs."""
    ck = VARIANTS[v][0]
    head = bytes(swap(x) for x in binb[:ck + 2])
    s = (head + bytes(binb[ck + 2:])).hex().upper()
    return ("T1" if prefix else "") + s


def random_bin(rng, v):
    size = VARIANTS[v][3]
    k = rng.below(10)
    if k == 0:
        return bytes(size)
    if k == 1:
        return bytes([0xFF] * size)
    if k == 2:
        b = bytearray(size)
        b[rng.below(size)] = rng.below(256)
        return bytes(b)
    if k == 3:
        return bytes([rng.choice([0x00, 0x55, 0xAA, 0xFF, 0x0F, 0xF0, 0x33, 0xCC])] * size)
    return rng.bytes(size)


def plausible_bin(rng, v):
    """A hash that also passes the strict parser (length code < 170, Short checksum <= 48)."""
    b = bytearray(random_bin(rng, v))
    ck = VARIANTS[v][0]
    b[ck] = rng.below(170)
    if v == "S":
        b[0] = rng.below(49)
    return bytes(b)


def mixed_case(rng, s):
    k = rng.below(4)
    if k == 0:
        return s
    if k == 1:
        return s[:2] + s[2:].lower() if s.startswith("T1") else s.lower()
    out = []
    for i, c in enumerate(s):
        if s.startswith("T1") and i < 2:
            out.append(c)
        else:
            out.append(c.lower() if rng.chance(1, 2) else c)
    return "".join(out)


INTERESTING_BYTES = [0x00, 0x1F, 0x20, 0x2F, 0x30, 0x39, 0x3A, 0x40, 0x41, 0x46, 0x47, 0x54, 0x60, 0x61,
                     0x66, 0x67, 0x74, 0x7F, 0x80, 0xC3, 0xFF, 0x31]


def hex_roundtrip_cases(rng, tier):
    n = 12 if tier == "quick" else 400
    cases = []
    for v in VNAMES:
        size, ls = VARIANTS[v][3], VARIANTS[v][4]
        cases.append("consts %s" % v)
        for _ in range(n):
            b = plausible_bin(rng, v) if rng.chance(3, 4) else random_bin(rng, v)
            cases.append("display %s %s" % (v, hx(b)))
            cases.append("parts %s %s" % (v, hx(b)))
            cases.append("frombytes %s %s" % (v, hx(b)))
            cases.append("fromarray %s %s" % (v, hx(b)))
            cases.append("clearcks %s %s" % (v, hx(b)))
            cases.append("fmt %s %s with %s" % (v, hx(b), hx(rng.bytes(ls))))
            cases.append("fmt %s %s empty %s" % (v, hx(b), hx(rng.bytes(ls - 2))))
            cases.append("storebytes %s %s %s" % (v, hx(b), hx(rng.bytes(size))))
            s = ref_format(v, b, True)
            for mode in ("auto", "with", "empty"):
                t = mixed_case(rng, s)
                cases.append("parse %s %s %s" % (v, mode, hx(t.encode())))
                cases.append("parse %s %s %s" % (v, mode, hx(t[2:].encode())))
            cases.append("fromstr %s %s" % (v, hx(mixed_case(rng, s).encode())))
            cases.append("fromstr %s %s" % (v, hx(mixed_case(rng, s)[2:].encode())))
        # every value of every header byte (checksum / length / q ratios), both directions
        ck = VARIANTS[v][0]
        base = bytearray(plausible_bin(rng, v))
        step = 1 if tier != "quick" else 1
        for pos in range(ck + 2):
            for val in range(0, 256, step):
                b = bytearray(base)
                b[pos] = val
                cases.append("display %s %s" % (v, hx(b)))
                cases.append("parse %s auto %s" % (v, hx(ref_format(v, b, True).encode())))
                if val % 16 == 0 or tier != "quick":
                    cases.append("parts %s %s" % (v, hx(b)))
        # quartile indices
        for i in list(range(0, 9)) + [VARIANTS[v][1] - 1, VARIANTS[v][1], VARIANTS[v][1] + 1, 255, 256, 1 << 20, (1 << 59)]:
            cases.append("quartile %s %s %d" % (v, hx(base), i))
        # every body byte value at one body position
        for val in range(256):
            b = bytearray(base)
            b[ck + 2 + rng.below(VARIANTS[v][2])] = val
            cases.append("display %s %s" % (v, hx(b)))
            if val % 8 == 0:
                cases.append("parts %s %s" % (v, hx(b)))
    return cases


def hex_malformed_cases(rng, tier):
    cases = []
    for v in VNAMES:
        ls = VARIANTS[v][4]
        good = ref_format(v, plausible_bin(rng, v), True).encode()
        # single-byte damage: interesting values at every position; every value at selected positions
        full_positions = {0, 1, 2, 3, 2 + 2 * VARIANTS[v][0], ls - 1, ls // 2}
        for pos in range(ls):
            vals = range(256) if (pos in full_positions or tier != "quick") else INTERESTING_BYTES + [rng.below(256)]
            for val in vals:
                d = bytearray(good)
                d[pos] = val
                for mode in (("auto", "with") if pos < 2 or val % 3 == 0 else ("auto",)):
                    cases.append("parse %s %s %s" % (v, mode, hx(d)))
                if pos >= 2:
                    cases.append("parse %s %s %s" % (v, rng.choice(["auto", "empty"]), hx(d[2:])))
        # all lengths 0..2*LEN+2
        for L in range(0, 2 * ls + 3):
            content = (good * 3)[:L]
            for mode in ("auto", "with", "empty"):
                cases.append("parse %s %s %s" % (v, mode, hx(content)))
            if L >= 2:
                cases.append("parse %s auto %s" % (v, hx(content[2:] + b"00")[:1 + 2 * L]))
        # prefix variants
        for pfx in (b"T1", b"t1", b"T2", b"T0", b"1T", b"TT", b"11", b"\x00\x00", b"T\xff", b"\xd41", b" 1", b"T "):
            for mode in ("auto", "with", "empty"):
                cases.append("parse %s %s %s" % (v, mode, hx(pfx + good[2:])))
        # two damaged positions (error precedence)
        for _ in range(40 if tier == "quick" else 2000):
            d = bytearray(good)
            for _k in range(2):
                d[rng.below(ls)] = rng.choice(INTERESTING_BYTES)
            cases.append("parse %s %s %s" % (v, rng.choice(["auto", "with"]), hx(d)))
        # binary slices of every length
        size = VARIANTS[v][3]
        for L in range(0, 2 * size + 3):
            cases.append("frombytes %s %s" % (v, hx(rng.bytes(L))))
        # fromstr (UTF-8 only): ASCII damage
        for _ in range(30 if tier == "quick" else 1000):
            d = bytearray(good)
            d[rng.below(ls)] = rng.below(128)
            cases.append("fromstr %s %s" % (v, hx(d)))
    return cases


def hex_buffer_cases(rng, tier):
    cases = []
    for v in VNAMES:
        size, ls = VARIANTS[v][3], VARIANTS[v][4]
        reps = 1 if tier == "quick" else 6
        for _ in range(reps):
            b = plausible_bin(rng, v)
            for L in range(0, ls + 65):
                cases.append("fmt %s %s with %s" % (v, hx(b), hx(rng.bytes(L))))
            for L in range(0, ls - 2 + 65):
                cases.append("fmt %s %s empty %s" % (v, hx(b), hx(rng.bytes(L))))
            for L in range(0, size + 65):
                cases.append("storebytes %s %s %s" % (v, hx(b), hx(rng.bytes(L))))
    return cases
