#!/bin/bash
# run_seeds.sh <seed>...: every quick check under other seeds (smoke test for seed-dependent false alarms)
cd "$(dirname "$0")/.."
for seed in "$@"; do
  for id in $(python3 -c "import json; print(' '.join(c['property_id'] for c in json.load(open('MANIFEST.json'))['checks']))"); do
    out=$(VERIF_SEED=$seed timeout 3600 bin/check $id --tier quick 2>/dev/null | grep -E '^(OK|VIOLATION|KNOWN)' | tr '\n' ';')
    echo "seed=$seed $id $out"
  done
done
