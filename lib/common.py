"""Pieces shared by several property checks."""
import os
import subprocess
import core


def translator_crosscheck(ctx, harness_bin):
    """Compare what the translator read from the source text with what the compiler compiled
    (hook verif::dump_constants)."""
    t = ctx.translated
    if t is None or harness_bin is None:
        return
    rc, out = core.run([harness_bin, "dump"], timeout=120)
    if rc != 0:
        ctx.obligation_failures.append("harness dump failed: " + out[-300:])
        return
    d = {}
    for line in out.strip().split("\n"):
        p = line.split(" ")
        d[p[0]] = [int(x) for x in p[1:]]
    nb = t["num_buckets"]
    order = ["NUM_BUCKETS_SHORT", "NUM_BUCKETS_NORMAL", "NUM_BUCKETS_LONG"]
    expect = {
        "subst_table": t["subst_table"],
        "pearson_initial_state": [t["pearson_initial_state"]],
        "top_value": t["top_value"],
        "encoded_value_size": [t["encoded_value_size"]],
        "len_max": [t["len_max"]],
        "len_min": [t["len_min"][k] for k in order],
        "len_min_conservative": [t["len_min_conservative"][k] for k in order],
        "hex_upper_nibble": t["hex_upper_nibble"],
        "body_outlier_value": [t["dist_body"]["BODY_OUTLIER_VALUE"]],
        "body_max_distance": [t["dist_body"]["MAX_DISTANCE_SHORT"], t["dist_body"]["MAX_DISTANCE_NORMAL"],
                              t["dist_body"]["MAX_DISTANCE_LONG"]],
        "length_max_distance": [t["length_max_distance"]],
        "qratios_max_distance": [t["qratios_max_distance"]],
        "num_buckets": [nb[k] for k in order],
        "min_nonzero": [t["min_nonzero"][k] for k in order],
        "checksum_size": [t["checksum_size_normal"], t["checksum_size_long"]],
        "window_size": [t["window_size"]],
    }
    for k in ("hex_rev_lo_u16", "hex_rev_lo_u8"):
        if k in d:
            expect[k] = t[k]
    for k in ("hex_invalid_u16", "hex_invalid_u8"):
        if k in d:
            expect[k] = [t[k]]
    n = 0
    for k, v in expect.items():
        if k not in d:
            ctx.obligation_failures.append("translator cross-check: compiled constant %s missing from dump" % k)
        elif d[k] != v:
            ctx.obligation_failures.append("translator cross-check: %s differs between source text and compiled value" % k)
        else:
            n += 1
    ctx.notes.append("translator cross-check: %d constants/tables equal to the compiled values" % n)
    ctx.compiled_constants = d
