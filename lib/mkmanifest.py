#!/usr/bin/env python3
"""Regenerates MANIFEST.json from the table below (run by hand after adding a property check)."""
import json
import os

VERIF = os.path.dirname(os.path.dirname(os.path.abspath(__file__)))
TECH = "machine-checked proof in Rocq/Coq 8.16 (theorems over a model regenerated from the source and tied to it by a differential correspondence check)"

CLAIMED = {
    "C01": ("HEADLINE theorem gen_refines_reference: for every list of pieces (unbounded), every variant, all 32 option "
            "settings, every generator configuration and every selection function meeting std's select_nth_unstable contract, "
            "finalize(update*(new)) equals the ~120-line declarative reference Spec.spec_tlsh on the concatenated bytes -- same "
            "hash or same specific rejection, including > MAX and > 2^32 bytes (u32 counters mod 2^32, saturation written "
            "explicitly).  Tables, salts, triplets and constants are re-read from /repo on every run and proved equal to the "
            "reference's golden copies; the reference is validated by known answers of the official implementation evaluated in Coq.",
            "select_nth_unstable by contract; binary32 by stdlib SpecFloat; saturating f32->u32 cast shared by spec and model; "
            "hand model tied by GEN-HASH (+ direct comparison with the extracted reference), INJECT, BMAP suites"),
    "C03": ("Theorems for every input, every split into update calls and every history over update / finalize / processed_len / "
            "clone / drop / swap: on every state meeting the representation invariant (which new() establishes and update "
            "preserves) update never panics and equals the byte-wise fold, so update(update(s,a),b) = update(s,a++b), any "
            "chunking ends in the same state, and every observed generator instance is in exactly the state of a fresh "
            "generator fed the bytes it has seen; finalize is a function of the state for any std-conforming selection.",
            "clone/&self purity of the implementation is checked by the HIST suite (raw state through the hook), not proved; "
            "select_nth_unstable by contract"),
    "C04": ("Theorems for every hash value, every variant and every table/SIMD/strictness configuration of the codec: "
            "store_into_str_bytes writes exactly the reference text (advertised length, optional T1, uppercase hex), parsing it "
            "back through any entry point yields the identical hash, Display is the T1 form, and every accepted string "
            "re-formats to T1 + its upper-cased digits (so accepted strings are injective up to case/prefix). Per-byte facts are "
            "complete kernel enumerations (256 / 65536 cases) over the tables regenerated from /repo; lifted by induction.",
            "inputs are bytes; hex-simd by contract; hand model of hash.rs/hex_str.rs tied by the HEX suites; Coq kernel+VM; translator; extraction"),
    "C05": ("Theorems for every byte sequence of any length, every prefix mode, every decoder table variant: the parser never "
            "panics (strict or lenient); the lenient parser equals the reference parser (Ok iff well-formed, value = the digits' "
            "value, InvalidStringLength iff wrong length, other errors only when they apply).",
            "inputs are bytes; hex-simd decode by contract; hand model tied by the HEX-MALFORMED suite (single-byte damage, all lengths, prefixes)"),
    "C06": ("Theorems: bytes->hash->bytes and hash->bytes->hash are identities (array and slice), wrong-length slices give "
            "InvalidStringLength, layout is checksum ++ [length; q] ++ body with Q2 in the high nibble, quartile(i) reads bits "
            "2(i mod 4) of body byte |body|-1-i/4 and panics exactly for i >= buckets, hex form = nibble-swapped header + body, "
            "clear_checksum zeroes exactly the 1 or 3 checksum bytes.",
            "bitfield-struct modelled as q1+16*q2; hand model tied by the BIN suite"),
    "C02": ("HEADLINE theorem compare_is_reference: for every pair of hash values of the same variant (all byte patterns), both "
            "modes, every header-table configuration and every body backend (pseudo-SIMD 32/64, SSE2, SSE4.1, AVX2), "
            "compare_with_config returns the reference distance.  Body: the lane theorem (a straight-line word program equals the "
            "lane-wise application of its 8-bit version whenever the reflective checker accepts every lane pair), proved once; per "
            "run the five kernels are re-read from the source, checked lane-safe and equal to the dibit reference on all 65536 "
            "lane pairs inside the kernel, and lifted through the horizontal sums and chunk loops.  Header parts: complete "
            "enumerations (12 configurations x 65536 pairs).",
            "x86 vector code modelled per 32-bit granule; the distance_32/64 wrappers are modelled with the source's own shuffle "
            "immediates, extracted lanes and chunk counts (regenerated each run) and proved to sum every lane; loads and loop "
            "structure hand-modelled, tied by the per-backend hook suite DIST-BODY; little-endian from_ne_bytes; "
            "aarch64/wasm/portable-SIMD backends not compiled here"),
    "C07": ("PARTIAL.  HEADLINE config_independent: two configurations agreeing on parser strictness give identical results for "
            "parsing, formatting, generation and comparison on every input (hex tables full/half/quarter/min and hex-simd, 256-slot "
            "or low-memory buckets, Pearson double table, length/Q-ratio distance tables, clz-narrowed or whole-table length search, "
            "feature unsafe, debug assertions, any std-conforming selection, five body-distance backends).  SIMD bucket aggregation: "
            "the three sub_aggregation kernels are re-read from the source on every run; the unsigned-compare idiom is proved "
            "(signed > after flipping the sign bits = unsigned >); each kernel is evaluated in the kernel on EVERY vector of per-lane "
            "outcomes (4^4 x 256 undefined-operand patterns; 4^8 for AVX2) and lifted through the loops: every backend = naive = "
            "reference body for all buckets and ordered quartiles, and finalize only aggregates with ordered quartiles.  First-call "
            "race: whichever backend a racing closure stores, every call returns the same value.",
            "PARTIAL: OnceLock atomicity and is_x86_feature_detected! are std's; feature -> model-flag mapping validated by the CFG "
            "matrix (quick 4 builds, thorough 13) with line-identical transcripts; aarch64/wasm/portable-SIMD backends not compiled here"),
    "C08": ("Theorems on the comparison model for every configuration, backend, variant and hash pair: d(a,a)=0; default-mode "
            "d(a,b)=0 implies a=b; d(a,b)=d(b,a); d <= max_distance = 6*buckets + checksum bytes + 168 (+1536) and the bound is "
            "attained by an explicit pair for every variant and mode; default = no-length + length-part distance; clearing both "
            "checksums lowers the distance by exactly the number of differing checksum bytes.  Each is the law on the reference "
            "distance (complete 2^16 enumerations per part, induction over the body) transported by C02's refinement theorem.",
            "reaches the code through C02's model tie (DIST suites) plus the DIST-LAWS suite evaluating every relation on the public API"),
    "C09": ("Theorems over the length table regenerated from /repo on every run: new(len) never panics and equals the least code "
            "whose top value >= len for all 2^32 lengths under both search strategies; Some iff len <= 4224281216; monotone; range(c) "
            "exact and tiling; 170..255 invalid. Tied to the code by the translator (table re-read each run, cross-checked against "
            "the compiled constants) and by an exhaustive comparison of all 2^32 lengths (RLE) plus point cases.",
            "std binary_search and leading_zeros by contract; hand model of length.rs tied by exhaustive correspondence; Coq kernel+VM; translator; extraction"),
    "C10": ("Theorems for every reachable generator state and any std-conforming selection: finalize reports a data-length "
            "error exactly when the published classification (DataLengthValidity) is an error for the mode and small inputs "
            "are not allowed; TooLarge is never waivable; length errors precede distribution errors; o <= o' in the "
            "permissiveness order (same Q mode) preserves every Ok result bit for bit; allow-quarter implies allow-half; dummy "
            "quartiles only when q3 = 0; MIN/MIN_CONSERVATIVE/MAX regenerated from the source equal 10/10, 50/128, 50/128, 4224281216.",
            "select_nth_unstable by contract; hand model of finalize tied by GEN-HASH (all 32 option settings per input)"),
    "C11": ("Theorems for any amount of data in any chunking (unbounded lists, the 2^32-4 saturation and the usize->u32 clamp "
            "written explicitly): update never panics, len <= 2^32-4 and tail_len <= 4 always, processed_len = Some n below 2^32 "
            "and None from 2^32 on, finalize = TooLargeInput iff n > 4224281216 and never panics; code 169 at exactly MAX.",
            "states near the limits are injected through the hook (thorough: real multi-GiB streams); a > 4 GiB single slice is "
            "exercised by the HUGE-SLICE case"),
    "C12": ("Theorems over the read loop for EVERY sequence of read results (a reader = what its successive reads return: "
            "deliveries of any sizes 1..buffer, transient interruptions, hard errors, over-claims; the buffer size is re-read "
            "from the source): with no hard error, hash_stream = hash_buf of the concatenation of the delivered bytes (same "
            "hash or same generator error) whatever the partial-read sizes and however many interruptions -- so streams of any "
            "length, beyond the 1 MiB buffer included; the first hard error is returned as that IOError; hash_file = the same "
            "loop, an unopenable path = IOError; never UB, Panic only when the reader over-claims.  The pinned tree violated "
            "the property (Interrupted was returned as an error): C12_refuted_before_fix is the witness theorem on the "
            "pre-fix loop; the defect was reported by this check with the failing script and repaired by fix: commit bca783b.",
            "PARTIAL: std::io::Read / std::fs::File / the OS are outside the model (files and a missing path are exercised by "
            "the FILE suite on the implementation only); hand model of generate_easy_std.rs tied by the STREAM suites"),
    "C13": ("Theorems for every pair of strings, every variant and configuration: if both parse, compare_with = the reference "
            "distance of the two parsed hashes; if the left does not parse the error is (Left, the parser's error) whatever "
            "the right is; otherwise (Right, the parser's error); replacing either accepted string by T1 + its upper-cased "
            "digits changes nothing, and any two accepted spellings with the same digits compare alike; never panics.",
            "mostly glue over C02/C04/C05's models; hand model of compare_easy.rs tied by the EASY suite (every pair of error kinds)"),
    "C14": ("Theorems for every hash, variant, form (bytes, hex, hex+prefix), configuration and every buffer (any length, any prior "
            "content): BufferIsTooSmall with an untouched buffer iff shorter than the advertised size, otherwise Ok(size), the "
            "representation in the first size bytes and every later byte unchanged; no slice/assert inside the serializers can fire "
            "(encoders modelled as zip(chunks_exact_mut(2), src) over the whole remaining slice, so the stop is proved).",
            "hex-simd encode by contract; buffers as lists; hand model tied by the BUF suite (every length 0..N+64)"),
    "C15": ("Theorems for every byte sequence / byte array, every variant and every codec configuration: the parser with the strict "
            "gates accepts exactly what the same parser without them accepts with, in addition, length code < 170 and (48-bucket "
            "variant) checksum <= 48, and returns the same value; an input rejected only for one of these reasons reports "
            "InvalidChecksum resp. LengthIsTooLarge (checksum gate first).  HEADLINE generated_survive_strict_roundtrip: whatever "
            "finalize returns for any pieces, any of the 32 option settings, any generator configuration and any std-conforming "
            "selection is a well-formed value passing both gates, and parses back (text, either prefix; binary) under ANY parser "
            "configuration, strict included -- via C01's refinement theorem and an invariant of the reference checksum fold.",
            "harness built with feature strict-parser; select_nth_unstable by contract; constants 170 / 48 regenerated from the source"),
    "C16": ("Interface-level theorems (a (de)serializer = the data-model event it receives/presents; serde's forwarding "
            "defaults included), for every hash, variant, codec configuration and both is_human_readable values: serialize emits "
            "exactly the T1 hex string resp. exactly the binary form; deserialize(serialize(h)) = h; a document is accepted iff "
            "the corresponding parser (from_str_bytes / TryFrom<&[u8]>) accepts it, with the same value; every other document "
            "(wrong type, wrong length, bad digits/prefix, strict: invalid checksum or length code) is a deserialization error "
            "of the stated class; never a panic.  The pinned tree violated totality (try_from(v).unwrap() in the bytes visitor "
            "under strict-parser): C16_refuted_before_fix is the witness theorem on the pre-fix visitor; the defect was reported "
            "by this check with the failing document and repaired by fix: commit 7da0ca7.",
            "PARTIAL: serde_json / ciborium / postcard are outside the model (driven on the implementation by SERDE-FORMATS: "
            "exact payloads, round trips, malformed documents); serde's visitor defaults by contract; three harness builds"),
    "C17": ("PARTIAL.  Theorems, for every input and every configuration (feature unsafe on/off, debug assertions on/off, all table "
            "and SIMD switches): no operation of the public API returns Panic other than quartile(i >= buckets), and none returns "
            "UB (= a false invariant!() under `unsafe`, or from_utf8_unchecked on non-ASCII): parsers, formatters into any buffer, "
            "accessors, generator (any pieces) and finalize (any options), length encoding, comparison, stream helpers for ANY "
            "reader behaviour (an over-claiming reader: clean panic), string comparison, serde.  The inventory of invariant!/unsafe/"
            "*_unchecked/raw-load/#[target_feature] sites is re-read from the source on every run and proved EQUAL to the audited "
            "list, each invariant discharged by a theorem; enabling `unsafe` changes no result (every operation is a function of "
            "parser strictness only).  The pinned tree violated the property (invariant! on a reader-supplied length): witness "
            "theorem C17_reader_ub_refuted_before_fix; reported by this check with the failing script, repaired by fix: 6c56d09.",
            "PARTIAL: undefined behaviour inside compiled unsafe blocks beyond the modelled preconditions (pointer provenance, "
            "target_feature ABI, LLVM assume) and sanitizer-level facts are runtime properties of the artefact, not claimed; the "
            "TOTAL suite runs one corpus on a debug-assertions build and on an `unsafe` release build and requires identical results"),
    "C18": ("PARTIAL.  Theorems about the crate's conditional-compilation structure, regenerated from the source on every run "
            "(every module reachable from lib.rs; #[cfg]/#![cfg]/cfg_if! resolved; every place naming a std path, an alloc path or "
            "a heap type/macro/method, with the conjunction of its guards; Cargo.toml's feature implications; the no_std and "
            "`extern crate alloc` predicates), for EVERY assignment of every cfg atom (features, test, doc, target_*) respecting "
            "the feature graph: (1) whatever is compiled names only items of a crate linked in that configuration; (2) with std "
            "and alloc both off nothing that needs either is compiled; (3) in every non-test configuration heap constructs are "
            "compiled only inside the documented stream/file helpers and std items elsewhere are audited non-allocating names; "
            "(4) the tautology checker these rest on is sound for all environments.  The run-time half (no allocation during core "
            "operations; the no-default-features build succeeds) is tied by correspondence: a counting global allocator around "
            "every library call of ~16k operations per configuration whose results the model must also reproduce, and real "
            "no-default-features builds compared with the theorems' prediction.",
            "PARTIAL: allocation at run time and build success are facts of the compiled artefact; the theorems cover the source's "
            "cfg structure only, dependencies (hex-simd, serde, bitfield-struct) only through the counting allocator; host target only"),
}

NA_REASON = {
}


def main():
    props = [json.loads(l) for l in open(os.path.join(VERIF, "properties.jsonl"))]
    checks = []
    for pid in sorted(CLAIMED):
        checks.append({
            "property_id": pid,
            "quick_cmd": "bin/check %s --tier quick" % pid,
            "thorough_cmd": "bin/check %s --tier thorough" % pid,
            "evidence_file": "evidence/%s.json" % pid,
            "replay_cmd_template": "bin/check %s --replay {path}" % pid,
            "engine": "rocq-proof",
            "level_claimed": {"category": "proof", "text": CLAIMED[pid][0], "design_ref": "DESIGN.md §%s" % pid},
            "level_note": CLAIMED[pid][1],
            "technique": TECH,
        })
    na = []
    for p in props:
        if p["id"] not in CLAIMED:
            na.append({"property_id": p["id"],
                       "reason": NA_REASON.get(p["id"], "check not built yet (construction in progress, see DESIGN.md §9)")})
    hooks = json.load(open(os.path.join(VERIF, "hooks.json")))
    m = {"version": 1,
         "setup_cmd": "bin/check --setup",
         "hooks": hooks,
         "engines": [{"name": "rocq-proof", "path": "bin/check", "serves_properties": sorted(CLAIMED),
                      "kind_free_text": "Coq 8.16.1 development (coq/) + translator (lib/translate.py) + Rust harness (harness/) "
                                        "+ extracted OCaml model driver (driver/)"}],
         "checks": checks,
         "not_applicable": na,
         "notes": "All checks: bin/check <id> --tier quick|thorough [--replay file]. See DESIGN.md. When the sources a property's model "
                  "covers differ from the audited baseline (lib/source_baseline.json) a quick command makes further search passes after an "
                  "OK first pass (denser generators / further seeds / a differential search whose candidates the correspondence decides) "
                  "and may take a few minutes; on the unchanged tree nothing is escalated. VERIF_NO_ESCALATE=1 / VERIF_NO_FUZZ=1 switch "
                  "the extra passes / the differential search off."}
    json.dump(m, open(os.path.join(VERIF, "MANIFEST.json"), "w"), indent=1)
    print("MANIFEST.json: %d checks, %d not_applicable" % (len(checks), len(na)))


if __name__ == "__main__":
    main()
