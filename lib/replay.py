"""bin/check <Cxx> --replay <file>: re-run exactly the cases recorded in a replay file on the
current implementation and the current model, and print them side by side."""
import json
import core


def run(ctx, mod, path):
    r = json.load(open(path))
    ctx.translate()
    core.coq_make(["Model/Dispatch.vo"])
    cases = []
    for sec in ("failing", "disagreements"):
        for e in r.get(sec, []):
            if e.get("case") and e["case"] not in [c for c, _ in cases]:
                cases.append((e["case"], e))
    print("replay of %s (%s): %d recorded cases" % (r.get("property"), r.get("kind"), len(cases)))
    for o in r.get("broken_obligations", []):
        print("  broken obligation:", o)
    if not cases:
        return 0
    by_cfg = {}
    rc = 0
    builds = [(c, e) for c, e in cases if e.get("suite") == "BUILD"]
    cases = [(c, e) for c, e in cases if e.get("suite") != "BUILD"]
    for c, e in builds:
        # C18 BUILD: the recorded case is a cargo command line over /repo's current tree
        from props import c18
        brc, out = c18.cargo_build(c18.spec_of_label(c), "rp")
        errs = [l for l in out.split("\n") if l.startswith("error")]
        print("  [BUILD] %s\n     now : %s\n     recorded: %s" % (c[:300], "builds" if brc == 0 else "FAILS: " + " ;; ".join(errs[:4])[:600],
                                                                  str(e.get("impl"))[:200]))
        if brc != 0:
            rc = 1
    for c, e in cases:
        by_cfg.setdefault((e.get("config", "default"), tuple(e.get("flags", []))), []).append((c, e))
    for (cfg, flags), lst in by_cfg.items():
        hb = ctx.harness(cfg)
        db = ctx.driver()
        lines = [c for c, _ in lst if not c.startswith("lenrle")]
        if hb is None:
            print("  harness build failed")
            return 1
        impl = core.run_cases(hb, lines, tag="rp")
        model = core.run_cases(db, lines, extra_args=list(flags), tag="rpm") if db else [""] * len(lines)
        for (c, e), i, m in zip(lst, impl, model):
            nomodel = m.startswith("MODEL-UNKNOWN-OP")      # implementation-only predicate suites have no model side
            same = "NO-MODEL" if nomodel else ("AGREE" if i == m else "DIFFER")
            print("  [%s/%s] %s\n     impl : %s\n     model: %s\n     recorded impl: %s ; what: %s" %
                  (cfg, same, c[:400], i[:400], m[:400], str(e.get("impl"))[:200], e.get("what", "")))
            # still failing = the implementation still differs from the model on this input, or still gives the
            # output that was recorded as the property violation
            if (i != m and not nomodel) or (e.get("what") and i == e.get("impl")):
                rc = 1
    return rc
