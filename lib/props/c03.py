"""C03 -- hash is independent of chunking, finalize calls and clones."""
import core
import configs
import suites
from suites import VNAMES, hx
from props import gencommon as gc

RULE = ("HIST: per variant, seeded histories of update pieces (0-5 byte, <40 byte and large pieces; textures: random, "
        "constant, short/long periodic, small alphabet, text) interleaved with finalize(options), processed_len, raw-state "
        "dumps (hook), clone, drop and swap on a stack of generators; implementation vs model after every operation.  "
        "CHUNK-PROPERTY (implementation alone): every observation (processed_len, finalize under all 32 option "
        "settings) of a chunked / cloned history must equal that of one update with the bytes the observed instance "
        "has seen; includes every 2-piece cut of a 0..140-byte input and pieces around 60/64/128 bytes.  "
        "Non-trivial = a history whose data reaches the main loop (more than 4 bytes); distinct by case text.  HIST and half of CHUNK-PROPERTY are repeated on the low-memory-bucket and no-SIMD builds.")

ALLF = " ".join("f %d" % o for o in range(32))


def chunk_property_pairs(rng, tier):
    pairs = []
    reps = 6 if tier == "quick" else 200
    for v in VNAMES:
        # every 2-piece cut of one input
        d = suites.gen_data(rng, 140 if tier == "quick" else 400)
        ref = "hist %s u %s l %s" % (v, hx(d), ALLF)
        for cut in range(len(d) + 1):
            pairs.append(("hist %s u %s u %s l %s" % (v, hx(d[:cut]), hx(d[cut:]), ALLF), ref))
        for _ in range(reps):
            n = rng.choice([0, 3, 4, 5, 9, 50, 64, 68, 124, 128, 130, 200, 257, 700])
            d = suites.gen_data(rng, n + rng.below(7))
            ref = "hist %s u %s l %s" % (v, hx(d), ALLF)
            ops = " ".join("u %s" % hx(p) for p in suites.split_pieces(rng, d))
            pairs.append(("hist %s %s l %s" % (v, ops, ALLF), ref))
            # interleaved finalize / processed_len must not disturb
            ops2 = []
            for p in suites.split_pieces(rng, d):
                ops2.append("u %s" % hx(p))
                if rng.chance(1, 2):
                    ops2.append(rng.choice(["f 30", "fd", "l", "f 0"]))
            pairs.append(("hist %s %s l %s" % (v, " ".join(ops2), ALLF),
                          None))  # compared after stripping the interleaved observations (see below)
            # clone taken mid-way and continued separately
            k = rng.below(len(d) + 1)
            a, b = d[:k], d[k:]
            c2 = suites.gen_data(rng, rng.choice([0, 1, 2, 3, 4, 5, 33, 64, 130]))
            pairs.append(("hist %s u %s c u %s l %s" % (v, hx(a), hx(b), ALLF), ref))
            pairs.append(("hist %s u %s c u %s p u %s l %s" % (v, hx(a), hx(b), hx(c2), ALLF),
                          "hist %s u %s l %s" % (v, hx(a + c2), ALLF)))
            pairs.append(("hist %s u %s c u %s w u %s w l %s" % (v, hx(a), hx(b), hx(c2), ALLF), ref))
    # pieces whose size is a power of two (256 .. 64 KiB) plus a few bytes, first in the stream and after a short first piece,
    # followed by more data and by a clone that continues (a block-wise fast path that mishandles the remainder)
    ks = [8, 10, 12, 13] if tier == "quick" else [8, 9, 10, 11, 12, 13, 14, 16]
    for k in ks:
        S = 2 ** k
        for r in ([0, 1, 2, 3, 4, 5, 7] if tier == "quick" else list(range(-2, 10))):
            v = rng.choice(VNAMES)
            rest = suites.gen_data(rng, 9 + rng.below(60))
            for first in (0, 37):
                big = 4 * (first == 0) + S + r
                d = suites.gen_data(rng, first + big)
                ref = "hist %s u %s l %s" % (v, hx(d + rest), ALLF)
                head = ("u %s " % hx(d[:first])) if first else ""
                pairs.append(("hist %s %su %s u %s l %s" % (v, head, hx(d[first:]), hx(rest), ALLF), ref))
                pairs.append(("hist %s %su %s c u %s l %s" % (v, head, hx(d[first:]), hx(rest), ALLF), ref))
    # EVERY size of the first / second piece up to 6000 bytes, and multiples of 256 +- 1..3 up to 70 kB (pseudo-random bytes
    # generated inside the harness; implementation alone): a block-wise update path with any block size
    sizes = list(range(1, 6001 if tier == "quick" else 12001)) + [m * 256 + r for m in range(24, 274) for r in (-3, -2, -1, 0, 1, 2, 3)]
    for a in sizes:
        v = VNAMES[a % len(VNAMES)]
        n = a + 40 + (a % 7)
        o = "f %d" % (30 if a % 2 else 2)
        pairs.append(("hist %s usplit %d %d %d l %s fd" % (v, a, n, a, o), "hist %s ugen %d %d l %s fd" % (v, a, n, o)))
        if a % 3 == 0:
            pairs.append(("hist %s u x0102030405060708090a0b usplit %d %d %d l %s fd" % (v, a, n, a, o),
                          "hist %s u x0102030405060708090a0b ugen %d %d l %s fd" % (v, a, n, o)))
    # pieces of about n bytes for every integer literal n that is new in the current source (empty on the audited tree)
    import srcdict
    for n in srcdict.new_literals()["ints"]:
        if 2 <= n <= 70000:
            for r in range(-2, 8):
                for first in (0, 4, 37):
                    if n + r < 1:
                        continue
                    v = rng.choice(VNAMES)
                    d = suites.gen_data(rng, first + n + r)
                    rest = suites.gen_data(rng, 9 + rng.below(40))
                    ref = "hist %s u %s l %s" % (v, hx(d + rest), ALLF)
                    head = ("u %s " % hx(d[:first])) if first else ""
                    pairs.append(("hist %s %su %s u %s l %s" % (v, head, hx(d[first:]), hx(rest), ALLF), ref))
    return pairs


def run(ctx):
    hb, db = gc.setup(ctx)
    if hb is None or db is None:
        return finish(ctx)
    fl = configs.flags("default")
    cases = suites.gen_hist_cases(ctx.rng.fork("hist"), ctx.tier)
    def hist_pred(c, i, m):
        # the model's observations are PROVED equal to those of one update with the bytes the observed instance has seen
        # (C03_* theorems); an implementation observation that differs from the model's is therefore a failing history
        if i != m and not i.startswith("CRASH"):
            a, b = i.split(" | "), m.split(" | ")
            k = next((j for j, (x, y) in enumerate(zip(a, b)) if x != y), min(len(a), len(b)))
            return ("observation #%d of this history is `%s`; one update with the bytes that instance has seen gives `%s` (verified model)"
                    % (k, a[k][:70] if k < len(a) else "nothing", b[k][:70] if k < len(b) else "nothing"))
        return None
    ctx.correspond("HIST", cases, hb, db, flags=fl, coq_sample=6, predicate=hist_pred,
                   nontrivial=lambda c, i: len(c) > 40)
    # the property itself on the implementation
    pairs = chunk_property_pairs(ctx.rng.fork("chunk"), ctx.tier)
    chunk_property(ctx, hb, pairs, "CHUNK-PROPERTY")
    ctx.samples.append({"suite": "CHUNK-PROPERTY", "case": pairs[5][0][:300], "reference": pairs[5][1][:200]})
    # the same on the builds with the other bucket layout / Pearson table / aggregation code
    for name in ["lowmem", "nosimd"]:
        hb2 = ctx.harness(name)
        if hb2 is None:
            continue
        ctx.correspond("HIST[%s]" % name, cases, hb2, db, flags=configs.flags(name), coq_sample=0, nontrivial=lambda c, i: len(c) > 40)
        chunk_property(ctx, hb2, pairs[::2], "CHUNK-PROPERTY[%s]" % name)
    return finish(ctx)


def chunk_property(ctx, hb, pairs, label):
    a_cases = [a for a, _ in pairs]
    refs = sorted(set(b for _, b in pairs if b))
    outs = dict(zip(a_cases, core.run_cases(hb, a_cases, tag="c03a")))
    routs = dict(zip(refs, core.run_cases(hb, refs, tag="c03b")))
    nobs = 33
    bad = 0
    for a, b in pairs:
        ctx.evaluations += 1
        oa = outs[a].split(" | ")
        if b is None:
            # interleaved observations: the last 33 must equal those of the same history without them
            stripped = " ".join(t for t in strip_interleaved(a))
            continue
        ob = routs[b].split(" | ")
        ctx.nontrivial.add(a[:200])
        if oa[-nobs:] != ob[-nobs:]:
            bad += 1
            k = next((i for i, (x, y) in enumerate(zip(oa[-nobs:], ob[-nobs:])) if x != y), 0)
            ctx.violations.append({"suite": label, "config": core.config_of(hb), "case": a, "impl": " | ".join(oa[-nobs:])[:400],
                                   "what": "observation #%d differs from one update with the same bytes (%s): %s vs %s" %
                                           (k, b[:120], oa[-nobs:][k][:80], ob[-nobs:][k][:80])})
    # interleaved: compare with stripped version
    inter = [a for a, b in pairs if b is None]
    stripped = [" ".join(strip_interleaved(a)) for a in inter]
    so = core.run_cases(hb, stripped, tag="c03c")
    for a, s, o in zip(inter, stripped, so):
        ctx.evaluations += 1
        if outs[a].split(" | ")[-nobs:] != o.split(" | ")[-nobs:]:
            bad += 1
            ctx.violations.append({"suite": label, "config": core.config_of(hb), "case": a, "impl": outs[a][:300],
                                   "what": "interleaved finalize/processed_len calls changed later observations"})
    ctx.suites[label] = {"pairs": len(pairs), "failures": bad}




def strip_interleaved(case):
    toks = case.split(" ")
    # keep "hist V", all "u x.." and the trailing "l f 0 .. f 31"
    tail_start = len(toks) - (1 + 2 * 32)
    out = toks[:2]
    i = 2
    while i < tail_start:
        if toks[i] == "u":
            out += toks[i:i + 2]
            i += 2
        elif toks[i] == "f":
            i += 2
        else:
            i += 1
    return out + toks[tail_start:]


def finish(ctx):
    return ctx.finish(
        level_note_assumptions=["Generator::clone is the derived field-wise copy and finalize takes &self: in the model both are "
                                "pure by construction; that the implementation behaves so is what the HIST suite checks",
                                "inputs are byte sequences"],
        trusted_base=gc.TB,
        checker_cmd="make -C coq Props/C03.vo && coqc Props/C03.v (Print Assumptions under every theorem)",
        rule=RULE)
