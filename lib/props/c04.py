"""C04 -- hex text form round-trips and is canonical."""
import core
import configs
import suites
from props import hexcommon as hc

RULE = ("HEX-RT: per variant, seeded plausible/random/degenerate hashes through Display, to_string, "
        "store_into_str_bytes (both prefixes), every parse entry point (auto/with/empty, mixed letter case, "
        "FromStr, from_str_with), plus every value of every header byte and of one body byte.  HEX-CHAIN: "
        "parse(format(h)) == h and format(parse(s)) == T1+upper(strip(s)) evaluated on the implementation alone.  HEX-CANONICAL: the near-valid stream (single/double damage at every position, all 65536 byte pairs at a header and a body digit-pair position): every string the parser accepts must re-format to T1 + its own upper-cased digits. "
        "HEX-RT and HEX-CANONICAL are repeated on the builds that compile the other hex tables/decoders (no hex-simd; half, quarter, min decode tables; half, min encode tables), each against the model under the matching flags. "
        "Non-trivial = a case whose outcome is ok/value (a real round trip), distinct by case text.")


def run(ctx):
    hb, db = hc.setup(ctx)
    if hb is None or db is None:
        return finish(ctx)
    fl = configs.flags("default")
    cases = suites.hex_roundtrip_cases(ctx.rng.fork("rt"), ctx.tier)

    def pred(c, i, m):
        return hc.pred_display(c, i, m) or hc.pred_store(c, i, m) or hc.pred_parse_lenient(c, i, m)

    ctx.correspond("HEX-RT", cases, hb, db, flags=fl, predicate=pred,
                   nontrivial=lambda c, i: i.startswith("ok") or i.startswith("x"))
    hc.run_roundtrip_chain(ctx, hb, ctx.rng.fork("chain"), ctx.tier)
    # canonicity on NEAR-valid strings: whatever the parser accepts must re-format to "T1" + its own
    # upper-cased digits (so no two different accepted strings, up to case/prefix, denote one hash)
    near = [c for c in suites.hex_malformed_cases(ctx.rng.fork("near"), ctx.tier) if c.startswith("parse")]
    near += suites.hex_pair_sweep_cases(ctx.rng.fork("nearsweep"), ctx.tier)
    ctx.correspond("HEX-CANONICAL", near, hb, db, flags=fl, predicate=pred_canonical, coq_sample=6,
                   nontrivial=lambda c, i: i.startswith("ok"))
    # the same two suites on the builds that compile the OTHER hex tables / decoders (table encoders and decoders without hex-simd;
    # half / quarter / min decode tables; half / min encode tables): the property is about every build's text form
    others = ["nosimd", "embedded", "lowmem", "decq", "decmin", "simd-decmin"]
    near2 = [c for c in near if c.startswith("parse")][:: (3 if ctx.tier == "quick" else 1)]
    for name in others:
        hb2 = ctx.harness(name)
        if hb2 is None:
            continue
        fl2 = configs.flags(name)
        ctx.correspond("HEX-RT[%s]" % name, cases, hb2, db, flags=fl2, predicate=pred, coq_sample=0,
                       nontrivial=lambda c, i: i.startswith("ok") or i.startswith("x"))
        ctx.correspond("HEX-CANONICAL[%s]" % name, near2, hb2, db, flags=fl2, predicate=pred_canonical, coq_sample=0,
                       nontrivial=lambda c, i: i.startswith("ok"))
    return finish(ctx)


def pred_canonical(c, i, m):
    import pyref
    p = c.split(" ")
    if not i.startswith("ok "):
        return None
    v, s = p[1], pyref.unhex(p[3])
    digits = s[2:] if len(s) == suites.VARIANTS[v][4] else s
    canon = pyref.fmt(v, pyref.unhex(i.split(" ")[1]))
    try:
        own = b"T1" + digits.decode("ascii").upper().encode()
    except UnicodeDecodeError:
        own = None
    if canon != own:
        return ("accepted string does not re-format to T1 + its own upper-cased digits (re-formats to %s): two different "
                "accepted strings denote one hash" % canon.decode())
    return None


def finish(ctx):
    return ctx.finish(
        level_note_assumptions=["inputs are byte sequences (elements < 256); hash values have the variant's array sizes",
                                "hex-simd by contract (see trusted base)"],
        trusted_base=hc.TB,
        checker_cmd="make -C coq Props/C04.vo && coqc Props/C04.v (Print Assumptions under every theorem)",
        rule=RULE)
