"""C04 -- hex text form round-trips and is canonical."""
import core
import configs
import suites
from props import hexcommon as hc

RULE = ("HEX-RT: per variant, seeded plausible/random/degenerate hashes through Display, to_string, "
        "store_into_str_bytes (both prefixes), every parse entry point (auto/with/empty, mixed letter case, "
        "FromStr, from_str_with), plus every value of every header byte and of one body byte.  HEX-CHAIN: "
        "parse(format(h)) == h and format(parse(s)) == T1+upper(strip(s)) evaluated on the implementation alone. "
        "Non-trivial = a case whose outcome is ok/value (a real round trip), distinct by case text.")


def run(ctx):
    hb, db = hc.setup(ctx)
    if hb is None or db is None:
        return finish(ctx)
    fl = configs.flags("default")
    cases = suites.hex_roundtrip_cases(ctx.rng.fork("rt"), ctx.tier)

    def pred(c, i, m):
        return hc.pred_display(c, i, m) or hc.pred_store(c, i, m) or hc.pred_parse_lenient(c, i, m)

    ctx.correspond("HEX-RT", cases, hb, db, flags=fl, predicate=pred,
                   nontrivial=lambda c, i: i.startswith("ok") or i.startswith("x"))
    hc.run_roundtrip_chain(ctx, hb, ctx.rng.fork("chain"), ctx.tier)
    return finish(ctx)


def finish(ctx):
    return ctx.finish(
        level_note_assumptions=["inputs are byte sequences (elements < 256); hash values have the variant's array sizes",
                                "hex-simd by contract (see trusted base)"],
        trusted_base=hc.TB,
        checker_cmd="make -C coq Props/C04.vo && coqc Props/C04.v (Print Assumptions under every theorem)",
        rule=RULE)
