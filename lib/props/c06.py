"""C06 -- binary form round-trips; binary, hex and accessors describe the same parts."""
import core
import configs
import suites
import pyref
from suites import VARIANTS
from props import hexcommon as hc

RULE = ("BIN: per variant, seeded plausible/random/degenerate byte arrays through TryFrom<&[u8;N]>, TryFrom<&[u8]>, "
        "store_into_bytes, the part accessors (checksum, length, Q byte, q1/q2, body, every bucket's quartile), "
        "Display, clear_checksum; every value of every header byte; slices of every length 0..2*SIZE+2; quartile "
        "indices around the bucket count.  Each case is decided against the property text and the model.  "
        "Non-trivial = outcome other than a length rejection; distinct by case text.")


def pred(c, i, m):
    p = c.split(" ")
    op = p[0]
    if op in ("frombytes", "fromarray"):
        v, b = p[1], pyref.unhex(p[2])
        if i.startswith("PANIC") or i.startswith("CRASH"):
            return "conversion did not return normally"
        if len(b) != VARIANTS[v][3]:
            return None if i == "err InvalidStringLength" else "a slice of the wrong length must be rejected with InvalidStringLength"
        if i != "ok " + core.hx(b):
            return "store(try_from(b)) != b"
        return None
    if op == "parts":
        v, b = p[1], pyref.unhex(p[2])
        if i.startswith("hasherr"):
            return None
        g = i.split(" ")
        if len(g) != 9:
            return "accessors did not return normally"
        ck = VARIANTS[v][0]
        if pyref.unhex(g[0]) != b[:ck] or int(g[1]) != b[ck] or int(g[2]) != b[ck + 1]:
            return "checksum/length/q accessors disagree with the binary layout"
        if int(g[3]) != (b[ck + 1] & 15) or int(g[4]) != (b[ck + 1] >> 4):
            return "Q2 must be the high nibble and Q1 the low nibble of the Q-ratio byte"
        body = b[ck + 2:]
        if pyref.unhex(g[5]) != body:
            return "body accessor disagrees with the binary layout"
        qs = pyref.unhex(g[6])
        for k in range(VARIANTS[v][1]):
            if qs[k] != (body[len(body) - 1 - k // 4] >> (2 * (k % 4))) & 3:
                return "quartile(%d) is not bits %d.. of body byte %d" % (k, 2 * (k % 4), len(body) - 1 - k // 4)
        return None
    if op == "quartile":
        v, idx = p[1], int(p[3])
        if idx >= VARIANTS[v][1]:
            return None if i.startswith("PANIC") else "out-of-range bucket index must panic (documented)"
        return "in-range bucket index panicked" if i.startswith("PANIC") else None
    if op == "clearcks":
        v, b = p[1], pyref.unhex(p[2])
        if i.startswith("hasherr"):
            return None
        ck = VARIANTS[v][0]
        if not i.startswith("x") or pyref.unhex(i) != bytes(ck) + b[ck:]:
            return "clear_checksum must zero the checksum bytes and nothing else"
        return None
    if op == "display":
        return hc.pred_display(c, i, m)
    if op == "storebytes":
        return hc.pred_store(c, i, m)
    return None


def run(ctx):
    hb, db = hc.setup(ctx)
    if hb is None or db is None:
        return finish(ctx)
    fl = configs.flags("default")
    rng = ctx.rng.fork("bin")
    cases = [c for c in suites.hex_roundtrip_cases(rng, ctx.tier)
             if c.split(" ")[0] in ("frombytes", "fromarray", "parts", "quartile", "clearcks", "display", "storebytes", "consts")]
    cases += [c for c in suites.hex_malformed_cases(ctx.rng.fork("mal"), ctx.tier) if c.startswith("frombytes")]
    # storing into buffers of other sizes than the exact one (then the stored bytes convert back)
    cases += [c for c in suites.hex_buffer_cases(ctx.rng.fork("buf"), ctx.tier) if c.startswith("storebytes")]
    ctx.correspond("BIN", cases, hb, db, flags=fl, predicate=pred,
                   nontrivial=lambda c, i: "InvalidStringLength" not in i)
    # equality, Clone / clone_from / Copy, Debug stability and the equality of the parts, on equal, one-byte-different and random pairs
    tr = []
    r2 = ctx.rng.fork("traits")
    for v in suites.VNAMES:
        size = suites.VARIANTS[v][3]
        for _ in range(12 if ctx.tier == "quick" else 400):
            a = bytearray(suites.plausible_bin(r2, v))
            tr.append("traits %s %s %s" % (v, core.hx(a), core.hx(a)))
            tr.append("traits %s %s %s" % (v, core.hx(a), core.hx(suites.plausible_bin(r2, v))))
        base = bytearray(suites.plausible_bin(r2, v))
        for pos in range(size):                       # a difference in exactly one byte, at every position
            b = bytearray(base)
            b[pos] ^= 1 << r2.below(8)
            tr.append("traits %s %s %s" % (v, core.hx(base), core.hx(b)))
            tr.append("traits %s %s %s" % (v, core.hx(b), core.hx(base)))

    def tpred(c, i, m):
        if i != m:
            return "equality / Clone / clone_from / Debug of hash values or of their parts disagrees with the bytes: `%s` (model `%s`)" % (i[:60], m[:60])
        return None
    ctx.correspond("TRAITS", tr, hb, db, flags=fl, predicate=tpred, coq_sample=4, nontrivial=lambda c, i: True)
    return finish(ctx)


def finish(ctx):
    return ctx.finish(
        level_note_assumptions=["bitfield-struct 4+4 bit field modelled as q1 + 16*q2",
                                "hash values have the variant's array sizes; bytes < 256"],
        trusted_base=hc.TB,
        checker_cmd="make -C coq Props/C06.vo && coqc Props/C06.v (Print Assumptions under every theorem)",
        rule=RULE)
