"""C01 -- generated hashes equal the TLSH reference algorithm for every input."""
import core
import configs
import suites
from suites import VNAMES, hx
from props import gencommon as gc

RULE = ("GEN-HASH: per variant, inputs at every length threshold and larger ones (up to 5 kB quick / 70 kB thorough) in "
        "seven textures, each under all 32 option settings (integer and legacy f32 Q-ratio modes); implementation vs model "
        "AND implementation vs the extracted reference Spec.spec_tlsh (the property predicate).  INJECT: finalization of "
        "injected raw states with bucket counters near 2^24, 2^25/100 (where u32*100 wraps), 2^31, 2^32 and crafted non-zero "
        "counts 17/18, 64/65, 128/129, under random options.  BMAP: the salted Pearson mapping on all 65536 (b1,b2) pairs for "
        "both bucket foldings and every salt, plus random quadruples.  KNOWN-ANSWERS: the repository's own vectors.  "
        "Non-trivial = the case reaches finalization past the length gate; distinct by case text.  A third of GEN-HASH (decided against the reference's outputs) and INJECT are repeated on the builds with the other generator code: low-memory buckets + single Pearson table, naive aggregation, statically selected SSE2 aggregation.")

KNOWN = [
    ("N", 2, b"Lovak won the squad prize cup for sixty big jumps.", "T14A90024954691E114404124180D942C1450F8423775ADE1510211420456593621A8173"),
    ("N", 6, b"The quick brown fox jumps over the lazy dog.", "T19E90024A21181294648A1888438D94B292C8C510612114116430600218082219C98551"),
]


def bmap_cases(rng, tier):
    cases = []
    for kind in (48, 256):
        for salt in (0, 2, 3, 5, 7, 11, 13):
            c, d = rng.below(256), rng.below(256)
            step = 1 if (tier != "quick" or salt in (0, 2)) else 17
            for a in range(0, 256, step):
                for b in range(256):
                    cases.append("bmap %d %d %d %d %d" % (kind, salt, a, b, c if salt else d))
        for _ in range(3000 if tier == "quick" else 200000):
            cases.append("bmap %d %d %d %d %d" % (kind, rng.below(256), rng.below(256), rng.below(256), rng.below(256)))
    for _ in range(2000):
        cases.append("pearson %d %d %d" % (rng.below(256), rng.below(256), rng.below(256)))
    return cases


def run(ctx):
    hb, db = gc.setup(ctx)
    if hb is None or db is None:
        return finish(ctx)
    fl = configs.flags("default")
    cases = suites.gen_hash_cases(ctx.rng.fork("hash"), ctx.tier)
    for v, o, d, _ in KNOWN:
        cases.append("hash %s %d %s" % (v, o, hx(d)))
    rows = ctx.correspond("GEN-HASH", cases, hb, db, flags=fl, coq_sample=6,
                          nontrivial=lambda c, i: not ("TooSmallInput" in i or "TooLargeInput" in i))
    # the property predicate: implementation vs the reference itself
    spec_cases = ["spec_" + c for c in cases if c.startswith("hash ")]
    spec_out = core.run_cases(db, spec_cases, extra_args=list(fl), tag="c01s")
    impl = {r[0]: r[1] for r in rows}
    nbad = 0
    for sc, so in zip(spec_cases, spec_out):
        c = sc[5:]
        ctx.evaluations += 1
        if so.startswith("CRASH"):
            # the reference driver died (not a statement about /repo): a broken obligation, never a failing input
            if not any("reference driver crashed" in o for o in ctx.obligation_failures):
                ctx.obligation_failures.append("reference driver crashed on `%s...` (%s)" % (c[:80], so[:80]))
            continue
        if impl[c] != so:
            nbad += 1
            ctx.violations.append({"suite": "GEN-VS-REFERENCE", "case": c, "impl": impl[c], "model": so,
                                   "what": "finalize_with_options(update(new(), data), options) != reference_tlsh(data, variant, options)"})
    ctx.suites["GEN-VS-REFERENCE"] = {"cases": len(spec_cases), "failures": nbad}
    for v, o, d, h in KNOWN:
        import pyref
        exp = "ok " + hx(pyref.parse_lenient(v, h.encode(), "auto")[1])
        if impl["hash %s %d %s" % (v, o, hx(d))] != exp:
            ctx.violations.append({"suite": "KNOWN-ANSWERS", "case": "hash %s %d %s" % (v, o, hx(d)),
                                   "impl": impl["hash %s %d %s" % (v, o, hx(d))], "what": "known answer %s" % h})
    # length code vs the reference at every boundary of the PUBLISHED table; a differing length is turned into a whole-hash witness
    import pyref
    probes = sorted(set(x for tv in pyref.spec_topval() for x in (tv - 1, tv, tv + 1) if 0 <= x < 2 ** 32))
    lout = core.run_cases(hb, ["len_new %d" % x for x in probes], tag="c01l")
    sout = core.run_cases(db, ["spec_len %d" % x for x in probes], extra_args=list(fl), tag="c01ls")
    bad_lens = [x for x, a, b in zip(probes, lout, sout) if a != b]
    ctx.evaluations += len(probes)
    ctx.suites["LEN-VS-REFERENCE"] = {"cases": len(probes), "failures": len(bad_lens)}
    wrng = ctx.rng.fork("lenwitness")
    for x in [y for y in bad_lens if y <= 4 * 1024 * 1024][:2]:
        case = "hash N 30 %s" % hx(suites.gen_data(wrng, x, 0))
        io = core.run_cases(hb, [case], shards=1, tag="c01w")[0]
        so = core.run_cases(db, ["spec_" + case], extra_args=list(fl), shards=1, tag="c01ws")[0]
        if io != so and not so.startswith("CRASH"):
            ctx.violations.append({"suite": "GEN-VS-REFERENCE", "case": case if len(case) < 4000 else "hash N 30 <%d pseudo-random bytes, seed-derived> %s..." % (x, case[:200]),
                                   "impl": io, "model": so, "what": "an input of %d bytes: finalize gives %s, the reference gives %s (length code)" % (x, io[:60], so[:60])})
    for x in bad_lens[:20]:
        ctx.violations.append({"suite": "LEN-VS-REFERENCE", "case": "len_new %d" % x, "impl": lout[probes.index(x)], "model": sout[probes.index(x)],
                               "what": "the length code of %d bytes differs from the reference's" % x})
    inj = suites.gen_inject_cases(ctx.rng.fork("inj"), ctx.tier if ctx.tier != "quick" else "quick")
    # more finalize-heavy injected cases
    rng = ctx.rng.fork("inj2")
    for v in VNAMES:
        nb = suites.VARIANTS[v][1]
        ck = suites.VARIANTS[v][0]
        for _ in range(12 if ctx.tier == "quick" else 400):
            base = rng.choice([2 ** 24 - 2, 2 ** 24, 42949672, 42949673, 2 ** 31 - 3, 2 ** 32 - 300, 1000, 16777219])
            bk = [(base + rng.below(5)) % 2 ** 32 if rng.chance(3, 4) else rng.below(2 ** 32) for _ in range(256)]
            ops = " ".join("f %d" % o for o in (0, 2, 16, 18, rng.below(32), rng.below(32)))
            inj.append("hist %s inject %s %d %s %s 4 %s" % (v, hx(suites.le32s(bk)), 100000 + rng.below(10 ** 6), hx(rng.bytes(ck)),
                                                              hx(rng.bytes(4)), ops))
    def inj_pred(c, i, m):
        # the model's finalize is proved equal to the reference formulas applied to the state's counters
        # (Q ratios in both modes, quartiles, body, gates); the injected state stands for the multi-GiB
        # input that reaches it
        if i != m and not i.startswith("CRASH"):
            a, b = i.split(" | "), m.split(" | ")
            k = next((j for j, (x, y) in enumerate(zip(a, b)) if x != y), 0)
            return ("finalization of a generator state with these bucket counters differs from the reference formulas "
                    "(observation #%d: %s vs %s)" % (k, a[k][:80] if k < len(a) else "", b[k][:80] if k < len(b) else ""))
        return None
    ctx.correspond("INJECT", inj, hb, db, flags=fl, coq_sample=4, predicate=inj_pred,
                   nontrivial=lambda c, i: "ok" in i)
    ctx.correspond("BMAP", bmap_cases(ctx.rng.fork("bmap"), ctx.tier), hb, db, flags=fl, coq_sample=8)
    # long runs inside varied data, fed as ONE slice (a block-local counter that wraps, a run-length shortcut): every byte value for
    # the 48-bucket variant, byte pairs for the others; first the implementation against itself (one slice vs 4 KiB pieces, cheap),
    # then the differing inputs against the reference through the model (~9 s each)
    lr = ctx.rng.fork("longrun")
    one, pieces = [], []
    for b in range(256):
        for v, b2 in (("S", b), ("N", lr.below(256)), ("L", lr.below(256))) if (ctx.tier != "quick" or b % 4 == 0) else (("S", b),):
            # run lengths just above 2^16/k (k = 2, 3, 1): k increments per byte into one bucket then total slightly more than 2^16
            for n in (32768 + 3 + lr.below(40), 21846 + 2 + lr.below(30), 65536 + 5 + lr.below(40)):
                head = "hist %s ugen %d 9000 " % (v, 1 + b)
                tail = " ugen %d 7000 l f 30 f 2 fd" % (300 + b)
                one.append(head + "urun %d %d %d 0" % (b, b2, n) + tail)
                pieces.append(head + "urun %d %d %d 4096" % (b, b2, n) + tail)
    o1 = core.run_cases(hb, one, tag="c01r1")
    o2 = core.run_cases(hb, pieces, tag="c01r2")
    suspects = [c for c, a, b in zip(one, o1, o2) if a != b][:3]
    ctx.evaluations += 2 * len(one)
    ctx.suites["LONG-RUN"] = {"cases": len(one), "one_slice_vs_pieces_differences": len([1 for a, b in zip(o1, o2) if a != b])}
    if suspects:
        def lr_pred(c, i, m):
            if i != m:
                return "a long run fed as one slice: the implementation gives `%s`, the reference (through the verified model) `%s`" % (i[:90], m[:90])
            return None
        ctx.correspond("LONG-RUN-VS-REFERENCE", suspects, hb, db, flags=fl, predicate=lr_pred, coq_sample=0, nontrivial=lambda c, i: True)
    # the builds that compile the OTHER generator code: no SIMD aggregation + single Pearson table + low-memory buckets (lowmem),
    # naive aggregation with the default tables (nosimd), statically selected SSE2 aggregation: a third of GEN-HASH decided against
    # the reference's outputs computed above, and the injected states against the model
    spec_of = dict(zip([sc[5:] for sc in spec_cases], spec_out))
    sub = [c for c in cases if c.startswith("hash ")][::3]
    if ctx.tier != "quick":
        sub = [c for c in sub if len(c) < 12000]      # the model costs ~130 us per input byte: the 70 kB inputs stay with the default build
    for name in ["lowmem", "nosimd", "static-sse2"]:
        hb2 = ctx.harness(name)
        if hb2 is None:
            continue
        fl2 = configs.flags(name)

        def ref_pred(c, i, m, name=name):
            so = spec_of.get(c, "")
            if so and not so.startswith("CRASH") and i != so:
                return "build `%s`: finalize_with_options(update(new(), data), options) != reference_tlsh(data, variant, options) = %s" % (name, so[:80])
            return None
        ctx.correspond("GEN-HASH[%s]" % name, sub, hb2, db, flags=fl2, coq_sample=0, predicate=ref_pred,
                       nontrivial=lambda c, i: not ("TooSmallInput" in i or "TooLargeInput" in i))
        ctx.correspond("INJECT[%s]" % name, inj, hb2, db, flags=fl2, coq_sample=0, predicate=inj_pred, nontrivial=lambda c, i: "ok" in i)
    return finish(ctx)


def finish(ctx):
    return ctx.finish(
        level_note_assumptions=[
            "reference = Spec/SpecGenerate.v (~120 lines) with its own golden v_table/topval (Spec/SpecTables.v), validated by "
            "known answers of the official implementation evaluated in Coq (Proofs/SpecSanity.v)",
            "for injected raw states (no input bytes exist) the oracle is the model's finalize, proved equal to an explicit value",
            "the saturating f32->u32 cast is shared by reference and model (the C reference is undefined there); a bound showing "
            "it is never reached is not proved"],
        trusted_base=gc.TB,
        checker_cmd="make -C coq Props/C01.vo && coqc Props/C01.v (Print Assumptions under every theorem)",
        rule=RULE)
