"""C12 -- stream and file helpers hash exactly the bytes the reader delivered."""
import core
import configs
import pyref
import suites
from suites import VNAMES, hx
from props import gencommon as gc

RULE = ("STREAM: scripted readers (harness ScriptReader; its read() sequence is modelled too): deliveries of 0..700-byte "
        "pieces with totals at every length threshold, LCG-generated streams in reads of at most k bytes (k from 1 to beyond "
        "the 1 MiB buffer), transient interruptions sprinkled at any point (before the first byte, between reads, before "
        "EOF, several in a row), hard errors of eight kinds before/between/after data, zero-length reads in the middle, "
        "readers that over-claim (lie); one > 1 MiB stream in quick, several in thorough.  Every case is decided on the "
        "implementation against the property (hash_stream(script) vs hash_buf(concatenation of the delivered bytes), first "
        "hard error returned as that IOError) and compared with the model.  FILE: real files of sizes 0 .. > 1 MiB through "
        "hash_file vs hash_buf of their contents; procfs pseudo-files whose metadata reports length 0; a missing path.  Non-trivial = the stream reaches finalization or an I/O "
        "error after at least one delivery; distinct by case text.")

KINDS = ["NotFound", "PermissionDenied", "UnexpectedEof", "TimedOut", "WouldBlock", "BrokenPipe", "InvalidData", "Other"]
BUF = 1048576


def lcg(state, n):
    out = bytearray()
    for _ in range(n):
        state = (state * 1664525 + 1013904223) & 0xFFFFFFFF
        out.append(state >> 24)
    return state, bytes(out)


def interpret(script):
    """Property-level reading of a script: (delivered bytes, outcome) with outcome None (EOF) | ('io', kind) | ('lie',).
    Interruptions are transient and skipped."""
    out = bytearray()
    for st in script:
        if st[0] == "d":
            out += st[1]
        elif st[0] == "gen":
            _, state, n, k = st
            if n == 0:
                continue
            if k == 0:
                return bytes(out), None     # the reader returns Ok(0): end of stream
            out += lcg(state, n)[1]
        elif st[0] == "i":
            continue
        elif st[0] in ("e", "eg"):
            return bytes(out), ("io", st[1])
        elif st[0] == "lie":
            return bytes(out), ("lie",)
    return bytes(out), None


def fmt(v, script):
    toks = []
    for st in script:
        if st[0] == "d":
            toks += ["d", hx(st[1])]
        elif st[0] == "gen":
            toks += ["gen", str(st[1]), str(st[2]), str(st[3])]
        elif st[0] == "i":
            toks.append("i")
        elif st[0] in ("e", "eg"):
            toks += [st[0], st[1]]
        elif st[0] == "lie":
            toks += ["lie", str(st[1])]
    return "stream %s %s" % (v, " ".join(toks))


def pieces(rng, data):
    out = []
    i = 0
    while i < len(data):
        k = rng.choice([1, 2, 3, 4, 5, 7, 16, 60, 61, 100, 257, 700])
        out.append(("d", data[i:i + k]))
        i += k
    return out


def sprinkle(rng, script, what, num, den):
    out = []
    for st in script:
        while rng.chance(num, den):
            out.append(what() if callable(what) else what)
        out.append(st)
    while rng.chance(num, den):
        out.append(what() if callable(what) else what)
    return out


def small_scripts(rng, tier):
    scripts = []
    n = 6 if tier == "quick" else 120
    for v in VNAMES:
        for L in [0, 1, 4, 5, 9, 10, 11, 49, 50, 51, 127, 128, 129, 300, 1000, 2500]:
            for _ in range(max(1, n // 6)):
                base = pieces(rng, suites.gen_data(rng, L))
                scripts.append((v, base))
                scripts.append((v, sprinkle(rng, base, ("i",), 1, 4)))
                scripts.append((v, [("i",)] * (1 + rng.below(3)) + base + [("i",)]))
        for _ in range(n):
            L = rng.choice([60, 200, 777, 3000])
            base = pieces(rng, suites.gen_data(rng, L))
            # a hard error somewhere (possibly after interruptions), data after it must not matter
            pos = rng.below(len(base) + 1)
            kind = rng.choice(KINDS)
            sc = sprinkle(rng, base[:pos], ("i",), 1, 6) + [("e", kind)] + base[pos:]
            scripts.append((v, sc))
            # zero-length read in the middle: the stream ends there
            sc = base[:pos] + [("gen", rng.below(2 ** 32), 10, 0)] + base[pos:]
            scripts.append((v, sc))
            # LCG streams in small reads
            sc = [("gen", rng.below(2 ** 32), rng.choice([50, 333, 4096, 20000]), rng.choice([1, 3, 64, 1000, 5000]))]
            scripts.append((v, sprinkle(rng, sc + base[:2], ("i",), 1, 3)))
            # over-claiming readers
            scripts.append((v, base[:pos] + [("lie", rng.choice([1, 2, 1000]))] + base[pos:]))
        scripts.append((v, [("e", "NotFound")]))
        scripts.append((v, [("i",), ("e", "BrokenPipe")]))
        scripts.append((v, [("i",)]))
        scripts.append((v, []))
    return scripts


def big_scripts(rng, tier):
    scripts = [("N", [("gen", 12345, BUF + 12345, 300001)]),
               ("S", [("gen", 777, BUF - 1, BUF + 5), ("i",), ("d", b"0123456789"), ("i",), ("gen", 9, 7, 3)])]
    # several whole buffers with a remainder, reads of exactly the buffer size followed by a short one, less common error kinds after
    # more than one buffer (decided on the implementation alone against hash_buf of the delivered bytes)
    scripts += [("N", [("gen", 21, 2 * BUF + 1, BUF)]), ("S", [("gen", 22, 2 * BUF, BUF)]), ("NL", [("gen", 23, BUF, BUF), ("gen", 24, 5, 5)]),
                ("L", [("gen", 25, 2 * BUF + 4097, BUF - 1)]), ("LL", [("gen", 26, BUF + 77, 65536), ("e", "UnexpectedEof")]),
                ("N", [("gen", 27, BUF, BUF), ("e", "WouldBlock"), ("gen", 28, 100, 100)]),
                ("S", [("gen", 29, 2 * BUF, BUF), ("i",), ("e", "InvalidData")])]
    import srcdict
    for n in srcdict.new_literals()["ints"]:
        if 2 <= n <= 4 * BUF:
            for r in (-1, 0, 1):
                scripts.append((rng.choice(VNAMES), [("gen", 31 + r, n + r, rng.choice([BUF, 4096, n + r]))]))
                scripts.append((rng.choice(VNAMES), [("gen", 41 + r, BUF + 9, n + r if n + r > 0 else 1)]))
    if tier != "quick":
        scripts += [("L", [("gen", 1, 2 * BUF + 1, 2 * BUF)]), ("NL", [("gen", 2, BUF, BUF), ("i",), ("gen", 3, BUF + 1, BUF)]),
                    ("LL", [("gen", 4, 3 * BUF, 65536), ("e", "TimedOut")]), ("N", [("gen", 5, BUF + 1, BUF), ("lie", 1)])]
    return scripts


def nested_cases(tier):
    cases = []
    for v in VNAMES:
        for on, inn, k in ((5000, 3000, 700), (300, 300, 64), (100, 9, 50), (70000, 40, 4096)) + (((BUF + 9, 70000, BUF),) if tier != "quick" or v == "N" else ()):
            cases.append("nested %s %d %d %d" % (v, on, inn, k))
    return cases


def nested_pred(c, i):
    """every hash_stream / hash_file call is independent of any other call in progress on the same thread"""
    if not i.startswith("outer "):
        return "hashing a stream whose reader itself hashes other streams/files did not return normally: `%s`" % i[:120]
    try:
        o, inn = i[len("outer "):].split(" ; inner ")
        got, want = o.split(" == ")
        ig, iw = inn.split(" == ")
    except ValueError:
        return "malformed nested output"
    if got != want:
        return "the outer stream's result `%s` differs from hash_buf of its bytes `%s`" % (got[:80], want[:80])
    for g in ig.split(" , "):
        if g != iw:
            return "a stream/file hashed from inside another reader's read() gives `%s`, hash_buf of the same bytes gives `%s`" % (g[:80], iw[:80])
    return None


def decide(ctx, suite, hb, scripts, impl_out):
    """the property predicate on the implementation: stream result vs hash_buf of the delivered bytes"""
    hcases = []
    for (v, sc) in scripts:
        data, _ = interpret(sc)
        hcases.append("hashbuf %s %s" % (v, hx(data)))
    hout = core.run_cases(hb, hcases, tag="c12h")
    for (v, sc), so, ho in zip(scripts, impl_out, hout):
        ctx.evaluations += 1
        data, end = interpret(sc)
        case = fmt(v, sc)
        if len(case) > 3000:
            case = case[:3000] + "..."
        what = None
        if end is None:
            want = ho.replace("err ", "generr ") if ho.startswith("err ") else ho
            if so != want:
                what = ("hash_stream returned `%s` but hashing the %d delivered bytes in one buffer returns `%s`" % (so[:90], len(data), ho[:90]))
        elif end[0] == "io":
            if so != "ioerr " + end[1]:
                what = "the reader's I/O error %s must be returned as IOError and no hash produced; got `%s`" % (end[1], so[:90])
        elif end[0] == "lie":
            if not so.startswith("PANIC"):
                what = "a reader claiming more than the buffer holds must cause a clean panic; got `%s`" % so[:90]
        if what:
            ctx.violations.append({"suite": suite, "case": fmt(v, sc) if len(fmt(v, sc)) < 20000 else case, "impl": so, "what": what})


def run(ctx):
    hb, db = gc.setup(ctx)
    if hb is None or db is None:
        return finish(ctx)
    fl = configs.flags("default")
    rng = ctx.rng.fork("stream")
    # corpus first: the minimised witness of the Interrupted defect
    corpus = [("N", [("d", bytes((i * 7) % 251 for i in range(100))), ("i",), ("d", bytes((i * 7) % 251 for i in range(100))),
                     ("d", bytes((i * 7) % 251 for i in range(100)))])]
    small = corpus + small_scripts(rng, ctx.tier)
    # hard errors whose payload is a GeneratorError value (a reader forwarding a nested hashing failure as its own I/O error)
    for v in VNAMES:
        d = bytes((i * 13) % 251 for i in range(300))
        for kind in ("InvalidData", "Other", "TimedOut"):
            small += [(v, [("eg", kind)]), (v, [("d", d), ("eg", kind)]), (v, [("d", d[:7]), ("i",), ("eg", kind), ("d", d)])]
    cases = [fmt(v, sc) for v, sc in small]
    nt = lambda c, i: not i.startswith("generr TooSmall")
    rows = ctx.correspond("STREAM", cases, hb, db, flags=fl, coq_sample=8, nontrivial=nt)
    decide(ctx, "STREAM", hb, small, [r[1] for r in rows])
    big = big_scripts(rng, ctx.tier)
    nmodel = 1 if ctx.tier == "quick" else len(big)     # the model costs ~130 us/byte: one > 1 MiB stream in quick
    rows = ctx.correspond("STREAM-BIG", [fmt(v, sc) for v, sc in big[:nmodel]], hb, db, flags=fl, coq_sample=0, nontrivial=nt)
    outs = [r[1] for r in rows]
    if big[nmodel:]:
        outs += ctx.impl_only("STREAM-BIG-IMPL", [fmt(v, sc) for v, sc in big[nmodel:]], hb, lambda c, i: None, nontrivial=nt)
    decide(ctx, "STREAM-BIG", hb, big, outs)
    ctx.suites["STREAM-BIG"]["largest_stream_bytes"] = max(len(interpret(sc)[0]) for _, sc in big)
    # re-entrancy: a reader that itself hashes another stream and a file on the same thread while it is being hashed
    nested = nested_cases(ctx.tier)
    ctx.impl_only("NESTED", nested, hb, nested_pred, nontrivial=lambda c, i: "ok" in i)
    # files
    sizes = [0, 1, 49, 50, 51, 5000, BUF + 5] if ctx.tier == "quick" else [0, 1, 9, 10, 49, 50, 51, 255, 256, 5000, 65536, BUF - 1, BUF, BUF + 1, 2 * BUF + 77]
    # files beyond 100 kB cost the model ~130 us/byte twice (hash_file and hash_buf): two variants get them in thorough
    fcases = ["file %s %d %d" % (v, s, 1000 + s % 97) for v in (["N", "S"] if ctx.tier == "quick" else VNAMES) for s in sizes
              if s <= 100000 or v in ("N", "LL") or ctx.tier == "quick"]
    fcases += ["nofile %s" % v for v in VNAMES]

    def fpred(c, i, m):
        if c.startswith("file"):
            a, _, b = i.partition(" == ")
            want = b.replace("generr", "generr")
            return None if a == want else "hash_file(path) = `%s` but hash_buf(contents) = `%s`" % (a[:80], b[:80])
        if c.startswith("nofile"):
            return None if i == "ioerr NotFound" else "a missing path must be an I/O error; got `%s`" % i[:80]
        return None
    small_f = [c for c in fcases if not (c.startswith("file") and int(c.split(" ")[2]) > 100000)]
    big_f = [c for c in fcases if c not in small_f]
    if ctx.tier != "quick":
        small_f, big_f = fcases, []
    ctx.correspond("FILE", small_f, hb, db, flags=fl, coq_sample=2, predicate=fpred,
                   nontrivial=lambda c, i: "ok" in i or "ioerr" in i)
    if big_f:
        ctx.impl_only("FILE-BIG-IMPL", big_f, hb, lambda c, i: fpred(c, i, None), nontrivial=lambda c, i: "ok" in i)
    # pseudo-files: metadata reports length 0 but reads deliver data (stable procfs entries); implementation only
    import os
    pseudo = [p for p in ("/proc/filesystems", "/proc/devices", "/proc/version", "/proc/cmdline", "/proc/misc")
              if os.path.exists(p) and os.path.getsize(p) == 0]

    def ppred(c, i):
        a, _, b = i.partition(" == ")
        return None if a == b else "hash_file(%s) = `%s` but hash_buf of its contents = `%s`" % (pyref.unhex(c.split(" ")[2]).decode(), a[:80], b[:80])
    if pseudo:
        ctx.impl_only("FILE-PSEUDO", ["filepath %s %s" % (v, hx(p.encode())) for v in VNAMES for p in pseudo], hb, ppred,
                      nontrivial=lambda c, i: "ok" in i)
    return finish(ctx)


def finish(ctx):
    return ctx.finish(
        level_note_assumptions=[
            "PARTIAL: std::io::Read, std::fs::File and the operating system are not modelled; a reader is the sequence of its read "
            "results (any sizes 1..buffer, interruptions, errors, over-claims); files are exercised by the FILE suite only",
            "in-contract deliveries write exactly the bytes they claim (a reader returning n <= buffer.len() without writing "
            "leaves stale buffer content to be hashed: by definition those are the bytes it delivered)"],
        trusted_base=gc.TB + ["hand model Model/MStream.v of generate_easy_std.rs / generate_easy.rs (buffer size regenerated from the "
                              "source) and of the harness's scripted reader (Model/Dispatch.v trace_of_script)"],
        checker_cmd="make -C coq Props/C12.vo && coqc Props/C12.v (Print Assumptions under every theorem)",
        rule=RULE)
