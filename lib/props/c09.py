"""C09 -- length code: monotone bucketing, consistent with range()."""
import core
import common
import pyref
import suites

RULE = ("LEN-POINT: every table boundary -1/0/+1 of the regenerated table, 0..80, 2^k-1/2^k/2^k+1, "
        "MAX-2..MAX+2, 2^32-1 and seeded random lengths through new()/try_from(); all 256 codes through "
        "range()/is_valid(); DataLengthValidity around every threshold.  LEN-RLE: the implementation "
        "enumerates ALL 2^32 lengths (run-length encoded) and is compared with the RLE implied by the "
        "model's range() (proved exact).  Non-trivial = a length other than 0 that encodes to Some, a "
        "code < 170, or a threshold neighbour; distinct by case text.")


def lengths(ctx):
    t = ctx.translated
    s = set(range(0, 81))
    for v in t["top_value"]:
        for d in (-1, 0, 1, 2):
            if 0 <= v + d < 2 ** 32:
                s.add(v + d)
    for k in range(0, 33):
        for d in (-1, 0, 1):
            x = 2 ** k + d
            if 0 <= x < 2 ** 32:
                s.add(x)
    n = 400 if ctx.tier == "quick" else 20000
    for _ in range(n):
        bits = ctx.rng.below(33)
        s.add(ctx.rng.below(2 ** bits) if bits else 0)
    return sorted(s)


def run(ctx):
    ctx.translate()
    ctx.proofs()
    hb = ctx.harness("default")
    db = ctx.driver()
    if hb is None or db is None:
        return finish(ctx)
    common.translator_crosscheck(ctx, hb)
    t = ctx.translated
    # the PUBLISHED maximum of the property text -- never the (possibly edited) table of the source
    MAX = 4224281216
    if t and t["len_max"] != MAX:
        ctx.notes.append("the source's last table entry is %d, the published maximum is %d" % (t["len_max"], MAX))
    ls = lengths(ctx)
    cases = []
    for x in ls:
        cases.append("len_new %d" % x)
        cases.append("len_tryfrom %d" % x)
    for c in range(256):
        cases.append("len_code %d" % c)
    for v in ("S", "N", "NL", "L", "LL"):
        cases.append("limits %s" % v)
        for x in sorted(set(list(range(0, 140)) + [MAX - 1, MAX, MAX + 1, 2 ** 32 - 1] + ls[::37])):
            cases.append("validity %s %d" % (v, x))

    def nontrivial(c, i):
        return not (c.startswith("len_new 0") or i in ("none", "valid 0 range none"))

    def point_pred(c, i, m):
        p = c.split(" ")
        if p[0] == "len_new":
            x = int(p[1])
            if (i.startswith("some")) != (x <= MAX):
                return "encoding must succeed exactly for lengths <= %d; new(%d) = %s" % (MAX, x, i)
            e = pyref.spec_code(x)
            if e is not None and i != "some %d" % e:
                return "new(%d) = %s, the reference length code (least i with len <= top[i] in the published table) is %d" % (x, i, e)
        if p[0] == "hash" and i.startswith("ok "):
            # a generated hash carries the code of the number of bytes fed
            v, n = p[1], (len(p[3]) - 1) // 2
            code = pyref.unhex(i.split(" ")[1])[suites.VARIANTS[v][0]]
            if code != pyref.spec_code(n):
                return "a hash generated from %d bytes carries length code %d, the code of %d is %s" % (n, code, n, pyref.spec_code(n))
        if p[0] == "limits" and i.split(" ")[-1] != str(MAX):
            return "GeneratorType::MAX is %s, the published maximum is %d" % (i.split(" ")[-1], MAX)
        if p[0] == "validity":
            x = int(p[2])
            if (i.split(" ")[0] == "TooLarge") != (x > MAX):
                return "DataLengthValidity must be TooLarge exactly above %d; got %s for %d" % (MAX, i.split(" ")[0], x)
        return None

    for x in (MAX - 1, MAX, MAX + 1, MAX + 2, MAX + 45, MAX + 46, MAX + 1000):
        cases.append("len_new %d" % x)
    # every boundary of the PUBLISHED table (the source's own table was used above)
    for tv in pyref.spec_topval():
        for d in (-1, 0, 1):
            if 0 <= tv + d < 2 ** 32:
                cases.append("len_new %d" % (tv + d))
    # generated hashes: the length byte is the code of the number of bytes fed (most permissive options)
    grng = ctx.rng.fork("genlen")
    for v in ("S", "N", "NL", "L", "LL"):
        for n in list(range(0, 12)) + [17, 18, 38, 39, 40, 57, 58, 86, 87, 129, 130, 194, 195, 291, 292, 437, 438, 656, 657, 854, 855, 1110, 1111, 2436, 2437]:
            cases.append("hash %s 30 %s" % (v, suites.hx(suites.gen_data(grng, n, 0))))
    cases = list(dict.fromkeys(cases))
    ctx.correspond("LEN-POINT", cases, hb, db, nontrivial=nontrivial, coq_sample=24, predicate=point_pred)

    # exhaustive: all 2^32 lengths on the implementation, RLE compared with the model
    rc, out = core.run([hb, "lenrle"], timeout=1200)
    impl_runs = []
    if rc != 0:
        ctx.correspondence_failures.append({"suite": "LEN-RLE", "case": "lenrle", "impl": "crashed rc=%d %s" % (rc, out[-200:]), "model": ""})
    else:
        for line in out.strip().split("\n"):
            p = line.split(" ")
            impl_runs.append((int(p[1]), None if p[2] == "none" else int(p[2])))
    mo = core.run_cases(db, ["len_rle_expected"], tag="C09rle")[0]
    model_runs = []
    for seg in mo.split(" ; "):
        p = seg.replace(" ;", "").split(" ")
        if len(p) >= 3 and p[0] == "run":
            model_runs.append((int(p[1]), None if p[2] == "none" else int(p[2])))
    st = ctx.suites.setdefault("LEN-RLE", {})
    st["impl_runs"] = len(impl_runs)
    st["model_runs"] = len(model_runs)
    st["lengths_enumerated"] = 2 ** 32 if impl_runs else 0
    ctx.evaluations += 2 ** 32 if impl_runs else 0
    for r in impl_runs:
        ctx.nontrivial.add(("run", r))
    ctx.exhaustive = bool(impl_runs)
    ctx.samples.append({"suite": "LEN-RLE", "impl_first_runs": impl_runs[:4], "impl_last_runs": impl_runs[-3:]})
    if impl_runs and impl_runs != model_runs:
        # locate the first length where they differ
        def code_at(runs, x):
            c = None
            for s, v in runs:
                if s <= x:
                    c = v
                else:
                    break
            return c
        pts = sorted(set([s for s, _ in impl_runs] + [s for s, _ in model_runs]))
        for x in pts:
            a, b = code_at(impl_runs, x), code_at(model_runs, x)
            if a != b:
                ctx.correspondence_failures.append({"suite": "LEN-RLE", "case": "len_new %d" % x,
                                                    "impl": str(a), "model": str(b)})
                break
    # the property itself, evaluated directly on the implementation's exhaustive RLE
    if impl_runs:
        viol = rle_property(impl_runs, MAX)
        # range(code) must be exactly the run of that code
        rng_out = core.run_cases(hb, ["len_code %d" % c for c in range(256)], tag="C09rg")
        runs_by_code = {}
        for idx, (s, v) in enumerate(impl_runs):
            e = (impl_runs[idx + 1][0] - 1) if idx + 1 < len(impl_runs) else 2 ** 32 - 1
            if v is not None:
                runs_by_code.setdefault(v, []).append((s, e))
        for c, o in enumerate(rng_out):
            p = o.split(" ")
            if p[0] != "valid":
                viol.append(("len_code %d" % c, o, "range()/is_valid() did not return normally"))
                continue
            valid = p[1] == "1"
            has_range = p[3] == "some"
            if valid != (c < 170) or has_range != (c < 170):
                viol.append(("len_code %d" % c, o, "is_valid/range must be Some exactly for codes < 170"))
            if has_range:
                lo, hi = int(p[4]), int(p[5])
                if runs_by_code.get(c) != [(lo, hi)]:
                    viol.append(("len_code %d" % c, o, "range(code) is not exactly the set of lengths encoding to it: runs %s" % runs_by_code.get(c)))
            elif c in runs_by_code:
                viol.append(("len_code %d" % c, o, "a code with no range is produced by new()"))
        for case, impl, what in viol:
            ctx.violations.append({"suite": "LEN-PROPERTY", "case": case, "impl": impl, "what": what})
        ctx.suites["LEN-PROPERTY"] = {"checked": "monotone, Some iff <= MAX, range(code) == run of code, tiling, on all 2^32 lengths",
                                      "failures": len(viol)}
    # ... also when the bytes arrive through the stream / buffer helpers in reads of several sizes (implementation alone)
    sc = []
    for v in suites.VNAMES:
        for n, k in ((40000, 4096), (70000, 65536), (5000, 7), (300, 300), (1048576 + 700, 65536), (200000, 1048576)):
            sc.append(("stream %s gen %d %d %d" % (v, 11 + n % 97, n, k), v, n))
            sc.append(("hist %s ugen %d %d fd" % (v, 11 + n % 97, n), v, n))
    so = core.run_cases(hb, [c for c, _, _ in sc], tag="c09s")
    nbad = 0
    for (c, v, n), o in zip(sc, so):
        ctx.evaluations += 1
        ctx.nontrivial.add(c)
        if o.startswith("ok "):
            code = pyref.unhex(o.split(" ")[1])[suites.VARIANTS[v][0]]
            if code != pyref.spec_code(n):
                nbad += 1
                ctx.violations.append({"suite": "STREAM-LENGTH", "case": c, "impl": o[:120], "config": "default",
                                       "what": "a hash generated from %d bytes carries length code %d, the code of %d bytes is %s" % (n, code, n, pyref.spec_code(n))})
        else:
            nbad += 1
            ctx.violations.append({"suite": "STREAM-LENGTH", "case": c, "impl": o[:120], "config": "default",
                                   "what": "%d pseudo-random bytes must give a hash" % n})
    ctx.suites["STREAM-LENGTH"] = {"cases": len(sc), "failures": nbad}
    # a generated hash carries the code of the number of bytes fed -- also when they arrive as ONE slice longer than 4 GiB
    # (release build; ~4.3 GB of zero pages, about 25 s): there is no code for that length, so no hash
    hr = ctx.harness("release")
    if hr is not None:
        n0 = 2 ** 32 + 1000
        case = "hist N uzero %d l fd f 30" % n0
        o = core.run_cases(hr, [case], tag="c09h", timeout=1500, shards=1)[0]
        ctx.evaluations += 1
        ctx.nontrivial.add(case)
        if o.split(" | ") != ["none", "err TooLargeInput", "err TooLargeInput"]:
            ctx.violations.append({"suite": "HUGE-SLICE", "case": case, "impl": o[:300], "config": "release",
                                   "what": "%d bytes (more than the maximum) fed in one update(): there is no length code for them, finalize "
                                           "must report TooLargeInput and processed_len must be None" % n0})
        ctx.suites["HUGE-SLICE"] = {"cases": 1, "output": o[:120]}
    return finish(ctx)


def rle_property(runs, MAX):
    """C09 evaluated on the exhaustive RLE of the implementation."""
    viol = []
    if not runs or runs[0][0] != 0:
        viol.append(("len_new 0", str(runs[:1]), "no result for length 0"))
        return viol
    prev = None
    for idx, (s, v) in enumerate(runs):
        if v is None:
            if s != MAX + 1:
                viol.append(("len_new %d" % s, "none", "encoding must fail exactly for lengths > %d" % MAX))
            if idx != len(runs) - 1:
                viol.append(("len_new %d" % runs[idx + 1][0], str(runs[idx + 1][1]), "a length above a rejected length is accepted"))
        else:
            if prev is not None and v < prev:
                viol.append(("len_new %d" % s, str(v), "code decreases as the length grows (previous code %d at length %d)" % (prev, s - 1)))
            prev = v
    if runs[-1][1] is not None:
        viol.append(("len_new %d" % (2 ** 32 - 1), str(runs[-1][1]), "lengths above MAX are accepted"))
    return viol


def finish(ctx):
    return ctx.finish(
        level_note_assumptions=[
            "std's slice::binary_search taken by contract on strictly increasing slices (Ok(i)/Err(i) = number of elements < x)",
            "u32::leading_zeros modelled as 32 - bit-length",
            "hand model Model/MLength.v of length.rs tied by the LEN-POINT/LEN-RLE correspondence (exhaustive over all 2^32 lengths)",
        ],
        trusted_base=core.COMMON_TRUSTED,
        checker_cmd="make -C coq Props/C09.vo (full .vo build) && coqc Props/C09.v (Print Assumptions under every theorem)",
        rule=RULE)
