"""Shared pieces for the distance properties C02 and C08 (suites DIST-*)."""
import core
import common
import configs
import pyref
import suites
from suites import VARIANTS

TB = core.COMMON_TRUSTED + [
    "translator lib/translate_kernels.py: the five sub_distance / packed_distance kernels are re-read from "
    "compare/dist_body/*.rs on every run into the kernel language of Model/MLanes.v (one instruction per Rust operator or "
    "intrinsic); an unknown intrinsic or an unparsable statement fails the run",
    "hand model Model/MCompare.v of the wrappers around the kernels (loads as little-endian byte lists, chunk loops, "
    "horizontal sums whose shape is compared with the regenerated epilogue), of the header distances and their const-eval "
    "tables, and of compare_with_config; Intel intrinsic semantics (_epi32 granules, and/or/xor/add/sub/slli/srli/mullo, "
    "_epi16 shifts/adds of the SSE2 horizontal sum) transcribed from the SDM; tied by the per-backend hook suite DIST-BODY",
    "from_ne_bytes modelled little-endian (x86_64)",
]


def setup(ctx):
    ctx.translate()
    ctx.proofs()
    hb = ctx.harness("default")
    db = ctx.driver()
    if hb is not None:
        common.translator_crosscheck(ctx, hb)
    return hb, db


def body_ref(a, b):
    d = 0
    for x, y in zip(a, b):
        for k in range(4):
            q = abs(((x >> (2 * k)) & 3) - ((y >> (2 * k)) & 3))
            d += 6 if q == 3 else q
    return d


def pred_parts(c, i, m):
    """C02 on the part level: implementation vs the reference formulas of the property text."""
    p = c.split(" ")
    op = p[0]
    if i.startswith("PANIC") or i.startswith("CRASH"):
        return "comparison did not return normally"
    if op == "dbody":
        if i == "na":
            return None
        a, b = pyref.unhex(p[3]), pyref.unhex(p[4])
        e = body_ref(a, b)
        return None if i == str(e) else "body distance (%s backend) is %s, reference sum over dibit pairs is %d" % (p[2], i, e)
    if op == "dlen":
        r = pyref.ring(int(p[1]), int(p[2]), 256)
        e = r if r <= 1 else r * 12
        return None if i == str(e) else "length distance is %s, reference (mod-256 ring, d<=1 ? d : 12d) is %d" % (i, e)
    if op == "dq":
        e = 0
        for sh in (0, 4):
            r = pyref.ring((int(p[1]) >> sh) & 15, (int(p[2]) >> sh) & 15, 16)
            e += r if r <= 1 else (r - 1) * 12
        return None if i == str(e) else "Q-ratio distance is %s, reference is %d" % (i, e)
    if op == "dck1":
        e = 0 if p[1] == p[2] else 1
        return None if i == str(e) else "checksum distance is %s, reference is %d" % (i, e)
    if op == "dck3":
        e = sum(1 for x, y in zip(pyref.unhex(p[1]), pyref.unhex(p[2])) if x != y)
        return None if i == str(e) else "checksum distance is %s, reference is %d" % (i, e)
    if op == "ring":
        x, y, n = int(p[1]), int(p[2]), int(p[3])
        e = pyref.ring(x, y, n if n else 256)
        return None if i == str(e) else "ring distance is %s, reference is %d" % (i, e)
    if op == "cmp":
        v, a, b, mode = p[1], pyref.unhex(p[2]), pyref.unhex(p[3]), p[4]
        if i.startswith("hasherr"):
            return "a byte array of the right size was rejected"
        e = pyref.dist(v, a, b, mode)
        return None if i == str(e) else "compare_with_config(%s) is %s, the reference distance is %d" % (mode, i, e)
    if op == "maxdist":
        v = p[1]
        e = 6 * VARIANTS[v][1] + VARIANTS[v][0] + 168 + (1536 if p[2] == "default" else 0)
        return None if i == str(e) else "max_distance is %s, the published maximum is %d" % (i, e)
    return None


def pred_laws(c, i, m):
    """C08: every relation of the property text on one pair (a, b), implementation only."""
    p = c.split(" ")
    if p[0] != "laws":
        return None
    if i.startswith("PANIC") or i.startswith("CRASH"):
        return "comparison did not return normally"
    if i.startswith("hasherr"):
        return "a byte array of the right size was rejected"
    g = [int(x) for x in i.split(" ")]
    dab, dba, nab, nba, daa, nbb, dlen, cdab, cnab, ndiff, maxd, maxn, eq, dplain = g
    if daa != 0 or nbb != 0:
        return "distance of a hash to itself is not 0"
    if dab != dba or nab != nba:
        return "distance(a,b) != distance(b,a)"
    if dab == 0 and not eq:
        return "default-mode distance 0 between different hashes"
    if eq and (dab != 0 or nab != 0):
        return "equal hashes at non-zero distance"
    if dab > maxd or nab > maxn:
        return "distance exceeds max_distance"
    if dab != nab + dlen:
        return "default-mode distance != no-length distance + length-code distance"
    if dab < nab:
        return "default-mode distance smaller than no-length distance"
    if cdab != dab - ndiff or cnab != nab - ndiff:
        return "clearing both checksums does not lower the distance by the number of differing checksum bytes"
    if dplain != dab:
        return "compare() != compare_with_config(Default)"
    return None


def laws_cases(rng, tier):
    cases = []
    n = 600 if tier == "quick" else 60000
    for v in suites.VNAMES:
        size = VARIANTS[v][3]
        ck = VARIANTS[v][0]
        for _ in range(n):
            a = bytearray(suites.random_bin(rng, v))
            k = rng.below(8)
            if k == 0:
                b = bytearray(a)
            elif k == 1:
                b = bytearray(a)
                b[rng.below(size)] ^= 1 << rng.below(8)
            elif k == 2:
                b = bytearray(a)
                for j in range(ck):
                    if rng.chance(2, 3):
                        b[j] ^= rng.choice([0x80, 0x01, 0xFF])
            elif k == 3:
                b = bytearray(a)
                b[ck] = (a[ck] + rng.choice([1, 2, 127, 128, 129, 254, 255])) & 0xFF
            elif k == 4:
                b = bytearray(a)
                b[ck + 1] = rng.below(256)
            elif k == 5:
                # far apart: complementary dibits
                b = bytearray(a)
                for j in range(ck + 2, size):
                    b[j] = a[j] ^ 0xFF
            else:
                b = bytearray(suites.random_bin(rng, v))
            cases.append("laws %s %s %s" % (v, suites.hx(a), suites.hx(b)))
        # the maximum is attained (all-0 vs all-3 dibits, checksums differ, Q nibbles 0 vs 8, length 0 vs 128)
        a = bytearray(size)
        b = bytearray([0xFF] * size)
        a[ck], b[ck] = 0, 128
        a[ck + 1], b[ck + 1] = 0x00, 0x88
        for j in range(ck):
            a[j], b[j] = 0, 1
        cases.append("laws %s %s %s" % (v, suites.hx(a), suites.hx(b)))
    return cases
