"""Shared runner for the codec properties C04 C05 C06 C14 (suites HEX/BIN)."""
import core
import common
import configs
import suites
import pyref
from suites import VARIANTS


def setup(ctx, cfgname="default"):
    ctx.translate()
    ctx.proofs()
    hb = ctx.harness(cfgname)
    db = ctx.driver()
    if hb is not None:
        common.translator_crosscheck(ctx, hb)
    return hb, db


def is_upper_hex(bs):
    return all((48 <= c <= 57) or (65 <= c <= 70) for c in bs)


def pred_parse_lenient(c, i, m):
    """C05: impl result of a `parse`/`fromstr` case against the property text (lenient build)."""
    p = c.split(" ")
    if p[0] == "fromstrm":                       # from_str_with(&str, mode): the same parser, the same expectations
        p = ["parse"] + p[1:]
    if p[0] == "parse":
        v, mode, s = p[1], p[2], pyref.unhex(p[3])
    elif p[0] == "fromstr":
        v, mode, s = p[1], "auto", pyref.unhex(p[2])
    else:
        return None
    if i.startswith("PANIC") or i.startswith("CRASH"):
        return "parser did not return normally"
    exp = pyref.parse_lenient(v, s, mode)
    got = i.split(" ")
    if exp[0] == "ok":
        if got[0] != "ok" or pyref.unhex(got[1]) != exp[1]:
            return "well-formed input must parse to the value its digits denote (%s)" % pyref.fmt(v, exp[1]).decode()
        return None
    if got[0] != "err":
        return "malformed input (%s) was accepted" % exp[1]
    if (got[1] == "InvalidStringLength") != (exp[1] == "InvalidStringLength"):
        return "a wrong length must be reported as InvalidStringLength, and only a wrong length"
    if got[1] == "InvalidPrefix" and (mode == "empty" or s[:2] == b"T1" or len(s) != VARIANTS[v][4]):
        return "InvalidPrefix reported but the prefix is not wrong"
    if got[1] == "InvalidCharacter":
        L = VARIANTS[v][4]
        digits = s[2:] if len(s) == L and mode != "empty" else s
        if all(pyref.is_hexdigit(x) for x in digits):
            return "InvalidCharacter reported but every digit is hexadecimal"
    if got[1] not in ("InvalidStringLength", "InvalidPrefix", "InvalidCharacter"):
        return "lenient parser reported %s" % got[1]
    return None


def pred_store(c, i, m):
    """C14 (and the shape part of C04) on `fmt` / `storebytes` cases."""
    p = c.split(" ")
    if p[0] == "fmto":                           # the same store at another start address: drop the offset
        p = ["fmt"] + p[1:4] + p[5:]
    if p[0] == "fmt":
        v, binb, mode, buf = p[1], pyref.unhex(p[2]), p[3], pyref.unhex(p[4])
        rep = pyref.fmt(v, binb, mode == "with")
    elif p[0] == "storebytes":
        v, binb, buf = p[1], pyref.unhex(p[2]), pyref.unhex(p[3])
        rep = binb
    else:
        return None
    n = len(rep)
    g = i.split(" ")
    if g[0] in ("PANIC", "CRASH"):
        return "serializer did not return normally"
    if g[0] == "hasherr":
        return None
    if len(buf) < n:
        if g[0] != "err" or g[1] != "BufferIsTooSmall":
            return "buffer shorter than %d must give BufferIsTooSmall" % n
        if pyref.unhex(g[2]) != buf:
            return "buffer modified although the call failed"
        return None
    if g[0] != "ok" or int(g[1]) != n:
        return "must return Ok(%d)" % n
    out = pyref.unhex(g[2])
    if out[:n] != rep:
        return "first %d bytes are not the representation" % n
    if out[n:] != buf[n:]:
        return "bytes beyond the advertised size were modified"
    return None


def pred_display(c, i, m):
    p = c.split(" ")
    if p[0] != "display":
        return None
    v, binb = p[1], pyref.unhex(p[2])
    if i.startswith("hasherr"):
        return None
    if not i.startswith("x"):
        return "Display did not return normally"
    s = pyref.unhex(i)
    if len(s) != VARIANTS[v][4] or s[:2] != b"T1" or not is_upper_hex(s[2:]):
        return "text is not \"T1\" + uppercase hex of the advertised length"
    if s != pyref.fmt(v, binb):
        return "hex form is not the binary form with nibble-swapped header"
    return None


def run_roundtrip_chain(ctx, hb, rng, tier):
    """C04 on the implementation alone: parse(format(h)) == h through every entry point, and
    format(parse(s)) == "T1" + upper(strip(s)) for accepted s."""
    n = 40 if tier == "quick" else 2000
    items = []
    for v in suites.VNAMES:
        for _ in range(n):
            items.append((v, suites.plausible_bin(rng, v)))
    c1 = ["display %s %s" % (v, core.hx(b)) for v, b in items]
    o1 = core.run_cases(hb, c1, tag="c04a")
    c2, back = [], []
    for (v, b), o in zip(items, o1):
        if not o.startswith("x"):
            ctx.violations.append({"suite": "HEX-CHAIN", "case": "display %s %s" % (v, core.hx(b)), "impl": o,
                                   "what": "Display failed on a valid hash"})
            continue
        s = pyref.unhex(o)
        variants = [s, s[2:], s[:2] + s[2:].lower(), s[2:].lower(),
                    suites.mixed_case(rng, s.decode()).encode()]
        for t in variants:
            mode = rng.choice(["auto", "with" if len(t) == len(s) else "empty"])
            c2.append("parse %s %s %s" % (v, mode, core.hx(t)))
            back.append((v, b, s, t))
            c2.append("fromstr %s %s" % (v, core.hx(t)))
            back.append((v, b, s, t))
    o2 = core.run_cases(hb, c2, tag="c04b")
    c3, want = [], []
    for (v, b, s, t), c, o in zip(back, c2, o2):
        ctx.evaluations += 1
        if o != "ok " + core.hx(b):
            ctx.violations.append({"suite": "HEX-CHAIN", "case": c, "impl": o,
                                   "what": "parse(format(h)) != h  (h = %s)" % core.hx(b)})
        else:
            c3.append("display %s %s" % (v, o.split(" ")[1]))
            want.append((c, s))
    o3 = core.run_cases(hb, c3, tag="c04c")
    for (c, s), c3c, o in zip(want, c3, o3):
        ctx.evaluations += 1
        if o != core.hx(s):
            ctx.violations.append({"suite": "HEX-CHAIN", "case": c + " ; " + c3c, "impl": o,
                                   "what": "accepted string does not re-format to T1 + its upper-cased digits"})
    ctx.suites["HEX-CHAIN"] = {"hashes": len(items), "parse_cases": len(c2), "reformat_cases": len(c3)}
    for c, o in list(zip(c2, o2))[:3]:
        ctx.samples.append({"suite": "HEX-CHAIN", "case": c[:200], "impl": o[:200]})
    for it in items:
        ctx.nontrivial.add(("chain", it))


TB = core.COMMON_TRUSTED + [
    "hex-simd (default build) modelled by contract: decode accepts exactly even-length hex digit strings of either case; "
    "encode writes 2*len uppercase digits and asserts the destination is large enough",
    "hand model Model/MHexStr.v + Model/MHash.v of parse/hex_str.rs, hash.rs, hash/*.rs tied by the HEX suites",
]
