"""C18 -- core operations never allocate; the crate builds without std and alloc (PARTIAL, see DESIGN.md section C18)."""
import itertools
import os
import shutil

import core
import common
import configs
import translate_alloc as ta
from suites import VARIANTS, VNAMES, hx
import suites
from props import c17

RULE = ("NOALLOC: the harness installs a counting #[global_allocator]; every call into the library made by an operation is "
        "wrapped so that only allocations made INSIDE library calls (on the calling thread) are counted.  `na <op..>` prints "
        "that count followed by the operation's ordinary output; the model answers `0 | <expected output>`, so a case agrees "
        "only if the counted calls ran, returned the right values and allocated nothing.  Operations: generator histories "
        "(new/update/finalize_with_options under all option sets/processed_len/clone, also from injected states), from_str_bytes "
        "and FromStr on valid and malformed text, TryFrom<&[u8]> / <&[u8; N]>, store_into_bytes / store_into_str_bytes, "
        "accessors, clear_checksum, compare_with_config in both modes, the string comparison helpers, hash_buf, length encoding, and "
        "every compiled SIMD backend of the body distance and the bucket aggregation directly through the cfg-guarded hooks; "
        "all five variants; quick: default (runtime SIMD dispatch + hex-simd), no-SIMD, embedded-table and low-memory builds, thorough: the "
        "13-configuration matrix of C07.  The very first library call of each harness process (CPU-feature detection, OnceLock "
        "initialisation) is counted like any other.  BUILD: real `cargo build --no-default-features --lib` of /repo (guard off) "
        "with no feature, with every feature that implies neither std nor alloc at once, with alloc but not std, and with a greedy "
        "cover of feature sets under which every guard conjunction of the source that can hold without std/alloc on this host holds "
        "at least once (thorough: also each such feature alone and seeded random subsets); the model's prediction (theorems C18_nothing_needs_* and "
        "C18_every_configuration_links_*) is that each links.  Non-trivial = a case whose library calls do real work (every "
        "case); distinct by (configuration, case text).")

ALLOWED_OPS = {"parse", "fromstr", "frombytes", "fromarray", "fmt", "storebytes", "parts", "quartile", "valid", "clearcks",
               "cmp", "laws", "hash", "hashbuf", "hist", "cmpstr", "cmpstr_default", "len_new", "len_tryfrom", "validity",
               "len_code", "dbody", "agg"}


def na_cases(rng, tier):
    base = c17.corpus(rng.fork("corpus"), tier)
    out = []
    for c in base:
        op = c.split(" ", 1)[0]
        if op not in ALLOWED_OPS or c17.expected_panic(c):
            continue
        if " uzero " in c or " ugen " in c:
            continue          # the harness builds those inputs itself (outside the counted region, but keep the suite simple)
        out.append("na " + c)
    # every compiled SIMD backend directly, through the cfg-guarded hooks (body distance and bucket aggregation)
    from props import c07
    brng = rng.fork("backends")
    for c in c07.agg_cases(brng, "quick", ["naive", "sse2", "ssse3", "avx2", "dispatch"])[::6]:
        out.append("na " + c)
    for size in (12, 32, 64):
        for be in ("pseudo32", "pseudo64", "sse2", "sse41", "avx2", "dispatch"):
            for _ in range(3):
                out.append("na dbody %d %s %s %s" % (size, be, hx(brng.bytes(size)), hx(brng.bytes(size))))
    # longer inputs, every variant, every option set in one history; clone + continue
    sizes = [300, 5000, 70000] if tier == "quick" else [300, 5000, 70000, 300000]
    for v in VNAMES:
        for n in sizes:
            d = suites.gen_data(rng, n)
            fs = " ".join("f %d" % o for o in range(32))
            out.append("na hist %s u %s l %s c u %s fd l" % (v, hx(d[:n // 2]), fs, hx(d[n // 2:])))
            out.append("na hashbuf %s %s" % (v, hx(d)))
    return out


def pred_na(c, i, m):
    head = i.split(" | ", 1)[0]
    if head.isdigit() and int(head) > 0:
        return "%s heap allocation(s) inside the library calls of `%s`" % (head, c[3:63] + ("..." if len(c) > 63 else ""))
    return None


# --------------------------------------------------------------------------------------------- BUILD
def buildable_features():
    """features of the CURRENT Cargo.toml that imply neither std nor alloc, and need neither a nightly compiler nor a clean
    lint run (unstable / simd-portable / maint-*)"""
    g = configs.cargo_feature_graph()
    out = []
    for f in sorted(g):
        cl = configs.feature_closure(g, [f])
        if cl & {"std", "alloc", "unstable", "maint-code", "maint-lints", "default"}:
            continue
        out.append(f)
    return out


TF_CHAIN = ["sse2", "ssse3", "sse4.1", "avx2"]     # on x86-64 each implies the ones before it; sse2 is in the baseline


def split_spec(spec):
    """a build = cargo features plus at most one `tf:<target feature>` token (compiled with -C target-feature=+<it>) and possibly
    `profile:release` (no debug assertions)"""
    feats = [x for x in spec if not x.startswith("tf:") and not x.startswith("profile:")]
    tfs = [x[3:] for x in spec if x.startswith("tf:")]
    level = max([TF_CHAIN.index(t) for t in tfs if t in TF_CHAIN] + [0])
    return feats, level


def cargo_build(spec, tag):
    features, level = split_spec(spec)
    tdir = os.path.join(core.BUILD, "c18-target" + ("" if core.REPO == "/repo" else "-alt") + ("-tf%d" % level if level else ""))
    cmd = ["cargo", "build", "--offline", "--manifest-path", os.path.join(core.REPO, "Cargo.toml"), "-p", "fast-tlsh", "--lib",
           "--no-default-features", "--target-dir", tdir]
    if "profile:release" in spec:
        cmd.append("--release")
    if features:
        cmd += ["--features", ",".join(features)]
    rf = ("-C target-feature=+" + TF_CHAIN[level]) if level else ""
    with core.Lock("cargo-c18"):
        rc, out = core.run(cmd, cwd=core.REPO, timeout=1800, env={"RUSTFLAGS": rf})
    return rc, out


def label_of(spec):
    features, level = split_spec(spec)
    return (("RUSTFLAGS='-C target-feature=+%s' " % TF_CHAIN[level]) if level else "") + "cargo build --no-default-features --lib" + \
        (" --release" if "profile:release" in spec else "") + ((" --features " + ",".join(features)) if features else "")


def spec_of_label(label):
    spec = label.split("--features ", 1)[1].split(",") if "--features " in label else []
    if " --release" in label:
        spec.append("profile:release")
    if "target-feature=+" in label:
        spec.append("tf:" + label.split("target-feature=+", 1)[1].split("'", 1)[0])
    return spec


HOST_ATOMS = {"target_arch=x86_64": True}


def host_value(atom, level=0, release=False):
    """value of a non-feature cfg atom in a BUILD run (host target, guard off, dev profile, target-feature level); None = not
    ours to choose"""
    if atom in HOST_ATOMS:
        return HOST_ATOMS[atom]
    if atom == "debug_assertions":
        return not release
    if atom.startswith("target_feature="):
        t = atom.split("=", 1)[1]
        return t in TF_CHAIN and TF_CHAIN.index(t) <= level
    if atom.startswith("target_arch=") or atom in ("test", "doc", "miri", "fast_tlsh_verif", "fuzzing"):
        return False
    return None


def closure_env(feats):
    g = configs.cargo_feature_graph()
    env = {"f:" + f: True for f in configs.feature_closure(g, feats)}
    return env


def guard_holds(g, spec):
    """does guard g hold in the build `spec` (unknown atoms: either value)"""
    feats, level = split_spec(spec)
    release = "profile:release" in spec
    env = closure_env(feats)
    free = []
    for v in ta.py_vars(g):
        if v.startswith("f:"):
            env.setdefault(v, False)
        else:
            hv = host_value(v, level, release)
            if hv is None:
                free.append(v)
            else:
                env[v] = hv
    for bits in itertools.product([False, True], repeat=len(free)):
        e = dict(env)
        e.update(zip(free, bits))
        if ta.py_eval(g, e):
            return True
    return False


def spec_for(g, allowed, extra_fixed=None):
    """a smallest build spec (features within `allowed`, lowest target-feature level) in which guard g holds, or None"""
    for release in (False, True):
        for level in range(len(TF_CHAIN)):
            fx = {"f:std": False, "f:alloc": False}
            fx.update(extra_fixed or {})
            for v in ta.py_vars(g):
                if v.startswith("f:") and v[2:] not in allowed:
                    fx[v] = False
                elif not v.startswith("f:"):
                    hv = host_value(v, level, release)
                    if hv is not None:
                        fx[v] = hv
            env = brute(g, fx)
            if env is not None:
                need = sorted(x[2:] for x, val in env.items() if val and x.startswith("f:"))
                return need + (["tf:" + TF_CHAIN[level]] if level else []) + (["profile:release"] if release else [])
    return None


def cfg_cover(allowed):
    """build specs (features implying neither std nor alloc, plus a target-feature level) such that every guard conjunction of
    the source that CAN hold in such a build on this host holds in at least one of them: greedy set cover"""
    try:
        w, _ = ta.collect()
    except Exception:  # noqa: BLE001 -- reported elsewhere
        return [], 0, 0
    allowed = set(allowed)
    todo = []
    for g in w.guards.values():
        need = spec_for(g, allowed)
        if need is not None:
            todo.append((g, need))
    builds = [[], sorted(allowed)]
    builds_guards = {}
    covered = 0
    for g, need in sorted(todo, key=lambda t: -len(t[1])):
        if any(guard_holds(g, b) for b in builds):
            covered += 1
            continue
        placed = False
        for i in range(2, len(builds)):
            cand = sorted(set(builds[i]) | set(need))
            if guard_holds(g, cand) and all(guard_holds(h, cand) for h in builds_guards[i]):
                builds[i] = cand
                builds_guards[i].append(g)
                placed = True
                break
        if not placed:
            builds.append(sorted(need))
            builds_guards[len(builds) - 1] = [g]
        covered += 1
    return builds, covered, len(todo)


def build_suite(ctx, extra_sets=()):
    feats = buildable_features()
    sets = [[], feats, ["alloc"] + feats, ["profile:release"], feats + ["profile:release"]]
    cover, ncov, ntodo = cfg_cover(feats)
    for b in cover:
        if b not in sets:
            sets.append(b)
    ctx.notes.append("BUILD cfg coverage: %d of the %d guard conjunctions that can hold without std/alloc on this host hold in one of "
                     "%d feature sets" % (ncov, ntodo, len(cover)))
    for s in extra_sets:
        if s not in sets:
            sets.append(s)
    if ctx.tier != "quick":
        for f in feats:
            sets.append([f])
        r = ctx.rng.fork("build")
        for _ in range(12):
            sets.append(sorted(f for f in feats if r.chance(1, 2)))
    st = ctx.suites.setdefault("BUILD", {"cases": 0, "failures": 0, "feature_sets": []})
    for fs in sets:
        rc, out = cargo_build(fs, "b")
        ctx.evaluations += 1
        st["cases"] += 1
        label = label_of(fs)
        ctx.nontrivial.add(("build", label))
        if len(st["feature_sets"]) < 8:
            st["feature_sets"].append(",".join(fs) or "(none)")
        if rc != 0:
            st["failures"] += 1
            errs = [l for l in out.split("\n") if l.startswith("error")]
            ctx.violations.append({"suite": "BUILD", "case": label, "config": "no-default-features",
                                   "impl": "build failed: " + " ;; ".join(errs[:6])[:1500],
                                   "model": "links (C18_nothing_needs_std_or_alloc_when_both_are_off / C18_every_configuration_links_what_it_names)",
                                   "what": "the library does not build with std%s disabled%s" % ("" if "alloc" in fs else " and alloc",
                                                                                                  "" if not split_spec(fs)[1] else " when compiled for +" + TF_CHAIN[split_spec(fs)[1]])})
    if len(ctx.samples) < 24:
        ctx.samples.append({"suite": "BUILD", "case": "cargo build --no-default-features --lib", "impl": "rc=0" if not st["failures"] else "failed"})


# --------------------------------------------------------------------------------------------- diagnostics
def brute(pred, fixed):
    """an assignment (dict) of the atoms of pred satisfying it with `fixed` values pinned and the feature graph respected"""
    g = dict(ta.feature_graph())
    vs = [v for v in ta.py_vars(pred) if v not in fixed]
    for bits in itertools.product([False, True], repeat=len(vs)):
        env = dict(fixed)
        env.update(zip(vs, bits))
        # close under the feature graph
        changed = True
        ok = True
        while changed:
            changed = False
            for f, deps in g.items():
                if env.get("f:" + f):
                    for d in deps:
                        if not env.get("f:" + d):
                            if ("f:" + d) in fixed:
                                ok = False
                            env["f:" + d] = True
                            changed = True
        if ok and ta.py_eval(pred, env):
            return env
    return None


def diagnose():
    """which regenerated sites break which sweep (python re-evaluation, for the replay file and the build search only)"""
    try:
        _, sites = ta.collect()
    except Exception as e:  # noqa: BLE001
        return [], ["translator: %s" % e]
    doc_files = {"generate_easy_std.rs"}
    ok_std = {"std::arch::is_x86_feature_detected", "std::arch::is_arm_feature_detected", "std::sync::OnceLock",
              "is_x86_feature_detected!", "is_arm_feature_detected!", "is_aarch64_feature_detected!",
              "std::error::Error", "std::io::Error"}
    bare = {"f:std": False, "f:alloc": False, "test": False, "doc": False}
    sets, notes = [], []
    for f, k, t, p in sites:
        env = brute(p, bare)
        if env is not None:
            fs = sorted(x[2:] for x, v in env.items() if v and x.startswith("f:"))
            other = sorted(x for x, v in env.items() if v and not x.startswith("f:"))
            notes.append("site %s `%s` in %s is compiled with std and alloc off (features: %s%s)"
                         % (k, t, f, ",".join(fs) or "none", ("; " + ",".join(other)) if other else ""))
            # the same for a build this host can make (its own target_arch, a target-feature level it supports, guard off)
            spec = spec_for(p, set(buildable_features()))
            if spec is not None and spec not in sets:
                sets.append(spec)
        if f in doc_files or (k == "KStd" and t in ok_std):
            continue
        env = brute(p, {"test": False, "doc": False})
        if env is not None:
            fs = sorted(x[2:] for x, v in env.items() if v and x.startswith("f:"))
            notes.append("site %s `%s` in %s (outside the documented helpers) is compiled in a non-test build (features: %s)"
                         % (k, t, f, ",".join(fs) or "none"))
    return sets, notes


def run(ctx):
    ctx.translate()
    extra = (ctx.translated or {}).get("_extra", {}) if ctx.translated else {}
    if extra.get("alloc_error"):
        ctx.obligation_failures.append("cfg-inventory translator (lib/translate_alloc.py): " + extra["alloc_error"])
    proofs_ok = ctx.proofs()
    extra_sets = []
    if not proofs_ok or extra.get("alloc_error"):
        sets, notes = diagnose()
        for n in notes[:12]:
            ctx.obligation_failures.append("inventory: " + n)
        extra_sets = sets[:6]
    db = ctx.driver()
    names = ["default", "nosimd", "embedded", "lowmem"] if ctx.tier == "quick" else configs.CFG_ALL
    cases = na_cases(ctx.rng.fork("na"), ctx.tier)
    for name in names:
        hb = ctx.harness(name)
        if hb is None or db is None:
            continue
        if name == "default":
            common.translator_crosscheck(ctx, hb)
        ctx.correspond("NOALLOC[%s]" % name, cases, hb, db, flags=configs.flags(name), predicate=pred_na,
                       coq_sample=(6 if name == "default" else 0),
                       nontrivial=None)
        # distinctness is per configuration
        for c in cases:
            ctx.nontrivial.add((name, c[:160]))
    # single update() calls with very large slices (the model costs ~130 us per byte, so these are decided on the implementation
    # alone: the count must be 0 and a length must be reported)
    hbd = ctx.harness("default")
    if hbd is not None:
        import srcdict
        sizes = [2 ** 27 + 5] if ctx.tier == "quick" else [2 ** 27 + 5, 2 ** 30 + 1, 2 ** 32 + 100]
        for n in srcdict.new_literals()["ints"] + srcdict.products(srcdict.new_literals()["ints"]):
            if 2 ** 20 <= n <= 2 ** 31:
                sizes += [n - 1, n, n + 5]
        huge = ["na hist %s uzero %d l" % (VNAMES[k % len(VNAMES)], n) for k, n in enumerate(sorted(set(sizes))[:12])]

        def huge_pred(c, i):
            head = i.split(" | ", 1)[0]
            if not head.isdigit():
                return "a single large update did not return normally: `%s`" % i[:80]
            if int(head) > 0:
                return "%s heap allocation(s) inside update() on one slice of %s bytes" % (head, c.split(" ")[4])
            return None
        ctx.impl_only("NOALLOC-HUGE", huge, hbd, huge_pred, nontrivial=lambda c, i: True)
    build_suite(ctx, extra_sets)
    return finish(ctx)


def finish(ctx):
    return ctx.finish(
        level_note_assumptions=[
            "PARTIAL: the theorems are about the regenerated cfg inventory (which places name std/alloc items, under which cfg), "
            "for every assignment of every cfg atom; that heap allocation in Rust arises only through those names or through a "
            "dependency is an assumption, and dependencies (hex-simd, bitfield-struct, cfg-if, static_assertions, serde) are "
            "covered only by the counting allocator",
            "the allocation count is observed on the harness builds (hooks on) on x86_64 Linux; other targets' cfg branches are "
            "covered by the theorems only",
            "BUILD runs the host target (no embedded target is installed); #![no_std] makes a std/alloc use a compile error there too"],
        trusted_base=core.COMMON_TRUSTED + [
            "translator lib/translate_alloc.py: lexer, #[cfg]/#![cfg]/cfg_if!/mod-tree resolution, the name lists that classify a "
            "token as std / alloc / heap (HEAP_TYPES, HEAP_MACROS, HEAP_METHODS, STD_MACROS)",
            "Spec/AllocSpec.v: the audited lists (documented allocating helper files; std names that do not allocate)",
            "the counting allocator of harness/src/alloc_count.rs and the placement of the L!(..) wrappers in harness/src/ops.rs",
            "cargo / rustc as the judge of `builds`"],
        checker_cmd="make -C coq Props/C18.vo && coqc Props/C18.v (Print Assumptions under every theorem)",
        rule=RULE)
