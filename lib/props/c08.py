"""C08 -- distance is reflexive, symmetric and bounded by max_distance; mode and checksum relations."""
import core
import configs
import suites
from props import distcommon as dc

RULE = ("DIST-LAWS: per variant, seeded pairs (random, equal, one bit apart, only checksums / only the length code / only the "
        "Q byte different, complementary bodies, and the pair attaining the maximum); one `laws` operation evaluates on the "
        "public API d(a,b), d(b,a) in both modes, d(a,a), the length-part distance, the distances after clear_checksum on both, "
        "the number of differing checksum bytes, max_distance and a==b; every relation of the property text is decided on the "
        "implementation, and the tuple is compared with the model.  DIST-WHOLE: compare_with_config vs reference (as C02).  "
        "Non-trivial = pair at non-zero distance; distinct by case text.  DIST-LAWS and DIST-WHOLE are repeated on the builds with the other header-distance code (no length table, 16x16 Q table, no Q table).")


def run(ctx):
    hb, db = dc.setup(ctx)
    if hb is None or db is None:
        return finish(ctx)
    fl = configs.flags("default")
    rows = ctx.correspond("DIST-LAWS", dc.laws_cases(ctx.rng.fork("laws"), ctx.tier), hb, db, flags=fl,
                          predicate=dc.pred_laws, nontrivial=lambda c, i: not i.startswith("0 0 "))
    attained = sum(1 for c, i, m in rows if len(i.split(" ")) == 14 and i.split(" ")[0] == i.split(" ")[10])
    ctx.suites["DIST-LAWS"]["pairs_attaining_max_distance"] = attained
    if attained < 5:
        ctx.violations.append({"suite": "DIST-LAWS", "case": rows[-1][0], "impl": rows[-1][1],
                               "what": "max_distance is not attained by the extremal pair of every variant"})
    ctx.correspond("DIST-WHOLE", suites.dist_whole_cases(ctx.rng.fork("whole"), ctx.tier), hb, db, flags=fl,
                   predicate=dc.pred_parts, nontrivial=lambda c, i: i != "0")
    ctx.correspond("DIST-HEADER-COMBO", suites.dist_header_combo_cases(ctx.rng.fork("combo"), ctx.tier), hb, db, flags=fl,
                   predicate=dc.pred_parts, nontrivial=lambda c, i: i != "0", coq_sample=4)
    # the other header-distance implementations (no length table, 16x16 Q table, no Q table, pseudo-SIMD body kernels)
    for name in ["nosimd", "embedded", "lowmem", "decq", "static-sse2"]:
        hb2 = ctx.harness(name)
        if hb2 is None:
            continue
        fl2 = configs.flags(name)
        ctx.correspond("DIST-LAWS[%s]" % name, dc.laws_cases(ctx.rng.fork("laws"), ctx.tier), hb2, db, flags=fl2,
                       predicate=dc.pred_laws, nontrivial=lambda c, i: not i.startswith("0 0 "), coq_sample=0)
        ctx.correspond("DIST-WHOLE[%s]" % name, suites.dist_whole_cases(ctx.rng.fork("whole"), ctx.tier), hb2, db, flags=fl2,
                       predicate=dc.pred_parts, nontrivial=lambda c, i: i != "0", coq_sample=0)
    return finish(ctx)


def finish(ctx):
    return ctx.finish(
        level_note_assumptions=[
            "hash values have the variant's array sizes; bytes < 256 (every byte pattern, not only generatable hashes)",
            "the laws are theorems about the comparison model for every configuration and backend; they reach the code through "
            "C02's refinement theorem and the DIST suites"],
        trusted_base=dc.TB,
        checker_cmd="make -C coq Props/C08.vo && coqc Props/C08.v (Print Assumptions under every theorem)",
        rule=RULE)
