"""C16 -- serde: canonical encodings, lossless round trip, malformed input is an error."""
import json
import core
import common
import configs
import pyref
import suites
from suites import VARIANTS, VNAMES, hx
from props import hexcommon as hc

RULE = ("Four harness builds: serde, serde+strict-parser, serde+serde-buffered, serde+serde-buffered+strict-parser (thorough: all in full; quick: the first two in "
        "full and a sample on the third).  SERDE-MOCK: a scripted Deserializer issues every visitor event (str, string, char, "
        "bytes, byte_buf, integers, float, bool, unit, none) under both is_human_readable values: valid texts in every spelling, "
        "single-character damage, wrong lengths, bad prefixes, NON-ASCII strings with a multi-byte character at every early "
        "offset, byte strings of every length 0..2*SIZE+2, every (checksum, length) byte pair class under the strict build; a "
        "scripted Serializer records the emitted event.  Compared with the model and decided against the property text "
        "(accept iff the corresponding parser accepts, same value; everything else an error; never a panic).  SERDE-FORMATS: "
        "serde_json / ciborium / postcard: exact payloads (JSON = the quoted T1 string; CBOR = byte-string header + binary "
        "form; postcard = varint length + binary form), round trips, and malformed documents.  Non-trivial = document the "
        "deserializer accepts or a string/bytes event it rejects for content; distinct by case text.")

TB = hc.TB + [
    "serde's visitor forwarding defaults (visit_string/visit_borrowed_str/visit_char -> visit_str, visit_byte_buf/"
    "visit_borrowed_bytes -> visit_bytes, unimplemented visit_* -> invalid_type) by contract; the mock (de)serializer in "
    "harness/src/ops_serde.rs",
    "PARTIAL: serde_json, ciborium and postcard are outside the model; they are driven by the SERDE-FORMATS suite on the "
    "implementation only",
]


def strict_of(cfg):
    return "strict" in cfg


def expected_de(v, hr, kind, payload, strict):
    """property-level expectation for one event: ('ok', bin) | ('err',)"""
    kind = {"bstr": "str", "bbytes": "bytes"}.get(kind, kind)      # borrowed events carry the same data
    if kind in ("str", "string", "char") or (kind in ("bytes", "bytebuf") and hr):
        if not hr:
            return ("err",)
        r = pyref.parse_lenient(v, payload, "auto")
        if r[0] == "ok" and not (strict and pyref.strict_valid(v, r[1])):
            return ("ok", r[1])
        return ("err",)
    if kind in ("bytes", "bytebuf"):
        if len(payload) == VARIANTS[v][3] and not (strict and pyref.strict_valid(v, payload)):
            return ("ok", bytes(payload))
        return ("err",)
    return ("err",)


def make_pred(strict):
    def pred(c, i, m):
        p = c.split(" ")
        if p[0] == "serde_mock_de":
            v, hr, kind, payload = p[1], p[2] != "0", p[3], pyref.unhex(p[4])
            if i.startswith("PANIC") or i.startswith("CRASH"):
                return "deserializing a malformed document panicked instead of returning a deserialization error"
            e = expected_de(v, hr, kind, payload, strict)
            if e[0] == "ok":
                return None if i == "ok " + hx(e[1]) else "a document the parser accepts must deserialize to the same hash; got `%s`" % i[:80]
            return None if i.startswith("err ") else "a document the corresponding parser rejects was accepted: `%s`" % i[:80]
        if p[0] == "serde_mock_ser":
            v, hr, b = p[1], p[2] != "0", pyref.unhex(p[3])
            if i.startswith("hasherr"):
                return None
            want = ("str " + hx(pyref.fmt(v, b))) if hr else ("bytes " + hx(b))
            return None if i == want else "serialized event is `%s`, expected `%s`" % (i[:90], want[:90])
        return None
    return pred


def nonascii_strings(rng, v):
    """strings of exactly the accepted lengths with a multi-byte character at an early offset"""
    out = []
    L = VARIANTS[v][4]
    good = suites.ref_format(v, suites.plausible_bin(rng, v), True)
    for total in (L, L - 2):
        for off in (0, 1, 2, 3, 4, total - 2):
            for ch in ("é", "€", "\U0001F600"):
                bl = len(ch.encode())
                base = good if total == L else good[2:]
                s = base[:off] + ch + base[off + bl:]
                bs = s.encode()
                if len(bs) != total:
                    bs = (base[:off].encode() + ch.encode() + base.encode()[off + bl:])
                try:
                    bs.decode("utf-8")
                except UnicodeDecodeError:
                    continue
                out.append(bs[:total] if len(bs[:total].decode("utf-8", "ignore").encode()) == total else bs)
    return [x for x in out if _is_utf8(x)]


def _is_utf8(b):
    try:
        b.decode("utf-8")
        return True
    except UnicodeDecodeError:
        return False


def mock_cases(rng, tier, strict):
    cases = []
    n = 10 if tier == "quick" else 300
    for v in VNAMES:
        size, ls, ck = VARIANTS[v][3], VARIANTS[v][4], VARIANTS[v][0]
        for _ in range(n):
            b = suites.plausible_bin(rng, v) if rng.chance(3, 4) else suites.random_bin(rng, v)
            cases.append("serde_mock_ser %s 1 %s" % (v, hx(b)))
            cases.append("serde_mock_ser %s 0 %s" % (v, hx(b)))
            s = suites.ref_format(v, b, True)
            for t in (s, s[2:], suites.mixed_case(rng, s), s.lower()[2:]):
                kind = rng.choice(["str", "string", "bytes", "bytebuf"])
                cases.append("serde_mock_de %s 1 %s %s" % (v, kind, hx(t.encode())))
            cases.append("serde_mock_de %s 0 %s %s" % (v, rng.choice(["bytes", "bytebuf"]), hx(b)))
            cases.append("serde_mock_de %s 0 %s %s" % (v, rng.choice(["str", "string"]), hx(s.encode())))
            cases.append("serde_mock_de %s 1 %s %s" % (v, rng.choice(["bytes", "bytebuf"]), hx(b)))
            # damage
            d = bytearray(s.encode())
            d[rng.below(len(d))] = rng.choice(suites.INTERESTING_BYTES[:18])
            if _is_utf8(bytes(d)):
                cases.append("serde_mock_de %s 1 %s %s" % (v, rng.choice(["str", "string"]), hx(d)))
            cases.append("serde_mock_de %s 1 bytes %s" % (v, hx(d)))
        good = suites.ref_format(v, suites.plausible_bin(rng, v), True).encode()
        for L in range(0, 2 * ls + 3, 1 if tier != "quick" else 3):
            cases.append("serde_mock_de %s 1 str %s" % (v, hx((good * 3)[:L])))
        for L in range(0, 2 * size + 3):
            cases.append("serde_mock_de %s 0 %s %s" % (v, rng.choice(["bytes", "bytebuf"]), hx(rng.bytes(L))))
        for pfx in (b"T0", b"t1", b"T2", b"1T", b"  "):
            cases.append("serde_mock_de %s 1 str %s" % (v, hx(pfx + good[2:])))
        # a well-formed string with something in front of / behind it (doubled prefix, white space, NUL, BOM ..): a visitor that
        # strips or trims before handing the text to the parser would accept these
        for d in suites.affixed(good):
            kinds = ["str", "string", "bytes", "bytebuf"] if _is_utf8(d) else ["bytes", "bytebuf"]
            for kind in kinds[::(2 if tier == "quick" else 1)]:
                cases.append("serde_mock_de %s 1 %s %s" % (v, kind, hx(d)))
        for bs in nonascii_strings(rng, v):
            cases.append("serde_mock_de %s 1 %s %s" % (v, rng.choice(["str", "string"]), hx(bs)))
        # borrowed events (zero-copy formats), a sequence of u8, a newtype wrapper, Some(..)
        gb = suites.plausible_bin(rng, v)
        gs = suites.ref_format(v, gb, True).encode()
        for hr in (0, 1):
            for kind, pl in (("bstr", gs), ("bstr", gs[2:].lower()), ("bstr", gs[:-1]), ("bbytes", gb), ("bbytes", gs), ("bbytes", gb[:-1]),
                             ("bbytes", gb + b"\x00"), ("seq", gb), ("seq", gs), ("newtype", gs), ("some", gs)):
                cases.append("serde_mock_de %s %d %s %s" % (v, hr, kind, hx(pl)))
        for kind in ("u8", "u64", "i64", "f64", "bool", "unit", "none", "char"):
            for hr in (0, 1):
                cases.append("serde_mock_de %s %d %s %s" % (v, hr, kind, hx(b"T")))
        # validity boundary of header bytes (decisive under the strict parser)
        base = bytearray(suites.plausible_bin(rng, v))
        for c0 in (0, 47, 48, 49, 50, 255):
            for ln in (0, 168, 169, 170, 171, 255):
                b = bytearray(base)
                b[0], b[ck] = c0, ln
                cases.append("serde_mock_de %s 0 bytes %s" % (v, hx(b)))
                cases.append("serde_mock_de %s 0 bytebuf %s" % (v, hx(b)))
                cases.append("serde_mock_de %s 1 str %s" % (v, hx(suites.ref_format(v, b, True).encode())))
    return cases


def varint(n):
    out = bytearray()
    while True:
        if n < 128:
            out.append(n)
            return bytes(out)
        out.append((n & 0x7F) | 0x80)
        n >>= 7


def cbor_bytes(b):
    n = len(b)
    head = bytes([0x40 + n]) if n < 24 else bytes([0x58, n])
    return head + bytes(b)


def format_cases(rng, tier, strict):
    cases = []
    n = 8 if tier == "quick" else 300
    for v in VNAMES:
        size = VARIANTS[v][3]
        ck = VARIANTS[v][0]
        for _ in range(n):
            b = suites.plausible_bin(rng, v)
            for f in ("json", "cbor", "postcard"):
                cases.append("serde_fmt %s %s %s" % (v, f, hx(b)))
        good = suites.ref_format(v, suites.plausible_bin(rng, v), True)
        docs = ['"%s"' % good, '"%s"' % good[2:], '"%s"' % good.lower().replace("t1", "T1"), '"%s"' % good[:-1], '"T0%s"' % good[2:],
                '"%sG"' % good[:-1], "1", "null", "[1]", '{"a":1}', '""', '"\\u0054\\u0031%s"' % good[2:], "true", '"Té%s"' % good[3:]]
        for a in suites.affixed(good.encode()):
            if _is_utf8(a) and all(32 <= c < 127 for c in a):
                docs.append('"%s"' % a.decode())
        for d in docs:
            cases.append("serde_de %s json %s" % (v, hx(d.encode())))
        for L in (0, 1, size - 1, size, size + 1, 2 * size):
            blob = rng.bytes(L)
            if L == size:
                blob = suites.plausible_bin(rng, v)
            cases.append("serde_de %s cbor %s" % (v, hx(cbor_bytes(blob))))
            cases.append("serde_de %s postcard %s" % (v, hx(varint(L) + blob)))
        for c0 in (48, 49, 255):
            for ln in (169, 170, 255):
                b = bytearray(suites.plausible_bin(rng, v))
                b[0], b[ck] = c0, ln
                cases.append("serde_de %s cbor %s" % (v, hx(cbor_bytes(b))))
                cases.append("serde_de %s postcard %s" % (v, hx(varint(size) + bytes(b))))
                cases.append("serde_de %s json %s" % (v, hx(('"%s"' % suites.ref_format(v, b, True)).encode())))
        cases.append("serde_de %s cbor %s" % (v, hx(b"\x63abc")))       # a CBOR text string
        cases.append("serde_de %s cbor %s" % (v, hx(b"\x01")))          # a CBOR integer
        cases.append("serde_de %s postcard x" % v)
    return cases


def make_fmt_pred(strict):
    def pred(c, i):
        p = c.split(" ")
        v = p[1]
        if i.startswith("PANIC") or i.startswith("CRASH"):
            return "the format crate round trip / deserialization panicked"
        if p[0] == "serde_fmt":
            b = pyref.unhex(p[3])
            if i.startswith("hasherr"):
                return None
            payload, _, back = i.partition(" ")
            want = {"json": b'"' + pyref.fmt(v, b) + b'"', "cbor": cbor_bytes(b), "postcard": varint(len(b)) + b}[p[2]]
            if pyref.unhex(payload) != want:
                return "%s payload is %s, expected %s" % (p[2], payload[:80], hx(want)[:80])
            if back != "ok " + hx(b):
                return "deserializing the serialized hash does not give back the identical hash (%s)" % back[:80]
            return None
        if p[0] == "serde_de":
            doc = pyref.unhex(p[3])
            exp = None
            if p[2] == "json":
                try:
                    val = json.loads(doc.decode("utf-8"))
                except Exception:
                    val = None
                if isinstance(val, str):
                    r = pyref.parse_lenient(v, val.encode(), "auto")
                    if r[0] == "ok" and not (strict and pyref.strict_valid(v, r[1])):
                        exp = r[1]
            elif p[2] == "cbor":
                if len(doc) >= 1 and (doc[0] >> 5) == 2:
                    body = doc[1:] if doc[0] < 0x58 else doc[2:]
                    n = doc[0] - 0x40 if doc[0] < 0x58 else (doc[1] if len(doc) > 1 else -1)
                    if n == len(body) == VARIANTS[v][3] and not (strict and pyref.strict_valid(v, body)):
                        exp = bytes(body)
            else:
                if len(doc) >= 1 and doc[0] < 128 and doc[0] == len(doc) - 1 == VARIANTS[v][3]:
                    if not (strict and pyref.strict_valid(v, doc[1:])):
                        exp = bytes(doc[1:])
            if exp is not None:
                return None if i == "ok " + hx(exp) else "a document the parser accepts must deserialize to the same hash; got `%s`" % i[:80]
            return None if i == "err" else "a malformed document was accepted: `%s`" % i[:80]
        return None
    return pred


def run_config(ctx, cfg, full):
    hb = ctx.harness(cfg)
    db = ctx.driver()
    if hb is None or db is None:
        return
    fl = configs.flags(cfg)
    strict = strict_of(cfg)
    rng = ctx.rng.fork("serde-" + cfg)
    tier = ctx.tier if full else "quick"
    cases = mock_cases(rng, tier, strict)
    if not full:
        cases = cases[::4]
    ctx.correspond("SERDE-MOCK[%s]" % cfg, cases, hb, db, flags=fl, predicate=make_pred(strict), coq_sample=6 if full else 2,
                   nontrivial=lambda c, i: i.startswith("ok") or i.startswith("err custom") or i.startswith("str") or i.startswith("bytes"))
    fcases = format_cases(rng, tier, strict)
    if not full:
        fcases = fcases[::3]
    ctx.impl_only("SERDE-FORMATS[%s]" % cfg, fcases, hb, make_fmt_pred(strict), nontrivial=lambda c, i: "ok" in i)


def run(ctx):
    ctx.translate()
    ctx.proofs()
    hb = ctx.harness("serde")
    if hb is not None:
        common.translator_crosscheck(ctx, hb)
    run_config(ctx, "serde", True)
    run_config(ctx, "serde-strict", True)
    run_config(ctx, "serde-buffered", ctx.tier != "quick")
    run_config(ctx, "serde-buffered-strict", ctx.tier != "quick")
    return finish(ctx)


def finish(ctx):
    return ctx.finish(
        level_note_assumptions=[
            "a (de)serializer is modelled by the data-model event it presents or receives; strings are UTF-8 byte lists",
            "PARTIAL: the format crates are outside the model (SERDE-FORMATS drives them on the implementation only)"],
        trusted_base=TB,
        checker_cmd="make -C coq Props/C16.vo && coqc Props/C16.v (Print Assumptions under every theorem)",
        rule=RULE)
