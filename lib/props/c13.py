"""C13 -- string comparison helpers equal parse-then-compare and blame the right side."""
import core
import configs
import pyref
import suites
from suites import VARIANTS, VNAMES, hx
from props import distcommon as dc

RULE = ("EASY: tlsh::compare_with::<T> for all five variants and tlsh::compare on string pairs: both valid (random, equal, one "
        "bit apart) in every spelling (upper/lower/mixed case x with/without T1 on either side), left bad, right bad, BOTH bad "
        "with different error kinds on the two sides (wrong length, bad prefix, bad character; every pair of kinds).  Each case "
        "is decided on the implementation against the property (distance = reference distance of the two denoted hashes; "
        "error side = left if the left string does not parse, else right; error = the parser's own) and compared with the "
        "model.  Non-trivial = at least one side parses; distinct by case text.")


def damage(rng, s, kind):
    b = bytearray(s)
    if kind == "len":
        return bytes(b[:-1]) if rng.chance(1, 2) else bytes(b + b"0")
    if kind == "prefix":
        if not s.startswith(b"T1"):
            b = bytearray(b"T1" + s)
        b[rng.below(2)] = rng.choice([0x74, 0x32, 0x54 if False else 0x55, 0x20])
        return bytes(b)
    if kind == "char":
        i = (2 if s.startswith(b"T1") else 0) + rng.below(len(s) - 2)
        b[i] = rng.choice([0x47, 0x67, 0x2F, 0x3A, 0x40, 0x60, 0x20, 0x7A])
        return bytes(b)
    return s


def spell(rng, v, binb):
    s = suites.ref_format(v, binb, True)
    k = rng.below(6)
    if k == 0:
        t = s
    elif k == 1:
        t = s[2:]
    elif k == 2:
        t = "T1" + s[2:].lower()
    elif k == 3:
        t = s[2:].lower()
    elif k == 4:
        t = suites.mixed_case(rng, s)
    else:
        t = suites.mixed_case(rng, s)[2:]
    return t.encode()


def cases_for(rng, tier):
    cases = []
    n = 40 if tier == "quick" else 3000
    kinds = ["len", "prefix", "char"]
    for v in VNAMES:
        size = VARIANTS[v][3]
        for _ in range(n):
            a = bytearray(suites.random_bin(rng, v))
            k = rng.below(4)
            if k == 0:
                b = bytearray(a)
            elif k == 1:
                b = bytearray(a)
                b[rng.below(size)] ^= 1 << rng.below(8)
            else:
                b = bytearray(suites.random_bin(rng, v))
            # several spellings of the same pair: all must give the same distance
            for _s in range(3):
                cases.append("cmpstr %s %s %s" % (v, hx(spell(rng, v, a)), hx(spell(rng, v, b))))
        for lk in kinds + [None]:
            for rk in kinds + [None]:
                if lk is None and rk is None:
                    continue
                for _ in range(3 if tier == "quick" else 60):
                    a, b = suites.random_bin(rng, v), suites.random_bin(rng, v)
                    l = damage(rng, spell(rng, v, a), lk)
                    r = damage(rng, spell(rng, v, b), rk)
                    cases.append("cmpstr %s %s %s" % (v, hx(l), hx(r)))
        # the SAME hash on both sides in different spellings, including invalid ones (lower-case prefix on one side only)
        for _ in range(4 if tier == "quick" else 100):
            t = suites.ref_format(v, suites.random_bin(rng, v), True)
            for l, r in ((t, t.lower()), (t.lower(), t), (t, "t" + t[1:]), ("t" + t[1:], t), (t[2:], t[2:].lower()), (t, t[2:].lower()),
                         (t, t.lower().replace("t1", "T1", 1)), (t, t), (t.lower(), t.lower()), (t, t + " "), (t + " ", t), (t, " " + t)):
                cases.append("cmpstr %s %s %s" % (v, hx(l.encode()), hx(r.encode())))
        # a well-formed string with something in front of / behind it, on either side (ASCII only: the helpers take &str)
        t = suites.ref_format(v, suites.random_bin(rng, v), True).encode()
        for d in suites.affixed(t):
            if all(c < 128 for c in d):
                cases.append("cmpstr %s %s %s" % (v, hx(d), hx(t)))
                cases.append("cmpstr %s %s %s" % (v, hx(t), hx(d)))
        # far-apart pairs (the variant's own maximum and values around the DEFAULT type's maximum): opposite bodies, length codes
        # 0 vs 128, Q ratios 0 vs 8, different checksums -- and the same with some parts equal
        size, ckn = VARIANTS[v][3], VARIANTS[v][0]
        for body_b in (0xFF, 0xF0, 0xAA):
            for (la, lb) in ((0, 128), (0, 100), (0, 1), (5, 5)):
                for (qa, qb) in ((0x00, 0x88), (0x00, 0x08), (0x11, 0x11)):
                    for ckd in (0, 1):
                        a = bytearray(size)
                        b2 = bytearray([body_b] * size)
                        for i in range(ckn):
                            a[i], b2[i] = 1, 1 + ckd
                        a[ckn], b2[ckn] = la, lb
                        a[ckn + 1], b2[ckn + 1] = qa, qb
                        sa, sb = suites.ref_format(v, bytes(a), True), suites.ref_format(v, bytes(b2), True)
                        cases.append("cmpstr %s %s %s" % (v, hx(sa.encode()), hx(sb.lower()[2:].encode())))
                        cases.append("cmpstr %s %s %s" % (v, hx(sb.encode()), hx(sa.encode())))
        # a 2-, 3- or 4-byte character replacing as many ASCII bytes (same byte length) near the prefix, on either side
        t = suites.ref_format(v, suites.random_bin(rng, v), True)
        for ch in ("\u00e9", "\u20ac", "\U0001F600"):
            enc = ch.encode("utf-8")
            for off in range(0, 5):
                d = t.encode()[:off] + enc + t.encode()[off + len(enc):]
                cases.append("cmpstr %s %s %s" % (v, hx(d), hx(t.encode())))
                cases.append("cmpstr %s %s %s" % (v, hx(t.encode()), hx(d)))
                if v == "N":
                    cases.append("cmpstr_default %s %s" % (hx(d), hx(t.encode())))
                    cases.append("cmpstr_default %s %s" % (hx(t.encode()), hx(d)))
                    cases.append("cmpstr_default %s %s" % (hx(d), hx(d)))
        # the same checksum and body with different length / Q-ratio bytes (a shortcut that looks at part of the hash only),
        # through the generic helper and, for the default type, through `compare`
        base = bytearray(suites.random_bin(rng, v))
        for dl, dq in ((1, 0), (0, 1), (2, 0x10), (0x40, 0), (0, 0x88), (0x7f, 0x11)):
            o = bytearray(base)
            o[ckn] = (o[ckn] + dl) % 256
            o[ckn + 1] = (o[ckn + 1] + dq) % 256
            sa, sb = suites.ref_format(v, bytes(base), True), suites.ref_format(v, bytes(o), True)
            cases.append("cmpstr %s %s %s" % (v, hx(sa.encode()), hx(sb.encode())))
            cases.append("cmpstr %s %s %s" % (v, hx(sb.lower().encode()), hx(sa[2:].encode())))
            if v == "N":
                cases.append("cmpstr_default %s %s" % (hx(sa.encode()), hx(sb.encode())))
                cases.append("cmpstr_default %s %s" % (hx(sb[2:].encode()), hx(sa.lower().encode())))
        # a differing checksum only / a differing single body byte only, through `compare`
        if v == "N":
            for pos in (0, ckn + 2, size - 1):
                o = bytearray(base)
                o[pos] ^= 0x41
                cases.append("cmpstr_default %s %s" % (hx(suites.ref_format(v, bytes(base), True).encode()), hx(suites.ref_format(v, bytes(o), True).encode())))
        cases.append("cmpstr %s %s %s" % (v, hx(b""), hx(b"")))
        cases.append("cmpstr %s %s %s" % (v, hx(b"TNULL"), hx(b"T1")))
    for _ in range(n):
        a, b = suites.random_bin(rng, "N"), suites.random_bin(rng, "N")
        lk, rk = rng.choice([None, None, "len", "char", "prefix"]), rng.choice([None, None, "len", "char", "prefix"])
        cases.append("cmpstr_default %s %s" % (hx(damage(rng, spell(rng, "N", a), lk)), hx(damage(rng, spell(rng, "N", b), rk))))
    return cases


def pred(c, i, m):
    p = c.split(" ")
    if p[0] == "cmpstr":
        v, l, r = p[1], pyref.unhex(p[2]), pyref.unhex(p[3])
    else:
        v, l, r = "N", pyref.unhex(p[1]), pyref.unhex(p[2])
    if i.startswith("PANIC") or i.startswith("CRASH"):
        return "comparison helper did not return normally"
    pl, pr = pyref.parse_lenient(v, l, "auto"), pyref.parse_lenient(v, r, "auto")
    g = i.split(" ")
    if pl[0] == "err":
        if g[0] != "err" or g[1] != "Left":
            return "the left string does not parse (%s): the error must name the left side; got `%s`" % (pl[1], i)
        if (g[2] == "InvalidStringLength") != (pl[1] == "InvalidStringLength"):
            return "the error must be the parser's error for the left string (%s); got %s" % (pl[1], g[2])
        return None
    if pr[0] == "err":
        if g[0] != "err" or g[1] != "Right":
            return "only the right string does not parse (%s): the error must name the right side; got `%s`" % (pr[1], i)
        if (g[2] == "InvalidStringLength") != (pr[1] == "InvalidStringLength"):
            return "the error must be the parser's error for the right string (%s); got %s" % (pr[1], g[2])
        return None
    e = pyref.dist(v, pl[1], pr[1], "default")
    if i != "ok %d" % e:
        return "both strings parse; parse-then-compare gives %d but the helper returned `%s`" % (e, i)
    return None


def run(ctx):
    hb, db = dc.setup(ctx)
    if hb is None or db is None:
        return finish(ctx)
    fl = configs.flags("default")
    ctx.correspond("EASY", cases_for(ctx.rng.fork("easy"), ctx.tier), hb, db, flags=fl, predicate=pred,
                   nontrivial=lambda c, i: i.startswith("ok") or "Right" in i)
    return finish(ctx)


def finish(ctx):
    return ctx.finish(
        level_note_assumptions=["inputs are &str, modelled as byte lists (FromStr goes through from_str_bytes)",
                                "mostly glue: the content comes from C02 (distance) and C04/C05 (parser) through the same models"],
        trusted_base=dc.TB + ["hand model Model/MStream.v compare_with of compare_easy.rs, tied by the EASY suite"],
        checker_cmd="make -C coq Props/C13.vo && coqc Props/C13.v (Print Assumptions under every theorem)",
        rule=RULE)
