"""C15 -- strict parser rejects exactly impossible hashes; generated hashes always pass."""
import core
import common
import configs
import pyref
import suites
from suites import VARIANTS, VNAMES, hx
from props import hexcommon as hc
from props import gencommon as gc

RULE = ("Harness built WITH feature strict-parser (model flag 1).  STRICT-HEADER: every (checksum byte, length byte) pair -- "
        "65536 per variant on Short and Normal (quick; all five thorough), sampled on the others -- as text (from_str_bytes) and "
        "as bytes (TryFrom<&[u8]>, TryFrom<&[u8;N]>); STRICT-MALFORMED: the C05 malformed stream (single/double damage, all "
        "lengths, prefixes) under the strict parser; each case decided against the property text (accepted iff lenient-accepted "
        "and length code < 170 and, 48-bucket, checksum <= 48; InvalidChecksum / LengthIsTooLarge when that is the only reason) "
        "and against the model.  GEN-STRICT: generated hashes (every variant, lengths at every threshold, seven textures, random "
        "option settings) -> checksum().is_valid(), length().is_valid() -> TryFrom bytes -> Display -> from_str_bytes, all under "
        "the strict build.  Non-trivial = input that the lenient parser accepts; distinct by case text.")


def lenient(c):
    p = c.split(" ")
    if p[0] == "parse":
        v, r = p[1], pyref.parse_lenient(p[1], pyref.unhex(p[3]), p[2])
    elif p[0] == "fromstr":
        v, r = p[1], pyref.parse_lenient(p[1], pyref.unhex(p[2]), "auto")
    elif p[0] in ("frombytes", "fromarray"):
        v, b = p[1], pyref.unhex(p[2])
        r = ("ok", b) if len(b) == VARIANTS[v][3] else ("err", "InvalidStringLength")
    else:
        return None, None
    return v, r


def pred_strict(c, i, m):
    v, r = lenient(c)
    if v is None:
        return None
    if i.startswith("PANIC") or i.startswith("CRASH") or i.startswith("INCONSISTENT"):
        return "parser did not return normally"
    g = i.split(" ")
    if r[0] == "err":
        if g[0] != "err":
            return "the strict parser accepted an input the lenient parser rejects (%s)" % r[1]
        if (g[1] == "InvalidStringLength") != (r[1] == "InvalidStringLength"):
            return "a wrong length must be reported as InvalidStringLength, and only a wrong length"
        return None
    why = pyref.strict_valid(v, r[1])
    if why is None:
        if g[0] != "ok" or pyref.unhex(g[1]) != r[1]:
            return "a valid hash accepted by the lenient parser must be accepted by the strict parser with the same value"
        return None
    if g[0] != "err":
        return "the strict parser accepted an impossible hash (%s)" % why
    both = (v == "S" and r[1][0] > 48) and r[1][VARIANTS[v][0]] >= 170
    if not both and g[1] != why:
        return "rejected only because of %s but reported %s" % (why, g[1])
    if both and g[1] not in ("InvalidChecksum", "LengthIsTooLarge"):
        return "rejected for checksum and length but reported %s" % g[1]
    return None


def header_cases(rng, tier):
    cases = []
    for v in VNAMES:
        ck = VARIANTS[v][0]
        full = tier != "quick" or v in ("S", "N")
        base = bytearray(suites.plausible_bin(rng, v))
        for c0 in range(256):
            for ln in range(256):
                if not full and (c0 * 7 + ln) % 23:
                    continue
                b = bytearray(base)
                b[0], b[ck] = c0, ln
                if rng.chance(1, 16):
                    b[ck + 1] = rng.below(256)
                k = (c0 + ln) % 4
                if k == 0:
                    cases.append("frombytes %s %s" % (v, hx(b)))
                elif k == 1:
                    cases.append("fromarray %s %s" % (v, hx(b)))
                else:
                    s = suites.ref_format(v, b, True)
                    if k == 3:
                        s = suites.mixed_case(rng, s)[2:]
                    cases.append("parse %s %s %s" % (v, rng.choice(["auto", "with" if k == 2 else "empty"]), hx(s.encode())))
        # boundary values on every variant, every entry point
        for c0 in (0, 47, 48, 49, 50, 255):
            for ln in (0, 168, 169, 170, 171, 255):
                b = bytearray(base)
                b[0], b[ck] = c0, ln
                s = suites.ref_format(v, b, True)
                cases += ["frombytes %s %s" % (v, hx(b)), "fromarray %s %s" % (v, hx(b)),
                          "parse %s auto %s" % (v, hx(s.encode())), "parse %s with %s" % (v, hx(s.encode())),
                          "parse %s empty %s" % (v, hx(s[2:].lower().encode())), "fromstr %s %s" % (v, hx(s.encode())),
                          "valid %s %s" % (v, hx(b))]
                # invalid header AND damage elsewhere (error precedence is the model's)
                d = bytearray(s.encode())
                d[len(d) - 1 - rng.below(8)] = rng.choice([0x47, 0x2F, 0x67, 0x00])
                cases.append("parse %s auto %s" % (v, hx(d)))
    return cases


def gen_strict_chain(ctx, hb, rng, tier):
    """generated hashes survive the strict round trip, on the implementation alone"""
    n = 25 if tier == "quick" else 600
    c1 = []
    for v in VNAMES:
        for L in suites.THRESHOLD_LENGTHS + [300, 513, 1000, 4096][: (2 if tier == "quick" else 4)]:
            for o in (30, 28, rng.below(32) | 28):
                c1.append("hash %s %d %s" % (v, o, hx(suites.gen_data(rng, L))))
        for _ in range(n):
            c1.append("hash %s %d %s" % (v, rng.below(32) | 4, hx(suites.gen_data(rng, 50 + rng.below(700)))))
        # sizes around powers of two (+/- the 4 window-filling bytes): block-wise update paths
        for k in range(6, 14):
            for d in (0, 4, 5, -1):
                c1.append("hash %s 28 %s" % (v, hx(suites.gen_data(rng, 2 ** k + d, 0))))
        c1.append("hash %s 28 %s" % (v, hx(suites.gen_data(rng, 3 * 4096 + 4, 0))))
    o1 = core.run_cases(hb, c1, tag="c15a")
    c2 = []
    src = []
    for c, o in zip(c1, o1):
        ctx.evaluations += 1
        if o.startswith("ok "):
            v = c.split(" ")[1]
            b = o.split(" ")[1]
            c2 += ["valid %s %s" % (v, b), "frombytes %s %s" % (v, b), "fromarray %s %s" % (v, b), "display %s %s" % (v, b)]
            src += [(c, b)] * 4
        elif not o.startswith("err "):
            ctx.violations.append({"suite": "GEN-STRICT", "case": c, "impl": o, "what": "generation did not return normally"})
    o2 = core.run_cases(hb, c2, tag="c15b")
    c3, src3 = [], []
    for (c, b), cc, o in zip(src, c2, o2):
        ctx.evaluations += 1
        op = cc.split(" ")[0]
        bad = None
        if op == "valid" and o != "1 1":
            bad = "a generated hash has an invalid checksum or length code (is_valid = %s)" % o
        if op in ("frombytes", "fromarray") and o != "ok " + b:
            bad = "a generated hash does not survive the strict binary round trip"
        if op == "display":
            if not o.startswith("x"):
                bad = "Display failed on a generated hash"
            else:
                v = cc.split(" ")[1]
                c3.append("parse %s auto %s" % (v, o))
                src3.append((c, b))
                c3.append("parse %s empty x%s" % (v, o[5:]))
                src3.append((c, b))
        if bad:
            ctx.violations.append({"suite": "GEN-STRICT", "case": c + " ; " + cc, "impl": o, "what": bad})
    o3 = core.run_cases(hb, c3, tag="c15c")
    for (c, b), cc, o in zip(src3, c3, o3):
        ctx.evaluations += 1
        if o != "ok " + b:
            ctx.violations.append({"suite": "GEN-STRICT", "case": c + " ; " + cc, "impl": o,
                                   "what": "a generated hash does not survive the strict text round trip"})
    ctx.suites["GEN-STRICT"] = {"inputs": len(c1), "hashes_generated": len(c2) // 4, "strict_parses": len(c3)}
    for c, o in list(zip(c1, o1))[:2]:
        ctx.samples.append({"suite": "GEN-STRICT", "case": c[:200], "impl": o[:200]})
    for c in c1:
        ctx.nontrivial.add(("gen", c))


def run(ctx):
    hb, db = hc.setup(ctx, "strict")
    if hb is None or db is None:
        return finish(ctx)
    fl = configs.flags("strict")
    nt = lambda c, i: lenient(c)[1] is not None and lenient(c)[1][0] == "ok"
    ctx.correspond("STRICT-HEADER", header_cases(ctx.rng.fork("hdr"), ctx.tier), hb, db, flags=fl, predicate=pred_strict, nontrivial=nt)
    ctx.correspond("STRICT-MALFORMED", suites.hex_malformed_cases(ctx.rng.fork("mal"), ctx.tier), hb, db, flags=fl,
                   predicate=pred_strict, nontrivial=nt)
    gen_strict_chain(ctx, hb, ctx.rng.fork("gen"), ctx.tier)
    # strict-parser TOGETHER with the table codecs (quarter decode table, min encode table, no hex-simd)
    for cfg2 in ("strict-decq", "strict-decmin", "strict-nosimd", "strict-unsafe"):
        hb2 = ctx.harness(cfg2)
        if hb2 is None:
            continue
        fl2 = configs.flags(cfg2)
        hc2 = header_cases(ctx.rng.fork("hdr"), ctx.tier)
        ctx.correspond("STRICT-HEADER[%s]" % cfg2, hc2[::(3 if ctx.tier == "quick" else 1)], hb2, db, flags=fl2, predicate=pred_strict,
                       nontrivial=nt, coq_sample=0)
        ctx.correspond("STRICT-MALFORMED[%s]" % cfg2, suites.hex_malformed_cases(ctx.rng.fork("mal"), ctx.tier)[::(3 if ctx.tier == "quick" else 1)],
                       hb2, db, flags=fl2, predicate=pred_strict, nontrivial=nt, coq_sample=0)
    return finish(ctx)


def finish(ctx):
    return ctx.finish(
        level_note_assumptions=[
            "inputs are byte lists; hash values have the variant's array sizes",
            "the generator side goes through C01's refinement theorem (select_nth_unstable by contract, binary32 by SpecFloat)"],
        trusted_base=hc.TB + gc.TB[len(core.COMMON_TRUSTED):],
        checker_cmd="make -C coq Props/C15.vo && coqc Props/C15.v (Print Assumptions under every theorem)",
        rule=RULE)
