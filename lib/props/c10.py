"""C10 -- published length limits are enforced; permissive options only widen acceptance."""
import core
import configs
import suites
from suites import VNAMES, hx
from props import gencommon as gc

RULE = ("GEN-HASH: per variant, inputs at every length threshold (0..6, 9-11, 17-19, 49-51, 127-129, 255-257, ...) and "
        "larger ones in seven textures (incl. low-entropy data that empties buckets), each hashed under ALL 32 option "
        "settings; implementation vs model, and on the implementation alone: length error iff the published classification "
        "says so, o <= o' (same Q mode) preserves an Ok result, allow-quarter implies allow-half.  TOO-LARGE: generator states "
        "with MAX-1 .. 2^32 bytes seen (injected through the hook) finalized under all 32 settings: TooLargeInput exactly above MAX, "
        "whatever is waived.  LIMITS: "
        "DataLengthValidity::new / is_err / is_err_on and Generator::{MIN,MIN_CONSERVATIVE,MAX} for all interesting n.  "
        "Non-trivial = the input reaches finalization past the length gate; distinct by case text.")


def run(ctx):
    hb, db = gc.setup(ctx)
    if hb is None or db is None:
        return finish(ctx)
    fl = configs.flags("default")
    cases = suites.gen_hash_cases(ctx.rng.fork("hash"), ctx.tier)
    rows = ctx.correspond("GEN-HASH", cases, hb, db, flags=fl, coq_sample=6,
                          nontrivial=lambda c, i: not ("TooSmallInput" in i or "TooLargeInput" in i))
    gc.check_options_properties(ctx, [r[0] for r in rows], [r[1] for r in rows])
    # too large is never waivable: generator states just above the maximum (entered through the hook), all 32 option settings
    rng = ctx.rng.fork("toolarge")
    big = []
    for v in VNAMES:
        ck = suites.VARIANTS[v][0]
        for total in (gc.MAX + 1, gc.MAX + 2, gc.MAX + 1000, 2 ** 32 - 1, 2 ** 32, gc.MAX, gc.MAX - 1):
            bk = [1000 + rng.below(5000) for _ in range(256)]
            ops = " ".join("f %d" % o for o in range(32))
            # raw state: len counts the bytes after the first four; saturates at 2^32-4
            big.append("hist %s inject %s %d %s %s 4 %s" % (v, hx(suites.le32s(bk)), min(total - 4, 2 ** 32 - 4), hx(rng.bytes(ck)),
                                                             hx(rng.bytes(4)), ops))

    def big_pred(c, i, m):
        p = c.split(" ")
        total = int(p[4]) + 4
        outs = i.split(" | ")
        if i.startswith("PANIC") or i.startswith("CRASH") or len(outs) != 32:
            return "finalize did not return normally on a generator that has seen %d bytes" % total
        for o, r in enumerate(outs):
            if total > gc.MAX and r != "err TooLargeInput":
                return "%d bytes fed (> %d): option setting %d gives `%s`; too large is never waivable" % (total, gc.MAX, o, r[:60])
            if total <= gc.MAX and r == "err TooLargeInput":
                return "%d bytes fed (<= %d) reported as too large under option setting %d" % (total, gc.MAX, o)
        return None
    ctx.correspond("TOO-LARGE", big, hb, db, flags=fl, predicate=big_pred, coq_sample=2, nontrivial=lambda c, i: True)
    lim = []
    for v in VNAMES:
        lim.append("limits %s" % v)
        for n in list(range(0, 140)) + [gc.MAX - 1, gc.MAX, gc.MAX + 1, 2 ** 32 - 1]:
            lim.append("validity %s %d" % (v, n))

    def pred(c, i, m):
        p = c.split(" ")
        if p[0] == "validity":
            exp = gc.validity(p[1], int(p[2]))
            if i.split(" ")[0] != exp:
                return "DataLengthValidity::new differs from the published limits (%s)" % exp
        if p[0] == "limits":
            bk = suites.VARIANTS[p[1]][1]
            exp = "%d %d %d" % ((10, 10, gc.MAX) if bk == 48 else (50, 128, gc.MAX))
            if i != exp:
                return "generator constants MIN/MIN_CONSERVATIVE/MAX differ from the published ones"
        return None
    ctx.correspond("LIMITS", lim, hb, db, flags=fl, predicate=pred, coq_sample=6)
    return finish(ctx)


def finish(ctx):
    return ctx.finish(
        level_note_assumptions=["select_nth_unstable by contract; options are the five documented switches"],
        trusted_base=gc.TB,
        checker_cmd="make -C coq Props/C10.vo && coqc Props/C10.v (Print Assumptions under every theorem)",
        rule=RULE)
