"""C10 -- published length limits are enforced; permissive options only widen acceptance."""
import core
import configs
import suites
from suites import VNAMES, hx
from props import gencommon as gc

RULE = ("GEN-HASH: per variant, inputs at every length threshold (0..6, 9-11, 17-19, 49-51, 127-129, 255-257, ...) and "
        "larger ones in seven textures (incl. low-entropy data that empties buckets), each hashed under ALL 32 option "
        "settings; implementation vs model, and on the implementation alone: length error iff the published classification "
        "says so, o <= o' (same Q mode) preserves an Ok result, allow-quarter implies allow-half.  TOO-LARGE: generator states "
        "with MAX-1 .. 2^32 bytes seen (injected through the hook) finalized under all 32 settings: TooLargeInput exactly above MAX, "
        "whatever is waived.  LIMITS: "
        "DataLengthValidity::new / is_err / is_err_on and Generator::{MIN,MIN_CONSERVATIVE,MAX} for all interesting n.  "
        "Non-trivial = the input reaches finalization past the length gate; distinct by case text.")


def run(ctx):
    hb, db = gc.setup(ctx)
    if hb is None or db is None:
        return finish(ctx)
    fl = configs.flags("default")
    cases = suites.gen_hash_cases(ctx.rng.fork("hash"), ctx.tier)
    rows = ctx.correspond("GEN-HASH", cases, hb, db, flags=fl, coq_sample=6,
                          nontrivial=lambda c, i: not ("TooSmallInput" in i or "TooLargeInput" in i))
    gc.check_options_properties(ctx, [r[0] for r in rows], [r[1] for r in rows])
    # too large is never waivable: generator states just above the maximum (entered through the hook), all 32 option settings
    rng = ctx.rng.fork("toolarge")
    big = []
    for v in VNAMES:
        ck = suites.VARIANTS[v][0]
        for total in (gc.MAX + 1, gc.MAX + 2, gc.MAX + 1000, 2 ** 32 - 1, 2 ** 32, gc.MAX, gc.MAX - 1):
            bk = [1000 + rng.below(5000) for _ in range(256)]
            ops = " ".join("f %d" % o for o in range(32))
            # raw state: len counts the bytes after the first four; saturates at 2^32-4
            big.append("hist %s inject %s %d %s %s 4 %s" % (v, hx(suites.le32s(bk)), min(total - 4, 2 ** 32 - 4), hx(rng.bytes(ck)),
                                                             hx(rng.bytes(4)), ops))

    def big_pred(c, i, m):
        p = c.split(" ")
        total = int(p[4]) + 4
        outs = i.split(" | ")
        if i.startswith("PANIC") or i.startswith("CRASH") or len(outs) != 32:
            return "finalize did not return normally on a generator that has seen %d bytes" % total
        for o, r in enumerate(outs):
            if total > gc.MAX and r != "err TooLargeInput":
                return "%d bytes fed (> %d): option setting %d gives `%s`; too large is never waivable" % (total, gc.MAX, o, r[:60])
            if total <= gc.MAX and r == "err TooLargeInput":
                return "%d bytes fed (<= %d) reported as too large under option setting %d" % (total, gc.MAX, o)
        return None
    ctx.correspond("TOO-LARGE", big, hb, db, flags=fl, predicate=big_pred, coq_sample=2, nontrivial=lambda c, i: True)
    # the option lattice on generator states with LARGE bucket counters (where the two Q-ratio arithmetics differ, where products
    # wrap): all 32 option settings on each injected state; more permissive options never turn Ok into Err nor change an accepted hash
    rng2 = ctx.rng.fork("injopts")
    inj = []
    for v in VNAMES:
        ck = suites.VARIANTS[v][0]
        nb = suites.VARIANTS[v][1]
        for _ in range(24 if ctx.tier == "quick" else 400):
            base = rng2.choice([2 ** 18 + 1, 300031, 671089, 2 ** 24 - 2, 2 ** 24 + 1, 42949672, 42949673, 2 ** 31 - 3, 2 ** 32 - 300, 1000, 213022])
            kind = rng2.below(4)
            if kind == 0:
                bk = [(base + rng2.below(5)) % 2 ** 32 for _ in range(256)]
            elif kind == 1:
                bk = [rng2.below(2 ** 32) for _ in range(256)]
            elif kind == 2:       # q2*100 just below a multiple of q3
                q3 = base
                k = 1 + rng2.below(99)
                q2 = (k * q3 - 1 - rng2.below(3)) // 100
                q1 = rng2.below(max(1, q2))
                vals = [q1, q2, q3, q3 + 1 + rng2.below(1000)]
                bk = [vals[(4 * j) // nb] for j in range(nb)] + [0] * (256 - nb)
            else:                 # about half / a quarter of the buckets empty
                nz = rng2.choice([nb // 4 - 1, nb // 4, nb // 4 + 1, nb // 2 - 1, nb // 2, nb // 2 + 1, nb - 1])
                bk = [(1 + rng2.below(base)) if j < nz else 0 for j in range(nb)] + [0] * (256 - nb)
            bk = [x % 2 ** 32 for x in bk]
            ops = " ".join("f %d" % o for o in range(32))
            inj.append("hist %s inject %s %d %s %s 4 %s" % (v, hx(suites.le32s(bk)), 10 ** 6 + rng2.below(10 ** 9), hx(rng2.bytes(ck)),
                                                             hx(rng2.bytes(4)), ops))

    def lattice_pred(c, i, m):
        outs = i.split(" | ")
        if len(outs) != 32:
            return "finalize did not return normally under some option setting: `%s`" % i[:80]
        for a in range(32):
            for b in range(32):
                if a != b and gc.opts_le(a, b) and outs[a].startswith("ok") and outs[b] != outs[a]:
                    return ("option setting %d accepts with `%s`; the more permissive setting %d gives `%s`: more permissive options "
                            "must neither reject nor change the hash" % (a, outs[a][:40], b, outs[b][:40]))
        return None
    ctx.correspond("INJECT-OPTIONS", inj, hb, db, flags=fl, predicate=lattice_pred, coq_sample=2, nontrivial=lambda c, i: "ok" in i)
    # ONE options object configured as <a> and then re-configured as <b> must behave (and compare) like a fresh one configured as <b>
    rng3 = ctx.rng.fork("reconf")
    rc = []
    for v in VNAMES:
        for n in (5, 44, 100, 300):
            d = suites.gen_data(rng3, n)
            pairs = [(a, b) for a in (31, 4, 8, 16, 1, 2, 0) for b in (0, 1, 27, 31)] if ctx.tier == "quick" else [(a, b) for a in range(32) for b in range(32)]
            rc.append("hist %s u %s %s" % (v, hx(d), " ".join("fo %d %d f %d" % (a, b, b) for a, b in pairs)))

    def reconf_pred(c, i, m):
        outs = i.split(" | ")
        for k in range(0, len(outs) - 1, 2):
            if not outs[k].endswith(" 1"):
                return "an options object set to one configuration and then to another does not equal a fresh one set to the latter"
            if outs[k][:-2] != outs[k + 1]:
                return "finalize with re-configured options gives `%s`, with fresh options of the same setting `%s`" % (outs[k][:60], outs[k + 1][:60])
        return None
    ctx.correspond("RECONFIGURE", rc, hb, db, flags=fl, predicate=reconf_pred, coq_sample=2, nontrivial=lambda c, i: True)
    lim = []
    for v in VNAMES:
        lim.append("limits %s" % v)
        for n in list(range(0, 140)) + [gc.MAX - 1, gc.MAX, gc.MAX + 1, 2 ** 32 - 1]:
            lim.append("validity %s %d" % (v, n))

    def pred(c, i, m):
        p = c.split(" ")
        if p[0] == "validity":
            exp = gc.validity(p[1], int(p[2]))
            if i.split(" ")[0] != exp:
                return "DataLengthValidity::new differs from the published limits (%s)" % exp
        if p[0] == "limits":
            bk = suites.VARIANTS[p[1]][1]
            exp = "%d %d %d" % ((10, 10, gc.MAX) if bk == 48 else (50, 128, gc.MAX))
            if i != exp:
                return "generator constants MIN/MIN_CONSERVATIVE/MAX differ from the published ones"
        return None
    ctx.correspond("LIMITS", lim, hb, db, flags=fl, predicate=pred, coq_sample=6)
    return finish(ctx)


def finish(ctx):
    return ctx.finish(
        level_note_assumptions=["select_nth_unstable by contract; options are the five documented switches"],
        trusted_base=gc.TB,
        checker_cmd="make -C coq Props/C10.vo && coqc Props/C10.v (Print Assumptions under every theorem)",
        rule=RULE)
