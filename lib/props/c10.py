"""C10 -- published length limits are enforced; permissive options only widen acceptance."""
import core
import configs
import suites
from suites import VNAMES, hx
from props import gencommon as gc

RULE = ("GEN-HASH: per variant, inputs at every length threshold (0..6, 9-11, 17-19, 49-51, 127-129, 255-257, ...) and "
        "larger ones in seven textures (incl. low-entropy data that empties buckets), each hashed under ALL 32 option "
        "settings; implementation vs model, and on the implementation alone: length error iff the published classification "
        "says so, o <= o' (same Q mode) preserves an Ok result, allow-quarter implies allow-half.  LIMITS: "
        "DataLengthValidity::new / is_err / is_err_on and Generator::{MIN,MIN_CONSERVATIVE,MAX} for all interesting n.  "
        "Non-trivial = the input reaches finalization past the length gate; distinct by case text.")


def run(ctx):
    hb, db = gc.setup(ctx)
    if hb is None or db is None:
        return finish(ctx)
    fl = configs.flags("default")
    cases = suites.gen_hash_cases(ctx.rng.fork("hash"), ctx.tier)
    rows = ctx.correspond("GEN-HASH", cases, hb, db, flags=fl, coq_sample=6,
                          nontrivial=lambda c, i: not ("TooSmallInput" in i or "TooLargeInput" in i))
    gc.check_options_properties(ctx, [r[0] for r in rows], [r[1] for r in rows])
    lim = []
    for v in VNAMES:
        lim.append("limits %s" % v)
        for n in list(range(0, 140)) + [gc.MAX - 1, gc.MAX, gc.MAX + 1, 2 ** 32 - 1]:
            lim.append("validity %s %d" % (v, n))

    def pred(c, i, m):
        p = c.split(" ")
        if p[0] == "validity":
            exp = gc.validity(p[1], int(p[2]))
            if i.split(" ")[0] != exp:
                return "DataLengthValidity::new differs from the published limits (%s)" % exp
        if p[0] == "limits":
            bk = suites.VARIANTS[p[1]][1]
            exp = "%d %d %d" % ((10, 10, gc.MAX) if bk == 48 else (50, 128, gc.MAX))
            if i != exp:
                return "generator constants MIN/MIN_CONSERVATIVE/MAX differ from the published ones"
        return None
    ctx.correspond("LIMITS", lim, hb, db, flags=fl, predicate=pred, coq_sample=6)
    return finish(ctx)


def finish(ctx):
    return ctx.finish(
        level_note_assumptions=["select_nth_unstable by contract; options are the five documented switches"],
        trusted_base=gc.TB,
        checker_cmd="make -C coq Props/C10.vo && coqc Props/C10.v (Print Assumptions under every theorem)",
        rule=RULE)
