"""Shared pieces for the generator properties (C01 C03 C10 C11 C15)."""
import core
import common
import configs
import suites
from suites import VARIANTS, VNAMES, hx

MAX = 4224281216

TB = core.COMMON_TRUSTED + [
    "std's slice::select_nth_unstable by its documented contract (Proofs/Select.v: a permutation with the k-th element in "
    "sorted position); the executable instance is a full insertion sort proved to meet the contract",
    "IEEE-754 binary32 via the standard library's executable specification Floats.SpecFloat (prec 24, emax 128); Rust's "
    "`as f32` / `/` / saturating `as u32` assumed to conform",
    "hand model Model/MGenerate.v + Model/MFinalize.v of generate.rs, buckets.rs, hash/checksum.rs, pearson.rs, "
    "generate/bucket_aggregation.rs (naive) tied by the GEN/HIST/INJECT suites; raw states through the cfg-guarded hook",
]


def setup(ctx, cfgname="default"):
    ctx.translate()
    ctx.proofs()
    hb = ctx.harness(cfgname)
    db = ctx.driver()
    if hb is not None:
        common.translator_crosscheck(ctx, hb)
    return hb, db


def opts_le(a, b):
    """permissiveness order on the 5-bit option encoding (bit0 conservative, bit1 pure-int, bits 2..4 allow_*)."""
    if (a & 2) != (b & 2):
        return False
    if (b & 1) and not (a & 1):
        return False          # b conservative while a optimistic: b is stricter
    for bit in (4, 8, 16):
        if (a & bit) and not (b & bit):
            return False
    return True


def validity(v, n):
    bk = VARIANTS[v][1]
    mn, mc = (10, 10) if bk == 48 else (50, 128)
    if n < mn:
        return "TooSmall"
    if n < mc:
        return "ValidWhenOptimistic"
    if n <= MAX:
        return "Valid"
    return "TooLarge"


def expected_len_error(v, n, o):
    val = validity(v, n)
    cons = bool(o & 1)
    is_err = val in ("TooSmall", "TooLarge") or (val == "ValidWhenOptimistic" and cons)
    if not is_err:
        return None
    if val == "TooLarge":
        return "TooLargeInput"
    return None if (o & 4) else "TooSmallInput"


def check_options_properties(ctx, cases, outs, suite="GEN-OPTIONS"):
    """C10 on the implementation alone, from `hash V o data` results grouped by (V, data)."""
    groups = {}
    for c, o in zip(cases, outs):
        p = c.split(" ")
        if p[0] != "hash":
            continue
        groups.setdefault((p[1], p[3]), {})[int(p[2])] = o
    n = 0
    for (v, d), res in groups.items():
        ln = (len(d) - 1) // 2
        for a, ra in res.items():
            exp = expected_len_error(v, ln, a)
            got = ra.split(" ")
            is_len = got[0] == "err" and got[1] in ("TooLargeInput", "TooSmallInput")
            n += 1
            if exp is not None and ra != "err " + exp:
                ctx.violations.append({"suite": suite, "case": "hash %s %d %s" % (v, a, d), "impl": ra,
                                       "what": "length error %s expected from the published classification" % exp})
            if exp is None and is_len:
                ctx.violations.append({"suite": suite, "case": "hash %s %d %s" % (v, a, d), "impl": ra,
                                       "what": "length error although the published classification accepts the length"})
            if ra.startswith("ok"):
                for b, rb in res.items():
                    if a != b and opts_le(a, b) and rb != ra:
                        ctx.violations.append({"suite": suite, "case": "hash %s %d %s ; hash %s %d %s" % (v, a, d, v, b, d),
                                               "impl": ra + " ; " + rb,
                                               "what": "more permissive options changed an accepted result"})
            if (a & 16) and (a | 8) in res and res[a | 8] != ra:
                ctx.violations.append({"suite": suite, "case": "hash %s %d %s" % (v, a, d), "impl": ra,
                                       "what": "allow-quarter must imply allow-half"})
    ctx.suites[suite] = {"option_settings_checked": n, "inputs": len(groups)}
    ctx.evaluations += n
