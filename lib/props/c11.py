"""C11 -- oversized and >4 GiB inputs are rejected cleanly; fed length reported exactly."""
import core
import configs
import suites
from suites import VNAMES, hx
from props import gencommon as gc

RULE = ("INJECT: per variant, histories started (cfg-guarded hook) from raw states whose length counter sits a few bytes "
        "before MAX, 2^32-4 and 2^32 (and at small values), bucket counters near 2^24 / 2^31 / 2^32, fed pieces of every "
        "size 0..9 and 13 incl. pieces crossing each limit; implementation vs model after every step.  LIMIT-PROPERTY "
        "(implementation alone): processed_len == n below 2^32 else None; finalize == TooLargeInput iff n > MAX; never a "
        "panic.  thorough: real streams of MAX-1, MAX, MAX+1 and 2^32+5 bytes are fed to the implementation in mixed piece "
        "sizes.  Non-trivial = a case whose total crosses or touches one of the limits; distinct by case text.")


def limit_cases(rng, tier):
    out = []
    MAX = gc.MAX
    targets = [MAX - 1, MAX, MAX + 1, MAX + 2, 2 ** 32 - 5, 2 ** 32 - 4, 2 ** 32 - 3, 2 ** 32 - 1, 2 ** 32, 2 ** 32 + 1, 2 ** 32 + 5]
    for v in VNAMES:
        ck = suites.VARIANTS[v][0]
        for tgt in targets:
            for back in ([1, 2, 3, 5, 9, 13] if tier == "quick" else range(1, 20)):
                start_total = tgt - back          # bytes already fed in the injected state (len = total - 4)
                if start_total < 4:
                    continue
                L = min(start_total - 4, 2 ** 32 - 4)
                bk = [1 + rng.below(1000) for _ in range(256)]
                pieces = []
                rem = back + rng.choice([0, 0, 1, 3, 7])
                total = start_total
                ops = []
                while rem > 0:
                    k = min(rem, rng.choice([1, 1, 2, 3, 4, 5, 9]))
                    ops.append("u %s" % hx(rng.bytes(k)))
                    rem -= k
                    total += k
                    ops.append("l")
                    ops.append("f 30")
                out.append(("hist %s inject %s %d %s %s 4 %s" % (v, hx(suites.le32s(bk)), L, hx(rng.bytes(ck)), hx(rng.bytes(4)),
                                                                    " ".join(ops)), start_total))
    # literals that are new in the current source (empty on the audited tree): states placed around every length derived from a new
    # integer n (n, 2^32-n, 2^32-1-n, 2^32-4-n, MAX-n, MAX+n), then a piece of about n bytes, then small pieces
    import srcdict
    ints = srcdict.new_literals()["ints"]
    extra = []
    for n in ints:
        if not (2 <= n < 2 ** 32):
            continue
        ps = sorted(set(p for p in (n - 1, n, n + 1) if 1 <= p <= 70000)) or [1, 5]
        for x in srcdict.derived_lengths([n]):
            for d in range(-4, 5):
                start_total = x + d
                if start_total < 4 or start_total > 2 ** 32 + 3:
                    continue
                for p in ps:
                    v = rng.choice(VNAMES)
                    ck = suites.VARIANTS[v][0]
                    L = min(start_total - 4, 2 ** 32 - 4)
                    bk = [1 + rng.below(1000) for _ in range(256)]
                    ops = "ugen %d %d l f 30 u %s l f 30 u %s l f 30" % (rng.below(2 ** 31), p, hx(rng.bytes(5)), hx(rng.bytes(1)))
                    extra.append(("hist %s inject %s %d %s %s 4 %s" % (v, hx(suites.le32s(bk)), L, hx(rng.bytes(ck)), hx(rng.bytes(4)), ops),
                                  start_total))
    if len(extra) > 160:
        extra = [extra[rng.below(len(extra))] for _ in range(160)]
    out += extra
    return out


def check_limit_outputs(ctx, case, start_total, out):
    toks = case.split(" ")
    i = 8
    total = start_total
    obs = out.split(" | ")
    k = 0
    while i < len(toks):
        if toks[i] == "u":
            total += (len(toks[i + 1]) - 1) // 2
            i += 2
        elif toks[i] == "ugen":
            total += int(toks[i + 2])
            i += 3
        elif toks[i] == "l":
            exp = "some %d" % total if total < 2 ** 32 else "none"
            if k >= len(obs) or obs[k] != exp:
                ctx.violations.append({"suite": "LIMIT-PROPERTY", "case": case, "impl": out[:300],
                                       "what": "processed_len after %d bytes must be %s, got %s" % (total, exp, obs[k] if k < len(obs) else "nothing")})
                return
            k += 1
            i += 1
        elif toks[i] == "f":
            got = obs[k] if k < len(obs) else "nothing"
            if (got == "err TooLargeInput") != (total > gc.MAX) or got.startswith("PANIC") or got.startswith("CRASH"):
                ctx.violations.append({"suite": "LIMIT-PROPERTY", "case": case, "impl": out[:300],
                                       "what": "finalize after %d bytes: TooLargeInput expected iff n > MAX, got %s" % (total, got)})
                return
            if total <= gc.MAX and got.startswith("ok"):
                # length code of the result: MAX -> 169
                pass
            k += 1
            i += 2
        else:
            i += 1


def run(ctx):
    hb, db = gc.setup(ctx)
    if hb is None or db is None:
        return finish(ctx)
    fl = configs.flags("default")
    cases = suites.gen_inject_cases(ctx.rng.fork("inj"), ctx.tier)
    lc = limit_cases(ctx.rng.fork("lim"), ctx.tier)
    allc = cases + [c for c, _ in lc]
    rows = ctx.correspond("INJECT", allc, hb, db, flags=fl, coq_sample=4,
                          nontrivial=lambda c, i: "none" in i or "TooLargeInput" in i or "some 42" in i)
    outs = {r[0]: r[1] for r in rows}
    for c, st in lc:
        ctx.evaluations += 1
        check_limit_outputs(ctx, c, st, outs[c])
    ctx.suites["LIMIT-PROPERTY"] = {"cases": len(lc)}
    # one update() call with a single slice longer than 4 GiB (release build; ~4.3 GB of zero pages)
    hr = ctx.harness("release")
    if hr is not None:
        huge = [("hist N uzero %d l fd u x0102 l fd" % (2 ** 32 + 100), 2 ** 32 + 100),
                ("hist L ugen 5 1000 uzero %d l fd u x0102 l fd" % (2 ** 32 + 64), 2 ** 32 + 1064),     # a NON-fresh generator
                ("hist S u x000000 uzero %d l fd" % (2 ** 32 - 3), 2 ** 32)]
        if ctx.tier == "thorough":
            huge.append(("hist LL uzero %d l f 30 uzero 5 l f 30" % (gc.MAX - 2), gc.MAX - 2))
        ho = core.run_cases(hr, [h[0] for h in huge], tag="c11h", timeout=1500, shards=4)
        for (c, n0), o in zip(huge, ho):
            ctx.evaluations += 1
            ctx.nontrivial.add(c)
            obs = o.split(" | ")
            if n0 >= 2 ** 32:
                ok = len(obs) >= 2 and obs[0] == "none" and obs[1] == "err TooLargeInput" and all(
                    x in ("none", "err TooLargeInput") for x in obs)
                exp = "processed_len None and TooLargeInput"
            else:
                ok = len(obs) == 4 and obs[0] == "some %d" % n0 and obs[1] != "err TooLargeInput" and \
                    obs[2] == "some %d" % (n0 + 5) and obs[3] == "err TooLargeInput"
                exp = "exact lengths, TooLargeInput only after MAX"
            if not ok:
                ctx.violations.append({"suite": "HUGE-SLICE", "case": c, "impl": o[:300], "config": "release",
                                       "what": "a single update() slice of %d bytes: expected %s" % (n0, exp)})
        ctx.suites["HUGE-SLICE"] = {"cases": len(huge), "outputs": ho}
        ctx.samples.append({"suite": "HUGE-SLICE", "case": huge[0][0], "impl": ho[0]})
    if ctx.tier == "thorough":
        real = []
        for v in ("N", "S"):
            for n in (gc.MAX - 1, gc.MAX, gc.MAX + 1, 2 ** 32 + 5):
                a = n // 3
                b = n - a - 7
                real.append(("hist %s ugen 1 %d l ugen 2 %d l ugen 3 4 l ugen 4 3 l f 30" % (v, a, b), n, a, b))
        ro = core.run_cases(hb, [r[0] for r in real], tag="c11r", timeout=3000)
        for (c, n, a, b), o in zip(real, ro):
            ctx.evaluations += 1
            exp = []
            for t in (a, a + b, a + b + 4, n):
                exp.append("some %d" % t if t < 2 ** 32 else "none")
            obs = o.split(" | ")
            if obs[:4] != exp or (obs[4] == "err TooLargeInput") != (n > gc.MAX):
                ctx.violations.append({"suite": "REAL-STREAM", "case": c, "impl": o[:300],
                                       "what": "real %d-byte stream: expected lengths %s and TooLarge iff n > MAX" % (n, exp)})
        ctx.suites["REAL-STREAM"] = {"cases": len(real), "bytes_fed": sum(r[1] for r in real)}
    return finish(ctx)


def finish(ctx):
    return ctx.finish(
        level_note_assumptions=["a slice longer than u32::MAX bytes is covered by the model's clamp branch and by the proof; "
                                "the harness does not allocate one",
                                "states near the limits are entered through the cfg-guarded hook (thorough also feeds real multi-GiB streams)"],
        trusted_base=gc.TB,
        checker_cmd="make -C coq Props/C11.vo && coqc Props/C11.v (Print Assumptions under every theorem)",
        rule=RULE)
