"""C17 -- the safe API is total and memory-safe in every configuration (PARTIAL, see DESIGN.md)."""
import core
import common
import configs
import pyref
import suites
from suites import VARIANTS, VNAMES, hx
from props import hexcommon as hc
from props import gencommon as gc
from props import distcommon as dc
from props import c12

RULE = ("TOTAL: one corpus covering every public operation (parsers on valid/malformed text and bytes of every length, "
        "formatters into buffers of every length, accessors and quartile indices around the bucket count, generator histories "
        "and finalization under all option settings incl. injected near-limit states, length encoding at every table boundary, "
        "comparison of random/extremal pairs, string comparison, scripted readers incl. ones that over-claim what they read) run "
        "on TWO builds of the harness against /repo: debug assertions + overflow checks ON (a false invariant!, an overflow or "
        "an out-of-bounds index panics) and feature `unsafe` in release (a false invariant! is undefined behaviour: crash, "
        "SIGILL or a differing result).  Decided per case: no PANIC other than quartile(i >= buckets) and an over-claiming "
        "reader; no crash; identical results in both builds; each build equal to the model under its flags.  Crashed shards "
        "are re-run one case per process to isolate the culprit.  The same corpus also runs on the debug-assertion builds of the "
        "other cfg branches (no SIMD, embedded tables, low-memory tables/buckets, quarter and min decode tables, static SSE2): no "
        "panic, no crash, the model's answer under the matching flags.  Non-trivial = every case (each is an API call sequence); "
        "distinct by case text.")


def corpus(rng, tier):
    """thorough = three independently seeded quick-sized corpora (the model costs ~130 us per input byte and C07 evaluates it
    once per configuration, so the multi-10-kB inputs of the generator suites' own thorough tiers are not repeated here)"""
    if tier != "quick":
        out = []
        for k in range(3):
            out += _corpus(rng.fork("part%d" % k), "quick", dense=True)
        return out
    return _corpus(rng, "quick", dense=False)


def _corpus(rng, tier, dense):
    cases = []
    q = not dense
    cases += suites.hex_roundtrip_cases(rng.fork("rt"), tier)[::(2 if q else 1)]
    cases += suites.hex_malformed_cases(rng.fork("mal"), tier)[::(6 if q else 1)]
    cases += suites.hex_buffer_cases(rng.fork("buf"), tier)[::(2 if q else 1)]
    cases += [c for c in suites.gen_hash_cases(rng.fork("gen"), tier)][::(9 if q else 3)]
    cases += suites.gen_hist_cases(rng.fork("hist"), tier)[::(2 if q else 1)]
    cases += suites.gen_inject_cases(rng.fork("inj"), "quick")
    cases += suites.dist_whole_cases(rng.fork("dw"), tier)[::(3 if q else 1)]
    cases += dc.laws_cases(rng.fork("laws"), tier)[::(4 if q else 1)]
    for n in [0, 1, 2, 3, 4, 5, 9, 10, 11, 49, 50, 51, 127, 128, 129, 1000, 65535, 65536, 2 ** 24, 2 ** 31 - 1, 2 ** 31,
              4224281215, 4224281216, 4224281217, 2 ** 32 - 1]:
        cases += ["len_new %d" % n, "len_tryfrom %d" % n]
        for v in ("S", "N", "L"):
            cases.append("validity %s %d" % (v, n))
    for c in range(256):
        cases.append("len_code %d" % c)
    import props.c13 as c13
    cases += c13.cases_for(rng.fork("easy"), tier)[::(3 if q else 1)]
    scripts = c12.small_scripts(rng.fork("stream"), tier)
    cases += [c12.fmt(v, sc) for v, sc in scripts][::(3 if q else 1)]
    # over-claiming readers, first thing and after data, every variant
    # Display under formatter flags (width, precision, fill, alignment, zero padding)
    for v in VNAMES:
        for _ in range(2):
            cases.append("displayf %s %s" % (v, hx(suites.plausible_bin(rng, v))))
        # Debug / pretty Debug of hashes with every kind of header byte (valid and invalid length codes and checksums)
        ck = suites.VARIANTS[v][0]
        for ln in (0, 1, 168, 169, 170, 171, 254, 255):
            for c0 in (0, 48, 49, 255):
                b = bytearray(suites.plausible_bin(rng, v))
                b[0], b[ck] = c0, ln
                cases.append("debugf %s %s" % (v, hx(b)))
    for v in VNAMES:
        cases.append("stream %s lie 1" % v)
        cases.append("stream %s d %s lie 1" % (v, hx(bytes(range(60)))))
        cases.append("stream %s d %s i lie 1048576" % (v, hx(bytes(range(200)))))
    return cases


def expected_panic(c):
    p = c.split(" ")
    if p[0] == "quartile":
        return int(p[3]) >= VARIANTS[p[1]][1]
    if p[0] == "stream":
        return " lie " in c
    return False


def isolate(hb, cases, outs):
    """outputs of a crashed shard are `CRASH`: re-run those cases one per process to find which one really crashes"""
    idx = [k for k, o in enumerate(outs) if o.startswith("CRASH")]
    fixed = list(outs)
    for k in idx[:400]:
        r = core.run_cases(hb, [cases[k]], shards=1, tag="c17iso")
        fixed[k] = r[0]
    return fixed, len(idx)


def run(ctx):
    ctx.translate()
    ctx.proofs()
    hb_dbg = ctx.harness("default")
    hb_uns = ctx.harness("unsafe-release")
    db = ctx.driver()
    if hb_dbg is None or hb_uns is None or db is None:
        return finish(ctx)
    common.translator_crosscheck(ctx, hb_dbg)
    cases = corpus(ctx.rng.fork("total"), ctx.tier)
    fl_dbg, fl_uns = configs.flags("default"), configs.flags("unsafe-release")
    out_dbg = core.run_cases(hb_dbg, cases, tag="c17d")
    out_uns = core.run_cases(hb_uns, cases, tag="c17u")
    out_uns, ncrash = isolate(hb_uns, cases, out_uns)
    out_dbg, ncrash2 = isolate(hb_dbg, cases, out_dbg)
    mod_dbg = core.run_cases(db, cases, extra_args=list(fl_dbg), tag="c17md")
    mod_uns = core.run_cases(db, cases, extra_args=list(fl_uns), tag="c17mu")
    st = {"cases": len(cases), "builds": ["default (debug assertions, overflow checks)", "unsafe-release (feature unsafe, release)"],
          "crashed_lines_before_isolation": ncrash + ncrash2, "panics_expected": 0, "disagreements": 0, "ops": {}}
    for c, a, b, ma, mb in zip(cases, out_dbg, out_uns, mod_dbg, mod_uns):
        ctx.evaluations += 2
        ctx.nontrivial.add(c[:200])
        op = c.split(" ")[0]
        st["ops"][op] = st["ops"].get(op, 0) + 1
        what = None
        for build, o in (("debug build", a), ("`unsafe` release build", b)):
            if o.startswith("CRASH"):
                what = "the %s crashed (%s): undefined behaviour / abort reachable from the safe API" % (build, o[:60])
            elif o.startswith("PANIC"):
                if expected_panic(c):
                    st["panics_expected"] += 1
                else:
                    what = "the %s panicked on a safe API call that is documented to return normally" % build
            elif expected_panic(c):
                what = "the %s did not panic cleanly: `%s`" % (build, o[:60])
        if what is None and a != b:
            what = "enabling the `unsafe` feature changes the result: debug `%s` vs unsafe `%s`" % (a[:70], b[:70])
        if what:
            ctx.violations.append({"suite": "TOTAL", "case": c if len(c) < 4000 else c[:4000] + "...", "impl": "debug: %s ; unsafe-release: %s" % (a[:200], b[:200]),
                                   "what": what, "config": "unsafe-release", "flags": list(fl_uns)})
        if a != ma:
            st["disagreements"] += 1
            ctx.correspondence_failures.append({"suite": "TOTAL[default]", "case": c[:4000], "impl": a[:300], "model": ma[:300], "flags": list(fl_dbg)})
        if b != mb and not b.startswith("CRASH"):
            st["disagreements"] += 1
            ctx.correspondence_failures.append({"suite": "TOTAL[unsafe-release]", "case": c[:4000], "impl": b[:300], "model": mb[:300],
                                                "flags": list(fl_uns), "config": "unsafe-release"})
    ctx.suites["TOTAL"] = st
    for c, a, b in list(zip(cases, out_dbg, out_uns))[:3]:
        ctx.samples.append({"suite": "TOTAL", "case": c[:200], "impl": "debug: %s ; unsafe-release: %s" % (a[:100], b[:100])})
    # re-entrancy: a reader that itself calls hash_stream / hash_file on the same thread while it is being hashed (no model side)
    nc = c12.nested_cases(ctx.tier)
    for hbx, label in ((hb_dbg, "default"), (hb_uns, "unsafe-release")):
        no = core.run_cases(hbx, nc, tag="c17n")
        no, _ = isolate(hbx, nc, no)
        for c, o in zip(nc, no):
            ctx.evaluations += 1
            ctx.nontrivial.add((label, c))
            w = c12.nested_pred(c, o)
            if o.startswith("PANIC") or o.startswith("CRASH") or w:
                ctx.violations.append({"suite": "NESTED", "case": c, "impl": o[:300], "config": label,
                                       "what": "a well-behaved reader that hashes other streams from inside read(): " +
                                               ("the `%s` build panicked / crashed" % label if not o.startswith("outer") else w)})
    st["nested_cases"] = len(nc)
    # the debug-assertion builds of the other cfg branches (table hex codecs, low-memory buckets, naive distances, static SSE2):
    # no panic, no crash, and the model's answer, on the same corpus
    others = ["nosimd", "embedded", "lowmem", "decq", "decmin", "static-sse2"]
    st["other_builds"] = {}
    for name in others:
        hb2 = ctx.harness(name)
        if hb2 is None:
            continue
        fl2 = configs.flags(name)
        o2 = core.run_cases(hb2, cases, tag="c17o")
        o2, nc = isolate(hb2, cases, o2)
        m2 = core.run_cases(db, cases, extra_args=list(fl2), tag="c17om")
        nbad = 0
        for c, o, m in zip(cases, o2, m2):
            ctx.evaluations += 1
            ctx.nontrivial.add((name, c[:160]))
            what = None
            if o.startswith("CRASH"):
                what = "the `%s` build crashed (%s)" % (name, o[:60])
            elif o.startswith("PANIC") and not expected_panic(c):
                what = "the `%s` build panicked on a safe API call that is documented to return normally" % name
            elif expected_panic(c) and not o.startswith("PANIC"):
                what = "the `%s` build did not panic cleanly: `%s`" % (name, o[:60])
            if what:
                nbad += 1
                ctx.violations.append({"suite": "TOTAL[%s]" % name, "case": c if len(c) < 4000 else c[:4000] + "...", "impl": o[:200],
                                       "what": what, "config": name, "flags": list(fl2)})
            if o != m and not o.startswith("CRASH"):
                st["disagreements"] += 1
                ctx.correspondence_failures.append({"suite": "TOTAL[%s]" % name, "case": c[:4000], "impl": o[:300], "model": m[:300],
                                                    "flags": list(fl2), "config": name})
        st["other_builds"][name] = {"cases": len(cases), "failures": nbad, "crashed_lines_before_isolation": nc}
    ok, fails = core.coq_eval_sample([(c, m) for c, m in list(zip(cases, mod_uns))[::max(1, len(cases) // 8)] if len(c) < 3000][:8], fl_uns, tag="C17")
    st["coq_cross_checked"] = ok
    for inp, msg in fails:
        ctx.obligation_failures.append("extraction cross-check (TOTAL): %s :: %s" % (inp[:200], " ".join(msg.split())[-300:]))
    return finish(ctx)


def finish(ctx):
    return ctx.finish(
        level_note_assumptions=[
            "PARTIAL: the model decides panics, overflow, out-of-range indices, false invariant!()s and non-ASCII from_utf8_unchecked; "
            "it cannot exhibit undefined behaviour inside the compiled unsafe blocks beyond those modelled preconditions (pointer "
            "provenance, #[target_feature] ABI, LLVM's use of assume) nor sanitizer-level facts; those are runtime properties of the "
            "artefact and are not claimed",
            "trait contracts (Read) are quantified over: a reader may return any sequence of results, including over-claims"],
        trusted_base=core.COMMON_TRUSTED + ["translator lib/translate_sites.py (inventory of invariant!/unsafe/unchecked/raw-load/target_feature sites)",
                                            "hand models of every operation (Model/*.v) tied by the suites of C01-C16 and by TOTAL on two builds"],
        checker_cmd="make -C coq Props/C17.vo && coqc Props/C17.v (Print Assumptions under every theorem)",
        rule=RULE)
