"""C05 -- hex parser accepts exactly the well-formed strings and never panics."""
import core
import configs
import suites
from props import hexcommon as hc

RULE = ("HEX-MALFORMED: per variant, single-byte damage of a valid string (every byte value at the prefix, "
        "first header, first body, middle and last positions; 23 boundary values + 1 random at every other "
        "position; thorough: all 256 at every position), every length 0..2*LEN+2 in all three prefix modes, "
        "12 prefix variants, adjacent double damage at every position, random double damage, non-UTF-8 bytes; plus the "
        "valid stream of HEX-RT.  HEX-PAIR-SWEEP: all 65536 byte pairs at a header digit-pair position and at a body "
        "digit-pair position (quick: Normal; thorough: every variant, checksum/length/Q/body/last pair).  Each case is "
        "decided against the property text (independent Python restatement) and against the model.  "
        "Non-trivial = not rejected for its length alone; distinct by case text.  Both suites are repeated (malformed stream halved in quick) on the builds with the table decoders: no hex-simd, half, quarter and min decode tables.")


def run(ctx):
    hb, db = hc.setup(ctx)
    if hb is None or db is None:
        return finish(ctx)
    fl = configs.flags("default")
    cases = suites.hex_malformed_cases(ctx.rng.fork("mal"), ctx.tier)
    cases += [c for c in suites.hex_roundtrip_cases(ctx.rng.fork("rt"), ctx.tier) if c.startswith("parse") or c.startswith("fromstr")]
    ctx.correspond("HEX-MALFORMED", cases, hb, db, flags=fl, predicate=hc.pred_parse_lenient,
                   nontrivial=lambda c, i: "InvalidStringLength" not in i)
    sweep = suites.hex_pair_sweep_cases(ctx.rng.fork("sweep"), ctx.tier)
    ctx.correspond("HEX-PAIR-SWEEP", sweep, hb, db, flags=fl, predicate=hc.pred_parse_lenient, coq_sample=8,
                   nontrivial=lambda c, i: True)
    ctx.suites["HEX-PAIR-SWEEP"]["exhaustive_over"] = "all 65536 byte pairs at each swept digit-pair position"
    # the other decoders (table decoders without hex-simd; half / quarter / min tables): same cases, model under the matching flags;
    # the pair sweep at full size on the no-hex-simd build, sampled on the others
    for name in ["nosimd", "lowmem", "decq", "decmin"]:
        hb2 = ctx.harness(name)
        if hb2 is None:
            continue
        fl2 = configs.flags(name)
        ctx.correspond("HEX-MALFORMED[%s]" % name, cases[::(2 if ctx.tier == "quick" else 1)], hb2, db, flags=fl2,
                       predicate=hc.pred_parse_lenient, coq_sample=0, nontrivial=lambda c, i: "InvalidStringLength" not in i)
        sw = sweep if name == "nosimd" or ctx.tier != "quick" else sweep[::7]
        ctx.correspond("HEX-PAIR-SWEEP[%s]" % name, sw, hb2, db, flags=fl2, predicate=hc.pred_parse_lenient, coq_sample=0,
                       nontrivial=lambda c, i: True)
    kinds = ctx.suites["HEX-MALFORMED"]["outcomes"]
    ctx.notes.append("error-kind distribution is in suites.HEX-MALFORMED.outcomes: %s" % kinds)
    return finish(ctx)


def finish(ctx):
    return ctx.finish(
        level_note_assumptions=["inputs are byte sequences (elements < 256)", "hex-simd decode by contract (see trusted base)"],
        trusted_base=hc.TB,
        checker_cmd="make -C coq Props/C05.vo && coqc Props/C05.v (Print Assumptions under every theorem)",
        rule=RULE)
