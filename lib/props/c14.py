"""C14 -- serializers respect the caller's buffer."""
import core
import configs
import suites
from props import hexcommon as hc

RULE = ("BUF: per variant and per form (bytes, hex, hex+prefix), buffers of every length 0..N+64 with seeded random "
        "prior content; the call's result and the whole buffer afterwards are compared with the model and decided "
        "against the property text (error iff L < N; else Ok(N), buf[..N] == repr, buf[N..] untouched).  "
        "Repeated on the builds with the table encoders (no hex-simd; full, half, min tables).  "
        "Non-trivial = buffer length >= 1; distinct by case text.")


def run(ctx):
    hb, db = hc.setup(ctx)
    if hb is None or db is None:
        return finish(ctx)
    fl = configs.flags("default")
    cases = suites.hex_buffer_cases(ctx.rng.fork("buf"), ctx.tier)
    ctx.correspond("BUF", cases, hb, db, flags=fl, predicate=hc.pred_store,
                   nontrivial=lambda c, i: not c.endswith(" x"))
    # the table encoders (no hex-simd; full, half and min encode tables)
    for name in ["nosimd", "embedded", "lowmem"]:
        hb2 = ctx.harness(name)
        if hb2 is None:
            continue
        ctx.correspond("BUF[%s]" % name, cases, hb2, db, flags=configs.flags(name), predicate=hc.pred_store, coq_sample=0,
                       nontrivial=lambda c, i: not c.endswith(" x"))
    return finish(ctx)


def finish(ctx):
    return ctx.finish(
        level_note_assumptions=["hex-simd encode by contract (asserts dst.len() >= 2*src.len(), writes exactly 2*len bytes)",
                                "buffers are modelled as lists; aliasing is excluded by Rust's &mut"],
        trusted_base=hc.TB,
        checker_cmd="make -C coq Props/C14.vo && coqc Props/C14.v (Print Assumptions under every theorem)",
        rule=RULE)
