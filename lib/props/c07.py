"""C07 -- results do not depend on feature configuration or SIMD backend (PARTIAL, see DESIGN.md)."""
import core
import common
import configs
import pyref
import suites
from suites import VARIANTS, VNAMES, hx
from props import hexcommon as hc
from props import gencommon as gc
from props import distcommon as dc
from props import c12, c17

RULE = ("CFG: ONE fixed seeded corpus (parsers on valid and malformed text/bytes, formatters, accessors, generator histories "
        "and finalization under all option settings, length encoding, comparison, string comparison, scripted streams) is run "
        "on a harness built under each configuration of the matrix -- quick: default (AVX2 by runtime detection), no SIMD / "
        "default tables, embedded defaults (16x16 Q table, half encode table), half decode + min encode tables + low-memory "
        "buckets, quarter decode table, min decode table, statically selected SSE2; thorough: also static SSSE3 / SSE4.1 / "
        "AVX2, feature unsafe (debug and release), release -- so every "
        "cfg_if branch is compiled at least once.  Every transcript must be line-for-line identical to the default build's and "
        "equal to the model under the matching flags.  BACKENDS: through the cfg-guarded hooks every compiled aggregation "
        "backend (naive, SSE2, SSSE3, AVX2, and the build's own dispatch) on bucket arrays with counters around the quartiles, "
        "equal to them, >= 2^31 and 2^32-1, decided against the reference dibits; every body-distance backend (as C02).  "
        "RACE: fresh processes whose very first calls are made by 2..16 threads released by a barrier (half start with compare, "
        "half with the generator).  Non-trivial = every case; distinct by (configuration, case text).")


def agg_cases(rng, tier, backends):
    cases = []
    n = 60 if tier == "quick" else 3000
    specials = [0, 1, 2, 3, 2 ** 24, 2 ** 31 - 1, 2 ** 31, 2 ** 31 + 1, 2 ** 32 - 2, 2 ** 32 - 1]
    for size, nb in ((12, 48), (32, 128), (64, 256)):
        for _ in range(n):
            k = rng.below(5)
            if k == 0:
                qs = sorted(rng.below(2 ** 32) for _ in range(3))
            elif k == 1:
                qs = sorted(rng.choice(specials) for _ in range(3))
            elif k == 2:
                qs = sorted([rng.below(50), rng.below(50), rng.below(50)])
            elif k == 3:
                a = rng.choice(specials)
                qs = [a, a, a]
            else:
                qs = sorted([rng.below(2 ** 31), 2 ** 31 - 1 + rng.below(3), 2 ** 31 + rng.below(2 ** 31)])
            bk = []
            for _j in range(nb):
                r = rng.below(6)
                if r == 0:
                    bk.append(rng.choice(qs))
                elif r == 1:
                    bk.append((rng.choice(qs) + rng.choice([1, 2 ** 32 - 1])) % 2 ** 32)
                elif r == 2:
                    bk.append(rng.choice(specials))
                elif r == 3:
                    bk.append(rng.below(60))
                else:
                    bk.append(rng.below(2 ** 32))
            for be in backends:
                cases.append("agg %d %s %d %d %d %s" % (nb, be, qs[0], qs[1], qs[2], hx(suites.le32s(bk))))
    return cases


def agg_pred(c, i, m=None):
    p = c.split(" ")
    if i == "na":
        return None
    if i.startswith("PANIC") or i.startswith("CRASH"):
        return "aggregation did not return normally"
    nb, q1, q2, q3 = int(p[1]), int(p[3]), int(p[4]), int(p[5])
    raw = pyref.unhex(p[6])
    bk = [int.from_bytes(raw[4 * k:4 * k + 4], "little") for k in range(nb)]
    body = bytearray(nb // 4)
    for k, b in enumerate(bk):
        d = 3 if b > q3 else 2 if b > q2 else 1 if b > q1 else 0
        body[len(body) - 1 - k // 4] |= d << (2 * (k % 4))
    if i != hx(body):
        return "the %s aggregation backend gives %s, the reference dibits give %s" % (p[2], i[:70], hx(body)[:70])
    return None


def corpus(rng, tier):
    cs = c17.corpus(rng, tier)
    # drop what legitimately depends on the build: debug-only panics of over-claiming readers are the same everywhere (panic),
    # keep them; nothing else is configuration dependent
    return cs


def run(ctx):
    ctx.translate()
    ctx.proofs()
    names = configs.CFG_QUICK if ctx.tier == "quick" else configs.CFG_ALL
    db = ctx.driver()
    # the model flags of every configuration must be what the CURRENT Cargo.toml feature graph + target features select
    for name in configs.CONFIGS:
        d, r = configs.derived_flags(name), sorted(configs.flags(name))
        if d != r:
            ctx.obligation_failures.append("configuration `%s`: model flags %s are not what the feature closure of the current Cargo.toml "
                                           "selects (%s)" % (name, r, d))
    ctx.notes.append("feature-closure check: %d configurations, model flags = flags derived from /repo's Cargo.toml" % len(configs.CONFIGS))
    cases = corpus(ctx.rng.fork("cfg"), ctx.tier)
    ref = None
    st = {"configurations": {}, "cases_per_configuration": len(cases)}
    for name in names:
        hb = ctx.harness(name)
        if hb is None:
            continue
        if name == "default":
            common.translator_crosscheck(ctx, hb)
        out = core.run_cases(hb, cases, tag="c07" + name[:6])
        out, ncrash = c17.isolate(hb, cases, out)
        fl = configs.flags(name)
        ndiff = nmod = 0
        mod = core.run_cases(db, cases, extra_args=list(fl), tag="c07m") if db else None
        for k, (c, o) in enumerate(zip(cases, out)):
            ctx.evaluations += 1
            ctx.nontrivial.add((name, c[:160]))
            if ref is not None and o != ref[k]:
                ndiff += 1
                ctx.violations.append({"suite": "CFG", "case": c if len(c) < 4000 else c[:4000] + "...", "config": name, "flags": list(fl),
                                       "impl": "%s: %s ; default: %s" % (name, o[:200], ref[k][:200]),
                                       "what": "configuration `%s` (%s %s) gives a different result than the default build"
                                               % (name, " ".join(configs.CONFIGS[name]["features"]), configs.CONFIGS[name]["rustflags"])})
            if mod is not None and o != mod[k]:
                nmod += 1
                ctx.correspondence_failures.append({"suite": "CFG[%s]" % name, "case": c[:4000], "impl": o[:300], "model": mod[k][:300],
                                                    "flags": list(fl), "config": name})
        if ref is None:
            ref = out
        st["configurations"][name] = {"features": " ".join(configs.CONFIGS[name]["features"]), "rustflags": configs.CONFIGS[name]["rustflags"],
                                      "profile": configs.CONFIGS[name]["profile"], "model_flags": list(fl),
                                      "differences_from_default": ndiff, "differences_from_model": nmod, "crashed_lines": ncrash}
        # the build's own aggregation dispatch + whatever backends its hooks expose
        ac = agg_cases(ctx.rng.fork("agg"), "quick", ["dispatch", "naive", "sse2", "ssse3", "avx2"] if name == "default" else ["dispatch"])
        if name == "default" and ctx.tier != "quick":
            ac = agg_cases(ctx.rng.fork("agg"), ctx.tier, ["dispatch", "naive", "sse2", "ssse3", "avx2"])
        if db:
            ctx.correspond("BACKENDS-AGG[%s]" % name, ac, hb, db, flags=fl, predicate=agg_pred, coq_sample=4 if name == "default" else 0,
                           nontrivial=lambda c, i: i != "na")
        else:
            ctx.impl_only("BACKENDS-AGG[%s]" % name, ac, hb, lambda c, i: agg_pred(c, i), nontrivial=lambda c, i: i != "na")
    ctx.suites["CFG"] = st
    for c, o in list(zip(cases, ref or []))[:3]:
        ctx.samples.append({"suite": "CFG", "case": c[:200], "impl": o[:200]})
    # body-distance backends through the hooks (default build has them all)
    hb = ctx.harness("default")
    if hb is not None:
        bc = [c for c in suites.dist_body_cases(ctx.rng.fork("body"), "quick") if " dispatch " not in c][::(4 if ctx.tier == "quick" else 1)]
        if db:
            ctx.correspond("BACKENDS-BODY", bc, hb, db, flags=configs.flags("default"), predicate=dc.pred_parts, coq_sample=4,
                           nontrivial=lambda c, i: i not in ("0", "na"))
        else:
            ctx.impl_only("BACKENDS-BODY", bc, hb, lambda c, i: dc.pred_parts(c, i, None))
        # first-call race: each case is the first and only line of a fresh process
        rng = ctx.rng.fork("race")
        nrace = 0
        for v in VNAMES:
            for k in ((2, 16) if ctx.tier == "quick" else (2, 3, 4, 8, 16, 16, 16)):
                a, b = suites.random_bin(rng, v), suites.random_bin(rng, v)
                d = suites.gen_data(rng, 300 + rng.below(400), 0)
                case = "race %s %d %s %s %s" % (v, k, hx(a), hx(b), hx(d))
                o = core.run_cases(hb, [case], shards=1, tag="c07r")[0]
                mo = core.run_cases(db, [case], extra_args=list(configs.flags("default")), shards=1, tag="c07rm")[0] if db else None
                ctx.evaluations += 1
                nrace += 1
                e = pyref.dist(v, a, b, "default")
                if o.startswith("RACE-MISMATCH") or o.startswith("PANIC") or o.startswith("CRASH"):
                    ctx.violations.append({"suite": "RACE", "case": case, "impl": o[:300],
                                           "what": "threads making the first calls of the process observed different results"})
                elif not o.startswith("%d " % e):
                    ctx.violations.append({"suite": "RACE", "case": case, "impl": o[:300], "what": "raced first compare() != reference distance %d" % e})
                elif mo is not None and o != mo:
                    ctx.correspondence_failures.append({"suite": "RACE", "case": case, "impl": o[:300], "model": mo[:300],
                                                        "flags": list(configs.flags("default"))})
        ctx.suites["RACE"] = {"fresh_processes": nrace, "threads": "2..16 released by a barrier"}
    return finish(ctx)


def finish(ctx):
    return ctx.finish(
        level_note_assumptions=[
            "PARTIAL: atomicity of std::sync::OnceLock and the truthfulness of is_x86_feature_detected! are std's; the model shows that "
            "whichever compiled backend a racing closure stores, every call returns the same value; it cannot exhibit a broken OnceLock "
            "or a CPU that misreports its features.  aarch64 / arm / wasm / portable-SIMD backends are not compiled on this target",
            "the mapping cargo features -> model flags (lib/configs.py) is validated per configuration by the CFG transcripts"],
        trusted_base=dc.TB + gc.TB[len(core.COMMON_TRUSTED):] + [
            "translator lib/translate_agg.py: the three sub_aggregation kernels re-read from generate/bucket_aggregation/x86_*.rs on every "
            "run; the unsigned-compare idiom is recognised syntactically (anything else fails the run) and justified by C07_cmpgt_idiom; "
            "intrinsic semantics (packs_epi16, shuffle_epi8, movemask_epi8, bytewise logic) in Model/MAgg.v transcribed from the Intel SDM "
            "and tied by BACKENDS-AGG; the loops around the kernels are hand-modelled"],
        checker_cmd="make -C coq Props/C07.vo && coqc Props/C07.v (Print Assumptions under every theorem)",
        rule=RULE)
