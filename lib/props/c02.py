"""C02 -- distance between two hashes equals the TLSH reference distance."""
import core
import configs
import suites
from props import distcommon as dc

RULE = ("DIST-HEADER: the length, Q-ratio and 1-byte checksum distances on all 65536 argument pairs each, ring distances; "
        "DIST-BODY: through the cfg-guarded hooks, EVERY compiled body backend (runtime dispatch, pseudo-SIMD 32/64, SSE2, "
        "SSE4.1, AVX2) on bodies of 12/32/64 bytes: byte positions x all byte pairs against random backgrounds, and "
        "random/adversarial/one-bit-apart bodies; DIST-WHOLE: compare_with_config on random, equal, one-bit-apart and "
        "checksum-only-different hash pairs of all five variants in both modes, max_distance.  Every case is decided against "
        "the reference formulas of the property text (independent Python restatement) AND the model.  Non-trivial = distance "
        "different from 0; distinct by case text.  DIST-HEADER (exhaustive) and DIST-WHOLE are repeated on the builds with the other header-distance code (no length table, 16x16 Q table, no Q table) and statically selected pseudo-SIMD body kernels, model under the matching flags.")


def run(ctx):
    hb, db = dc.setup(ctx)
    if hb is None or db is None:
        return finish(ctx)
    fl = configs.flags("default")
    nz = lambda c, i: i not in ("0", "na")
    ctx.correspond("DIST-HEADER", suites.dist_header_cases(ctx.tier), hb, db, flags=fl, predicate=dc.pred_parts, nontrivial=nz)
    ctx.correspond("DIST-BODY", suites.dist_body_cases(ctx.rng.fork("body"), ctx.tier), hb, db, flags=fl,
                   predicate=dc.pred_parts, nontrivial=nz)
    ctx.correspond("DIST-WHOLE", suites.dist_whole_cases(ctx.rng.fork("whole"), ctx.tier), hb, db, flags=fl,
                   predicate=dc.pred_parts, nontrivial=nz)
    ctx.correspond("DIST-HEADER-COMBO", suites.dist_header_combo_cases(ctx.rng.fork("combo"), ctx.tier), hb, db, flags=fl,
                   predicate=dc.pred_parts, nontrivial=nz, coq_sample=4)
    # the builds that compile the OTHER header-distance code (no length table: naive ring distance; 16x16 Q table; no Q table) and
    # select the pseudo-SIMD body kernels statically: exhaustive header suites and the whole-hash suite again, model under their flags
    for name in ["nosimd", "embedded", "lowmem", "decq"]:
        hb2 = ctx.harness(name)
        if hb2 is None:
            continue
        fl2 = configs.flags(name)
        ctx.correspond("DIST-HEADER[%s]" % name, suites.dist_header_cases(ctx.tier), hb2, db, flags=fl2, predicate=dc.pred_parts,
                       nontrivial=nz, coq_sample=0)
        ctx.correspond("DIST-WHOLE[%s]" % name, suites.dist_whole_cases(ctx.rng.fork("whole"), ctx.tier), hb2, db, flags=fl2,
                       predicate=dc.pred_parts, nontrivial=nz, coq_sample=0)
    return finish(ctx)


def finish(ctx):
    return ctx.finish(
        level_note_assumptions=[
            "hash values have the variant's array sizes; bytes < 256 (every byte pattern, not only generatable hashes)",
            "x86 vector code is modelled per 32-bit granule (every arithmetic intrinsic used is _epi32; the SSE2 horizontal sum "
            "per 16-bit half); 128/256-bit loads as little-endian byte lists",
            "runtime dispatch: the model evaluates the backend the default build selects on this CPU (AVX2); every other "
            "compiled backend is reached through the hooks"],
        trusted_base=dc.TB,
        checker_cmd="make -C coq Props/C02.vo && coqc Props/C02.v (Print Assumptions under every theorem)",
        rule=RULE)
