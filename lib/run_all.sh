#!/bin/bash
# run_all.sh [tier [ids...]]: every claimed check once on /repo as it is; one summary line each
cd "$(dirname "$0")/.."
T=${1:-quick}
IDS="${@:2}"
[ -z "$IDS" ] && IDS=$(python3 -c "import json; print(' '.join(c['property_id'] for c in json.load(open('MANIFEST.json'))['checks']))")
for id in $IDS; do
  s=$(date +%s)
  out=$(timeout 7200 bin/check $id --tier $T 2>/dev/null | grep -E '^(OK|VIOLATION|KNOWN)' | tr '\n' ';')
  echo "$id rc=$? $(( $(date +%s) - s ))s $out"
done
