#!/bin/bash
# try_mutant_copy.sh <patch.diff> <Cxx> [Cyy ...]: run the given checks against a SCRATCH COPY of /repo with the seeded change
# applied (VERIF_REPO override), leaving /repo untouched -- for use while a long run is reading /repo.  The registered way
# (lib/try_mutant.sh: apply to /repo itself, run, undo) remains the reference.
P=$(readlink -f "$1"); shift
C=/tmp/repo-trial-$$
rsync -a --exclude target --exclude .git /repo/ $C/ || exit 2
( cd $C && git init -q . && git add -A >/dev/null 2>&1 && git -c user.email=x@x -c user.name=x commit -qm base >/dev/null 2>&1; git apply "$P" ) || { echo "patch does not apply"; rm -rf $C; exit 2; }
for c in "$@"; do
  ( cd /verif && VERIF_REPO=$C timeout 1800 bin/check $c --tier ${TIER:-quick} 2>&1 | grep -E "^(OK|VIOLATION|KNOWN)" | sed "s/^/[$c] /" )
done
rm -rf $C /verif/build/cargo-alt-* /verif/build/harness-src-*
# Gen/ was regenerated from the copy: bring it back to /repo's state
( cd /verif && python3 lib/translate.py >/dev/null )
