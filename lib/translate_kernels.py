"""Translator, part 2: the bit-sliced body-distance kernels -> coq/Gen/Kernels.v.

Each kernel (pseudo_simd_32/64 `sub_distance`, x86 `packed_distance_as_*`) is a chain of
`let v = <expr>;` followed by a final expression.  It is parsed with a small Pratt parser
(Rust operator precedence; Wrapping(..), .0, `as` casts, calls with const generics), turned into
SSA over the lane language of coq/Model/MLanes.v

    IAnd IOr IXor IAdd ISub (operands: register | byte-replicated constant)   IShl r c   IShr r c   (c < 8)

and split at the first instruction that is not expressible there (multiplication, shifts by >= 8,
16-bit-lane intrinsics): that suffix is the horizontal-sum epilogue, emitted as data
(`*_epilogue : list eop`) whose shape Coq compares with the expected one.

Anything unparsable or any unknown intrinsic raises TranslateError (a broken obligation, never a skip).
"""
import os
import re

from translate import TranslateError, read, strip_comments, HEADER

# ------------------------------------------------------------------------------------------
# tokenizer / Pratt parser
# ------------------------------------------------------------------------------------------

TOK = re.compile(r"\s*(?:(0x[0-9a-fA-F_]+|0b[01_]+|[0-9][0-9_]*)([iu](?:8|16|32|64|size))?|([A-Za-z_][A-Za-z0-9_]*)|(::<|<<|>>|[-+*/&|^!().,<>;=:]))")


def tokenize(s):
    out = []
    i = 0
    s = s.strip()
    while i < len(s):
        m = TOK.match(s, i)
        if not m or m.end() == i:
            raise TranslateError("kernel tokenizer: cannot read %r" % s[i:i + 30])
        if m.group(1) is not None:
            out.append(("num", int(m.group(1).replace("_", ""), 0), m.group(2)))
        elif m.group(3) is not None:
            out.append(("id", m.group(3)))
        else:
            out.append(("op", m.group(4)))
        i = m.end()
    return out


BINPREC = {"*": 10, "+": 9, "-": 9, "<<": 8, ">>": 8, "&": 7, "^": 6, "|": 5}


class Parser:
    def __init__(self, toks):
        self.t = toks
        self.i = 0

    def peek(self):
        return self.t[self.i] if self.i < len(self.t) else ("eof",)

    def next(self):
        x = self.peek()
        self.i += 1
        return x

    def expect(self, op):
        x = self.next()
        if x != ("op", op):
            raise TranslateError("kernel parser: expected %r, got %r" % (op, x))

    def parse(self, prec=0):
        lhs = self.unary()
        while True:
            x = self.peek()
            if x[0] == "id" and x[1] == "as":
                self.next()
                ty = self.next()
                lhs = ("cast", lhs, ty[1])
                continue
            if x[0] == "op" and x[1] in BINPREC and BINPREC[x[1]] > prec:
                self.next()
                rhs = self.parse(BINPREC[x[1]])
                lhs = ("bin", x[1], lhs, rhs)
                continue
            break
        return lhs

    def unary(self):
        x = self.next()
        if x == ("op", "!"):
            return ("not", self.unary())
        if x == ("op", "-"):
            return ("neg", self.unary())
        if x == ("op", "("):
            e = self.parse()
            self.expect(")")
            return self.postfix(e)
        if x[0] == "num":
            return self.postfix(("num", x[1], x[2]))
        if x[0] == "id":
            name = x[1]
            generic = None
            if self.peek() == ("op", "::<"):
                self.next()
                g = self.next()
                if g[0] != "num":
                    raise TranslateError("kernel parser: const generic must be a literal")
                generic = g[1]
                self.expect(">")
            if self.peek() == ("op", "("):
                self.next()
                args = []
                if self.peek() != ("op", ")"):
                    args.append(self.parse())
                    while self.peek() == ("op", ","):
                        self.next()
                        if self.peek() == ("op", ")"):      # trailing comma
                            break
                        args.append(self.parse())
                self.expect(")")
                return self.postfix(("call", name, generic, args))
            return self.postfix(("var", name))
        raise TranslateError("kernel parser: unexpected token %r" % (x,))

    def postfix(self, e):
        while self.peek() == ("op", "."):
            self.next()
            f = self.next()
            e = ("field", e, str(f[1]))
        return e


def parse_expr(s):
    p = Parser(tokenize(s))
    e = p.parse()
    if p.peek()[0] != "eof":
        raise TranslateError("kernel parser: trailing tokens in %r" % s)
    return e


# ------------------------------------------------------------------------------------------
# function body extraction
# ------------------------------------------------------------------------------------------

def extract_fn(text, name):
    m = re.search(r"fn\s+" + re.escape(name) + r"\s*\(([^)]*)\)\s*->\s*([A-Za-z0-9_]+)\s*\{", text)
    if not m:
        raise TranslateError("kernel %s not found" % name)
    i = m.end()
    depth = 1
    j = i
    while j < len(text) and depth:
        if text[j] == "{":
            depth += 1
        elif text[j] == "}":
            depth -= 1
        j += 1
    body = text[i:j - 1]
    params = [p.split(":")[0].strip() for p in m.group(1).split(",") if p.strip()]
    return params, body


def statements(body):
    parts = [p.strip() for p in body.split(";")]
    stmts = []
    for p in parts[:-1]:
        if not p:
            continue
        m = re.fullmatch(r"let\s+(?:mut\s+)?([A-Za-z_][A-Za-z0-9_]*)\s*=\s*(.+)", p, flags=re.S)
        if not m:
            raise TranslateError("kernel statement not a `let`: %r" % p[:60])
        stmts.append((m.group(1), m.group(2)))
    final = parts[-1].strip()
    if not final:
        raise TranslateError("kernel has no final expression")
    return stmts, final


# ------------------------------------------------------------------------------------------
# SSA over the lane language
# ------------------------------------------------------------------------------------------

class Kernel:
    def __init__(self, width_bits, granule_bits):
        self.width = width_bits          # bits of one machine word / vector
        self.granule = granule_bits      # arithmetic granule (64/32 for scalars, 32 for _epi32)
        self.regs = 2                    # r0 = x, r1 = y
        self.instrs = []                 # lane-language instructions (strings)
        self.epilogue = []               # list of eop strings once the lane part is over
        self.in_epilogue = False
        self.env = {}
        self.consts = {}                 # name -> ('k', byte) | ('w', value)

    def emit(self, s):
        if self.in_epilogue:
            raise TranslateError("lane-language instruction after the epilogue started")
        self.instrs.append(s)
        self.regs += 1
        return ("r", self.regs - 1)

    def emit_ep(self, s):
        self.in_epilogue = True
        self.epilogue.append(s)
        return ("e", len(self.epilogue) - 1)


def byte_replicated(val, bits):
    b = val & 0xFF
    for k in range(bits // 8):
        if (val >> (8 * k)) & 0xFF != b:
            return None
    return b


def opstr(o):
    if o[0] == "r":
        return "(R %d)" % o[1]
    if o[0] == "k":
        return "(K %d)" % o[1]
    raise TranslateError("operand %r is not a lane operand" % (o,))


INTRIN_BIN = {
    "_mm_and_si128": "IAnd", "_mm_or_si128": "IOr", "_mm_xor_si128": "IXor",
    "_mm_add_epi32": "IAdd", "_mm_sub_epi32": "ISub",
    "_mm256_and_si256": "IAnd", "_mm256_or_si256": "IOr", "_mm256_xor_si256": "IXor",
    "_mm256_add_epi32": "IAdd", "_mm256_sub_epi32": "ISub",
}
INTRIN_SHL = ("_mm_slli_epi32", "_mm256_slli_epi32")
INTRIN_SHR = ("_mm_srli_epi32", "_mm256_srli_epi32")
SCALAR_BIN = {"&": "IAnd", "|": "IOr", "^": "IXor", "+": "IAdd", "-": "ISub"}


def lower(k, e):
    """expression -> operand; emits instructions."""
    t = e[0]
    if t == "var":
        if e[1] in k.env:
            return k.env[e[1]]
        raise TranslateError("kernel: unknown variable %s" % e[1])
    if t == "num":
        val = e[1]
        b = byte_replicated(val, k.granule)
        if b is None:
            return ("w", val)
        return ("kw", b, val)
    if t == "cast":
        inner = lower(k, e[1])
        return inner
    if t == "field":
        if e[2] == "0":
            return lower(k, e[1])
        raise TranslateError("kernel: unsupported field .%s" % e[2])
    if t == "not":
        a = as_lane(k, lower(k, e[1]))
        return k.emit("IXor %s (K 255)" % opstr(a))
    if t == "call":
        name, generic, args = e[1], e[2], e[3]
        if name == "Wrapping":
            return lower(k, args[0])
        if name in ("_mm_set1_epi8", "_mm256_set1_epi8"):
            v = const_value(args[0]) & 0xFF
            return ("k", v)
        if name in ("_mm_set1_epi32", "_mm256_set1_epi32"):
            v = const_value(args[0]) & 0xFFFFFFFF
            b = byte_replicated(v, 32)
            return ("kw", b, v) if b is not None else ("w", v)
        if name in INTRIN_BIN:
            a, b = lower(k, args[0]), lower(k, args[1])
            return k.emit("%s %s %s" % (INTRIN_BIN[name], opstr(as_lane(k, a)), opstr(as_lane(k, b))))
        if name in INTRIN_SHL or name in INTRIN_SHR:
            a = lower(k, args[0])
            c = generic
            if c is None:
                raise TranslateError("kernel: shift intrinsic without immediate")
            if c >= 8:
                return k.emit_ep("EShr32 %d" % c if name in INTRIN_SHR else "EShl32 %d" % c) if ep_input(k, a) else None
            return k.emit("%s %s %d" % ("IShl" if name in INTRIN_SHL else "IShr", opstr(as_lane(k, a)), c))
        if name in ("_mm_mullo_epi32", "_mm256_mullo_epi32"):
            a, b = lower(k, args[0]), lower(k, args[1])
            if b[0] not in ("w", "kw"):
                raise TranslateError("kernel: mullo by a non-constant")
            ep_input(k, a)
            return k.emit_ep("EMul32 %d" % (b[2] if b[0] == "kw" else b[1]))
        if name in ("_mm_slli_epi16", "_mm_srli_epi16", "_mm_add_epi16"):
            if name == "_mm_add_epi16":
                a, b = lower(k, args[0]), lower(k, args[1])
                return k.emit_ep("EAdd16 %s %s" % (ep_ref(k, a), ep_ref(k, b)))
            a = lower(k, args[0])
            return k.emit_ep("%s %s %d" % ("EShl16" if name == "_mm_slli_epi16" else "EShr16", ep_ref(k, a), generic))
        raise TranslateError("kernel: unknown intrinsic %s" % name)
    if t == "bin":
        op = e[1]
        if op == "*":
            a, b = lower(k, e[2]), lower(k, e[3])
            if b[0] not in ("w", "kw"):
                a, b = b, a
            if b[0] not in ("w", "kw"):
                raise TranslateError("kernel: multiplication by a non-constant")
            cval = b[2] if b[0] == "kw" else b[1]
            if not k.in_epilogue and a[0] in ("r", "k", "kw") and 0 < cval < 256:
                # a small constant factor inside the lane part (e.g. `t * 3` instead of `(t << 1) + t`):
                # expand into shifts and adds so that the lane checker decides whether it stays inside the lane
                a = as_lane(k, a)
                acc = None
                for bit in range(8):
                    if (cval >> bit) & 1:
                        term = a if bit == 0 else k.emit("IShl %s %d" % (opstr(a), bit))
                        acc = term if acc is None else k.emit("IAdd %s %s" % (opstr(acc), opstr(term)))
                return acc
            ep_input(k, a)
            return k.emit_ep("EMul %d" % cval)
        if op in ("<<", ">>"):
            a = lower(k, e[2])
            c = const_value(e[3])
            if k.in_epilogue or a[0] == "e" or c >= 8:
                ep_input(k, a)
                return k.emit_ep("%s %d" % ("EShl" if op == "<<" else "EShr", c))
            return k.emit("%s %s %d" % ("IShl" if op == "<<" else "IShr", opstr(as_lane(k, a)), c))
        if op in SCALAR_BIN:
            a, b = lower(k, e[2]), lower(k, e[3])
            return k.emit("%s %s %s" % (SCALAR_BIN[op], opstr(as_lane(k, a)), opstr(as_lane(k, b))))
    raise TranslateError("kernel: unsupported expression %r" % (e,))


def as_lane(k, o):
    if o[0] == "r" or o[0] == "k":
        return o
    if o[0] == "kw":
        return ("k", o[1])
    raise TranslateError("kernel: %r used as a lane operand (constant not byte-replicated, or epilogue value)" % (o,))


def ep_input(k, a):
    """the epilogue consumes lane register a (first time) or the previous epilogue value."""
    if a[0] == "r":
        if k.epilogue:
            raise TranslateError("kernel: epilogue consumes a second lane register")
        k.lane_out = a[1]
        k.in_epilogue = True
        return True
    if a[0] == "e":
        if a[1] != len(k.epilogue) - 1:
            raise TranslateError("kernel: epilogue is not a chain")
        return True
    raise TranslateError("kernel: bad epilogue input %r" % (a,))


def ep_ref(k, a):
    if a[0] == "r":
        if not hasattr(k, "lane_out"):
            k.lane_out = a[1]
            k.in_epilogue = True
        if a[1] != k.lane_out:
            raise TranslateError("kernel: epilogue references a second lane register")
        return "EIn"
    if a[0] == "e":
        return "(ERef %d)" % a[1]
    raise TranslateError("kernel: bad epilogue reference %r" % (a,))


def const_value(e):
    if e[0] == "num":
        return e[1]
    if e[0] == "cast":
        return const_value(e[1])
    if e[0] == "neg":
        return -const_value(e[1])
    raise TranslateError("kernel: constant expected, got %r" % (e,))


def translate_kernel(text, fname, width, granule):
    params, body = extract_fn(text, fname)
    if len(params) != 2:
        raise TranslateError("kernel %s: expected two parameters" % fname)
    stmts, final = statements(body)
    k = Kernel(width, granule)
    k.env[params[0]] = ("r", 0)
    k.env[params[1]] = ("r", 1)
    for name, rhs in stmts:
        e = parse_expr(rhs)
        # `let x = Wrapping(x);` style re-bindings keep the register
        k.env[name] = lower(k, e)
    out = lower(k, parse_expr(final))
    if not k.epilogue:
        raise TranslateError("kernel %s: no horizontal-sum epilogue recognised" % fname)
    if out[0] != "e" or out[1] != len(k.epilogue) - 1:
        raise TranslateError("kernel %s: result is not the end of the epilogue chain" % fname)
    return k


KERNELS = [
    # coq name, file, function, word bits, granule bits
    ("pseudo64", "compare/dist_body/pseudo_simd_64.rs", "sub_distance", 64, 64),
    ("pseudo32", "compare/dist_body/pseudo_simd_32.rs", "sub_distance", 32, 32),
    ("sse2", "compare/dist_body/x86_sse2.rs", "packed_distance_as_u16x8", 128, 32),
    ("sse41", "compare/dist_body/x86_sse4_1.rs", "packed_distance_as_u32x4", 128, 32),
    ("avx2", "compare/dist_body/x86_avx2.rs", "packed_distance_as_u32x8", 256, 32),
]


def emit(kernels):
    s = HEADER % "compare/dist_body/{pseudo_simd_32,pseudo_simd_64,x86_sse2,x86_sse4_1,x86_avx2}.rs"
    s += "From TlshV Require Import Model.MLanes.\n\n"
    for name, k in kernels:
        s += "(* %d lane instructions, output register %d, %d epilogue steps *)\n" % (len(k.instrs), k.lane_out, len(k.epilogue))
        s += "Definition %s_lanes : program := (\n  " % name + " ::\n  ".join(k.instrs) + " :: nil).\n"
        s += "Definition %s_out : nat := %d.\n" % (name, k.lane_out)
        s += "Definition %s_epilogue : list eop := (" % name + " :: ".join(k.epilogue) + " :: nil).\n\n"
    return s


def wrapper_shape(text, fname, vec_bytes, size, prefix):
    """The reduction around a packed kernel in distance_32 / distance_64: shuffle immediates (in order), extracted lanes,
    and how many vector chunks are loaded.  Anything else in the function body is checked against the expected vocabulary."""
    m = re.search(r"fn\s+" + fname + r"\s*\([^)]*\)\s*->\s*u32\s*\{", text)
    if not m:
        raise TranslateError("wrapper %s not found" % fname)
    i = m.end()
    depth, j = 1, i
    while j < len(text) and depth:
        depth += {"{": 1, "}": -1}.get(text[j], 0)
        j += 1
    body = text[i:j - 1]
    imms = [int(x.replace("_", ""), 0) for x in re.findall(prefix + r"_shuffle_epi32::<\s*(0b[01_]+|0x[0-9a-fA-F_]+|\d+)\s*>", body)]
    extracts = [int(x) for x in re.findall(prefix + r"_extract_epi32::<\s*(\d+)\s*>", body)]
    loads = len(re.findall(prefix + r"_loadu_si(?:128|256)\s*\(", body))
    loop = re.search(r"for\s+i\s+in\s+0\.\.(\d+)", body)
    chunks = (int(loop.group(1)) if loop else loads // 2)
    if loop and loads != 2:
        raise TranslateError("%s: a loop with %d loads per iteration" % (fname, loads))
    if chunks * vec_bytes != size:
        raise TranslateError("%s: %d chunks of %d bytes do not cover a %d-byte body" % (fname, chunks, vec_bytes, size))
    offs = sorted(set(int(x) for x in re.findall(r"p[xy]\.add\((\d+)\)", body)))
    if not loop and offs and offs != list(range(1, chunks)):
        raise TranslateError("%s: unexpected load offsets %r" % (fname, offs))
    known = set(re.findall(r"\b(_mm(?:256)?_[a-z0-9_]+)\b", body))
    allowed = {prefix + x for x in ("_loadu_si128", "_loadu_si256", "_shuffle_epi32", "_add_epi32", "_add_epi16", "_extract_epi32",
                                    "_cvtsi128_si32", "_set1_epi32", "_set1_epi16")}
    if not known <= allowed:
        raise TranslateError("%s: unmodelled intrinsics %r in the reduction" % (fname, sorted(known - allowed)))
    return {"imms": imms, "extracts": extracts, "chunks": chunks}


WRAPPERS = [("sse2", "compare/dist_body/x86_sse2.rs", 16, "_mm"), ("sse41", "compare/dist_body/x86_sse4_1.rs", 16, "_mm"),
            ("avx2", "compare/dist_body/x86_avx2.rs", 32, "_mm256")]


def emit_wrappers():
    s = "\n(* horizontal reductions of distance_32 / distance_64 around the packed kernels: shuffle_epi32 immediates in source order,\n   extracted lanes, number of vector chunks *)\n"
    info = {}
    for name, rel, vb, prefix in WRAPPERS:
        text = strip_comments(read(rel))
        w32 = wrapper_shape(text, "distance_32", vb, 32, prefix)
        w64 = wrapper_shape(text, "distance_64", vb, 64, prefix)
        per = lambda w: w["imms"][:len(w["imms"]) // max(1, (w["chunks"] if name == "avx2" else 1))]
        if per(w32) != per(w64) or sorted(set(w32["extracts"])) != sorted(set(w64["extracts"])):
            raise TranslateError("%s: distance_32 and distance_64 use different reductions" % name)
        if name == "avx2" and (w64["imms"] != per(w64) * w64["chunks"]):
            raise TranslateError("avx2: the per-chunk reductions of distance_64 differ")
        s += "Definition %s_reduce : list N := (%s nil).\n" % (name, "".join("%d :: " % x for x in per(w32)))
        s += "Definition %s_extract : list nat := (%s nil)%%nat.\n" % (name, "".join("%d :: " % x for x in sorted(set(w32["extracts"]))))
        s += "Definition %s_chunks32 : nat := %d.\nDefinition %s_chunks64 : nat := %d.\n" % (name, w32["chunks"], name, w64["chunks"])
        info[name] = {"reduce": per(w32), "extract": sorted(set(w32["extracts"]))}
    return s, info


def run(gen_dir, write_if_changed):
    kernels = []
    for name, rel, fn, width, gran in KERNELS:
        text = strip_comments(read(rel))
        kernels.append((name, translate_kernel(text, fn, width, gran)))
    changed = []
    wtext, winfo = emit_wrappers()
    if write_if_changed(os.path.join(gen_dir, "Kernels.v"), emit(kernels) + wtext):
        changed.append("Kernels.v")
    return {"changed": changed, "kernels": {n: {"lane_instrs": len(k.instrs), "epilogue": k.epilogue} for n, k in kernels}}
