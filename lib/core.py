"""Core machinery shared by all property checks.

Every check, on every run:
  1. regenerates coq/Gen from /repo's working tree (translator),
  2. builds the property's proof cone with make (full .vo), recompiles Props/<id>.v to
     collect `Print Assumptions`, scans the development for Admitted/Axiom/...,
  3. rebuilds the Rust harness from /repo's working tree (hooks on) and the OCaml driver
     extracted from the Coq model,
  4. runs the correspondence suites (implementation vs model) and the direct property
     predicates on the implementation,
  5. decides, writes evidence/<id>.json, prints VIOLATION / KNOWN-FINDING lines.
"""
import fcntl
import glob
import hashlib
import json
import os
import re
import shutil
import subprocess
import sys
import time

VERIF = os.path.dirname(os.path.dirname(os.path.abspath(__file__)))
REPO = os.environ.get("VERIF_REPO", "/repo")   # registered commands always use /repo; the override serves scratch-copy trials
COQ = os.path.join(VERIF, "coq")
BUILD = os.path.join(VERIF, "build")
EVID = os.path.join(VERIF, "evidence")
REPLAY = os.path.join(EVID, "replay")
HOOK_CFG = "--cfg fast_tlsh_verif"

sys.path.insert(0, os.path.join(VERIF, "lib"))
import translate  # noqa: E402

AXIOM_ALLOWLIST = {
    # none expected; names that may be listed without failing the check go here, each is
    # also named in DESIGN.md section 6.
}

FORBIDDEN = re.compile(
    r"\b(Admitted|admit|Axiom|Axioms|Parameter|Parameters|Conjecture|Conjectures|Admit Obligations|"
    r"Unset Guard Checking|Unset Positivity Checking|Unset Universe Checking|bypass_check|"
    r"type-in-type|impredicative-set)\b")


def log(*a):
    print("[check]", *a, file=sys.stderr, flush=True)


class Lock:
    def __init__(self, name):
        os.makedirs(BUILD, exist_ok=True)
        self.path = os.path.join(BUILD, "." + name + ".lock")

    def __enter__(self):
        self.f = open(self.path, "w")
        fcntl.flock(self.f, fcntl.LOCK_EX)
        return self

    def __exit__(self, *a):
        fcntl.flock(self.f, fcntl.LOCK_UN)
        self.f.close()


def run(cmd, cwd=None, timeout=3600, env=None, input=None):
    e = dict(os.environ)
    e["CARGO_NET_OFFLINE"] = "true"
    if env:
        e.update(env)
    try:
        p = subprocess.run(cmd, cwd=cwd, env=e, stdout=subprocess.PIPE, stderr=subprocess.STDOUT,
                           timeout=timeout, input=input, text=True, errors="replace")
        return p.returncode, p.stdout
    except subprocess.TimeoutExpired as ex:
        out = ex.stdout if isinstance(ex.stdout, str) else (ex.stdout or b"").decode("utf-8", "replace")
        return 124, (out or "") + "\nTIMEOUT after %ds" % timeout


# ------------------------------------------------------------------------------------------
# Coq side
# ------------------------------------------------------------------------------------------

def coq_sources():
    out = []
    for root, _, files in os.walk(COQ):
        for f in files:
            if f.endswith(".v"):
                out.append(os.path.join(root, f))
    return sorted(out)


def strip_coq_comments(s):
    out = []
    depth = 0
    i = 0
    while i < len(s):
        if s.startswith("(*", i):
            depth += 1
            i += 2
        elif s.startswith("*)", i) and depth > 0:
            depth -= 1
            i += 2
        else:
            if depth == 0:
                out.append(s[i])
            i += 1
    return "".join(out)


def scan_forbidden():
    """Admitted / Axiom / Parameter / ... anywhere in the development (comments stripped)."""
    hits = []
    for p in coq_sources():
        if "/Gen/" in p:
            txt = open(p).read()
        else:
            txt = open(p).read()
        body = strip_coq_comments(txt)
        # string literals may legitimately contain words; drop them
        body = re.sub(r'"[^"]*"', '""', body)
        for m in FORBIDDEN.finditer(body):
            hits.append("%s: %s" % (os.path.relpath(p, VERIF), m.group(0)))
        if re.search(r"^\s*(Variable|Variables|Hypothesis|Hypotheses|Context)\b", body, flags=re.M):
            # allowed only inside a Section: check crude nesting
            depth = 0
            for line in body.split("\n"):
                if re.match(r"\s*Section\b", line):
                    depth += 1
                elif re.match(r"\s*End\b", line) and depth > 0:
                    depth -= 1
                elif re.match(r"\s*(Variable|Variables|Hypothesis|Hypotheses|Context)\b", line) and depth == 0:
                    hits.append("%s: %s outside Section" % (os.path.relpath(p, VERIF), line.strip()[:40]))
    return hits


def write_coq_project():
    """_CoqProject lists every .v under coq/ (except scratch); regenerated so that new files
    are never forgotten."""
    files = []
    for p in coq_sources():
        rel = os.path.relpath(p, COQ)
        if rel.startswith("scratch") or rel == "Extract.v":
            continue
        files.append(rel)
    content = "-Q . TlshV\n-arg -w -arg -notation-overridden\n" + "\n".join(sorted(files)) + "\n"
    translate.write_if_changed(os.path.join(COQ, "_CoqProject"), content)
    if (not os.path.exists(os.path.join(COQ, "Makefile")) or
            os.path.getmtime(os.path.join(COQ, "Makefile")) < os.path.getmtime(os.path.join(COQ, "_CoqProject"))):
        rc, out = run(["coq_makefile", "-f", "_CoqProject", "-o", "Makefile"], cwd=COQ)
        if rc != 0:
            raise RuntimeError("coq_makefile failed:\n" + out)


def coq_make(targets, timeout=3000, clean=False):
    """Full .vo build of the given targets (never -vos/-vok)."""
    with Lock("coq"):
        write_coq_project()
        if clean:
            run(["make", "clean"], cwd=COQ, timeout=300)
        t0 = time.time()
        rc, out = run(["make", "-j16"] + targets, cwd=COQ, timeout=timeout)
        return rc, out, time.time() - t0


def parse_props_file(pid):
    """Theorems (name, statement text) declared in Props/<pid>.v."""
    path = os.path.join(COQ, "Props", pid + ".v")
    txt = strip_coq_comments(open(path).read())
    thms = []
    for m in re.finditer(r"\b(Theorem|Example)\s+([A-Za-z0-9_']+)\s*:(.*?)\.\s*Proof\.", txt, flags=re.S):
        kind, name, stmt = m.group(1), m.group(2), " ".join(m.group(3).split())
        thms.append({"kind": kind, "name": name, "statement": stmt,
                     "statement_sha": hashlib.sha256(stmt.encode()).hexdigest()[:16]})
    pa = re.findall(r"Print Assumptions\s+([A-Za-z0-9_']+)\s*\.", txt)
    return thms, pa


def coq_check_props(pid, timeout=1800):
    """Recompile Props/<pid>.v (cheap: `exact lemma` only) to collect Print Assumptions output.
    Returns dict(ok, log, theorems=[...with 'assumptions'], errors=[...])."""
    res = {"ok": False, "errors": [], "theorems": [], "log": ""}
    thms, pa = parse_props_file(pid)
    names = [t["name"] for t in thms if t["kind"] == "Theorem"]
    missing = [n for n in names if n not in pa]
    if missing:
        res["errors"].append("theorems without Print Assumptions: %s" % missing)
    outdir = os.path.join(BUILD, "props")
    os.makedirs(outdir, exist_ok=True)
    with Lock("coq"):
        rc, out = run(["coqc", "-Q", ".", "TlshV", "-w", "-notation-overridden", "-o", os.path.join(outdir, pid + ".vo"),
                       os.path.join("Props", pid + ".v")], cwd=COQ, timeout=timeout)
    res["log"] = out
    if rc != 0:
        res["errors"].append("coqc Props/%s.v failed" % pid)
        m = re.search(r'File "([^"]+)", line (\d+)', out)
        res["failed_at"] = m.group(0) if m else None
        return res
    # split Print Assumptions outputs, in order
    blocks = re.split(r"(?=^Closed under the global context|^Axioms:)", out, flags=re.M)
    blocks = [b for b in blocks if b.startswith("Closed under") or b.startswith("Axioms:")]
    if len(blocks) != len(pa):
        res["errors"].append("expected %d Print Assumptions outputs, got %d" % (len(pa), len(blocks)))
    amap = {}
    for name, blk in zip(pa, blocks):
        if blk.startswith("Closed under"):
            amap[name] = []
        else:
            ax = re.findall(r"^([A-Za-z0-9_.']+)\s*:", blk[len("Axioms:"):], flags=re.M)
            amap[name] = ax
    for t in thms:
        if t["kind"] != "Theorem":
            continue
        ax = amap.get(t["name"])
        t["assumptions"] = ax
        if ax is None:
            res["errors"].append("no assumptions output for %s" % t["name"])
        else:
            bad = [a for a in ax if a not in AXIOM_ALLOWLIST]
            if bad:
                res["errors"].append("theorem %s depends on non-allowlisted axioms %s" % (t["name"], bad))
    res["theorems"] = thms
    res["ok"] = not res["errors"]
    return res


# ------------------------------------------------------------------------------------------
# Rust harness / OCaml driver
# ------------------------------------------------------------------------------------------

HARNESS_CONFIGS = {
    # name: (cargo feature args, extra RUSTFLAGS, profile, model flags)
    "default": (["--features", "tlsh-default"], "", "dev"),
}


def register_config(name, features, rustflags="", profile="dev"):
    HARNESS_CONFIGS[name] = (features, rustflags, profile)


def build_harness(config="default", timeout=1800):
    feats, rflags, profile = HARNESS_CONFIGS[config]
    tdir = os.path.join(BUILD, "cargo", config)
    # Cargo.lock: start from /repo's lock file so that no resolution needs the network
    hdir = os.path.join(VERIF, "harness")
    if REPO != "/repo":
        # scratch-copy trial: stage the harness crate with its path dependency pointing at the copy
        tag = hashlib.sha256(REPO.encode()).hexdigest()[:8]
        tdir = os.path.join(BUILD, "cargo-alt-" + tag, config)
        stage = os.path.join(BUILD, "harness-src-" + tag)
        shutil.rmtree(stage, ignore_errors=True)
        shutil.copytree(hdir, stage, ignore=shutil.ignore_patterns("target"))
        ct = open(os.path.join(stage, "Cargo.toml")).read().replace('path = "/repo/fast-tlsh"', 'path = "%s/fast-tlsh"' % REPO)
        open(os.path.join(stage, "Cargo.toml"), "w").write(ct)
        hdir = stage
    os.makedirs(tdir, exist_ok=True)
    cmd = ["cargo", "build", "--offline", "--target-dir", tdir, "--no-default-features"] + feats
    if profile == "release":
        cmd.append("--release")
    env = {"RUSTFLAGS": (HOOK_CFG + " " + rflags).strip()}
    with Lock("cargo-" + config):
        rc, out = run(cmd, cwd=hdir, timeout=timeout, env=env)
    binp = os.path.join(tdir, "release" if profile == "release" else "debug", "verif-harness")
    if rc != 0 or not os.path.exists(binp):
        return None, out
    return binp, out


def build_driver(timeout=1800):
    """Extract the model (ExtrOcamlBasic only) and compile the OCaml driver."""
    odir = os.path.join(BUILD, "ocaml")
    os.makedirs(odir, exist_ok=True)
    drv = os.path.join(odir, "driver")
    with Lock("ocaml"):
        disp = os.path.join(COQ, "Model", "Dispatch.vo")
        if not os.path.exists(disp):
            return None, "Model/Dispatch.vo missing (Coq build failed?)"
        srcs = [disp, os.path.join(COQ, "Extract.v"), os.path.join(VERIF, "driver", "driver.ml")]
        if os.path.exists(drv) and all(os.path.getmtime(drv) >= os.path.getmtime(s) for s in srcs):
            return drv, "cached"
        rc, out = run(["coqc", "-Q", COQ, "TlshV", "-w", "-notation-overridden", "-o", os.path.join(odir, "Extract.vo"),
                       os.path.join(COQ, "Extract.v")], cwd=odir, timeout=timeout)
        if rc != 0:
            return None, "extraction failed:\n" + out
        shutil.copy(os.path.join(VERIF, "driver", "driver.ml"), os.path.join(odir, "driver.ml"))
        rc, out2 = run(["ocamlfind", "ocamlopt", "-O3", "-unboxed-types", "-w", "-a", "model.mli", "model.ml", "driver.ml", "-o", "driver.new"],
                       cwd=odir, timeout=timeout)
        if rc != 0:
            rc, out2 = run(["ocamlfind", "ocamlopt", "-w", "-a", "model.mli", "model.ml", "driver.ml", "-o", "driver.new"],
                           cwd=odir, timeout=timeout)
        if rc != 0:
            return None, "ocamlopt failed:\n" + out2
        os.replace(os.path.join(odir, "driver.new"), drv)
        return drv, out + out2


def config_of(harness_bin):
    """build/cargo/<config>/<profile>/verif-harness -> <config>"""
    parts = os.path.normpath(harness_bin).split(os.sep)
    for k, x in enumerate(parts[:-1]):
        if x == "cargo" or x.startswith("cargo-alt-"):
            return parts[k + 1]
    return "default"


def canon(line):
    """Canonicalise an output line: drop the informational ` # ...` suffix."""
    i = line.find(" # ")
    if i >= 0:
        line = line[:i]
    return line.rstrip()


def _unlimit_stack():
    import resource
    try:
        resource.setrlimit(resource.RLIMIT_STACK, (resource.RLIM_INFINITY, resource.RLIM_INFINITY))
    except (ValueError, OSError):
        try:
            soft, hard = resource.getrlimit(resource.RLIMIT_STACK)
            resource.setrlimit(resource.RLIMIT_STACK, (hard, hard))
        except (ValueError, OSError):
            pass


def run_cases(binary, cases, extra_args=None, shards=16, timeout=3000, tag="x", env=None):
    """Run `binary run <file>` (harness) or `binary <file> flags` (driver) on the case lines,
    sharded over processes. Returns list of output lines (same length) or raises."""
    tmpd = os.path.join(BUILD, "tmp")
    os.makedirs(tmpd, exist_ok=True)
    n = len(cases)
    if n == 0:
        return []
    shards = max(1, min(shards, n))
    procs = []
    is_harness = os.path.basename(binary).startswith("verif-harness")
    e = dict(os.environ)
    e["VERIF_TMPDIR"] = tmpd
    if env:
        e.update(env)
    for si in range(shards):
        # round-robin: expensive cases tend to be neighbours, so contiguous blocks balance badly
        part = cases[si::shards]
        if not part:
            continue
        fn = os.path.join(tmpd, "cases-%s-%d-%d.txt" % (tag, os.getpid(), si))
        with open(fn, "w") as f:
            f.write("\n".join(part) + "\n")
        cmd = [binary, "run", fn] if is_harness else [binary, fn] + [str(x) for x in (extra_args or [])]
        of = open(fn + ".out", "w")
        # the extracted model is not tail-recursive everywhere: give the OCaml driver an unlimited stack
        pre = None if is_harness else _unlimit_stack
        p = subprocess.Popen(cmd, stdout=of, stderr=subprocess.PIPE, env=e, preexec_fn=pre)
        procs.append((p, fn, of, len(part), si))
    outs = [None] * n
    err = None
    deadline = time.time() + timeout
    for p, fn, of, cnt, si in procs:
        try:
            _, se = p.communicate(timeout=max(1, deadline - time.time()))
        except subprocess.TimeoutExpired:
            p.kill()
            _, se = p.communicate()
            err = "timeout"
        of.close()
        with open(fn + ".out") as f:
            lines = f.read().split("\n")
        if lines and lines[-1] == "":
            lines.pop()
        if p.returncode != 0 or len(lines) != cnt:
            # the process died (abort / SIGILL / stack overflow): mark the remaining lines
            sig = p.returncode
            tail = (se or b"").decode("utf-8", "replace")[-300:]
            lines = lines[:cnt] + ["CRASH rc=%s # %s" % (sig, tail.replace("\n", " "))] * (cnt - len(lines))
        outs[si::shards] = lines
        try:
            os.remove(fn)
            os.remove(fn + ".out")
        except OSError:
            pass
    if err:
        raise RuntimeError("run_cases: " + err)
    return [canon(x) for x in outs]


# ------------------------------------------------------------------------------------------
# In-Coq evaluation of a sample (cross-checks extraction + the OCaml driver)
# ------------------------------------------------------------------------------------------

def tok_to_coq(t):
    if re.fullmatch(r"x([0-9a-fA-F]{2})*", t):
        bs = [str(int(t[1 + 2 * i:3 + 2 * i], 16)) for i in range((len(t) - 1) // 2)]
        return "TB (" + " :: ".join(bs + ["nil"]) + ")"
    if re.fullmatch(r"[0-9]{1,18}", t):
        return "TN %s" % t
    return "TS (" + " :: ".join([str(ord(c)) for c in t] + ["nil"]) + ")"


def line_to_coq(line):
    toks = [t for t in line.split(" ") if t]
    return "(" + " :: ".join(["(%s)" % tok_to_coq(t) for t in toks] + ["nil"]) + ")"


def coq_eval_sample(pairs, flags, tag="x", timeout=900):
    """pairs: [(input line, driver output line)]. Checks inside Coq (vm_compute) that
    dispatch_flags flags input = output.  Returns (n_ok, failures[list of (input, msg)])."""
    if not pairs:
        return 0, []
    tmpd = os.path.join(BUILD, "tmp")
    os.makedirs(tmpd, exist_ok=True)
    fl = "(" + " :: ".join([str(x) for x in flags] + ["nil"]) + ")%N"
    shards = min(16, len(pairs))
    size = (len(pairs) + shards - 1) // shards
    procs = []
    for si in range(shards):
        part = pairs[si * size:(si + 1) * size]
        if not part:
            continue
        fn = os.path.join(tmpd, "Cases_%s_%d_%d.v" % (tag, os.getpid(), si))
        with open(fn, "w") as f:
            f.write("From TlshV Require Import Model.Machine Model.Tokens Model.Dispatch.\nOpen Scope N_scope.\n")
            for i, (inp, outp) in enumerate(part):
                f.write("Goal dispatch_flags %s %s = %s.\nProof. vm_compute. reflexivity. Qed.\n" %
                        (fl, line_to_coq(inp), line_to_coq(outp)))
        p = subprocess.Popen(["coqc", "-noglob", "-Q", COQ, "TlshV", "-w", "-notation-overridden", fn],
                             stdout=subprocess.PIPE, stderr=subprocess.STDOUT, text=True)
        procs.append((p, fn, part))
    ok = 0
    fails = []
    for p, fn, part in procs:
        try:
            out, _ = p.communicate(timeout=timeout)
        except subprocess.TimeoutExpired:
            p.kill()
            out, _ = p.communicate()
            fails.append((part[0][0], "coqc timeout"))
            continue
        if p.returncode == 0:
            ok += len(part)
        else:
            m = re.search(r"line (\d+)", out)
            idx = None
            if m:
                ln = int(m.group(1))
                idx = (ln - 3) // 2
            if idx is not None and 0 <= idx < len(part):
                ok += idx
                fails.append((part[idx][0], "in-Coq evaluation differs from extracted driver: " + out[-400:]))
            else:
                fails.append((part[0][0], out[-400:]))
        for ext in ("", "o", "ok", "os"):
            try:
                os.remove(fn + ext if ext else fn)
            except OSError:
                pass
        for g in glob.glob(os.path.join(tmpd, "." + os.path.basename(fn)[:-2] + ".aux")):
            try:
                os.remove(g)
            except OSError:
                pass
    return ok, fails


# ------------------------------------------------------------------------------------------
# PRNG (splitmix64): every random choice of a run derives from one seeded state
# ------------------------------------------------------------------------------------------

class Rng:
    def __init__(self, seed):
        self.s = (seed * 0x9E3779B97F4A7C15 + 0x1234567) & 0xFFFFFFFFFFFFFFFF

    def next(self):
        self.s = (self.s + 0x9E3779B97F4A7C15) & 0xFFFFFFFFFFFFFFFF
        z = self.s
        z = ((z ^ (z >> 30)) * 0xBF58476D1CE4E5B9) & 0xFFFFFFFFFFFFFFFF
        z = ((z ^ (z >> 27)) * 0x94D049BB133111EB) & 0xFFFFFFFFFFFFFFFF
        return z ^ (z >> 31)

    def below(self, n):
        return self.next() % n

    def choice(self, l):
        return l[self.below(len(l))]

    def bytes(self, n):
        out = bytearray()
        while len(out) < n:
            out += self.next().to_bytes(8, "little")
        return bytes(out[:n])

    def chance(self, num, den):
        return self.below(den) < num

    def fork(self, tag):
        h = int.from_bytes(hashlib.sha256(("%d/%s" % (self.s, tag)).encode()).digest()[:8], "little")
        return Rng(h)


def hx(b):
    return "x" + bytes(b).hex()


# ------------------------------------------------------------------------------------------
# Known findings
# ------------------------------------------------------------------------------------------

def load_known_findings():
    path = os.path.join(VERIF, "known_findings.jsonl")
    out = []
    if os.path.exists(path):
        for line in open(path):
            line = line.strip()
            if line and not line.startswith("#") and not line.startswith("fixed:"):
                out.append(json.loads(line))
    return out


# ------------------------------------------------------------------------------------------
# The per-run context
# ------------------------------------------------------------------------------------------

class Ctx:
    def __init__(self, pid, tier, seed, replay=None):
        self.pid = pid
        self.tier = tier
        self.seed = seed
        self.replay = replay
        self.t0 = time.time()
        self.rng = Rng(seed).fork(pid)
        self.obligation_failures = []      # broken proof obligations (strings)
        self.correspondence_failures = []  # dicts: suite, case, impl, model
        self.violations = []               # dicts: what, case(s) -- property fails on the implementation
        self.known_hits = []
        self.theorems = []
        self.suites = {}                   # name -> stats
        self.samples = []
        self.evaluations = 0
        self.nontrivial = set()
        self.notes = []
        self.exhaustive = False
        self.translated = None
        self.build_failed = False
        self.report_tier = tier            # what the evidence / OK line call this run (an escalated pass keeps the requested tier)
        self.defer_ok = False              # do not print the OK line (a further pass follows)
        self.prior_passes = []             # summaries of earlier passes of the same invocation

    # -- phase 1: translator + proofs -----------------------------------------------------
    def translate(self):
        try:
            self.translated = translate.run()
            return True
        except translate.TranslateError as e:
            self.obligation_failures.append("translator: %s" % e)
            return False

    def proofs(self, extra_targets=None):
        tgt = ["Props/%s.vo" % self.pid] + (extra_targets or []) + ["Model/Dispatch.vo"]
        rc, out, dt = coq_make(tgt, clean=False)
        self.notes.append("coq make %s: rc=%d %.1fs" % (tgt, rc, dt))
        if rc != 0:
            m = re.search(r'File "([^"]+)", line (\d+), characters [0-9-]+:\s*\n(Error:.*?)(?:\n\n|\Z)', out, flags=re.S)
            where = (m.group(1) + ":" + m.group(2) + " " + " ".join(m.group(3).split())[:300]) if m else out[-600:]
            self.obligation_failures.append("coq build of the proof cone failed: " + where)
            self.coq_log = out
            return False
        r = coq_check_props(self.pid)
        self.theorems = r["theorems"]
        for e in r["errors"]:
            self.obligation_failures.append(e + ((" at " + r["failed_at"]) if r.get("failed_at") else ""))
        bad = scan_forbidden()
        for b in bad:
            self.obligation_failures.append("forbidden construct: " + b)
        return r["ok"] and not bad

    # -- phase 2: builds --------------------------------------------------------------------
    def harness(self, config="default"):
        b, out = build_harness(config)
        if b is None:
            self.build_failed = True
            self.obligation_failures.append("cargo build of the harness (%s) against /repo failed: %s" %
                                            (config, " ".join(out.split())[-500:]))
        return b

    def driver(self):
        d, out = build_driver()
        if d is None:
            self.obligation_failures.append("model driver build failed: " + " ".join(out.split())[-400:])
        return d

    # -- correspondence ---------------------------------------------------------------------
    def correspond(self, suite, cases, harness_bin, driver_bin, flags=(), nontrivial=None,
                   coq_sample=12, predicate=None, keep_samples=3):
        """Run impl and model on `cases`; record disagreements; returns list of
        (case, impl_out, model_out)."""
        t0 = time.time()
        cfgname = config_of(harness_bin)
        impl = run_cases(harness_bin, cases, tag=self.pid + "i")
        model = run_cases(driver_bin, cases, extra_args=list(flags), tag=self.pid + "m")
        st = self.suites.setdefault(suite, {"cases": 0, "disagreements": 0, "outcomes": {}, "coq_cross_checked": 0})
        st["cases"] += len(cases)
        rows = list(zip(cases, impl, model))
        for c, i, m in rows:
            self.evaluations += 1
            kind = i.split(" ")[0] if i else ""
            if kind.startswith("x") or kind.isdigit():
                kind = "value"
            st["outcomes"][kind] = st["outcomes"].get(kind, 0) + 1
            if nontrivial is None or nontrivial(c, i):
                self.nontrivial.add(hashlib.sha256(c.encode()).digest()[:12])
            if (i == "na" and m != "na") or (i.endswith(" | na") and c.startswith("na ") and not m.endswith(" | na")):
                # the hook reports that this backend is not compiled in / not supported by this CPU: nothing to compare
                st["not_available"] = st.get("not_available", 0) + 1
            elif i != m:
                st["disagreements"] += 1
                self.correspondence_failures.append({"suite": suite, "case": c, "impl": i, "model": m, "flags": list(flags), "config": cfgname})
            if predicate is not None:
                v = predicate(c, i, m)
                if v:
                    self.violations.append({"suite": suite, "case": c, "impl": i, "model": m, "what": v, "flags": list(flags), "config": cfgname})
        # in-Coq cross-check of a deterministic sample of the driver's outputs
        if coq_sample and rows:
            step = max(1, len(rows) // coq_sample)
            samp = [(c, m) for (c, i, m) in rows[::step] if len(c) < 6000][:coq_sample]
            ok, fails = coq_eval_sample(samp, flags, tag=self.pid)
            st["coq_cross_checked"] += ok
            for inp, msg in fails:
                self.obligation_failures.append("extraction cross-check (%s): %s :: %s" % (suite, inp[:200], " ".join(msg.split())[-300:]))
        for c, i, m in rows[:keep_samples]:
            if len(self.samples) < 24:
                self.samples.append({"suite": suite, "case": c[:300], "impl": i[:300], "model": m[:300]})
        st["wall_s"] = round(st.get("wall_s", 0) + time.time() - t0, 2)
        return rows

    def impl_only(self, suite, cases, harness_bin, predicate, nontrivial=None, keep_samples=3):
        """Direct evaluation of a property predicate on the implementation alone."""
        impl = run_cases(harness_bin, cases, tag=self.pid + "p")
        st = self.suites.setdefault(suite, {"cases": 0, "property_failures": 0})
        st["cases"] += len(cases)
        for c, i in zip(cases, impl):
            self.evaluations += 1
            if nontrivial is None or nontrivial(c, i):
                self.nontrivial.add(hashlib.sha256(c.encode()).digest()[:12])
            v = predicate(c, i)
            if v:
                st["property_failures"] += 1
                self.violations.append({"suite": suite, "case": c, "impl": i, "what": v, "config": config_of(harness_bin),
                                        "flags": list(__import__("configs").CONFIGS.get(config_of(harness_bin), {}).get("flags", []))})
        for c, i in list(zip(cases, impl))[:keep_samples]:
            if len(self.samples) < 24:
                self.samples.append({"suite": suite, "case": c[:300], "impl": i[:300]})
        return impl

    # -- decision -----------------------------------------------------------------------------
    def finish(self, level_note_assumptions, trusted_base, checker_cmd, rule, extra_coverage=None):
        os.makedirs(EVID, exist_ok=True)
        os.makedirs(REPLAY, exist_ok=True)
        known = [k for k in load_known_findings() if k.get("property") == self.pid and k.get("status") == "open"]
        lines = []
        exit_code = 0
        # violations with a concrete failing input
        reported = []
        for v in self.violations:
            hit = None
            for k in known:
                if k.get("match") and re.search(k["match"], v.get("case", "") + " => " + v.get("impl", "")):
                    hit = k
                    break
            if hit:
                if hit["id"] not in [h["id"] for h in self.known_hits]:
                    self.known_hits.append(hit)
                continue
            reported.append(v)
        for k in self.known_hits:
            lines.append("KNOWN-FINDING: property=%s %s" % (self.pid, k["what"]))
        n_viol = 0
        if reported:
            n_viol = len(reported)
            path = os.path.join(REPLAY, "%s-%d.json" % (self.pid, int(time.time())))
            with open(path, "w") as f:
                json.dump({"property": self.pid, "kind": "failing-input", "tier": self.tier, "seed": self.seed,
                           "failing": reported[:50],
                           "broken_obligations": self.obligation_failures[:20],
                           "disagreements": self.correspondence_failures[:20]}, f, indent=1)
            lines.append("VIOLATION property=%s replay=%s" % (self.pid, path))
            exit_code = 1
        elif self.obligation_failures or self.correspondence_failures:
            # a proof obligation or the correspondence no longer checks, and the search found no
            # concrete failing input: the property is no longer shown to hold
            n_viol = 1
            path = os.path.join(REPLAY, "%s-%d.json" % (self.pid, int(time.time())))
            with open(path, "w") as f:
                json.dump({"property": self.pid, "kind": "obligation-or-correspondence-broken",
                           "tier": self.tier, "seed": self.seed,
                           "broken_obligations": self.obligation_failures[:50],
                           "disagreements": self.correspondence_failures[:50],
                           "note": "no concrete failing input was found by the search; the named theorem / "
                                   "correspondence suite no longer checks against /repo's current source"},
                          f, indent=1)
            lines.append("VIOLATION property=%s replay=%s no-failing-input-found" % (self.pid, path))
            exit_code = 1
        thm = [t for t in self.theorems if t["kind"] == "Theorem"]
        discharged = [t for t in thm if t.get("assumptions") is not None and
                      all(a in AXIOM_ALLOWLIST for a in t["assumptions"])]
        if self.obligation_failures and not thm:
            n_obl, n_dis = max(1, len(self.obligation_failures)), 0
        else:
            n_obl, n_dis = len(thm), len(discharged)
            if any(not o.startswith("extraction cross-check") for o in self.obligation_failures):
                n_obl += sum(1 for o in self.obligation_failures)
        cov = {
            "obligations": n_obl,
            "discharged": n_dis,
            "checker_cmd": checker_cmd,
            "trusted_base": trusted_base,
            "theorems": [{"name": t["name"], "statement_sha": t["statement_sha"],
                          "assumptions": ("closed under the global context" if t.get("assumptions") == [] else t.get("assumptions")),
                          "statement": t["statement"][:400]} for t in thm],
            "nonvacuity_examples": [t["name"] for t in self.theorems if t["kind"] == "Example"],
            "evaluations": self.evaluations,
            "distinct_nontrivial": len(self.nontrivial),
            "rule": rule,
            "samples": self.samples[:24] if self.samples else [{"note": "no correspondence case ran"}],
            "suites": self.suites,
            "exhaustive": bool(self.exhaustive),
            "broken_obligations": self.obligation_failures[:20],
            "correspondence_disagreements": len(self.correspondence_failures),
            "known_findings_hit": [k["id"] for k in self.known_hits],
            "notes": self.notes,
        }
        if self.prior_passes:
            cov["earlier_passes_of_this_run"] = self.prior_passes
        if extra_coverage:
            cov.update(extra_coverage)
        ev = {
            "property_id": self.pid,
            "tier": self.report_tier,
            "seed": self.seed,
            "level": "proof",
            "coverage": cov,
            "assumptions": level_note_assumptions,
            "wall_s": round(time.time() - self.t0, 2),
            "violations": n_viol,
        }
        with open(os.path.join(EVID, self.pid + ".json"), "w") as f:
            json.dump(ev, f, indent=1)
        for l in lines:
            print(l, flush=True)
        self.summary = {"generator_tier": self.tier, "seed": self.seed, "evaluations": self.evaluations,
                        "distinct_nontrivial": len(self.nontrivial), "wall_s": round(time.time() - self.t0, 1), "violations": n_viol}
        if exit_code == 0 and not self.defer_ok:
            ev_total = self.evaluations + sum(p.get("evaluations", 0) for p in self.prior_passes)
            print("OK property=%s tier=%s obligations=%d/%d evaluations=%d wall=%.1fs%s" %
                  (self.pid, self.report_tier, n_dis, n_obl, ev_total, time.time() - self.t0 + sum(p.get("wall_s", 0) for p in self.prior_passes),
                   (" passes=%d" % (len(self.prior_passes) + 1)) if self.prior_passes else ""), flush=True)
        return exit_code


# ------------------------------------------------------------------------------------------
# escalation: when the sources a property's model covers differ from the audited baseline, the quick command spends more
# search effort (denser generators / further seeds) before it says OK.  It never turns a difference into a verdict by itself.
# ------------------------------------------------------------------------------------------
BASELINE = os.path.join(VERIF, "lib", "source_baseline.json")

GROUPS = {
    "GEN": ["src/generate.rs", "src/buckets.rs", "src/pearson.rs", "src/generate/", "src/hash/checksum.rs", "src/hash/qratios.rs",
            "src/hash/body.rs", "src/length.rs", "src/params.rs", "src/intrinsics.rs", "src/macros.rs"],
    "HEX": ["src/hash.rs", "src/parse/", "src/hash/", "src/length.rs", "src/errors.rs", "src/params.rs", "src/macros.rs"],
    "DIST": ["src/compare.rs", "src/compare/", "src/hash.rs", "src/hash/", "src/length.rs", "src/params.rs", "src/macros.rs"],
    "EASY": ["src/compare_easy.rs", "src/generate_easy.rs", "src/generate_easy_std.rs", "src/errors.rs"],
    "ALL": ["src/", "Cargo.toml", "build.rs"],
}
PROPERTY_SOURCES = {
    "C01": ["GEN"], "C02": ["DIST"], "C03": ["GEN"], "C04": ["HEX"], "C05": ["HEX"], "C06": ["HEX"], "C07": ["ALL"], "C08": ["DIST"],
    "C09": ["src/length.rs", "src/generate.rs", "EASY"], "C10": ["GEN", "src/errors.rs"], "C11": ["GEN"], "C12": ["EASY", "src/generate.rs"],
    "C13": ["EASY", "src/hash.rs", "src/compare.rs"], "C14": ["HEX"], "C15": ["HEX", "src/pearson.rs", "src/generate.rs"],
    "C16": ["HEX"], "C17": ["ALL"], "C18": ["ALL"],
}


def source_hashes():
    root = os.path.join(REPO, "fast-tlsh")
    out = {}
    for base, _, files in os.walk(os.path.join(root, "src")):
        for f in files:
            if f.endswith(".rs"):
                p = os.path.join(base, f)
                out[os.path.relpath(p, root)] = hashlib.sha256(open(p, "rb").read()).hexdigest()[:20]
    for f in ("Cargo.toml", "build.rs"):
        p = os.path.join(root, f)
        if os.path.exists(p):
            out[f] = hashlib.sha256(open(p, "rb").read()).hexdigest()[:20]
    return out


def changed_sources(pid):
    """files covered by pid's model whose content differs from the audited baseline (lib/source_baseline.json)"""
    try:
        base = json.load(open(BASELINE))["files"]
    except Exception:  # noqa: BLE001 -- no baseline: behave as if nothing is known to have changed
        return []
    now = source_hashes()
    prefixes = []
    for g in PROPERTY_SOURCES.get(pid, ["ALL"]):
        prefixes += GROUPS.get(g, [g])
    out = []
    for f in sorted(set(base) | set(now)):
        if base.get(f) != now.get(f) and any(f == p or (p.endswith("/") and f.startswith(p)) for p in prefixes):
            out.append(f)
    return out


COMMON_TRUSTED = [
    "Coq 8.16.1 kernel incl. its bytecode VM (vm_compute closes the finite sweeps); no native_compute",
    "axioms: none (every Print Assumptions reports `Closed under the global context`; checked on every run)",
    "translator lib/translate.py (cross-checked each run against the compiled constants dumped by the hooked harness)",
    "extraction: Require Extraction + ExtrOcamlBasic only (Extract Inductive bool/option/unit/list/prod/sumbool/sumor, "
    "Extract Inlined Constant andb/orb); no other Extract Constant; OCaml driver driver/driver.ml; "
    "a sample of every batch is re-evaluated inside Coq by vm_compute and must agree",
    "correspondence harness (harness/src, case generators in lib/, canonicalisation, diff)",
]
