#!/usr/bin/env python3
"""keep_mutant.py <scratch dir> <ID> <seeded name> "<needs>" "<caught by>": store a verified seeded change under seeded/<name>/"""
import json, os, shutil, sys
d, pid, name, needs, caught = sys.argv[1:6]
dst = os.path.join("/verif/seeded", name)
os.makedirs(dst, exist_ok=True)
shutil.copy(os.path.join(d, "patch.verified.diff"), os.path.join(dst, "patch.diff"))
rs = os.path.join(d, "fast-tlsh/tests/demo_%s.rs" % pid)
sh = os.path.join(d, "demo_%s.sh" % pid)
if os.path.exists(rs):
    shutil.copy(rs, os.path.join(dst, "demo_%s.rs" % pid))
    demo = "copy demo_%s.rs to fast-tlsh/tests/ and run `cargo test --offline -p fast-tlsh --test demo_%s`" % (pid, pid)
else:
    shutil.copy(sh, os.path.join(dst, "demo_%s.sh" % pid))
    demo = "run demo_%s.sh from the root of a checkout with the patch applied (exit 0 = property holds)" % pid
if os.path.exists(os.path.join(d, "NOTES.md")):
    shutil.copy(os.path.join(d, "NOTES.md"), os.path.join(dst, "NOTES.md"))
meta = {
    "property": pid,
    "origin": "written by a fresh sub-agent given only the property text and its own scratch worktree",
    "needs_to_manifest": needs,
    "confirmed": "lib/verify_mutant.sh in the scratch worktree: existing suite 149 passed with the change; demo fails with the change, passes without it",
    "demo": demo,
    "run_against_checks": "lib/try_mutant.sh seeded/%s/patch.diff %s" % (name, pid),
    "caught_by": caught,
}
json.dump(meta, open(os.path.join(dst, "meta.json"), "w"), indent=1)
print("kept", dst)
