#!/bin/bash
# selftest.sh [name-pattern]: regression test of the machinery itself -- every seeded change under seeded/ must be reported
# (VIOLATION) by the check of its own property, on a scratch copy of /repo (so /repo is never touched); prints one line each.
V="$(cd "$(dirname "$0")/.." && pwd)"
cd "$V"
fail=0
for d in seeded/*${1:-}*/; do
  n=$(basename $d)
  pid=$(python3 -c "import json; print(json.load(open('$d/meta.json'))['property'])")
  C=/tmp/repo-selftest-$$
  rm -rf $C; rsync -a --exclude target --exclude .git /repo/ $C/ || exit 2
  ( cd $C && git init -q . && git add -A >/dev/null 2>&1 && git -c user.email=x@x -c user.name=x commit -qm base >/dev/null 2>&1; git apply "$V/$d/patch.diff" ) 2>/dev/null
  if [ $? -ne 0 ]; then echo "$n $pid PATCH-DOES-NOT-APPLY"; fail=1; rm -rf $C; continue; fi
  out=$(VERIF_REPO=$C timeout 2400 bin/check $pid --tier quick 2>/dev/null | grep -E "^(OK|VIOLATION|KNOWN)" | tr '\n' ';')
  case "$out" in
    VIOLATION*no-failing-input-found*) echo "$n $pid WEAK (no failing input) $out"; fail=1;;
    VIOLATION*) echo "$n $pid caught";;
    *) echo "$n $pid MISSED $out"; fail=1;;
  esac
  rm -rf $C
done
rm -rf build/cargo-alt-* build/harness-src-*
python3 lib/translate.py >/dev/null
echo "selftest: fail=$fail"
exit $fail
