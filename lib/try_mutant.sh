#!/bin/bash
# try_mutant.sh <patch.diff> <Cxx> [Cyy ...]: apply a seeded change to /repo, run the given checks, undo it.
P=$1; shift
cd /repo && git diff --quiet || { echo "/repo not clean"; exit 2; }
git -C /repo apply "$P" || { echo "patch does not apply"; exit 2; }
for c in "$@"; do
  ( cd /verif && timeout 1800 bin/check $c --tier ${TIER:-quick} 2>&1 | grep -E "^(OK|VIOLATION|KNOWN)" | sed "s/^/[$c] /" )
done
git -C /repo checkout -- . && git -C /repo status --short | head -3
