"""A dictionary of literals that are NEW in /repo's current source with respect to the audited baseline
(lib/source_baseline.json): integer literals and short byte sequences (array literals of small integers, byte strings, and the
little/big-endian bytes of new wide integers).  The case generators splice them into their inputs (hash bodies and headers,
input lengths, piece sizes, generator states) -- the fuzzing-dictionary idea, used ONLY to look for a failing input: a behaviour
keyed on a magic value cannot be found by uniform sampling.  On the unchanged tree the dictionary is empty."""
import json
import os
import re

import core

_NUM = re.compile(r"(?<![A-Za-z0-9_.])(0x[0-9a-fA-F_]+|0b[01_]+|0o[0-7_]+|[0-9][0-9_]*)(?:_?(?:u8|u16|u32|u64|u128|usize|i8|i16|i32|i64|i128|isize))?(?![A-Za-z0-9_.])")


def _strip(text):
    import translate as T
    t = T.strip_comments(text)
    return t


def _val(tok):
    t = tok.replace("_", "")
    try:
        if t.startswith(("0x", "0X")):
            return int(t[2:], 16)
        if t.startswith("0b"):
            return int(t[2:], 2)
        if t.startswith("0o"):
            return int(t[2:], 8)
        return int(t)
    except ValueError:
        return None


def file_literals(text):
    t = _strip(text)
    ints = set()
    for m in _NUM.finditer(t):
        v = _val(m.group(1))
        if v is not None and v < 2 ** 64:
            ints.add(v)
    seqs = set()
    # innermost bracket groups made of small integer literals only
    for m in re.finditer(r"\[([^\[\]]*)\]", t):
        parts = [x.strip() for x in m.group(1).split(",") if x.strip()]
        if 2 <= len(parts) <= 16:
            vals = []
            for x in parts:
                mm = _NUM.fullmatch(x)
                v = _val(mm.group(1)) if mm else None
                if v is None or v > 255:
                    vals = None
                    break
                vals.append(v)
            if vals and len(set(vals)) > 1:
                seqs.add(tuple(vals))
    for m in re.finditer(r'b"((?:[^"\\]|\\.)*)"', t):
        try:
            raw = bytes(m.group(1), "utf-8").decode("unicode_escape").encode("latin-1")
        except Exception:  # noqa: BLE001
            continue
        if 2 <= len(raw) <= 16:
            seqs.add(tuple(raw))
    return ints, seqs


def current():
    root = os.path.join(core.REPO, "fast-tlsh")
    out = {}
    for base, _, files in os.walk(os.path.join(root, "src")):
        for f in files:
            if f.endswith(".rs") and f != "tests.rs" and "verif" not in f:
                p = os.path.join(base, f)
                ints, seqs = file_literals(open(p).read())
                out[os.path.relpath(p, root)] = {"ints": sorted(ints), "seqs": sorted(list(x) for x in seqs)}
    return out


_CACHE = None


def new_literals():
    """{"ints": [...], "seqs": [tuple,...]} -- literals present now and absent from the baseline; empty when nothing changed"""
    global _CACHE
    if _CACHE is not None:
        return _CACHE
    try:
        base = json.load(open(core.BASELINE)).get("literals", {})
    except Exception:  # noqa: BLE001
        base = None
    ints, seqs = set(), set()
    if base is not None:
        # per file: a literal that already occurs elsewhere in the crate is still new to THIS file
        for f, d in current().items():
            b = base.get(f, {"ints": [], "seqs": []})
            ints |= set(d["ints"]) - set(b["ints"])
            seqs |= set(tuple(x) for x in d["seqs"]) - set(tuple(x) for x in b["seqs"])
    ints -= {0, 1}
    for v in list(ints):
        if v > 255:
            n = max(2, (v.bit_length() + 7) // 8)
            for width in sorted({n, 4 if n <= 4 else 8}):
                if v < 256 ** width:
                    seqs.add(tuple(v.to_bytes(width, "little")))
                    seqs.add(tuple(v.to_bytes(width, "big")))
    _CACHE = {"ints": sorted(ints)[:40], "seqs": sorted(seqs)[:40]}
    return _CACHE


MAXLEN = 4224281216


def derived_lengths(ints):
    """lengths / counters related to a new integer n: n, 2^32-n, 2^32-1-n, MAX-n (each within 0..2^32+4)"""
    out = set()
    for n in ints:
        for x in (n, 2 ** 32 - n, 2 ** 32 - 1 - n, 2 ** 32 - 4 - n, MAXLEN - n, MAXLEN + n):
            if 0 < x < 2 ** 32 + 5:
                out.add(x)
    return sorted(out)


def products(ints):
    """products of two or three new integers (a size written as 64 * 1024 * 1024 appears as three literals)"""
    out = set()
    small = [n for n in ints if 2 <= n <= 2 ** 20][:12]
    for a in small:
        for b in small:
            if a * b <= 2 ** 33:
                out.add(a * b)
            for c in small:
                if a * b * c <= 2 ** 33:
                    out.add(a * b * c)
    return sorted(out - set(ints))[:60]
