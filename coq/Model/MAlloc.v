(* C18: executable checks over the regenerated cfg inventory (Gen/AllocSites.v). *)
From Coq Require Import List String Bool.
From TlshV Require Import Model.MCfgForm Gen.AllocSites Spec.AllocSpec.
Import ListNotations.
Open Scope string_scope.

(* what has to be linked for a site of this kind to compile *)
Definition need (k : skind) : form :=
  match k with
  | KStd => std_linked
  | KAllocPath => alloc_linked
  | KHeap => FOr [std_linked; alloc_linked]
  end.

Definition links_ok (s : site) : bool :=
  taut_closed feature_graph (FImp (s_cfg s) (need (s_kind s))).

(* the configuration the crate advertises: neither std nor alloc, not a test or doc build *)
Definition bare : form :=
  FAnd [FNot (FVar "f:std"); FNot (FVar "f:alloc"); FNot (FVar "test"); FNot (FVar "doc")].

Definition off_when_bare (s : site) : bool :=
  taut_closed feature_graph (FImp bare (FNot (s_cfg s))).

Definition production : form := FAnd [FNot (FVar "test"); FNot (FVar "doc")].

Definition documented (s : site) : bool :=
  mem_str (s_file s) documented_allocating_files
  || match s_kind s with
     | KStd => mem_str (s_text s) nonallocating_std_names
     | _ => false
     end.

Definition heap_ok (s : site) : bool :=
  documented s || taut_closed feature_graph (FImp production (FNot (s_cfg s))).

(* failing-input search support: a falsifying assignment for the first site that fails a check *)
Definition first_bad (chk : site -> bool) : option site := find (fun s => negb (chk s)) sites.

(* environments used by the non-vacuity examples *)
Definition env_of (on : list string) : string -> bool := fun v => mem_str v on.

Definition default_on : list string :=
  reach (List.length feature_graph) feature_graph ["f:default"; "target_arch=x86_64"].
