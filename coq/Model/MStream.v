(* Model/MStream.v -- model of fast-tlsh/src/generate_easy_std.rs (hash_stream_common, hash_stream[_for],
   hash_file[_for]), generate_easy.rs (hash_buf[_for]) and compare_easy.rs (compare_with, compare).

   A reader is represented by the sequence of results its successive `read(&mut buffer)` calls
   return; when the sequence is exhausted the reader reports end-of-stream (Ok(0)) for ever. *)
From TlshV Require Import Model.Machine Gen.Tables Model.MLength Model.MHexStr Model.MHash Model.MGenerate Model.MFinalize
  Model.MLanes Model.MCompare.

Inductive rres :=
| RData (d : list N)       (* Ok(|d|): the reader wrote d at the start of the buffer *)
| RInterrupted             (* Err(ErrorKind::Interrupted) *)
| RHard (kind : N)         (* Err(any other kind) *)
| RLie (k : N).            (* Ok(buffer.len() + k), k >= 1, nothing written: breaks the Read contract *)

Inductive stream_error := SGen (e : gen_error) | SIO (kind : N).
Definition io_interrupted : N := 0.

Record scfg := {
  sc_retry : bool;       (* the read loop retries on ErrorKind::Interrupted (false: the code before the C12 fix) *)
  sc_invariant : bool;   (* invariant!(len <= buffer.len()) is present (the code before the C17 fix) *)
}.

(* generator.finalize(): GeneratorOptions::default() = optimistic length mode, legacy f32 Q ratios (no compat flag set), nothing waived *)
Definition default_options : options :=
  {| o_mode := Optimistic; o_pure_int := false; o_small := false; o_half := false; o_quarter := false |}.

(* a reader claiming more than the buffer holds: `invariant!(len <= buffer.len())` when present, then the
   slice `&buffer[0..len]` *)
Definition overclaim {A} (sc : scfg) (gc : gcfg) : outcome stream_error A :=
  if sc_invariant sc then
    (if gc_unsafe gc then UB else Panic)   (* unreachable_unchecked / debug_assert! or, in release, the slice index *)
  else Panic.                              (* slice index out of range *)

Definition lift_gen {A} (x : outcome gen_error A) : outcome stream_error A :=
  match x with Ok a => Ok a | Err e => Err (SGen e) | Panic => Panic | UB => UB end.

Fixpoint stream_loop (sc : scfg) (gc : gcfg) (v : variant) (buflen : N) (s : gstate) (trace : list rres)
  : outcome stream_error gstate :=
  match trace with
  | [] => Ok s                                            (* read returned 0: break *)
  | RData d :: r =>
      if lenN d =? 0 then Ok s                            (* read returned 0: break; the rest is never read *)
      else if buflen <? lenN d then overclaim sc gc
      else do s' <- update gc v s d; stream_loop sc gc v buflen s' r
  | RInterrupted :: r => if sc_retry sc then stream_loop sc gc v buflen s r else Err (SIO io_interrupted)
  | RHard k :: _ => Err (SIO k)                           (* `?` *)
  | RLie _ :: _ => overclaim sc gc
  end.

Definition hash_stream (sc : scfg) (gc : gcfg) (v : variant) (trace : list rres) : outcome stream_error hash :=
  do s <- stream_loop sc gc v stream_buffer_size (g_init gc v) trace;
  lift_gen (finalize_exec gc v default_options s).

(* hash_file: File::open(path)? then the same loop over the file's reads *)
Definition hash_file (sc : scfg) (gc : gcfg) (v : variant) (opened : N + list rres) : outcome stream_error hash :=
  match opened with
  | inl kind => Err (SIO kind)
  | inr trace => hash_stream sc gc v trace
  end.

(* hash_buf_for: one update with the whole buffer, then finalize() *)
Definition hash_buf (gc : gcfg) (v : variant) (data : list N) : outcome gen_error hash :=
  do s <- update gc v (g_init gc v) data; finalize_exec gc v default_options s.

(* the bytes the reader delivered before the loop stopped *)
Fixpoint delivered (trace : list rres) : list N :=
  match trace with
  | RData d :: r => if lenN d =? 0 then [] else d ++ delivered r
  | RInterrupted :: r => delivered r
  | _ => []
  end.

(* how the reads end: Some kind = a hard error is reached (before any zero-length read); None = end of stream *)
Fixpoint first_hard (trace : list rres) : option N :=
  match trace with
  | RData d :: r => if lenN d =? 0 then None else first_hard r
  | RInterrupted :: r => first_hard r
  | RHard k :: _ => Some k
  | _ => None
  end.

(* the trace stays inside the Read contract up to where the loop stops *)
Fixpoint in_contract (buflen : N) (trace : list rres) : bool :=
  match trace with
  | RData d :: r => if lenN d =? 0 then true else (lenN d <=? buflen) && in_contract buflen r
  | RInterrupted :: r => in_contract buflen r
  | RHard _ :: _ => true
  | RLie _ :: _ => false
  | [] => true
  end.

(* ---- compare_easy.rs ---- *)
Inductive side := SLeft | SRight.

Definition compare_with (hc : hcfg) (cc : ccfg) (v : variant) (l r : list N) : outcome (side * parse_error) N :=
  match parse hc v l None with
  | Err e => Err (SLeft, e)
  | Panic => Panic
  | UB => UB
  | Ok a =>
      match parse hc v r None with
      | Err e => Err (SRight, e)
      | Panic => Panic
      | UB => UB
      | Ok b => match @compare unit cc a b CmpDefault with Ok d => Ok d | Err _ => Panic | Panic => Panic | UB => UB end
      end
  end.
