(* Model/MFloat.v -- the model uses the same executable IEEE-754 binary32 specification as the reference. *)
From TlshV Require Export Spec.SpecF32.
