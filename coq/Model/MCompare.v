(* Model/MCompare.v -- model of fast-tlsh/src/compare/{utils,dist_checksum,dist_length,dist_qratios,
   dist_body}.rs and of compare_with_config / max_distance in hash.rs.
   The bit-sliced kernels are the programs regenerated from the source (Gen/Kernels.v), run by the
   evaluator of MLanes.v; the short wrappers around them (loads, loops, horizontal sums) are
   hand-modelled here. *)
From TlshV Require Import Model.Machine Gen.Tables Gen.Kernels Model.MLength Model.MHash Model.MLanes.

(* distance_on_ring_mod(x, y, n): u8 wrapping arithmetic; debug_assert!(n == 0 || x < n) etc. *)
Definition ring_mod {E} (dbg : bool) (x y n : N) : outcome E N :=
  if dbg && negb (((n =? 0) || (x <? n)) && ((n =? 0) || (y <? n))) then Panic
  else
    let '(dl, dr) := if y <=? x then (wrap8 (x + 256 - y), wrap8 (wrap8 (y + n) + 256 - x))
                     else (wrap8 (wrap8 (x + n) + 256 - y), wrap8 (y + 256 - x)) in
    Ok (if dl <=? dr then dl else dr).

Inductive qcfg := QNaive | QTable | QTableDouble.

Record ccfg := {
  cc_len_table : bool;       (* opt-dist-length-table *)
  cc_q : qcfg;               (* opt-dist-qratios-table[-double] *)
  cc_body : N;               (* 0 pseudo32, 1 pseudo64, 2 sse2, 3 sse4.1, 4 avx2 *)
  cc_dbg : bool;
}.

(* ---- length ---- *)
Definition len_naive {E} (dbg : bool) (l1 l2 : N) : outcome E N :=
  do d <- ring_mod dbg l1 l2 0;
  Ok (if d <=? 1 then d else d * length_mult).

(* LDIST_VALUE[i] (const-eval loop; u16 entries) *)
Definition ldist_entry {E} (i : N) : outcome E N :=
  do d <- ring_mod false 0 (wrap8 i) 0;
  Ok (if d <=? 1 then d else wrap16 (d * length_mult)).

Definition dist_length {E} (c : ccfg) (l1 l2 : N) : outcome E N :=
  if cc_len_table c then ldist_entry (wrap8 (l1 + 256 - l2)) else len_naive (cc_dbg c) l1 l2.

(* ---- q ratios ---- *)
Definition q_sub {E} (dbg : bool) (q1 q2 : N) : outcome E N :=
  do d <- ring_mod dbg q1 q2 16;
  Ok (if d <=? 1 then d else (d - 1) * qratio_mult).

Definition q_naive {E} (dbg : bool) (a b : N) : outcome E N :=
  do x <- q_sub dbg (N.land a 15) (N.land b 15);
  do y <- q_sub dbg (N.shiftr a 4) (N.shiftr b 4);
  Ok (x + y).

Definition dist_q {E} (c : ccfg) (a b : N) : outcome E N :=
  match cc_q c with
  | QNaive => q_naive (cc_dbg c) a b
  | QTable =>
      (* QDIST_VALUE[x][y] as u8, built by the const loop from naive::sub_distance *)
      do x <- q_sub false (N.land a 15) (N.land b 15);
      do y <- q_sub false (N.shiftr a 4) (N.shiftr b 4);
      Ok (wrap8 x + wrap8 y)
  | QTableDouble =>
      (* QDIST_VALUE_2[a][b] = naive::distance(a, b) as u8 *)
      do d <- q_naive false a b; Ok (wrap8 d)
  end.

(* ---- checksum ---- *)
Definition dist_cks (a b : list N) : N :=
  fold_left (fun acc p => acc + (if fst p =? snd p then 0 else 1)) (combine a b) 0.

(* ---- body ---- *)

(* from_ne_bytes on little-endian targets *)
Definition word_of (bytes : list N) : N := pack bytes.

(* chunks_exact(n): floor(len / n) chunks of n elements *)
Fixpoint chunks_k (n k : nat) (l : list N) : list (list N) :=
  match k with
  | O => []
  | S k' => firstn n l :: chunks_k n k' (skipn n l)
  end.
Definition chunks_exact (n : nat) (l : list N) : list (list N) := chunks_k n (Nat.div (length l) n) l.

(* scalar kernels: the epilogue ((s * 0x0101..01) >> (w - 8)) at word width *)
Definition sub_distance_64 (x y : N) : N :=
  let s := eval 8 pseudo64_lanes pseudo64_out x y in
  wrap32 (((s * 72340172838076673) mod 2 ^ 64) / 2 ^ 56).
Definition sub_distance_32 (x y : N) : N :=
  let s := eval 4 pseudo32_lanes pseudo32_out x y in
  ((s * 16843009) mod 2 ^ 32) / 2 ^ 24.

Definition sum_list (l : list N) : N := fold_left N.add l 0.

Definition body_pseudo32 (a b : list N) : N :=
  sum_list (map (fun p => sub_distance_32 (word_of (fst p)) (word_of (snd p)))
                (combine (chunks_exact 4 a) (chunks_exact 4 b))).

Definition body_pseudo64 (a b : list N) : N :=
  if Nat.eqb (length a) 12 then
    (* distance_12: one u64 and one u32 *)
    sub_distance_64 (word_of (firstn 8 a)) (word_of (firstn 8 b))
    + sub_distance_32 (word_of (skipn 8 a)) (word_of (skipn 8 b))
  else
    sum_list (map (fun p => sub_distance_64 (word_of (fst p)) (word_of (snd p)))
                  (combine (chunks_exact 8 a) (chunks_exact 8 b))).

(* x86: one __m128i = four 32-bit granules, one __m256i = eight; the lane program runs per granule
   (every arithmetic intrinsic used is _epi32); horizontal sums as in the source *)
Definition granule_sum_mullo (s : N) : N := ((s * 16843009) mod 2 ^ 32) / 2 ^ 24.
(* SSE2: per 16-bit half h: (h << 8 as u16) >> 8  +  h >> 8 *)
Definition granule_sum_sse2 (s : N) : N :=
  let lo := s mod 65536 in let hi := s / 65536 in
  let f h := ((h * 256) mod 65536) / 256 + h / 256 in
  f lo + f hi.

Definition body_x86 (lanes : program) (out : nat) (gsum : N -> N) (a b : list N) : N :=
  sum_list (map (fun p => gsum (eval 4 lanes out (word_of (fst p)) (word_of (snd p))))
                (combine (chunks_exact 4 a) (chunks_exact 4 b))).

(* ---- the x86 wrappers distance_32 / distance_64 around the packed kernels ----
   A vector is the list of its 32-bit lanes (4 for __m128i, 8 for __m256i); loads are little-endian.
   The shuffle immediates, the extracted lanes and the chunk counts are regenerated from the source (Gen/Kernels.v). *)
Fixpoint zipN (f : N -> N -> N) (a b : list N) : list N :=
  match a, b with
  | x :: a', y :: b' => f x y :: zipN f a' b'
  | _, _ => []
  end.

(* packed_distance_as_*: one value per 32-bit granule ([gsum] = the kernel's epilogue on that granule) *)
Definition lanes_of (gsum : N -> N) (lanes : program) (out : nat) (x y : list N) : list N :=
  map (fun p => gsum (eval 4 lanes out (word_of (fst p)) (word_of (snd p)))) (combine (chunks_exact 4 x) (chunks_exact 4 y)).

(* _mm_shuffle_epi32::<imm>: lane i <- source lane (imm >> 2i) & 3; the 256-bit form works per 128-bit half *)
Definition shuffle32_4 (imm : N) (s : list N) : list N :=
  map (fun i => nth (N.to_nat ((imm / 4 ^ i) mod 4)) s 0) [0; 1; 2; 3].
Definition shuffle32 (imm : N) (s : list N) : list N :=
  if Nat.eqb (length s) 8 then shuffle32_4 imm (firstn 4 s) ++ shuffle32_4 imm (skipn 4 s) else shuffle32_4 imm s.

Definition add32v : list N -> list N -> list N := zipN (fun x y => (x + y) mod 4294967296).
(* _mm_add_epi16 on lanes holding two 16-bit words *)
Definition add16v : list N -> list N -> list N :=
  zipN (fun x y => (x mod 65536 + y mod 65536) mod 65536 + 65536 * ((x / 65536 + y / 65536) mod 65536)).

(* t = shuffle(s); s = add(s, t), once per immediate *)
Definition reduce (add : list N -> list N -> list N) (imms : list N) (s : list N) : list N :=
  fold_left (fun s imm => add s (shuffle32 imm s)) imms s.

(* SSE2's packed kernel ends with 16-bit operations: each 32-bit granule keeps two 16-bit sums *)
Definition granule_words_sse2 (s : N) : N :=
  let lo := s mod 65536 in let hi := s / 65536 in
  let f h := ((h * 256) mod 65536) / 256 + h / 256 in
  f lo + 65536 * f hi.

(* x86_sse2 / x86_sse4_1: accumulate the chunk vectors, reduce once *)
Definition x86_acc (add : list N -> list N -> list N) (gsum : N -> N) (lanes : program) (out : nat) (imms : list N)
  (finish : list N -> N) (vec : nat) (a b : list N) : N :=
  let vs := map (fun p => lanes_of gsum lanes out (fst p) (snd p)) (combine (chunks_exact vec a) (chunks_exact vec b)) in
  finish (reduce add imms (fold_left add vs (repeat 0 (Nat.div vec 4)))).

(* x86_avx2: reduce every 256-bit chunk, add the scalars *)
Definition x86_each (add : list N -> list N -> list N) (gsum : N -> N) (lanes : program) (out : nat) (imms : list N)
  (finish : list N -> N) (vec : nat) (a b : list N) : N :=
  sum_list (map (fun p => finish (reduce add imms (lanes_of gsum lanes out (fst p) (snd p))))
                (combine (chunks_exact vec a) (chunks_exact vec b))).

Definition finish_lane0 (s : list N) : N := nth 0 s 0.                                   (* _mm_cvtsi128_si32 *)
Definition finish_sse2 (s : list N) : N := let t := nth 0 s 0 in (t mod 65536 + t / 65536) mod 4294967296.
Definition finish_extract (idx : list nat) (s : list N) : N := sum_list (map (fun i => nth i s 0) idx).

Definition dist_body (c : ccfg) (a b : list N) : N :=
  if Nat.eqb (length a) 12 then
    (* distance_12 always uses the scalar kernels (usize::BITS >= 64 on this target) *)
    (if cc_body c =? 0 then body_pseudo32 a b else body_pseudo64 a b)
  else if cc_body c =? 0 then body_pseudo32 a b
  else if cc_body c =? 1 then body_pseudo64 a b
  else if cc_body c =? 2 then x86_acc add16v granule_words_sse2 sse2_lanes sse2_out sse2_reduce finish_sse2 16 a b
  else if cc_body c =? 3 then x86_acc add32v granule_sum_mullo sse41_lanes sse41_out sse41_reduce finish_lane0 16 a b
  else x86_each add32v granule_sum_mullo avx2_lanes avx2_out avx2_reduce (finish_extract avx2_extract) 32 a b.

(* ---- compare_with_config / max_distance ---- *)
Definition compare {E} (c : ccfg) (a b : hash) (m : cmp_mode) : outcome E N :=
  do q <- dist_q c (h_q a) (h_q b);
  do l <- (match m with CmpDefault => dist_length c (h_len a) (h_len b) | CmpNoLength => Ok 0 end);
  (* u32 additions; the sum is far below 2^32 *)
  Ok (dist_body c (h_body a) (h_body b) + dist_cks (h_cks a) (h_cks b) + q + l).

Definition body_max (bk : buckets_kind) : N :=
  match bk with B48 => body_max_distance_short | B128 => body_max_distance_normal | B256 => body_max_distance_long end.

Definition max_distance (v : variant) (m : cmp_mode) : N :=
  body_max (v_bk v) + v_cks v + qratios_max_distance
  + match m with CmpDefault => length_max_distance | CmpNoLength => 0 end.
