(* Model/MSerde.v -- interface-level model of the serde support in fast-tlsh/src/hash.rs
   (Serialize, FuzzyHashStringVisitor, FuzzyHashBytesVisitor, Deserialize).

   A (de)serializer is represented by the data-model event it receives / presents: a string, a byte
   string, or anything else.  serde's own forwarding defaults are part of the model: visit_borrowed_str,
   visit_string and visit_char reach visit_str; visit_borrowed_bytes and visit_byte_buf reach
   visit_bytes; every visit_* a visitor does not implement returns Error::invalid_type. *)
From TlshV Require Import Model.Machine Gen.Tables Model.MLength Model.MHexStr Model.MHash.

Inductive sval :=
| VStr (s : list N)        (* serialize_str / visit_str family (UTF-8 bytes of the string) *)
| VBytes (b : list N)      (* serialize_bytes / visit_bytes family *)
| VOther (kind : N).       (* any other event: integers, bool, unit, option, seq, map, ... *)

Inductive de_error :=
| DeCustom (e : parse_error)    (* Error::custom(ParseError) *)
| DeInvalidLength (n : N)       (* Error::invalid_length(n, &visitor) *)
| DeInvalidType.                (* serde's default for an unimplemented visit_* *)

(* Serialize::serialize *)
Definition ser (c : hcfg) (v : variant) (human_readable : bool) (h : hash) : outcome op_error sval :=
  if human_readable then
    (* [0u8; SIZE_IN_STR_BYTES]; store_into_str_bytes(.., WithVersion).unwrap(); from_utf8[_unchecked]: the
       same statements as Display::fmt *)
    do s <- display c v h; Ok (VStr s)
  else
    let buf := repeat 0 (N.to_nat (size_in_bytes v)) in
    match store_bytes v h buf with
    | (Ok _, o) => Ok (VBytes o)
    | (Err _, _) => Panic           (* .unwrap() *)
    | (Panic, _) => Panic
    | (UB, _) => UB
    end.

Definition lift_parse {A} (x : outcome parse_error A) : outcome de_error A :=
  match x with Ok a => Ok a | Err e => Err (DeCustom e) | Panic => Panic | UB => UB end.

(* FuzzyHashStringVisitor: visit_str -> visit_bytes -> from_str_bytes(v, None).map_err(custom) *)
Definition string_visitor (c : hcfg) (v : variant) (ev : sval) : outcome de_error hash :=
  match ev with
  | VStr s => lift_parse (parse c v s None)
  | VBytes b => lift_parse (parse c v b None)
  | VOther _ => Err DeInvalidType
  end.

(* FuzzyHashBytesVisitor::visit_bytes.  [unwrap_bug = true] is the code before the "fix:" commit for C16:
   Ok(Self::Value::try_from(v).unwrap()) *)
Definition bytes_visitor (unwrap_bug : bool) (c : hcfg) (v : variant) (ev : sval) : outcome de_error hash :=
  match ev with
  | VBytes b =>
      if negb (lenN b =? size_in_bytes v) then Err (DeInvalidLength (lenN b))
      else
        match from_slice c v b with
        | Ok h => Ok h
        | Err e => if unwrap_bug then Panic else Err (DeCustom e)
        | Panic => Panic
        | UB => UB
        end
  | VStr _ => Err DeInvalidType        (* no visit_str on this visitor *)
  | VOther _ => Err DeInvalidType
  end.

(* Deserialize::deserialize: is_human_readable() selects the visitor (deserialize_str / deserialize_bytes, or
   deserialize_string / deserialize_byte_buf under serde-buffered: hints only, the visitor is the same) *)
Definition de (unwrap_bug : bool) (c : hcfg) (v : variant) (human_readable : bool) (ev : sval) : outcome de_error hash :=
  if human_readable then string_visitor c v ev else bytes_visitor unwrap_bug c v ev.
