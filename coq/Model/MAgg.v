(* Model/MAgg.v -- the SIMD bucket-aggregation kernels (generate/bucket_aggregation/x86_{sse2,ssse3,avx2}.rs
   `sub_aggregation`) as straight-line programs regenerated from the source (Gen/AggKernels.v), the
   semantics of the intrinsics they use, and the hand-modelled loops around them.

   Vectors are little-endian byte lists (16 bytes for __m128i, 32 for __m256i); 32-bit lane j is bytes
   4j..4j+3.  The only way bucket data enters a kernel is the unsigned-compare idiom
       cmpgt_epi32(load(buckets) ^ 0x80000000, set1(q_k ^ 0x80000000))
   which the translator recognises syntactically and emits as [ACmp k]: lane j is all-ones iff
   bucket_j > q_k (justified by Proofs/AggProofs.cmpgt_idiom).  A kernel is therefore evaluated on the
   per-lane outcomes o_j = number of quartiles strictly below bucket_j (0..3; c_k = (k <= o_j) when
   q1 <= q2 <= q3, which the callers guarantee). *)
From TlshV Require Import Model.Machine Model.MFinalize.

Inductive ainstr :=
| ACmp (k : N)                       (* lane mask: bucket_j > q_k *)
| AXor (a b : nat) | AOr (a b : nat) | AAnd (a b : nat)     (* vector, bytewise *)
| APacksUndef (a : nat)              (* _mm_packs_epi16(a, _mm_undefined_si128()): upper 8 bytes undefined *)
| AShuffle (a : nat) (pat : list N)  (* _mm[256]_shuffle_epi8(a, constant pattern), per 128-bit lane *)
| AMovemask (a : nat)                (* _mm[256]_movemask_epi8 as u32 *)
| SAndC (a : nat) (c : N)            (* scalar & constant *)
| SOr (a b : nat)                    (* scalar | *)
| SShr (a : nat) (c : N)             (* scalar >> c *)
| SCast8 (a : nat).                  (* as u8 *)

Definition aprogram := list ainstr.

Inductive aval :=
| AV (bytes : list N)        (* a fully defined vector *)
| AVU (low : list N)         (* a 128-bit vector whose low 8 bytes are [low] and whose high 8 bytes are undefined *)
| AS (n : N).                (* a scalar (u32) *)

Definition lane_mask (b : bool) : list N := if b then [255; 255; 255; 255] else [0; 0; 0; 0].

(* signed saturation of a 16-bit word to 8 bits *)
Definition sat_i16_i8 (lo hi : N) : N :=
  let w := lo + 256 * hi in
  if w <? 32768 then (if w <? 128 then w else 127)
  else (if 65408 <=? w then w - 65280 else 128).

Fixpoint packs_words (l : list N) : list N :=
  match l with
  | lo :: hi :: r => sat_i16_i8 lo hi :: packs_words r
  | _ => []
  end.

Fixpoint movemask (l : list N) (i : N) : N :=
  match l with
  | [] => 0
  | b :: r => (if 128 <=? b then 2 ^ i else 0) + movemask r (i + 1)
  end.

(* shuffle_epi8 within one 128-bit lane *)
Definition shuffle_lane (src pat : list N) : list N :=
  map (fun p => if 128 <=? p then 0 else nth (N.to_nat (p mod 16)) src 0) pat.

Definition shuffle (src pat : list N) : list N :=
  if Nat.eqb (length src) 32
  then shuffle_lane (firstn 16 src) (firstn 16 pat) ++ shuffle_lane (skipn 16 src) (skipn 16 pat)
  else shuffle_lane src pat.

Fixpoint zipwith (f : N -> N -> N) (a b : list N) : list N :=
  match a, b with
  | x :: a', y :: b' => f x y :: zipwith f a' b'
  | _, _ => []
  end.

Definition getv (env : list aval) (i : nat) : option (list N) :=
  match nth_error env i with Some (AV l) => Some l | _ => None end.
Definition gets (env : list aval) (i : nat) : option N :=
  match nth_error env i with Some (AS n) => Some n | _ => None end.

(* one instruction; [outs] are the per-lane outcomes, [u] the 8 movemask bits an undefined upper half yields *)
Definition astep (outs : list N) (u : N) (env : list aval) (ins : ainstr) : option aval :=
  match ins with
  | ACmp k => Some (AV (flat_map (fun o => lane_mask (k <=? o)) outs))
  | AXor a b => match getv env a, getv env b with Some x, Some y => Some (AV (zipwith N.lxor x y)) | _, _ => None end
  | AOr a b => match getv env a, getv env b with Some x, Some y => Some (AV (zipwith N.lor x y)) | _, _ => None end
  | AAnd a b => match getv env a, getv env b with Some x, Some y => Some (AV (zipwith N.land x y)) | _, _ => None end
  | APacksUndef a => match getv env a with Some x => if Nat.eqb (length x) 16 then Some (AVU (packs_words x)) else None | None => None end
  | AShuffle a pat => match getv env a with Some x => if Nat.eqb (length x) (length pat) then Some (AV (shuffle x pat)) else None | None => None end
  | AMovemask a =>
      match nth_error env a with
      | Some (AV x) => Some (AS (movemask x 0))
      | Some (AVU low) => Some (AS (movemask low 0 + 256 * u))      (* the undefined bytes' sign bits *)
      | _ => None
      end
  | SAndC a c => match gets env a with Some x => Some (AS (N.land x c)) | None => None end
  | SOr a b => match gets env a, gets env b with Some x, Some y => Some (AS (N.lor x y)) | _, _ => None end
  | SShr a c => match gets env a with Some x => Some (AS (N.shiftr x c)) | None => None end
  | SCast8 a => match gets env a with Some x => Some (AS (x mod 256)) | None => None end
  end.

Fixpoint arun (outs : list N) (u : N) (p : aprogram) (env : list aval) : option (list aval) :=
  match p with
  | [] => Some env
  | i :: r => match astep outs u env i with Some v => arun outs u r (env ++ [v]) | None => None end
  end.

(* the value(s) the kernel returns: the listed scalar registers *)
Definition aeval (p : aprogram) (results : list nat) (outs : list N) (u : N) : option (list N) :=
  match arun outs u p [] with
  | Some env => fold_right (fun r acc => match gets env r, acc with Some x, Some l => Some (x :: l) | _, _ => None end)
                           (Some []) results
  | None => None
  end.

(* ---- the loops around the kernels ---- *)

Definition outcome_of (q1 q2 q3 b : N) : N :=
  if q3 <? b then 3 else if q2 <? b then 2 else if q1 <? b then 1 else 0.

Fixpoint chunks8 (l : list N) : list (list N) :=
  match l with
  | a :: b :: c :: d :: e :: f :: g :: h :: r => [a; b; c; d; e; f; g; h] :: chunks8 r
  | _ => []
  end.

(* x86_sse2 / x86_ssse3: out.iter_mut().rev().zip(buckets.chunks_exact(4)), one byte per chunk.
   [u] stands for whatever the undefined operand contributes (SSE2 only). *)
Definition aggregate_x4 {E} (p : aprogram) (results : list nat) (u : N) (dbg : bool) (body_size : N)
  (buckets : list N) (q1 q2 q3 : N) : outcome E (list N) :=
  do _ <- (if dbg && negb ((q1 <=? q2) && (q2 <=? q3)) then Panic else Ok tt);    (* debug_assert!s of the dispatcher *)
  do bytes <- map_out_list (fun ch => match aeval p results (map (outcome_of q1 q2 q3) ch) u with
                                      | Some [x] => Ok x
                                      | _ => Panic
                                      end)
                           (firstn (N.to_nat body_size) (chunks4 buckets));
  Ok (repeat 0 (N.to_nat body_size - length bytes) ++ rev bytes).

(* x86_avx2: out.chunks_mut(2).rev().zip(buckets.chunks_exact(8)); (out[0], out[1]) = (high lane byte, low lane byte) *)
Definition aggregate_x8 {E} (p : aprogram) (results : list nat) (dbg : bool) (body_size : N)
  (buckets : list N) (q1 q2 q3 : N) : outcome E (list N) :=
  do _ <- (if dbg && negb ((q1 <=? q2) && (q2 <=? q3)) then Panic else Ok tt);
  do pairs <- map_out_list (fun ch => match aeval p results (map (outcome_of q1 q2 q3) ch) 0 with
                                      | Some [hi; lo] => Ok [lo; hi]
                                      | _ => Panic
                                      end)
                           (firstn (N.to_nat (body_size / 2)) (chunks8 buckets));
  let bytes := concat pairs in
  Ok (repeat 0 (N.to_nat body_size - length bytes) ++ rev bytes).
