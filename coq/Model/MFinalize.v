(* Model/MFinalize.v -- model of Generator::finalize_with_options and of the naive bucket
   aggregation (generate/bucket_aggregation.rs, mod naive). *)
From TlshV Require Import Model.Machine Gen.Tables Model.MLength Model.MHash Model.MPearson
  Model.MGenerate Model.MFloat.

Definition min_nonzero (bk : buckets_kind) : N :=
  match bk with B48 => min_nonzero_short | B128 => min_nonzero_normal | B256 => min_nonzero_long end.

(* naive::get_quartile, with its two debug_assert!s *)
Definition get_quartile {E} (dbg : bool) (value q1 q2 q3 : N) : outcome E N :=
  if dbg && negb ((q1 <=? q2) && (q2 <=? q3)) then Panic
  else Ok (if q3 <? value then 3 else if q2 <? value then 2 else if q1 <? value then 1 else 0).

(* subbuckets.iter().rev().fold(0u8, |x, &b| x << 2 | q) on one chunk of four buckets *)
Definition aggregate_chunk {E} (dbg : bool) (q1 q2 q3 : N) (chunk : list N) : outcome E N :=
  fold_left (fun acc b => do x <- acc; do q <- get_quartile dbg b q1 q2 q3;
                          Ok (N.lor (wrap8 (N.shiftl x 2)) q))
            (rev chunk) (Ok 0).

Fixpoint chunks4 (l : list N) : list (list N) :=
  match l with
  | a :: b :: c :: d :: r => [a; b; c; d] :: chunks4 r
  | _ => []
  end.

Fixpoint map_out_list {E A B} (f : A -> outcome E B) (l : list A) : outcome E (list B) :=
  match l with
  | [] => Ok []
  | x :: r => do y <- f x; do ys <- map_out_list f r; Ok (y :: ys)
  end.

(* naive::aggregate_N: out.iter_mut().rev().zip(buckets.chunks_exact(4)); [body_size] outputs *)
Definition aggregate_naive {E} (dbg : bool) (body_size : N) (buckets : list N) (q1 q2 q3 : N)
  : outcome E (list N) :=
  do _ <- (if dbg && negb ((q1 <=? q2) && (q2 <=? q3)) then Panic else Ok tt);
  do bytes <- map_out_list (aggregate_chunk dbg q1 q2 q3) (firstn (N.to_nat body_size) (chunks4 buckets));
  (* chunks beyond the body, or missing chunks, leave zeros: out starts as [0; SIZE_BODY] *)
  Ok (repeat 0 (N.to_nat body_size - length bytes) ++ rev bytes).

(* the steps of finalize_with_options, in source order *)

Definition fin_len (s : gstate) : N :=
  match processed_len s with Some x => x | None => u32_max end.   (* unwrap_or(u32::MAX) *)

Definition gate_len (bk : buckets_kind) (o : options) (len : N) : outcome gen_error unit :=
  let validity := validity_new bk len in
  if validity_is_err_on validity (o_mode o) then
    match validity with
    | TooLarge => Err TooLargeInput
    | _ => if negb (o_small o) then Err TooSmallInput else Ok tt
    end
  else Ok tt.

(* FuzzyHashLengthEncoding::new(len).unwrap() *)
Definition lvalue_of (gc : gcfg) (len : N) : outcome gen_error N :=
  match encode_new LenClz (gc_unsafe gc) (gc_dbg gc) len with
  | Ok (Some x) => Ok x
  | Ok None => Panic
  | Err _ => Panic
  | Panic => Panic
  | UB => UB
  end.

Definition nonzero_count (buckets : list N) : N := lenN (filter (fun x => negb (x =? 0)) buckets).

Definition gate_q3 (o : options) (q : N * N * N) : outcome gen_error (N * N * N) :=
  let '(q1, q2, q3) := q in
  if q3 =? 0 then
    if negb (o_quarter o) then Err BucketsAreThreeQuarterEmpty else Ok (1, 1, 1)
  else Ok (q1, q2, q3).

Definition gate_half (bk : buckets_kind) (o : options) (nonzero : N) : outcome gen_error unit :=
  if (nonzero <? min_nonzero bk) && negb (o_half o || o_quarter o) then Err BucketsAreHalfEmpty else Ok tt.

Definition two64 : N := 18446744073709551616.

Definition qratio_pair (gc : gcfg) (o : options) (q : N * N * N) : outcome gen_error (N * N) :=
  let '(q1, q2, q3) := q in
  if o_pure_int o then
    (* q as u64 * 100 / q3 as u64 % 16 *)
    do p1 <- (if q1 * 100 <? two64 then Ok (q1 * 100) else if gc_dbg gc then Panic else Ok (wrap64 (q1 * 100)));
    do p2 <- (if q2 * 100 <? two64 then Ok (q2 * 100) else if gc_dbg gc then Panic else Ok (wrap64 (q2 * 100)));
    do _ <- (if q3 =? 0 then Panic else Ok tt);
    Ok (wrap8 ((p1 / q3) mod 16), wrap8 ((p2 / q3) mod 16))
  else
    Ok (wrap8 (qratio_f32 q1 q3), wrap8 (qratio_f32 q2 q3)).

Section WithSelect.
  (* slice::select_nth_unstable, by std's contract (see Proofs/Select.v); any function meeting
     the contract may be plugged in *)
  Variable sel : list N -> nat -> list N.

  Definition select_nth {E} (l : list N) (k : N) : outcome E (list N * N * list N) :=
    if k <? lenN l then
      let l' := sel l (N.to_nat k) in
      Ok (firstn (N.to_nat k) l', nth (N.to_nat k) l' 0, skipn (S (N.to_nat k)) l')
    else Panic.

  (* the three nested selections; usize arithmetic SIZE_BUCKETS / 2 - 1 etc. is constant-folded *)
  Definition quartiles (nb : N) (buckets : list N) : outcome gen_error (N * N * N) :=
    do r2 <- select_nth buckets (nb / 2 - 1);
    let '(l0, q2, l1) := r2 in
    do r1 <- select_nth l0 (nb / 4 - 1);
    let '(_, q1, _) := r1 in
    do r3 <- select_nth l1 (nb / 4 - 1);
    let '(_, q3, _) := r3 in
    Ok (q1, q2, q3).

  Definition finalize (gc : gcfg) (v : variant) (o : options) (s : gstate) : outcome gen_error hash :=
    let bk := v_bk v in
    let len := fin_len s in
    do _ <- gate_len bk o len;
    do lv <- lvalue_of gc len;
    do buckets <- buckets_data bk s;
    (* .try_into().unwrap() into [u32; SIZE_BUCKETS] *)
    do _ <- (if lenN buckets =? nb_of bk then Ok tt else Panic);
    do q0 <- quartiles (nb_of bk) buckets;
    do q <- gate_q3 o q0;
    do _ <- gate_half bk o (nonzero_count buckets);
    do ratios <- qratio_pair gc o q;
    do qbyte <- qratios_new (fst ratios) (snd ratios);
    do body <- aggregate_naive (gc_dbg gc) (size_body v) buckets (fst (fst q)) (snd (fst q)) (snd q);
    Ok {| h_cks := g_cks s; h_len := lv; h_q := qbyte; h_body := body |}.
End WithSelect.

(* an executable selection meeting the contract: full insertion sort *)
Definition sel_sort (l : list N) (_ : nat) : list N := isort l.

Definition finalize_exec := finalize sel_sort.
