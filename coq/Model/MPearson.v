(* Model/MPearson.v -- model of fast-tlsh/src/pearson.rs over the regenerated SUBST_TABLE.
   Indexing a [u8; 256] with a u8 cannot fail in Rust, so the lookups are total ([nth] with a
   default that is never reached for byte arguments). *)
From TlshV Require Import Model.Machine Gen.Tables.

Definition sub (i : N) : N := nth (N.to_nat i) subst_table 0.

(* const SUBST_TABLE_48: entries >= 240 become 48, the others are reduced mod 48 *)
Definition subst_table_48 : list N := map (fun x => if 240 <=? x then 48 else x mod 48) subst_table.
Definition sub48 (i : N) : N := nth (N.to_nat i) subst_table_48 0.

Definition p_update (state value : N) : N := sub (N.lxor state value).
Definition p_init (value : N) : N := p_update pearson_initial_state value.

(* static SUBST_TABLE_DOUBLE[b2][b1] = SUBST_TABLE[SUBST_TABLE[b1] ^ b2] (its defining loop) *)
Definition double_entry (b2 b1 : N) : N := sub (N.lxor (sub b1) b2).

Definition p_update_double (double_table : bool) (state b1 b2 : N) : N :=
  if double_table then double_entry b2 (N.lxor state b1)
  else p_update (p_update state b1) b2.

Definition p_final_256 (state value : N) : N := p_update state value.
Definition p_final_48 (state value : N) : N := sub48 (N.lxor state value).

Definition b_mapping_256 (dt : bool) (b0 b1 b2 b3 : N) : N :=
  p_final_256 (p_update_double dt (p_init b0) b1 b2) b3.
Definition b_mapping_48 (dt : bool) (b0 b1 b2 b3 : N) : N :=
  p_final_48 (p_update_double dt (p_init b0) b1 b2) b3.
