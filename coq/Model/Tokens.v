(* Token protocol shared with the Rust harness and the OCaml driver. *)
From Coq Require Import String Ascii.
From TlshV Require Import Model.Machine.

Inductive tok :=
| TN (n : N)            (* decimal number *)
| TB (b : list N)       (* byte string, printed x<hex> *)
| TS (s : list N).      (* bare symbol, as character codes *)

Definition sym (s : string) : list N := map N_of_ascii (list_ascii_of_string s).
Definition S (s : string) : tok := TS (sym s).

Definition is_sym (t : tok) (s : string) : bool :=
  match t with TS l => list_eqb l (sym s) | _ => false end.

Definition bad : list tok := [S "MODEL-BAD-INPUT"].

Definition b01 (b : bool) : tok := TN (if b then 1 else 0).
