(* Conditional-compilation model: `#[cfg(..)]` predicates as boolean formulas over named
   configuration atoms ("f:<feature>", "test", "doc", "target_arch=x86_64", ...), a
   site = one place of the source that names something living in `std`/`alloc`, and a
   decision procedure for "the formula holds under every assignment" (soundness is proved
   in Proofs/CfgTaut.v).  Everything here is executable. *)
From Coq Require Import List String Bool.
Import ListNotations.
Open Scope string_scope.

Inductive form :=
| FTrue
| FVar (v : string)
| FNot (f : form)
| FAnd (l : list form)
| FOr (l : list form).

Fixpoint eval (env : string -> bool) (f : form) : bool :=
  match f with
  | FTrue => true
  | FVar v => env v
  | FNot g => negb (eval env g)
  | FAnd l => (fix go (l : list form) : bool :=
                 match l with [] => true | x :: r => eval env x && go r end) l
  | FOr l => (fix go (l : list form) : bool :=
                 match l with [] => false | x :: r => eval env x || go r end) l
  end.

Definition FImp (a b : form) : form := FOr [FNot a; b].

Fixpoint vars (f : form) : list string :=
  match f with
  | FTrue => []
  | FVar v => [v]
  | FNot g => vars g
  | FAnd l => (fix go (l : list form) : list string :=
                 match l with [] => [] | x :: r => (vars x ++ go r)%list end) l
  | FOr l => (fix go (l : list form) : list string :=
                 match l with [] => [] | x :: r => (vars x ++ go r)%list end) l
  end.

(* assignments to a finite list of atoms *)
Definition assignment := list (string * bool).

Fixpoint lookup (a : assignment) (v : string) : bool :=
  match a with
  | [] => false
  | (w, b) :: r => if String.eqb w v then b else lookup r v
  end.

Fixpoint assignments (vs : list string) : list assignment :=
  match vs with
  | [] => [[]]
  | v :: r => let rest := assignments r in
              (map (fun a => (v, false) :: a) rest ++ map (fun a => (v, true) :: a) rest)%list
  end.

Definition dedup (l : list string) : list string := nodup string_dec l.

Definition taut (f : form) : bool :=
  forallb (fun a => eval (lookup a) f) (assignments (dedup (vars f))).

(* the first falsifying assignment, for the failing-input search *)
Definition counterexample (f : form) : option assignment :=
  find (fun a => negb (eval (lookup a) f)) (assignments (dedup (vars f))).

(* ---- sites ---- *)
Inductive skind :=
| KStd        (* a `std::..` path or a std-only macro *)
| KAllocPath  (* an `alloc::..` path *)
| KHeap.      (* a heap type, macro or method that exists only with alloc or std *)

Record site := mk_site {
  s_file : string;
  s_kind : skind;
  s_text : string;
  s_cfg : form
}.

(* feature graph of Cargo.toml: f implies each of deps *)
Definition fgraph := list (string * list string).

Definition clause_form (c : string * list string) : form :=
  FImp (FVar (fst c)) (FAnd (map FVar (snd c))).

Definition closed_form (g : fgraph) : form := FAnd (map clause_form g).

Definition closed (g : fgraph) (env : string -> bool) : bool :=
  forallb (fun c => implb (env (fst c)) (forallb env (snd c))) g.

Definition mem_str (x : string) (l : list string) : bool := existsb (String.eqb x) l.

(* only the clauses whose head is reachable (through the graph) from the atoms of a formula matter *)
Fixpoint reach (fuel : nat) (g : fgraph) (seen : list string) : list string :=
  match fuel with
  | O => seen
  | Datatypes.S k =>
      let add := flat_map (fun c => if mem_str (fst c) seen then snd c else []) g in
      reach k g (dedup (seen ++ add)%list)
  end.

Definition relevant (g : fgraph) (f : form) : fgraph :=
  let r := reach (List.length g) g (dedup (vars f)) in
  filter (fun c => mem_str (fst c) r) g.

(* "f holds in every configuration that respects the feature graph" *)
Definition taut_closed (g : fgraph) (f : form) : bool :=
  taut (FImp (closed_form (relevant g f)) f).
