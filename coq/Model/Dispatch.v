(* Model/Dispatch.v -- the model side of the correspondence protocol: one token list in,
   one token list out, mirroring harness/src/ops.rs line for line.  Evaluated both by the
   extracted OCaml driver and (on a sample) inside Coq by vm_compute. *)
From Coq Require Import String.
From TlshV Require Import Model.Machine Model.Tokens Gen.Tables Model.MLength.
Open Scope string_scope.
Open Scope list_scope.
Open Scope N_scope.

(* model configuration: which cfg_if branches the harness build under comparison has *)
Record mcfg := {
  c_strict : bool;          (* feature strict-parser *)
  c_unsafe : bool;          (* feature unsafe *)
  c_dbg : bool;             (* debug assertions / overflow checks *)
  c_len : len_cfg;
}.

Definition default_cfg : mcfg :=
  {| c_strict := false; c_unsafe := false; c_dbg := true; c_len := LenClz |}.

Definition cfg_of_flags (fl : list N) : mcfg :=
  let has k := existsb (N.eqb k) fl in
  {| c_strict := has 1; c_unsafe := has 2; c_dbg := negb (has 3);
     c_len := if has 4 then LenWhole else LenClz |}.

Definition show_perr (e : parse_error) : tok :=
  match e with
  | LengthIsTooLarge => S "LengthIsTooLarge"
  | InvalidPrefix => S "InvalidPrefix"
  | InvalidCharacter => S "InvalidCharacter"
  | InvalidStringLength => S "InvalidStringLength"
  | InvalidChecksum => S "InvalidChecksum"
  end.

Definition show_validity (v : validity) : tok :=
  match v with
  | TooSmall => S "TooSmall" | ValidWhenOptimistic => S "ValidWhenOptimistic"
  | Valid => S "Valid" | TooLarge => S "TooLarge"
  end.

Definition out_or {E A} (x : outcome E A) (f : A -> list tok) (g : E -> list tok) : list tok :=
  match x with
  | Ok a => f a
  | Err e => g e
  | Panic => [S "PANIC"]
  | UB => [S "UB"]
  end.

Definition bk_of_variant (v : tok) : option buckets_kind :=
  if is_sym v "S" then Some B48
  else if is_sym v "N" || is_sym v "NL" then Some B128
  else if is_sym v "L" || is_sym v "LL" then Some B256
  else None.

Definition dispatch_len (c : mcfg) (op : tok) (args : list tok) : option (list tok) :=
  if is_sym op "len_new" then
    match args with
    | [TN n] => Some (out_or (encode_new (c_len c) (c_unsafe c) (c_dbg c) n)
                  (fun o => match o with Some v => [S "some"; TN v] | None => [S "none"] end)
                  (fun _ => bad))
    | _ => Some bad
    end
  else if is_sym op "len_tryfrom" then
    match args with
    | [TN n] => Some (out_or (try_from_u32 (c_len c) (c_unsafe c) (c_dbg c) n)
                  (fun v => [S "ok"; TN v]) (fun e => [S "err"; show_perr e]))
    | _ => Some bad
    end
  else if is_sym op "len_code" then
    match args with
    | [TN v] =>
        if c_strict c && negb (is_valid v) then Some [S "err"; show_perr LengthIsTooLarge]
        else Some (out_or (range v)
               (fun r => [S "valid"; b01 (is_valid v); S "range"] ++
                         match r with Some (lo, hi) => [S "some"; TN lo; TN hi] | None => [S "none"] end)
               (fun _ => bad))
    | _ => Some bad
    end
  else if is_sym op "validity" then
    match args with
    | [v; TN n] =>
        match bk_of_variant v with
        | Some bk => let x := validity_new bk n in
            Some [show_validity x; b01 (validity_is_err x);
                  b01 (validity_is_err_on x Optimistic); b01 (validity_is_err_on x Conservative)]
        | None => Some bad
        end
    | _ => Some bad
    end
  else if is_sym op "limits" then
    match args with
    | [v] => match bk_of_variant v with
             | Some bk => Some [TN (len_min bk); TN (len_min_conservative bk); TN len_max]
             | None => Some bad
             end
    | _ => Some bad
    end
  else if is_sym op "len_rle_expected" then
    (* the run-length encoding of new(len) over 0..2^32 implied by range(): one run per code *)
    Some (flat_map (fun c => match range c with
                             | Ok (Some (lo, _)) => [S "run"; TN lo; TN c; S ";"]
                             | _ => [S "BAD"]
                             end)
            (map N.of_nat (seq 0 (N.to_nat encoded_value_size)))
          ++ [S "run"; TN (len_max + 1); S "none"; S ";"])
  else None.

Definition dispatch (c : mcfg) (line : list tok) : list tok :=
  match line with
  | [] => bad
  | op :: args =>
      match dispatch_len c op args with
      | Some r => r
      | None => [S "MODEL-UNKNOWN-OP"]
      end
  end.

Definition dispatch_flags (fl : list N) (line : list tok) : list tok :=
  dispatch (cfg_of_flags fl) line.
