(* Model/Dispatch.v -- the model side of the correspondence protocol: one token list in,
   one token list out, mirroring harness/src/ops.rs line for line.  Evaluated both by the
   extracted OCaml driver and (on a sample) inside Coq by vm_compute. *)
From Coq Require Import String.
From TlshV Require Import Model.Machine Model.Tokens Gen.Tables Model.MLength Model.MHexStr Model.MHash
  Model.MPearson Model.MGenerate Model.MFloat Model.MFinalize Model.MCompare Model.MStream Model.MSerde Model.MAgg Gen.AggKernels Spec.SpecGenerate Spec.SpecDistance.
Open Scope string_scope.
Open Scope list_scope.
Open Scope N_scope.

(* model configuration: which cfg_if branches the harness build under comparison has *)
Record mcfg := {
  c_strict : bool;          (* feature strict-parser *)
  c_unsafe : bool;          (* feature unsafe *)
  c_dbg : bool;             (* debug assertions / overflow checks *)
  c_len : len_cfg;
  c_dec : hex_dec;
  c_enc : hex_enc;
  c_simd_parse : bool;
  c_simd_convert : bool;
  c_low_mem : bool;
  c_double : bool;
  c_len_table : bool;
  c_q : qcfg;
  c_body : N;
  c_sretry : bool;         (* read loop retries on ErrorKind::Interrupted *)
  c_sinv : bool;           (* invariant!(len <= buffer.len()) present in the read loop *)
  c_serde_unwrap : bool;   (* serde bytes visitor does try_from(v).unwrap() (code before the C16 fix) *)
}.

Definition ccfg_of (c : mcfg) : ccfg :=
  {| cc_len_table := c_len_table c; cc_q := c_q c; cc_body := c_body c; cc_dbg := c_dbg c |}.

Definition gcfg_of (c : mcfg) : gcfg :=
  {| gc_low_mem := c_low_mem c; gc_double := c_double c; gc_unsafe := c_unsafe c; gc_dbg := c_dbg c |}.

Definition hcfg_of (c : mcfg) : hcfg :=
  {| hc_strict := c_strict c; hc_dec := c_dec c; hc_enc := c_enc c;
     hc_simd_parse := c_simd_parse c; hc_simd_convert := c_simd_convert c;
     hc_unsafe := c_unsafe c; hc_dbg := c_dbg c |}.

Definition default_cfg : mcfg :=
  {| c_strict := false; c_unsafe := false; c_dbg := true; c_len := LenClz;
     c_dec := DecFull; c_enc := EncFull; c_simd_parse := true; c_simd_convert := true;
     c_low_mem := false; c_double := true; c_len_table := true; c_q := QTableDouble; c_body := 4;
     c_sretry := true; c_sinv := false; c_serde_unwrap := false |}.

Definition cfg_of_flags (fl : list N) : mcfg :=
  let has k := existsb (N.eqb k) fl in
  {| c_strict := has 1; c_unsafe := has 2; c_dbg := negb (has 3);
     c_len := if has 4 then LenWhole else LenClz;
     c_dec := if has 12 then DecMin else if has 11 then DecQuarter else if has 10 then DecHalf else DecFull;
     c_enc := if has 14 then EncMin else if has 13 then EncHalf else EncFull;
     c_simd_parse := has 15; c_simd_convert := has 16; c_low_mem := has 17; c_double := has 18;
     c_len_table := has 19; c_q := if has 21 then QTableDouble else if has 20 then QTable else QNaive;
     c_body := if has 34 then 4 else if has 33 then 3 else if has 32 then 2 else if has 31 then 1 else 0;
     c_sretry := negb (has 50); c_sinv := has 51; c_serde_unwrap := has 52 |}.

Definition show_perr (e : parse_error) : tok :=
  match e with
  | LengthIsTooLarge => S "LengthIsTooLarge"
  | InvalidPrefix => S "InvalidPrefix"
  | InvalidCharacter => S "InvalidCharacter"
  | InvalidStringLength => S "InvalidStringLength"
  | InvalidChecksum => S "InvalidChecksum"
  end.

Definition show_validity (v : validity) : tok :=
  match v with
  | TooSmall => S "TooSmall" | ValidWhenOptimistic => S "ValidWhenOptimistic"
  | Valid => S "Valid" | TooLarge => S "TooLarge"
  end.

Definition out_or {E A} (x : outcome E A) (f : A -> list tok) (g : E -> list tok) : list tok :=
  match x with
  | Ok a => f a
  | Err e => g e
  | Panic => [S "PANIC"]
  | UB => [S "UB"]
  end.

Definition bk_of_variant (v : tok) : option buckets_kind :=
  if is_sym v "S" then Some B48
  else if is_sym v "N" || is_sym v "NL" then Some B128
  else if is_sym v "L" || is_sym v "LL" then Some B256
  else None.

Definition dispatch_len (c : mcfg) (op : tok) (args : list tok) : option (list tok) :=
  if is_sym op "len_new" then
    match args with
    | [TN n] => Some (out_or (encode_new (c_len c) (c_unsafe c) (c_dbg c) n)
                  (fun o => match o with Some v => [S "some"; TN v] | None => [S "none"] end)
                  (fun _ => bad))
    | _ => Some bad
    end
  else if is_sym op "len_tryfrom" then
    match args with
    | [TN n] => Some (out_or (try_from_u32 (c_len c) (c_unsafe c) (c_dbg c) n)
                  (fun v => [S "ok"; TN v]) (fun e => [S "err"; show_perr e]))
    | _ => Some bad
    end
  else if is_sym op "len_code" then
    match args with
    | [TN v] =>
        if c_strict c && negb (is_valid v) then Some [S "err"; show_perr LengthIsTooLarge]
        else Some (out_or (range v)
               (fun r => [S "valid"; b01 (is_valid v); S "range"] ++
                         match r with Some (lo, hi) => [S "some"; TN lo; TN hi] | None => [S "none"] end)
               (fun _ => bad))
    | _ => Some bad
    end
  else if is_sym op "validity" then
    match args with
    | [v; TN n] =>
        match bk_of_variant v with
        | Some bk => let x := validity_new bk n in
            Some [show_validity x; b01 (validity_is_err x);
                  b01 (validity_is_err_on x Optimistic); b01 (validity_is_err_on x Conservative)]
        | None => Some bad
        end
    | _ => Some bad
    end
  else if is_sym op "limits" then
    match args with
    | [v] => match bk_of_variant v with
             | Some bk => Some [TN (len_min bk); TN (len_min_conservative bk); TN len_max]
             | None => Some bad
             end
    | _ => Some bad
    end
  else if is_sym op "len_rle_expected" then
    (* the run-length encoding of new(len) over 0..2^32 implied by range(): one run per code *)
    Some (flat_map (fun c => match range c with
                             | Ok (Some (lo, _)) => [S "run"; TN lo; TN c; S ";"]
                             | _ => [S "BAD"]
                             end)
            (map N.of_nat (seq 0 (N.to_nat encoded_value_size)))
          ++ [S "run"; TN (len_max + 1); S "none"; S ";"])
  else None.

Definition variant_of (t : tok) : option variant :=
  if is_sym t "S" then Some V_Short
  else if is_sym t "N" then Some V_Normal
  else if is_sym t "NL" then Some V_NormalLong
  else if is_sym t "L" then Some V_Long
  else if is_sym t "LL" then Some V_LongLong
  else None.

Definition prefix_mode_of (t : tok) : option (option prefix) :=
  if is_sym t "auto" then Some None
  else if is_sym t "empty" then Some (Some PEmpty)
  else if is_sym t "with" then Some (Some PWithVersion)
  else None.

Definition show_hash_res (r : outcome parse_error hash) : list tok :=
  out_or r (fun h => [S "ok"; TB (hash_bytes h)]) (fun e => [S "err"; show_perr e]).

(* operations that first build a hash from its binary form through TryFrom<&[u8]> *)
Definition with_hash (c : mcfg) (v : variant) (bin : list N) (k : hash -> list tok) : list tok :=
  out_or (from_slice (hcfg_of c) v bin) k (fun e => [S "hasherr"; show_perr e]).

Definition show_store (r : outcome op_error N * list N) : list tok :=
  match r with
  | (Ok k, o) => [S "ok"; TN k; TB o]
  | (Err BufferIsTooSmall, o) => [S "err"; S "BufferIsTooSmall"; TB o]
  | (Panic, _) => [S "PANIC"]
  | (UB, _) => [S "UB"]
  end.

Definition all_quartiles (v : variant) (h : hash) : outcome unit (list N) :=
  fold_right (fun i acc => do q <- quartile v h i; do r <- acc; Ok (q :: r)) (Ok [])
    (map N.of_nat (seq 0 (N.to_nat (nb_of (v_bk v))))).

Definition dispatch_hash (c : mcfg) (op : tok) (args : list tok) : option (list tok) :=
  let hc := hcfg_of c in
  if is_sym op "parse" then
    match args with
    | [vt; mt; TB bytes] =>
        match variant_of vt, prefix_mode_of mt with
        | Some v, Some m => Some (show_hash_res (parse hc v bytes m))
        | _, _ => Some bad
        end
    | _ => Some bad
    end
  else if is_sym op "fromstrm" then
    (* from_str_with(&str, mode): the text parser on the string's bytes under the given prefix mode *)
    match args with
    | [vt; mt; TB bytes] =>
        match variant_of vt, prefix_mode_of mt with
        | Some v, Some m => Some (show_hash_res (parse hc v bytes m))
        | _, _ => Some bad
        end
    | _ => Some bad
    end
  else if is_sym op "fmto" then
    (* store_into_str_bytes into a buffer that starts `off` bytes into an aligned arena: the address does not matter *)
    match args with
    | [vt; TB bin; mt; TN _; TB buf] =>
        match variant_of vt, prefix_mode_of mt with
        | Some v, Some (Some p) => Some (with_hash c v bin (fun h => show_store (store_str hc v h p buf)))
        | _, _ => Some bad
        end
    | _ => Some bad
    end
  else if is_sym op "fromstr" then
    match args with
    | [vt; TB bytes] =>
        match variant_of vt with
        | Some v => Some (show_hash_res (parse hc v bytes None))
        | _ => Some bad
        end
    | _ => Some bad
    end
  else if is_sym op "frombytes" then
    match args with
    | [vt; TB bytes] =>
        match variant_of vt with
        | Some v => Some (show_hash_res (from_slice hc v bytes))
        | _ => Some bad
        end
    | _ => Some bad
    end
  else if is_sym op "fromarray" then
    match args with
    | [vt; TB bytes] =>
        match variant_of vt with
        | Some v => if lenN bytes =? size_in_bytes v then Some (show_hash_res (from_array hc v bytes)) else Some bad
        | _ => Some bad
        end
    | _ => Some bad
    end
  else if is_sym op "fmt" then
    match args with
    | [vt; TB bin; mt; TB buf] =>
        match variant_of vt, prefix_mode_of mt with
        | Some v, Some (Some p) => Some (with_hash c v bin (fun h => show_store (store_str hc v h p buf)))
        | _, _ => Some bad
        end
    | _ => Some bad
    end
  else if is_sym op "storebytes" then
    match args with
    | [vt; TB bin; TB buf] =>
        match variant_of vt with
        | Some v => Some (with_hash c v bin (fun h => show_store (store_bytes v h buf)))
        | _ => Some bad
        end
    | _ => Some bad
    end
  else if is_sym op "display" then
    match args with
    | [vt; TB bin] =>
        match variant_of vt with
        | Some v => Some (with_hash c v bin (fun h => out_or (display hc v h) (fun s => [TB s]) (fun _ => bad)))
        | _ => Some bad
        end
    | _ => Some bad
    end
  else if is_sym op "debugf" then
    (* Debug ({:?} and {:#?}) of the hash, of its parts and of a Result holding it: returns normally (the text is not modelled) *)
    match args with
    | [vt; TB bin] =>
        match variant_of vt with
        | Some v => Some (with_hash c v bin (fun _ => [S "ok"]))
        | _ => Some bad
        end
    | _ => Some bad
    end
  else if is_sym op "displayf" then
    (* Display under formatter flags ({:>80}, {:.10}, {:^150}, {:*<5}, {:08}): the implementation writes the text with
       write_str, which ignores width, fill, alignment and precision -- five times the same text *)
    match args with
    | [vt; TB bin] =>
        match variant_of vt with
        | Some v => Some (with_hash c v bin (fun h => out_or (display hc v h) (fun s => [TB s; TB s; TB s; TB s; TB s]) (fun _ => bad)))
        | _ => Some bad
        end
    | _ => Some bad
    end
  else if is_sym op "valid" then
    match args with
    | [vt; TB bin] =>
        match variant_of vt with
        | Some v => Some (with_hash c v bin (fun h =>
                      [TN (if checksum_is_valid v (h_cks h) then 1 else 0); TN (if is_valid (h_len h) then 1 else 0)]))
        | _ => Some bad
        end
    | _ => Some bad
    end
  else if is_sym op "consts" then
    match args with
    | [vt] =>
        match variant_of vt with
        | Some v => Some [TN (nb_of (v_bk v)); TN (size_in_bytes v); TN (len_in_str_except_prefix v);
                          TN (len_in_str v); TN (v_cks v); TN (size_body v); TN (nb_of (v_bk v))]
        | _ => Some bad
        end
    | _ => Some bad
    end
  else if is_sym op "parts" then
    match args with
    | [vt; TB bin] =>
        match variant_of vt with
        | Some v => Some (with_hash c v bin (fun h =>
            out_or (all_quartiles v h)
              (fun qs => [TB (h_cks h); TN (h_len h); TN (h_q h); TN (q1ratio h); TN (q2ratio h);
                          TB (h_body h); TB qs; b01 (checksum_is_valid v (h_cks h)); b01 (is_valid (h_len h))])
              (fun _ => bad)))
        | _ => Some bad
        end
    | _ => Some bad
    end
  else if is_sym op "quartile" then
    match args with
    | [vt; TB bin; TN i] =>
        match variant_of vt with
        | Some v => Some (with_hash c v bin (fun h => out_or (@quartile unit v h i) (fun q => [TN q]) (fun _ => bad)))
        | _ => Some bad
        end
    | _ => Some bad
    end
  else if is_sym op "clearcks" then
    match args with
    | [vt; TB bin] =>
        match variant_of vt with
        | Some v => Some (with_hash c v bin (fun h => [TB (hash_bytes (clear_checksum h))]))
        | _ => Some bad
        end
    | _ => Some bad
    end
  else None.

(* ---- generator ---- *)

Definition options_of (bits : N) : options :=
  {| o_mode := if N.testbit bits 0 then Conservative else Optimistic;
     o_pure_int := N.testbit bits 1; o_small := N.testbit bits 2;
     o_half := N.testbit bits 3; o_quarter := N.testbit bits 4 |}.

Definition show_gerr (e : gen_error) : tok :=
  match e with
  | TooLargeInput => S "TooLargeInput" | TooSmallInput => S "TooSmallInput"
  | BucketsAreHalfEmpty => S "BucketsAreHalfEmpty"
  | BucketsAreThreeQuarterEmpty => S "BucketsAreThreeQuarterEmpty"
  end.

Definition show_gen_res (r : outcome gen_error hash) : list tok :=
  out_or r (fun h => [S "ok"; TB (hash_bytes h)]) (fun e => [S "err"; show_gerr e]).

Definition le32 (x : N) : list N :=
  [x mod 256; (x / 256) mod 256; (x / 65536) mod 256; (x / 16777216) mod 256].
Fixpoint un_le32 (l : list N) : list N :=
  match l with
  | a :: b :: c :: d :: r => (a + 256 * b + 65536 * c + 16777216 * d) :: un_le32 r
  | _ => []
  end.

(* the byte generator shared with the harness (ops.rs lcg_next) *)
Fixpoint lcg_bytes (n : nat) (st : N) : list N :=
  match n with
  | O => []
  | Datatypes.S n' => let st' := wrap32 (st * 1664525 + 1013904223) in (st' / 16777216) :: lcg_bytes n' st'
  end.

Definition sep : tok := S "|".

(* history interpreter: a stack of generators; errors of the machine itself are reported as a token *)
Fixpoint run_hist (gc : gcfg) (v : variant) (fuel : nat) (ops : list tok) (stack : list gstate) (acc : list (list tok))
  : list (list tok) :=
  match fuel with
  | O => acc ++ [[S "MODEL-OUT-OF-FUEL"]]
  | Datatypes.S fuel' =>
    match ops, stack with
    | [], _ => acc
    | _, [] => acc ++ [[S "MODEL-EMPTY-STACK"]]
    | op :: rest, top :: below =>
        if is_sym op "u" then
          match rest with
          | TB d :: rest' =>
              match @update unit gc v top d with
              | Ok s' => run_hist gc v fuel' rest' (s' :: below) acc
              | Panic => acc ++ [[S "PANIC"]]
              | UB => acc ++ [[S "UB"]]
              | Err _ => acc ++ [bad]
              end
          | _ => acc ++ [bad]
          end
        else if is_sym op "ugen" then
          match rest with
          | TN seed :: TN n :: rest' =>
              match @update unit gc v top (lcg_bytes (N.to_nat n) seed) with
              | Ok s' => run_hist gc v fuel' rest' (s' :: below) acc
              | Panic => acc ++ [[S "PANIC"]]
              | UB => acc ++ [[S "UB"]]
              | Err _ => acc ++ [bad]
              end
          | _ => acc ++ [bad]
          end
        else if is_sym op "urun" then
          (* n bytes alternating b1, b2, as ONE slice (piece = 0) -- chunked feeding is decided on the implementation alone *)
          match rest with
          | TN b1 :: TN b2 :: TN n :: TN _ :: rest' =>
              if 200000 <? n then acc ++ [[S "MODEL-SLICE-TOO-LARGE-TO-EVALUATE"]]
              else
              match @update unit gc v top (map (fun j => if N.even j then b1 else b2) (map N.of_nat (seq 0 (N.to_nat n)))) with
              | Ok s' => run_hist gc v fuel' rest' (s' :: below) acc
              | Panic => acc ++ [[S "PANIC"]]
              | UB => acc ++ [[S "UB"]]
              | Err _ => acc ++ [bad]
              end
          | _ => acc ++ [bad]
          end
        else if is_sym op "uzero" then
          match rest with
          | TN n :: rest' =>
              if 1000000 <? n then acc ++ [[S "MODEL-SLICE-TOO-LARGE-TO-EVALUATE"]]
              else
              match @update unit gc v top (repeat 0 (N.to_nat n)) with
              | Ok s' => run_hist gc v fuel' rest' (s' :: below) acc
              | Panic => acc ++ [[S "PANIC"]]
              | UB => acc ++ [[S "UB"]]
              | Err _ => acc ++ [bad]
              end
          | _ => acc ++ [bad]
          end
        else if is_sym op "f" then
          match rest with
          | TN bits :: rest' =>
              run_hist gc v fuel' rest' stack (acc ++ [show_gen_res (finalize_exec gc v (options_of bits) top)])
          | _ => acc ++ [bad]
          end
        else if is_sym op "fo" then
          (* one options object configured as <a>, then re-configured as <b>: the setters overwrite, so this is `f b`, and the object
             equals a fresh one configured as <b> *)
          match rest with
          | TN _ :: TN bits :: rest' =>
              run_hist gc v fuel' rest' stack (acc ++ [show_gen_res (finalize_exec gc v (options_of bits) top) ++ [TN 1]])
          | _ => acc ++ [bad]
          end
        else if is_sym op "fd" then
          run_hist gc v fuel' rest stack (acc ++ [show_gen_res (finalize_exec gc v (options_of 2) top)])
        else if is_sym op "l" then
          run_hist gc v fuel' rest stack
            (acc ++ [match processed_len top with Some x => [S "some"; TN x] | None => [S "none"] end])
        else if is_sym op "r" then
          run_hist gc v fuel' rest stack
            (acc ++ [[S "raw"; TB (flat_map le32 (firstn (N.to_nat (nb_of (v_bk v))) (g_buckets top)));
                      TN (g_len top); TB (g_cks top); TB (g_tail top); TN (g_tail_len top)]])
        else if is_sym op "c" then run_hist gc v fuel' rest (top :: top :: below) acc
        else if is_sym op "cf" then
          (* Clone::clone_from: the top generator becomes, in place, a copy of the one below it *)
          run_hist gc v fuel' rest (match below with b :: _ => b :: below | [] => stack end) acc
        else if is_sym op "cn" then
          (* clone_from(&Generator::new()): reset in place *)
          run_hist gc v fuel' rest (g_init gc v :: below) acc
        else if is_sym op "p" then
          run_hist gc v fuel' rest (match below with [] => stack | _ => below end) acc
        else if is_sym op "w" then
          run_hist gc v fuel' rest (match below with b :: bb => b :: top :: bb | [] => stack end) acc
        else acc ++ [bad]
    end
  end.

Fixpoint join_sep (l : list (list tok)) : list tok :=
  match l with
  | [] => []
  | [x] => x
  | x :: r => x ++ [sep] ++ join_sep r
  end.

Definition pad_to (n : nat) (l : list N) : list N := l ++ repeat 0 (n - length l).

Definition dispatch_gen (c : mcfg) (op : tok) (args : list tok) : option (list tok) :=
  let gc := gcfg_of c in
  if is_sym op "hash" then
    match args with
    | [vt; TN bits; TB data] =>
        match variant_of vt with
        | Some v =>
            match @update unit gc v (g_init gc v) data with
            | Ok s => Some (show_gen_res (finalize_exec gc v (options_of bits) s))
            | _ => Some [S "PANIC"]
            end
        | None => Some bad
        end
    | _ => Some bad
    end
  else if is_sym op "spec_hash" then
    (* the reference itself (Spec/SpecGenerate.v), used as the oracle of the failing-input search *)
    match args with
    | [vt; TN bits; TB data] =>
        match variant_of vt with
        | Some v => Some (match spec_tlsh v (options_of bits) data with
                          | inl h => [S "ok"; TB (hash_bytes h)]
                          | inr e => [S "err"; show_gerr e]
                          end)
        | None => Some bad
        end
    | _ => Some bad
    end
  else if is_sym op "spec_len" then
    (* the reference's own length code (Spec/SpecLength.v over the golden table), used as the oracle of the failing-input search *)
    match args with
    | [TN n] => Some (match spec_len_code n with Some c => [S "some"; TN c] | None => [S "none"] end)
    | _ => Some bad
    end
  else if is_sym op "hashbuf" then
    match args with
    | [vt; TB data] =>
        match variant_of vt with
        | Some v =>
            match @update unit gc v (g_init gc v) data with
            | Ok s => Some (show_gen_res (finalize_exec gc v (options_of 0) s))
            | _ => Some [S "PANIC"]
            end
        | None => Some bad
        end
    | _ => Some bad
    end
  else if is_sym op "hist" then
    match args with
    | vt :: rest =>
        match variant_of vt with
        | Some v =>
            match rest with
            | inj :: TB bks :: TN len :: TB cks :: TB tail :: TN tl :: ops =>
                if is_sym inj "inject" then
                  let phys := N.to_nat (phys_buckets gc (v_bk v)) in
                  let s0 := {| g_buckets := firstn phys (pad_to 256 (un_le32 bks)); g_len := len;
                               g_cks := firstn (N.to_nat (v_cks v)) cks; g_tail := tail; g_tail_len := tl |} in
                  Some (join_sep (run_hist gc v (Datatypes.S (length ops)) ops [s0] []))
                else Some (join_sep (run_hist gc v (Datatypes.S (length rest)) rest [g_init gc v] []))
            | _ => Some (join_sep (run_hist gc v (Datatypes.S (length rest)) rest [g_init gc v] []))
            end
        | None => Some bad
        end
    | _ => Some bad
    end
  else if is_sym op "bmap" then
    match args with
    | [TN kind; TN a0; TN a1; TN a2; TN a3] =>
        if kind =? 48 then Some [TN (b_mapping_48 (gc_double gc) a0 a1 a2 a3)]
        else Some [TN (b_mapping_256 (gc_double gc) a0 a1 a2 a3)]
    | _ => Some bad
    end
  else if is_sym op "pearson" then
    match args with
    | [TN st; TN b1; TN b2] =>
        Some [TN (p_update st b1); TN (p_update_double (gc_double gc) st b1 b2); TN (p_final_48 st b1)]
    | _ => Some bad
    end
  else if is_sym op "agg" then
    match args with
    | [TN size; be; TN q1; TN q2; TN q3; TB bks] =>
        let show (r : outcome unit (list N)) := out_or r (fun b => [TB b]) (fun _ => bad) in
        (* "dispatch": whatever backend the build selects -- all are proved equal to the naive one for ordered quartiles *)
        if is_sym be "naive" || is_sym be "dispatch" then
          Some (show (aggregate_naive (c_dbg c) (size / 4) (un_le32 bks) q1 q2 q3))
        else if is_sym be "sse2" then
          Some (show (aggregate_x4 agg_sse2_prog agg_sse2_results 0 false (size / 4) (un_le32 bks) q1 q2 q3))
        else if is_sym be "ssse3" then
          Some (show (aggregate_x4 agg_ssse3_prog agg_ssse3_results 0 false (size / 4) (un_le32 bks) q1 q2 q3))
        else if is_sym be "avx2" then
          Some (show (aggregate_x8 agg_avx2_prog agg_avx2_results false (size / 4) (un_le32 bks) q1 q2 q3))
        else None
    | _ => Some bad
    end
  else None.

(* ---- comparison ---- *)

Definition cmp_mode_of (t : tok) : option cmp_mode :=
  if is_sym t "default" then Some CmpDefault else if is_sym t "nolength" then Some CmpNoLength else None.

Definition backend_of (c : mcfg) (t : tok) : option N :=
  if is_sym t "dispatch" then Some (c_body c)
  else if is_sym t "pseudo32" then Some 0 else if is_sym t "pseudo64" then Some 1
  else if is_sym t "sse2" then Some 2 else if is_sym t "sse41" then Some 3 else if is_sym t "avx2" then Some 4
  else None.

Definition dispatch_cmp (c : mcfg) (op : tok) (args : list tok) : option (list tok) :=
  let cc := ccfg_of c in
  let num (r : outcome unit N) := out_or r (fun d => [TN d]) (fun _ => bad) in
  if is_sym op "cmp" then
    match args with
    | [vt; TB a; TB b; mt] =>
        match variant_of vt, cmp_mode_of mt with
        | Some v, Some m =>
            Some (with_hash c v a (fun ha => with_hash c v b (fun hb => num (compare cc ha hb m))))
        | _, _ => Some bad
        end
    | _ => Some bad
    end
  else if is_sym op "spec_cmp" then
    match args with
    | [vt; TB a; TB b; mt] =>
        match variant_of vt, cmp_mode_of mt with
        | Some v, Some m =>
            Some (with_hash c v a (fun ha => with_hash c v b (fun hb => [TN (spec_distance ha hb m)])))
        | _, _ => Some bad
        end
    | _ => Some bad
    end
  else if is_sym op "laws" then
    match args with
    | [vt; TB a; TB b] =>
        match variant_of vt with
        | Some v =>
            Some (with_hash c v a (fun ha => with_hash c v b (fun hb =>
              let ca := clear_checksum ha in let cb := clear_checksum hb in
              match @compare unit cc ha hb CmpDefault, @compare unit cc hb ha CmpDefault, @compare unit cc ha hb CmpNoLength,
                    @compare unit cc hb ha CmpNoLength, @compare unit cc ha ha CmpDefault, @compare unit cc hb hb CmpNoLength,
                    @dist_length unit cc (h_len ha) (h_len hb), @compare unit cc ca cb CmpDefault, @compare unit cc ca cb CmpNoLength with
              | Ok d1, Ok d2, Ok d3, Ok d4, Ok d5, Ok d6, Ok d7, Ok d8, Ok d9 =>
                  [TN d1; TN d2; TN d3; TN d4; TN d5; TN d6; TN d7; TN d8; TN d9;
                   TN (lenN (filter (fun p => negb (fst p =? snd p)) (combine (h_cks ha) (h_cks hb))));
                   TN (max_distance v CmpDefault); TN (max_distance v CmpNoLength);
                   TN (if list_eqb (hash_bytes ha) (hash_bytes hb) then 1 else 0); TN d1]
              | _, _, _, _, _, _, _, _, _ => bad
              end)))
        | None => Some bad
        end
    | _ => Some bad
    end
  else if is_sym op "traits" then
    (* derived trait behaviour of two hash values and of their parts: ==, !=, Clone, clone_from, Copy, Debug stability; == of the
       checksum / length / Q-ratio / body parts *)
    match args with
    | [vt; TB a; TB b] =>
        match variant_of vt with
        | Some v =>
            Some (with_hash c v a (fun ha => with_hash c v b (fun hb =>
              let e := list_eqb (hash_bytes ha) (hash_bytes hb) in
              [b01 e; b01 (negb e); TN 1; TN 1; TN 1; TN 1;
               b01 (list_eqb (h_cks ha) (h_cks hb)); b01 (h_len ha =? h_len hb); b01 (h_q ha =? h_q hb);
               b01 (list_eqb (h_body ha) (h_body hb)); TB (hash_bytes ha); TB (hash_bytes hb)])))
        | None => Some bad
        end
    | _ => Some bad
    end
  else if is_sym op "race" then
    match args with
    | [vt; TN k; TB a; TB b; TB data] =>
        match variant_of vt with
        | Some v =>
            Some (with_hash c v a (fun ha => with_hash c v b (fun hb =>
              match @compare unit cc ha hb CmpDefault, @update unit (gcfg_of c) v (g_init (gcfg_of c) v) data with
              | Ok d, Ok s => TN d :: show_gen_res (finalize_exec (gcfg_of c) v (options_of 0) s)
              | _, _ => [S "PANIC"]
              end)))
        | None => Some bad
        end
    | _ => Some bad
    end
  else if is_sym op "maxdist" then
    match args with
    | [vt; mt] =>
        match variant_of vt, cmp_mode_of mt with
        | Some v, Some m => Some [TN (max_distance v m)]
        | _, _ => Some bad
        end
    | _ => Some bad
    end
  else if is_sym op "partmax" then
    match args with
    | [vt] =>
        match variant_of vt with
        | Some v => Some [TN (body_max (v_bk v)); TN (v_cks v); TN qratios_max_distance; TN length_max_distance]
        | None => Some bad
        end
    | _ => Some bad
    end
  else if is_sym op "dbody" then
    match args with
    | [TN size; be; TB a; TB b] =>
        match backend_of c be with
        | Some k =>
            (* 12-byte bodies only have the scalar implementations *)
            if (size =? 12) && (1 <? k) && negb (is_sym be "dispatch") then Some [S "na"]
            else Some [TN (dist_body {| cc_len_table := true; cc_q := QNaive; cc_body := k; cc_dbg := c_dbg c |} a b)]
        | None => Some bad
        end
    | _ => Some bad
    end
  else if is_sym op "dlen" then
    match args with
    | [TN a; TN b] => Some (num (dist_length cc a b))
    | _ => Some bad
    end
  else if is_sym op "dq" then
    match args with
    | [TN a; TN b] => Some (num (dist_q cc a b))
    | _ => Some bad
    end
  else if is_sym op "dck1" then
    match args with
    | [TN a; TN b] => Some [TN (dist_cks [a] [b])]
    | _ => Some bad
    end
  else if is_sym op "dck3" then
    match args with
    | [TB a; TB b] => Some [TN (dist_cks a b)]
    | _ => Some bad
    end
  else if is_sym op "ring" then
    match args with
    | [TN x; TN y; TN n] => Some (num (ring_mod (c_dbg c) x y n))
    | _ => Some bad
    end
  else None.

(* ---- stream / file helpers and string comparison (easy functions) ---- *)

Definition io_kinds : list (list N) :=
  map sym ["Interrupted"; "NotFound"; "PermissionDenied"; "UnexpectedEof"; "TimedOut"; "WouldBlock"; "BrokenPipe";
           "InvalidData"; "Other"].

Fixpoint kind_index (l : list (list N)) (k : list N) (i : N) : option N :=
  match l with
  | [] => None
  | x :: r => if list_eqb x k then Some i else kind_index r k (i + 1)
  end.
Definition show_kind (k : N) : tok := TS (nth (N.to_nat k) io_kinds (sym "Unknown")).

(* harness::lcg_next *)
Definition lcg_step (st : N) : N := (st * 1664525 + 1013904223) mod 4294967296.
Definition lcg_run (st n : N) : N * list N :=
  let r := N.iter n (fun p => let st' := lcg_step (fst p) in (st', (st' / 16777216) :: snd p)) (st, []) in
  (fst r, rev_append (snd r) []).

(* the harness's ScriptReader: what its successive read(&mut [u8; buflen]) calls return *)
Fixpoint split_chunks (fuel : nat) (buflen : N) (d : list N) : list rres :=
  match fuel with
  | O => []
  | Datatypes.S f =>
      if lenN d =? 0 then []
      else if lenN d <=? buflen then [RData d]
      else RData (takeN buflen d) :: split_chunks f buflen (dropN buflen d)
  end.

Fixpoint gen_chunks (fuel : nat) (buflen st remaining k : N) : list rres :=
  match fuel with
  | O => []
  | Datatypes.S f =>
      if remaining =? 0 then []
      else
        let m := N.min (N.min remaining k) buflen in
        if m =? 0 then [RData []]   (* k = 0: the reader returns Ok(0) *)
        else let r := lcg_run st m in RData (snd r) :: gen_chunks f buflen (fst r) (remaining - m) k
  end.

Fixpoint trace_of_script (fuel : nat) (buflen : N) (t : list tok) : option (list rres) :=
  match fuel with
  | O => None
  | Datatypes.S f =>
      match t with
      | [] => Some []
      | op :: rest =>
          if is_sym op "d" then
            match rest with
            | TB d :: r => option_map (app (split_chunks (Datatypes.S (length d)) buflen d)) (trace_of_script f buflen r)
            | _ => None
            end
          else if is_sym op "gen" then
            match rest with
            | TN st :: TN n :: TN k :: r =>
                option_map (app (gen_chunks (Datatypes.S (N.to_nat (if k =? 0 then 1 else n / (N.min k buflen) + 1))) buflen st n k))
                           (trace_of_script f buflen r)
            | _ => None
            end
          else if is_sym op "i" then option_map (cons RInterrupted) (trace_of_script f buflen rest)
          else if is_sym op "e" || is_sym op "eg" then
            (* eg: the same hard error, carrying a GeneratorError value as its payload -- still the reader's I/O error *)
            match rest with
            | TS k :: r => match kind_index io_kinds k 0 with
                           | Some i => option_map (cons (RHard i)) (trace_of_script f buflen r)
                           | None => None
                           end
            | _ => None
            end
          else if is_sym op "lie" then
            match rest with
            | TN k :: r => option_map (cons (RLie k)) (trace_of_script f buflen r)
            | _ => None
            end
          else None
      end
  end.

Definition show_stream_res (r : outcome stream_error hash) : list tok :=
  out_or r (fun h => [S "ok"; TB (hash_bytes h)])
         (fun e => match e with SGen g => [S "generr"; show_gerr g] | SIO k => [S "ioerr"; show_kind k] end).

Definition show_side (s : side) : tok := match s with SLeft => S "Left" | SRight => S "Right" end.

Definition dispatch_easy (c : mcfg) (op : tok) (args : list tok) : option (list tok) :=
  let gc := gcfg_of c in
  let sc := {| sc_retry := c_sretry c; sc_invariant := c_sinv c |} in
  if is_sym op "stream" then
    match args with
    | vt :: script =>
        match variant_of vt, trace_of_script (Datatypes.S (length script)) stream_buffer_size script with
        | Some v, Some tr => Some (show_stream_res (hash_stream sc gc v tr))
        | _, _ => Some bad
        end
    | _ => Some bad
    end
  else if is_sym op "file" then
    match args with
    | [vt; TN size; TN seed] =>
        match variant_of vt with
        | Some v =>
            let d := snd (lcg_run seed size) in
            let tr := split_chunks (Datatypes.S (N.to_nat (size / stream_buffer_size + 1))) stream_buffer_size d in
            Some (show_stream_res (hash_file sc gc v (inr tr)) ++ [S "=="] ++
                  show_stream_res (lift_gen (hash_buf gc v d)))
        | None => Some bad
        end
    | _ => Some bad
    end
  else if is_sym op "nofile" then
    match args with
    | [vt] =>
        match variant_of vt with
        | Some v => Some (show_stream_res (hash_file sc gc v (inl 1)))
        | None => Some bad
        end
    | _ => Some bad
    end
  else if is_sym op "cmpstr" then
    match args with
    | [vt; TB l; TB r] =>
        match variant_of vt with
        | Some v => Some (out_or (compare_with (hcfg_of c) (ccfg_of c) v l r) (fun d => [S "ok"; TN d])
                                 (fun e => [S "err"; show_side (fst e); show_perr (snd e)]))
        | None => Some bad
        end
    | _ => Some bad
    end
  else if is_sym op "cmpstr_default" then
    match args with
    | [TB l; TB r] => Some (out_or (compare_with (hcfg_of c) (ccfg_of c) V_Normal l r) (fun d => [S "ok"; TN d])
                                   (fun e => [S "err"; show_side (fst e); show_perr (snd e)]))
    | _ => Some bad
    end
  else None.

(* ---- serde (mock serializer / deserializer events) ---- *)
Definition sval_of (kind : tok) (payload : list N) : option sval :=
  if is_sym kind "str" || is_sym kind "string" || is_sym kind "char" || is_sym kind "bstr" then Some (VStr payload)
  else if is_sym kind "bytes" || is_sym kind "bytebuf" || is_sym kind "bbytes" then Some (VBytes payload)
  else if is_sym kind "seq" || is_sym kind "newtype" || is_sym kind "some" then Some (VOther 0)
  else if is_sym kind "u8" || is_sym kind "u64" || is_sym kind "i64" || is_sym kind "f64" || is_sym kind "bool"
          || is_sym kind "unit" || is_sym kind "none" then Some (VOther 0)
  else None.

Definition dispatch_serde (c : mcfg) (op : tok) (args : list tok) : option (list tok) :=
  let hc := hcfg_of c in
  if is_sym op "serde_mock_de" then
    match args with
    | [vt; TN hr; kind; TB payload] =>
        match variant_of vt, sval_of kind payload with
        | Some v, Some ev =>
            Some (out_or (de (c_serde_unwrap c) hc v (negb (hr =? 0)) ev) (fun h => [S "ok"; TB (hash_bytes h)])
                    (fun e => match e with
                              | DeCustom pe => [S "err"; S "custom"; show_perr pe]
                              | DeInvalidLength k => [S "err"; S "invalid_length"; TN k]
                              | DeInvalidType => [S "err"; S "invalid_type"]
                              end))
        | _, _ => Some bad
        end
    | _ => Some bad
    end
  else if is_sym op "serde_mock_ser" then
    match args with
    | [vt; TN hr; TB bin] =>
        match variant_of vt with
        | Some v => Some (with_hash c v bin (fun h =>
                      out_or (ser hc v (negb (hr =? 0)) h)
                             (fun ev => match ev with
                                        | VStr t => [S "str"; TB t] | VBytes t => [S "bytes"; TB t] | VOther _ => bad
                                        end)
                             (fun _ => bad)))
        | None => Some bad
        end
    | _ => Some bad
    end
  else None.

Definition dispatch (c : mcfg) (line : list tok) : list tok :=
  match line with
  | [] => bad
  | op :: args =>
      match dispatch_len c op args with
      | Some r => r
      | None =>
      match dispatch_hash c op args with
      | Some r => r
      | None =>
      match dispatch_gen c op args with
      | Some r => r
      | None =>
      match dispatch_cmp c op args with
      | Some r => r
      | None =>
      match dispatch_easy c op args with
      | Some r => r
      | None =>
      match dispatch_serde c op args with
      | Some r => r
      | None => [S "MODEL-UNKNOWN-OP"]
      end end end end end end
  end.

(* `na <op ..>` (C18): the number of heap allocations inside the library calls of <op ..>, then its
   output.  The model has no heap: for the core operations the specified count is 0 in every
   configuration; what the model contributes is the expected output of the wrapped operation, so
   that the counted calls are known to have run and returned the right values. *)
Definition dispatch_na (c : mcfg) (line : list tok) : list tok :=
  match line with
  | op :: rest => if is_sym op "na" then TN 0 :: sep :: dispatch c rest else dispatch c line
  | [] => dispatch c line
  end.

Definition dispatch_flags (fl : list N) (line : list tok) : list tok :=
  dispatch_na (cfg_of_flags fl) line.
