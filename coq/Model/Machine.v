(* Machine-level conventions shared by every model file.
   Bytes / words are [N] with explicit wrap; operations that can panic in Rust
   return [Panic]; a false [invariant!] under the `unsafe` feature returns [UB]. *)
From Coq Require Export NArith List Bool.
Export ListNotations.
Open Scope N_scope.

(* keep cbn/simpl from unfolding binary arithmetic on symbolic operands (lia then finds no witness) *)
Arguments N.add : simpl never.
Arguments N.sub : simpl never.
Arguments N.mul : simpl never.
Arguments N.div : simpl never.
Arguments N.modulo : simpl never.
Arguments N.eqb : simpl never.
Arguments N.ltb : simpl never.
Arguments N.leb : simpl never.
Arguments N.pow : simpl never.
Arguments N.shiftl : simpl never.
Arguments N.shiftr : simpl never.
Arguments N.land : simpl never.
Arguments N.lor : simpl never.
Arguments N.lxor : simpl never.

Inductive outcome (E A : Type) : Type :=
| Ok (a : A)
| Err (e : E)
| Panic
| UB.
Arguments Ok {E A} a.
Arguments Err {E A} e.
Arguments Panic {E A}.
Arguments UB {E A}.

Definition bind {E A B} (x : outcome E A) (f : A -> outcome E B) : outcome E B :=
  match x with
  | Ok a => f a
  | Err e => Err e
  | Panic => Panic
  | UB => UB
  end.

Notation "'do' x <- m ; k" := (bind m (fun x => k))
  (at level 200, x pattern, m at level 100, k at level 200, right associativity).

Definition map_out {E A B} (f : A -> B) (x : outcome E A) : outcome E B :=
  bind x (fun a => Ok (f a)).

(* Option -> outcome: [unwrap] panics on None. *)
Definition unwrap {E A} (o : option A) : outcome E A :=
  match o with Some a => Ok a | None => Panic end.

Definition is_ok {E A} (x : outcome E A) : bool :=
  match x with Ok _ => true | _ => false end.

Definition wrap8 (x : N) : N := x mod 256.
Definition wrap16 (x : N) : N := x mod 65536.
Definition wrap32 (x : N) : N := x mod 4294967296.
Definition wrap64 (x : N) : N := x mod 18446744073709551616.

Definition two32 : N := 4294967296.
Definition u32_max : N := 4294967295.

Definition lenN {A} (l : list A) : N := N.of_nat (length l).

(* Checked index: Rust's l[i]; None = out of bounds (the caller turns it into Panic). *)
Definition idx {A} (l : list A) (i : N) : option A :=
  if i <? lenN l then nth_error l (N.to_nat i) else None.

Definition index {E A} (l : list A) (i : N) : outcome E A := unwrap (idx l i).

(* Prefix / suffix with N counters. Only ever called with n <= length (guarded),
   so N.to_nat is applied to small numbers only. *)
Definition takeN {A} (n : N) (l : list A) : list A :=
  if lenN l <=? n then l else firstn (N.to_nat n) l.
Definition dropN {A} (n : N) (l : list A) : list A :=
  if lenN l <=? n then [] else skipn (N.to_nat n) l.

(* Rust's &l[a..b]: panics unless a <= b <= len. *)
Definition slice {E A} (l : list A) (a b : N) : outcome E (list A) :=
  if (a <=? b) && (b <=? lenN l) then Ok (takeN (b - a) (dropN a l)) else Panic.
Definition slice_from {E A} (l : list A) (a : N) : outcome E (list A) :=
  if a <=? lenN l then Ok (dropN a l) else Panic.
Definition slice_to {E A} (l : list A) (b : N) : outcome E (list A) :=
  if b <=? lenN l then Ok (takeN b l) else Panic.

(* Replace element i (no-op when out of range; callers check the index first). *)
Fixpoint set_nth {A} (l : list A) (i : nat) (v : A) : list A :=
  match l, i with
  | [], _ => []
  | _ :: r, O => v :: r
  | x :: r, S j => x :: set_nth r j v
  end.

Fixpoint list_eqb (a b : list N) : bool :=
  match a, b with
  | [], [] => true
  | x :: a', y :: b' => (x =? y) && list_eqb a' b'
  | _, _ => false
  end.

Definition byteb (x : N) : bool := x <? 256.
Definition bytesb (l : list N) : bool := forallb byteb l.

Definition invariant {E} (unsafe_feature : bool) (debug_assertions : bool) (cond : bool)
  : outcome E unit :=
  if cond then Ok tt
  else if unsafe_feature then UB
  else if debug_assertions then Panic
  else Ok tt.
