(* Model/MHash.v -- model of fast-tlsh/src/hash.rs, hash/body.rs, hash/checksum.rs, hash/qratios.rs
   (parsing, formatting, binary form, accessors; comparison lives in MCompare.v). *)
From TlshV Require Import Model.Machine Gen.Tables Model.MLength Model.MHexStr.

Definition nb_of (b : buckets_kind) : N :=
  match b with B48 => num_buckets_short | B128 => num_buckets_normal | B256 => num_buckets_long end.

Definition valid_variant (v : variant) : bool :=
  match v_bk v with
  | B48 => v_cks v =? checksum_size_normal
  | _ => (v_cks v =? checksum_size_normal) || (v_cks v =? checksum_size_long)
  end.

Definition size_body (v : variant) : N := nb_of (v_bk v) / 4.
Definition size_in_bytes (v : variant) : N := size_body v + 2 + v_cks v.
Definition len_in_str (v : variant) : N := size_in_bytes v * 2 + 2.
Definition len_in_str_except_prefix (v : variant) : N := len_in_str v - 2.

(* a value of the variant's type: array sizes and byte ranges *)
Definition wf_hash (v : variant) (h : hash) : bool :=
  (lenN (h_cks h) =? v_cks v) && (lenN (h_body h) =? size_body v)
  && bytesb (h_cks h) && bytesb (h_body h) && byteb (h_len h) && byteb (h_q h).

Record hcfg := {
  hc_strict : bool;
  hc_dec : hex_dec;
  hc_enc : hex_enc;
  hc_simd_parse : bool;
  hc_simd_convert : bool;
  hc_unsafe : bool;
  hc_dbg : bool;
}.

Definition checksum_is_valid (v : variant) (cks : list N) : bool :=
  if v_cks v =? checksum_size_normal then
    match v_bk v, cks with
    | B48, c :: _ => c <=? wrap8 num_buckets_short
    | _, _ => true
    end
  else true.

Definition char_T : N := 84.
Definition char_1 : N := 49.

(* FuzzyHashChecksumData::from_str_bytes *)
Definition checksum_from_str (c : hcfg) (v : variant) (bytes : list N) : outcome parse_error (list N) :=
  if negb (lenN bytes =? v_cks v * 2) then Err InvalidStringLength
  else
    do r <- decode_array (hc_dec c) false (v_cks v) bytes;
    match r with Some d => Ok d | None => Err InvalidCharacter end.

(* FuzzyHashLengthEncoding::from_str_bytes / FuzzyHashQRatios::from_str_bytes *)
Definition byte_from_str_rev (c : hcfg) (bytes : list N) : outcome parse_error N :=
  if negb (lenN bytes =? 2) then Err InvalidStringLength
  else
    do r <- decode_1 (hc_dec c) false bytes;
    match r with Some d => Ok d | None => Err InvalidCharacter end.

(* FuzzyHashBodyData::from_str_bytes *)
Definition body_from_str (c : hcfg) (v : variant) (bytes : list N) : outcome parse_error (list N) :=
  if negb (lenN bytes =? size_body v * 2) then Err InvalidStringLength
  else
    do r <- (if hc_simd_parse c then simd_decode (size_body v) bytes
             else decode_array (hc_dec c) true (size_body v) bytes);
    match r with Some d => Ok d | None => Err InvalidCharacter end.

(* FuzzyHashType::from_str_bytes, second half: the four fields, in source order
   (split out of [parse] only to give the proofs a handle; same control flow) *)
Definition parse_fields (c : hcfg) (v : variant) (bytes : list N) : outcome parse_error hash :=
  do cs <- slice bytes 0 (v_cks v * 2);
  do checksum <- checksum_from_str c v cs;
  do _ <- (if hc_strict c && negb (checksum_is_valid v checksum) then Err InvalidChecksum else Ok tt);
  do bytes <- slice_from bytes (v_cks v * 2);
  do ls <- slice bytes 0 2;
  do lvalue <- byte_from_str_rev c ls;
  do _ <- (if hc_strict c && negb (is_valid lvalue) then Err LengthIsTooLarge else Ok tt);
  do qs <- slice bytes 2 4;
  do q <- byte_from_str_rev c qs;
  do bs <- slice_from bytes 4;
  do body <- body_from_str c v bs;
  Ok {| h_cks := checksum; h_len := lvalue; h_q := q; h_body := body |}.

(* FuzzyHashType::from_str_bytes *)
Definition parse (c : hcfg) (v : variant) (bytes : list N) (p : option prefix) : outcome parse_error hash :=
  do pfx <- match p with
            | None =>
                if lenN bytes =? len_in_str_except_prefix v then Ok PEmpty
                else if lenN bytes =? len_in_str v then Ok PWithVersion
                else Err InvalidStringLength
            | Some x => Ok x
            end;
  do bytes <- match pfx with
              | PEmpty =>
                  if negb (lenN bytes =? len_in_str_except_prefix v) then Err InvalidStringLength
                  else Ok bytes
              | PWithVersion =>
                  if negb (lenN bytes =? len_in_str v) then Err InvalidStringLength
                  else
                    do p2 <- slice bytes 0 2;
                    if negb (list_eqb p2 [char_T; char_1]) then Err InvalidPrefix
                    else slice_from bytes 2
              end;
  parse_fields c v bytes.

(* ---- binary form ---- *)

(* TryFrom<&[u8; SIZE_IN_BYTES]>: [value] has exactly size_in_bytes elements (a typed array) *)
Definition from_array (c : hcfg) (v : variant) (value : list N) : outcome parse_error hash :=
  do cs <- slice value 0 (v_cks v);
  (* value[0..SIZE_CKSUM].try_into().unwrap(): sizes agree by construction of the slice *)
  do _ <- (if lenN cs =? v_cks v then Ok tt else Panic);
  do _ <- (if hc_strict c && negb (checksum_is_valid v cs) then Err InvalidChecksum else Ok tt);
  do lvalue <- index value (v_cks v);
  do _ <- (if hc_strict c && negb (is_valid lvalue) then Err LengthIsTooLarge else Ok tt);
  do q <- index value (v_cks v + 1);
  do rest <- slice_from value (v_cks v + 2);
  do _ <- invariant (hc_unsafe c) (hc_dbg c) (lenN rest =? size_body v);
  (* value.try_into().unwrap() *)
  do _ <- (if lenN rest =? size_body v then Ok tt else Panic);
  Ok {| h_cks := cs; h_len := lvalue; h_q := q; h_body := rest |}.

(* TryFrom<&[u8]> *)
Definition from_slice (c : hcfg) (v : variant) (value : list N) : outcome parse_error hash :=
  if negb (lenN value =? size_in_bytes v) then Err InvalidStringLength
  else from_array c v value.

(* out[a..b].copy_from_slice(src): panics if the range is bad or the lengths differ *)
Definition copy_into {E} (out : list N) (a b : N) (src : list N) : outcome E (list N) :=
  if (a <=? b) && (b <=? lenN out) && (lenN src =? b - a)
  then Ok (takeN a out ++ src ++ dropN b out)
  else Panic.

Definition set_at {E} (out : list N) (i : N) (x : N) : outcome E (list N) :=
  if i <? lenN out then Ok (takeN i out ++ [x] ++ dropN (i + 1) out) else Panic.

(* store_into_bytes: returns (result, buffer after the call) *)
Definition store_bytes (v : variant) (h : hash) (out : list N) : outcome op_error N * list N :=
  if lenN out <? size_in_bytes v then (Err BufferIsTooSmall, out)
  else
    match (do o1 <- copy_into out 0 (v_cks v) (h_cks h);
           do o2 <- set_at o1 (v_cks v) (h_len h);
           do o3 <- set_at o2 (v_cks v + 1) (h_q h);
           @copy_into op_error o3 (v_cks v + 2) (size_in_bytes v) (h_body h)) with
    | Ok o => (Ok (size_in_bytes v), o)
    | Err e => (Err e, out)
    | Panic => (Panic, out)
    | UB => (UB, out)
    end.

(* store_into_str_bytes, after the optional prefix: [cur] is the current `out` slice; returns its
   new contents.  The Rust code re-slices `out` as it goes (split out of [store_str] only to give
   the proofs a handle; same control flow) *)
Definition store_fields (c : hcfg) (v : variant) (h : hash) (cur : list N) : outcome op_error (list N) :=
  let cur := encode_rev_array (hc_enc c) cur (h_cks h) in
  do cur2 <- slice_from cur (v_cks v * 2);
  let head := takeN (v_cks v * 2) cur in
  (* encode_rev_1(&mut out[0..2], lvalue) *)
  do s02 <- slice cur2 0 2;
  do e02 <- encode_rev_1 (hc_enc c) s02 (h_len h);
  let cur2 := e02 ++ dropN 2 cur2 in
  do s24 <- slice cur2 2 4;
  do e24 <- encode_rev_1 (hc_enc c) s24 (h_q h);
  let cur2 := takeN 2 cur2 ++ e24 ++ dropN 4 cur2 in
  do s4 <- slice_from cur2 4;
  do e4 <- (if hc_simd_convert c then simd_encode s4 (h_body h)
            else Ok (encode_array (hc_enc c) s4 (h_body h)));
  Ok (head ++ takeN 4 cur2 ++ e4).

(* store_into_str_bytes: returns (result, buffer after the call) *)
Definition store_str (c : hcfg) (v : variant) (h : hash) (p : prefix) (out : list N)
  : outcome op_error N * list N :=
  let len := match p with PEmpty => len_in_str_except_prefix v | PWithVersion => len_in_str v end in
  if lenN out <? len then (Err BufferIsTooSmall, out)
  else
    match (do st <- (match p with
                     | PWithVersion =>
                         do o <- copy_into out 0 2 [char_T; char_1];
                         do r <- slice_from o 2;
                         Ok (takeN 2 o, r)
                     | PEmpty => Ok ([], out)
                     end);
           do r <- store_fields c v h (snd st);
           @Ok op_error _ (fst st ++ r)) with
    | Ok o => (Ok len, o)
    | Err e => (Err e, out)
    | Panic => (Panic, out)
    | UB => (UB, out)
    end.

(* Display::fmt / to_string: store into a zeroed SIZE_IN_STR_BYTES buffer, unwrap, from_utf8 *)
Definition is_ascii (l : list N) : bool := forallb (fun x => x <? 128) l.

Definition display (c : hcfg) (v : variant) (h : hash) : outcome op_error (list N) :=
  let buf := repeat 0 (N.to_nat (len_in_str v)) in
  match store_str c v h PWithVersion buf with
  | (Ok _, o) =>
      (* from_utf8(&buf).unwrap()  /  from_utf8_unchecked under `unsafe` *)
      if is_ascii o then Ok o else if hc_unsafe c then UB else Panic
  | (Err _, _) => Panic     (* .unwrap() *)
  | (Panic, _) => Panic
  | (UB, _) => UB
  end.

(* ---- accessors ---- *)
Definition q1ratio (h : hash) : N := N.land (h_q h) 15.
Definition q2ratio (h : hash) : N := N.shiftr (h_q h) 4.

(* FuzzyHashQRatios::new via bitfield-struct's with_*: panics when a value exceeds 4 bits *)
Definition qratios_new {E} (q1 q2 : N) : outcome E N :=
  if (15 <? q1) || (15 <? q2) then Panic else Ok (N.lor q1 (N.shiftl q2 4)).

(* body.quartile(index): assert!(index < NUM_BUCKETS) *)
Definition quartile {E} (v : variant) (h : hash) (i : N) : outcome E N :=
  if negb (i <? nb_of (v_bk v)) then Panic
  else
    let n := lenN (h_body h) in
    (* self.data.len() - 1 - index / 4 : usize subtraction *)
    if n <? 1 + i / 4 then Panic
    else
      do b <- index (h_body h) (n - 1 - i / 4);
      Ok (N.land (N.shiftr b (2 * (i mod 4))) 3).

Definition clear_checksum (h : hash) : hash :=
  {| h_cks := map (fun _ => 0) (h_cks h); h_len := h_len h; h_q := h_q h; h_body := h_body h |}.

Definition hash_bytes (h : hash) : list N := h_cks h ++ [h_len h; h_q h] ++ h_body h.
