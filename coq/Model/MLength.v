(* Model/MLength.v -- model of fast-tlsh/src/length.rs (definitions only).

   FuzzyHashLengthEncoding::{new, range, is_valid, try_from}, DataLengthValidity::{new,
   is_err, is_err_on}, the const-eval loop building ENCODED_INDICES_BY_LEADING_ZEROS and the
   non-clz fallback.  `binary_search` is std's, taken by contract: on a strictly increasing
   slice both Ok(i) and Err(i) equal the number of elements < x ([rank]). *)
From TlshV Require Export Spec.Types.
From TlshV Require Import Model.Machine Gen.Tables.

Definition clz32 (x : N) : N := 32 - N.size x.

(* const ENCODED_INDICES_BY_LEADING_ZEROS: array[clz(top[i])] = i + 1, i ascending *)
Fixpoint clz_table_loop (top : list N) (i : N) (arr : list N) : list N :=
  match top with
  | [] => arr
  | t :: r => clz_table_loop r (i + 1) (set_nth arr (N.to_nat (clz32 t)) (i + 1))
  end.
Definition clz_table : list N := clz_table_loop top_value 0 (repeat 0 33).

Definition rank (l : list N) (x : N) : N := lenN (filter (fun t => t <? x) l).

Inductive len_cfg := LenClz | LenWhole.

(* FuzzyHashLengthEncoding::new; `unsafe_f`/`dbg` decide what a false invariant! does. *)
Definition encode_new (c : len_cfg) (unsafe_f dbg : bool) (len : N) : outcome unit (option N) :=
  if len =? 0 then Ok (Some 0)
  else if len_max <? len then Ok None
  else match c with
       | LenClz =>
           let clz := clz32 len in
           do bottom <- index clz_table (clz + 1);
           do top <- index clz_table clz;
           do _ <- invariant unsafe_f dbg (bottom <=? lenN top_value);
           do _ <- invariant unsafe_f dbg (top <=? lenN top_value);
           do _ <- invariant unsafe_f dbg (bottom <=? top);
           do s <- slice top_value bottom top;
           Ok (Some (wrap8 (bottom + rank s len)))
       | LenWhole => Ok (Some (wrap8 (rank top_value len)))
       end.

(* the test-only naive encoder of length.rs *)
Fixpoint naive_loop (l : list N) (i : N) (len : N) : option N :=
  match l with
  | [] => None
  | t :: r => if len <=? t then Some (wrap8 i) else naive_loop r (i + 1) len
  end.
Definition encode_naive (len : N) : option N :=
  if len =? 0 then Some 0 else naive_loop top_value 0 len.

Definition is_valid (lvalue : N) : bool := lvalue <? encoded_value_size.

(* range(): Some (lo, hi) inclusive *)
Definition range (lvalue : N) : outcome unit (option (N * N)) :=
  if lvalue =? 0 then
    do t0 <- index top_value 0; Ok (Some (0, t0))
  else if encoded_value_size <=? lvalue then Ok None
  else
    do b <- index top_value (lvalue - 1);
    do t <- index top_value lvalue;
    (* `+ 1` on u32: overflow would panic in debug / wrap in release *)
    if b + 1 <? two32 then Ok (Some (b + 1, t)) else Panic.

Definition try_from_u32 (c : len_cfg) (unsafe_f dbg : bool) (len : N) : outcome parse_error N :=
  match encode_new c unsafe_f dbg len with
  | Ok (Some v) => Ok v
  | Ok None => Err LengthIsTooLarge
  | Err _ => Panic
  | Panic => Panic
  | UB => UB
  end.

(* DataLengthValidity *)
Definition len_min (b : buckets_kind) : N :=
  match b with B48 => len_min_short | B128 => len_min_normal | B256 => len_min_long end.
Definition len_min_conservative (b : buckets_kind) : N :=
  match b with B48 => len_min_conservative_short | B128 => len_min_conservative_normal
          | B256 => len_min_conservative_long end.

Definition validity_new (b : buckets_kind) (len : N) : validity :=
  if len <? len_min b then TooSmall
  else if len <? len_min_conservative b then ValidWhenOptimistic
  else if len <=? len_max then Valid
  else TooLarge.

Definition validity_is_err (v : validity) : bool :=
  match v with TooSmall | TooLarge => true | _ => false end.

Definition validity_is_err_on (v : validity) (m : len_mode) : bool :=
  match v with
  | TooLarge | TooSmall => true
  | Valid => false
  | ValidWhenOptimistic => match m with Conservative => true | Optimistic => false end
  end.
