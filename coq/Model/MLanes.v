(* Model/MLanes.v -- the straight-line kernel language of the bit-sliced body distance, and its
   evaluator at any width of m byte lanes (m = 8: u64, m = 4: u32 and one _epi32 granule, m = 1: a
   single lane).  One instruction per Rust operator / intrinsic; registers are numbered in SSA
   order, r0 = x, r1 = y. *)
From TlshV Require Import Model.Machine.

Inductive operand :=
| R (i : nat)         (* register *)
| K (c : N).          (* constant whose every byte is c *)

Inductive instr :=
| IAnd (a b : operand)
| IOr (a b : operand)
| IXor (a b : operand)
| IAdd (a b : operand)       (* wrapping, at granule width *)
| ISub (a b : operand)
| IShl (a : operand) (c : N)
| IShr (a : operand) (c : N).

Definition program := list instr.

(* horizontal-sum epilogue steps (data only; their shape is compared with the expected one) *)
Inductive eref := EIn | ERef (i : nat).
Inductive eop :=
| EMul (k : N) | EShr (c : N) | EShl (c : N)
| EMul32 (k : N) | EShr32 (c : N) | EShl32 (c : N)
| EShl16 (a : eref) (c : N) | EShr16 (a : eref) (c : N) | EAdd16 (a b : eref).

(* little-endian packing of byte lanes *)
Fixpoint pack (l : list N) : N :=
  match l with
  | [] => 0
  | a :: r => a + 256 * pack r
  end.

Definition krep (m : nat) (c : N) : N := pack (repeat c m).

Definition opval (m : nat) (env : list N) (o : operand) : N :=
  match o with R i => nth i env 0 | K c => krep m c end.

Definition wbits (m : nat) : N := 8 * N.of_nat m.

Definition step (m : nat) (env : list N) (ins : instr) : N :=
  let w := wbits m in
  match ins with
  | IAnd a b => N.land (opval m env a) (opval m env b)
  | IOr a b => N.lor (opval m env a) (opval m env b)
  | IXor a b => N.lxor (opval m env a) (opval m env b)
  | IAdd a b => (opval m env a + opval m env b) mod 2 ^ w
  | ISub a b => (opval m env a + 2 ^ w - opval m env b) mod 2 ^ w
  | IShl a c => (opval m env a * 2 ^ c) mod 2 ^ w
  | IShr a c => opval m env a / 2 ^ c
  end.

Fixpoint run (m : nat) (p : program) (env : list N) : list N :=
  match p with
  | [] => env
  | i :: r => run m r (env ++ [step m env i])
  end.

(* the value of register [out] after running p on (x, y) *)
Definition eval (m : nat) (p : program) (out : nat) (x y : N) : N := nth out (run m p [x; y]) 0.
