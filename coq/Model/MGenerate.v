(* Model/MGenerate.v -- model of fast-tlsh/src/generate.rs (Generator::update, processed_len),
   buckets.rs (FuzzyHashBucketsData) and hash/checksum.rs (InnerChecksum::update).
   Every slice / copy_from_slice / `+=` of the source is a checked operation here. *)
From TlshV Require Import Model.Machine Gen.Tables Model.MLength Model.MHash Model.MPearson.

Record gcfg := {
  gc_low_mem : bool;        (* opt-low-memory-buckets *)
  gc_double : bool;         (* opt-pearson-table-double *)
  gc_unsafe : bool;
  gc_dbg : bool;            (* debug assertions + overflow checks *)
}.

Record gstate := {
  g_buckets : list N;
  g_len : N;
  g_cks : list N;
  g_tail : list N;
  g_tail_len : N;
}.

Definition b_kind (bk : buckets_kind) : N :=
  match bk with B48 => b_mapping_kind_short | B128 => b_mapping_kind_normal | B256 => b_mapping_kind_long end.
Definition b_constrained (bk : buckets_kind) : bool :=
  match bk with B48 => b_mapping_constrained_short | B128 => b_mapping_constrained_normal
           | B256 => b_mapping_constrained_long end.

Definition bmap (gc : gcfg) (bk : buckets_kind) (b0 b1 b2 b3 : N) : N :=
  if b_kind bk =? 48 then b_mapping_48 (gc_double gc) b0 b1 b2 b3
  else b_mapping_256 (gc_double gc) b0 b1 b2 b3.

Definition phys_buckets (gc : gcfg) (bk : buckets_kind) : N :=
  if gc_low_mem gc then nb_of bk else 256.

Definition tail_size : N := window_size - 1.
Definition max_len : N := u32_max - (tail_size - 1).

Definition g_init (gc : gcfg) (v : variant) : gstate :=
  {| g_buckets := repeat 0 (N.to_nat (phys_buckets gc (v_bk v)));
     g_len := 0; g_cks := repeat 0 (N.to_nat (v_cks v));
     g_tail := repeat 0 (N.to_nat tail_size); g_tail_len := 0 |}.

(* u32 `+` / `+=`: panics on overflow with overflow checks, wraps without *)
Definition add_u32 {E} (dbg : bool) (a b : N) : outcome E N :=
  if a + b <? two32 then Ok (a + b) else if dbg then Panic else Ok (wrap32 (a + b)).

(* FuzzyHashBucketsData::increment *)
Definition increment {E} (gc : gcfg) (bk : buckets_kind) (buckets : list N) (i : N) : outcome E (list N) :=
  if gc_low_mem gc && negb (b_constrained bk) && (nb_of bk <=? i) then Ok buckets
  else
    do old <- index buckets i;
    Ok (set_nth buckets (N.to_nat i) (wrap32 (old + 1))).

(* InnerChecksum::update(curr, prev) *)
Definition checksum_update {E} (gc : gcfg) (v : variant) (cks : list N) (curr prev : N) : outcome E (list N) :=
  match cks with
  | [c0] => Ok [bmap gc (v_bk v) 0 curr prev c0]
  | [c0; c1; c2] =>
      let n0 := bmap gc (v_bk v) 0 curr prev c0 in
      let n1 := b_mapping_256 (gc_double gc) n0 curr prev c1 in
      let n2 := b_mapping_256 (gc_double gc) n1 curr prev c2 in
      Ok [n0; n1; n2]
  | _ => Panic
  end.

(* window bytes b0 (oldest) .. b4 (newest), selected by the regenerated index *)
Definition wsel (w : N * N * N * N * N) (i : N) : N :=
  let '(b0, b1, b2, b3, b4) := w in
  if i =? 0 then b0 else if i =? 1 then b1 else if i =? 2 then b2 else if i =? 3 then b3 else b4.

(* the six increment(b_mapping(salt, bi, bj, bk)) lines, as regenerated from the source *)
Fixpoint bucket_updates {E} (gc : gcfg) (bk : buckets_kind) (trip : list (N * (N * N * N)))
  (w : N * N * N * N * N) (buckets : list N) : outcome E (list N) :=
  match trip with
  | [] => Ok buckets
  | (salt, (i, j, k)) :: r =>
      do b <- increment gc bk buckets (bmap gc bk salt (wsel w i) (wsel w j) (wsel w k));
      bucket_updates gc bk r w b
  end.

(* one iteration of `for &b4 in data` *)
Definition absorb {E} (gc : gcfg) (v : variant) (cks buckets : list N) (w4 : N * N * N * N) (b4 : N)
  : outcome E (list N * list N * (N * N * N * N)) :=
  let '(b0, b1, b2, b3) := w4 in
  let w := (b0, b1, b2, b3, b4) in
  do c <- checksum_update gc v cks (wsel w (fst checksum_args)) (wsel w (snd checksum_args));
  do b <- bucket_updates gc (v_bk v) bucket_triplets w buckets;
  Ok (c, b, (b1, b2, b3, b4)).

Fixpoint absorb_loop {E} (gc : gcfg) (v : variant) (data : list N) (cks buckets : list N) (w4 : N * N * N * N)
  : outcome E (list N * list N * (N * N * N * N)) :=
  match data with
  | [] => Ok (cks, buckets, w4)
  | x :: r =>
      do st <- absorb gc v cks buckets w4 x;
      let '(c, b, w) := st in
      absorb_loop gc v r c b w
  end.

Definition with_tail (s : gstate) (t : list N) (tl : N) : gstate :=
  {| g_buckets := g_buckets s; g_len := g_len s; g_cks := g_cks s; g_tail := t; g_tail_len := tl |}.

(* Generator::update, first part: fill self.tail.  inl = the early `return`; inr = continue with
   the remaining data.  (update is split in two only to give the proofs a handle.) *)
Definition update_fill {E} (gc : gcfg) (s : gstate) (data : list N) : outcome E (gstate + gstate * list N) :=
  if g_tail_len s <? tail_size then
    let tl := g_tail_len s in
    let remaining := tail_size - tl in
    if lenN data <=? remaining then
      do t <- copy_into (g_tail s) tl (tl + lenN data) data;
      do ntl <- add_u32 (gc_dbg gc) tl (lenN data);
      Ok (inl (with_tail s t ntl))                  (* return *)
    else
      do pre <- slice_to data remaining;
      do t <- copy_into (g_tail s) tl (lenN (g_tail s)) pre;
      do ntl <- add_u32 (gc_dbg gc) tl remaining;
      do rest <- slice_from data remaining;
      Ok (inr (with_tail s t ntl, rest))
  else Ok (inr (s, data)).

(* Generator::update, second part: the 4 GiB guard, the window loop and the tail rewrite *)
Definition update_main {E} (gc : gcfg) (v : variant) (s : gstate) (data : list N) : outcome E gstate :=
  do _ <- invariant (gc_unsafe gc) (gc_dbg gc) (0 <? tail_size);
  if max_len <=? g_len s then Ok s
  else
    (* u32::try_from(data.len()).unwrap_or(u32::MAX) *)
    let data_len := N.min (lenN data) u32_max in
    do dd <- (if max_len - g_len s <? data_len then
                do d <- slice_to data (max_len - g_len s);
                Ok (max_len - g_len s, d)
              else Ok (data_len, data));
    let '(data_len, data) := dd in
    do nlen <- add_u32 (gc_dbg gc) (g_len s) data_len;
    do t0 <- index (g_tail s) 0;
    do t1 <- index (g_tail s) 1;
    do t2 <- index (g_tail s) 2;
    do t3 <- index (g_tail s) 3;
    do r <- absorb_loop gc v data (g_cks s) (g_buckets s) (t0, t1, t2, t3);
    let '(cks, buckets, _) := r in
    do ntail <- (if lenN (g_tail s) <=? lenN data then
                   (* full overwrite: data[data.len() - TAIL_SIZE..] *)
                   do sl <- slice_from data (lenN data - tail_size);
                   copy_into (g_tail s) 0 (lenN (g_tail s)) sl
                 else
                   (* copy_within(data.len().., 0), then tail[TAIL_SIZE - data.len()..] = data *)
                   do moved <- slice_from (g_tail s) (lenN data);
                   do t' <- copy_into (g_tail s) 0 (lenN moved) moved;
                   copy_into t' (tail_size - lenN data) (lenN t') data);
    Ok {| g_buckets := buckets; g_len := nlen; g_cks := cks; g_tail := ntail;
          g_tail_len := g_tail_len s |}.

(* Generator::update *)
Definition update {E} (gc : gcfg) (v : variant) (s : gstate) (data : list N) : outcome E gstate :=
  do st <- update_fill gc s data;
  match st with
  | inl s' => Ok s'
  | inr (s', rest) => update_main gc v s' rest
  end.

(* processed_len(): len.checked_add(tail_len) *)
Definition processed_len (s : gstate) : option N :=
  if g_len s + g_tail_len s <? two32 then Some (g_len s + g_tail_len s) else None.

(* buckets.data(): &self.buckets[..SIZE_BUCKETS] *)
Definition buckets_data {E} (bk : buckets_kind) (s : gstate) : outcome E (list N) :=
  slice_to (g_buckets s) (nb_of bk).
