(* Model/MHexStr.v -- model of fast-tlsh/src/parse/hex_str.rs (definitions only).
   All four decoder table variants, all three encoder table variants, the const-eval loops that
   derive HEX_REV_TABLE_HI / HEX_UPPER_BYTE_TABLE / HEX_UPPER_BYTE_REV_TABLE, and the array
   encoders/decoders exactly as Rust has them (zip of chunks_exact[_mut](2) with the source). *)
From TlshV Require Import Model.Machine Gen.Tables.

Inductive hex_dec := DecFull | DecHalf | DecQuarter | DecMin.
Inductive hex_enc := EncFull | EncHalf | EncMin.

(* ---- derived tables (const-eval loops) ---- *)
Definition hex_rev_hi_u16 : list N :=
  map (fun x => if x =? hex_invalid_u16 then x else wrap16 (N.shiftl x 4)) hex_rev_lo_u16.

Definition nib (i : N) : N := nth (N.to_nat i) hex_upper_nibble 0.   (* i < 16 at every use *)

Definition hex_upper_byte (i : N) : N * N := (nib (N.shiftr i 4), nib (N.land i 15)).
Definition hex_upper_byte_rev (i : N) : N * N := let '(a, b) := hex_upper_byte i in (b, a).

Definition swap_nibble (v : N) : N := wrap8 (N.lor (N.shiftl v 4) (N.shiftr v 4)).  (* rotate_left(4) *)

(* decode_digit: match arms of the source *)
Definition decode_digit (d : N) : N :=
  if (48 <=? d) && (d <=? 57) then d - 48
  else if (65 <=? d) && (d <=? 70) then d - 65 + 10
  else if (97 <=? d) && (d <=? 102) then d - 97 + 10
  else 255.

Definition tbl {E} (t : list N) (c : N) : outcome E N := index t c.

(* decode_1 / decode_rev_1 on an exactly-2-byte slice; [hi_first] = true for decode_1 *)
Definition decode_pair {E} (d : hex_dec) (hi_first : bool) (c0 c1 : N) : outcome E (option N) :=
  let ch := if hi_first then c0 else c1 in      (* character carrying the high nibble *)
  let cl := if hi_first then c1 else c0 in
  match d with
  | DecFull =>
      do vh <- tbl hex_rev_hi_u16 ch;
      do vl <- tbl hex_rev_lo_u16 cl;
      let value := N.lor vh vl in
      if negb (N.land value hex_invalid_u16 =? 0) then Ok None else Ok (Some (wrap8 value))
  | DecHalf =>
      do vh <- tbl hex_rev_lo_u16 ch;
      do vl <- tbl hex_rev_lo_u16 cl;
      let value := N.lor (wrap16 (N.shiftl vh 4)) vl in
      if hex_invalid_u16 <=? value then Ok None else Ok (Some (wrap8 value))
  | DecQuarter =>
      do vh <- tbl hex_rev_lo_u8 ch;
      do vl <- tbl hex_rev_lo_u8 cl;
      if (vl =? hex_invalid_u8) || (vh =? hex_invalid_u8) then Ok None
      else Ok (Some (N.lor (wrap8 (N.shiftl vh 4)) vl))
  | DecMin =>
      let vh := decode_digit ch in
      let vl := decode_digit cl in
      if (vl =? hex_invalid_u8) || (vh =? hex_invalid_u8) then Ok None
      else Ok (Some (N.lor (wrap8 (N.shiftl vh 4)) vl))
  end.

Definition decode_1 {E} (d : hex_dec) (hi_first : bool) (src : list N) : outcome E (option N) :=
  match src with
  | [c0; c1] => decode_pair d hi_first c0 c1
  | _ => Ok None                      (* src.len() != 2 *)
  end.

(* chunks_exact(2) *)
Fixpoint chunks2 (l : list N) : list (N * N) :=
  match l with
  | a :: b :: r => (a, b) :: chunks2 r
  | _ => []
  end.

(* the loop of decode_array / decode_rev_array over zip(dst.iter_mut(), src.chunks_exact(2)):
   returns None on the first undecodable pair ("return false") *)
Fixpoint decode_pairs {E} (d : hex_dec) (hi_first : bool) (n : nat) (ps : list (N * N))
  : outcome E (option (list N)) :=
  match n, ps with
  | O, _ => Ok (Some [])
  | _, [] => Ok (Some [])
  | S n', (c0, c1) :: r =>
      do v <- decode_pair d hi_first c0 c1;
      match v with
      | None => Ok None
      | Some x =>
          do rest <- decode_pairs d hi_first n' r;
          Ok (option_map (cons x) rest)
      end
  end.

(* decode_array::<N>(dst, src) -> bool, with dst = [0; N] initially; Some data on `true` *)
Definition decode_array {E} (d : hex_dec) (hi_first : bool) (n : N) (src : list N)
  : outcome E (option (list N)) :=
  if negb (lenN src =? n * 2) then Ok None
  else decode_pairs d hi_first (N.to_nat n) (chunks2 src).

(* hex_simd::decode(src, Out::from_slice(dst)).is_ok(), by contract: Ok iff src has even length,
   dst has room for src.len()/2 bytes and every byte is a hex digit of either case; the value is
   the one the digits denote.  Modelled through the digit grammar of decode_digit. *)
Definition simd_decode {E} (n : N) (src : list N) : outcome E (option (list N)) :=
  if negb (lenN src =? n * 2) then Ok None
  else decode_pairs DecMin true (N.to_nat n) (chunks2 src).

(* ---- encoders ---- *)
Definition enc_rev_pair (e : hex_enc) (v : N) : N * N :=
  match e with
  | EncFull => hex_upper_byte_rev v
  | EncHalf => hex_upper_byte (swap_nibble v)
  | EncMin => (nib (N.land v 15), nib (N.shiftr v 4))
  end.

Definition enc_pair (e : hex_enc) (v : N) : N * N :=
  match e with
  | EncMin => (nib (N.shiftr v 4), nib (N.land v 15))
  | _ => hex_upper_byte v
  end.

(* zip(dst.chunks_exact_mut(2), src.iter()): overwrites min(|dst|/2, |src|) pairs, leaves the rest *)
Fixpoint encode_zip (f : N -> N * N) (dst : list N) (src : list N) : list N :=
  match src, dst with
  | v :: src', _ :: _ :: dst' => let '(a, b) := f v in a :: b :: encode_zip f dst' src'
  | _, _ => dst
  end.

Definition encode_rev_array (e : hex_enc) (dst src : list N) : list N := encode_zip (enc_rev_pair e) dst src.
Definition encode_array (e : hex_enc) (dst src : list N) : list N := encode_zip (enc_pair e) dst src.

(* encode_rev_1(dst, value): assert!(dst.len() >= 2) *)
Definition encode_rev_1 {E} (e : hex_enc) (dst : list N) (v : N) : outcome E (list N) :=
  match dst with
  | _ :: _ :: r => let '(a, b) := enc_rev_pair e v in Ok (a :: b :: r)
  | _ => Panic
  end.

(* hex_simd::encode(src, Out::from_slice(dst), Upper), by contract: panics unless
   dst.len() >= 2 * src.len(); writes exactly 2*src.len() uppercase digits, leaves the rest *)
Definition simd_encode {E} (dst src : list N) : outcome E (list N) :=
  if lenN dst <? 2 * lenN src then Panic
  else Ok (encode_zip (enc_pair EncMin) dst src).
