(* Extraction of the executable model for the correspondence driver.
   ExtrOcamlBasic only: bool, option, unit, list, prod, sumbool, sumor map to OCaml's own;
   positive / N / Z / nat / ascii / string stay the extracted inductives.  No Extract Constant. *)
Require Extraction.
Require Import ExtrOcamlBasic.
From TlshV Require Import Model.Dispatch Model.Tokens.
Extraction "model.ml" dispatch_flags.
