
(** val negb : bool -> bool **)

let negb = function
| true -> false
| false -> true

type nat =
| O
| S of nat

(** val snd : ('a1 * 'a2) -> 'a2 **)

let snd = function
| (_, y) -> y

(** val length : 'a1 list -> nat **)

let rec length = function
| [] -> O
| _ :: l' -> S (length l')

(** val app : 'a1 list -> 'a1 list -> 'a1 list **)

let rec app l m =
  match l with
  | [] -> m
  | a :: l1 -> a :: (app l1 m)

type comparison =
| Eq
| Lt
| Gt

module Coq__1 = struct
 (** val add : nat -> nat -> nat **)
 let rec add n0 m =
   match n0 with
   | O -> m
   | S p -> S (add p m)
end
include Coq__1

type positive =
| XI of positive
| XO of positive
| XH

type n =
| N0
| Npos of positive

module Pos =
 struct
  type mask =
  | IsNul
  | IsPos of positive
  | IsNeg
 end

module Coq_Pos =
 struct
  (** val succ : positive -> positive **)

  let rec succ = function
  | XI p -> XO (succ p)
  | XO p -> XI p
  | XH -> XO XH

  (** val add : positive -> positive -> positive **)

  let rec add x y =
    match x with
    | XI p ->
      (match y with
       | XI q -> XO (add_carry p q)
       | XO q -> XI (add p q)
       | XH -> XO (succ p))
    | XO p ->
      (match y with
       | XI q -> XI (add p q)
       | XO q -> XO (add p q)
       | XH -> XI p)
    | XH -> (match y with
             | XI q -> XO (succ q)
             | XO q -> XI q
             | XH -> XO XH)

  (** val add_carry : positive -> positive -> positive **)

  and add_carry x y =
    match x with
    | XI p ->
      (match y with
       | XI q -> XI (add_carry p q)
       | XO q -> XO (add_carry p q)
       | XH -> XI (succ p))
    | XO p ->
      (match y with
       | XI q -> XO (add_carry p q)
       | XO q -> XI (add p q)
       | XH -> XO (succ p))
    | XH ->
      (match y with
       | XI q -> XI (succ q)
       | XO q -> XO (succ q)
       | XH -> XI XH)

  (** val pred_double : positive -> positive **)

  let rec pred_double = function
  | XI p -> XI (XO p)
  | XO p -> XI (pred_double p)
  | XH -> XH

  type mask = Pos.mask =
  | IsNul
  | IsPos of positive
  | IsNeg

  (** val succ_double_mask : mask -> mask **)

  let succ_double_mask = function
  | IsNul -> IsPos XH
  | IsPos p -> IsPos (XI p)
  | IsNeg -> IsNeg

  (** val double_mask : mask -> mask **)

  let double_mask = function
  | IsPos p -> IsPos (XO p)
  | x0 -> x0

  (** val double_pred_mask : positive -> mask **)

  let double_pred_mask = function
  | XI p -> IsPos (XO (XO p))
  | XO p -> IsPos (XO (pred_double p))
  | XH -> IsNul

  (** val sub_mask : positive -> positive -> mask **)

  let rec sub_mask x y =
    match x with
    | XI p ->
      (match y with
       | XI q -> double_mask (sub_mask p q)
       | XO q -> succ_double_mask (sub_mask p q)
       | XH -> IsPos (XO p))
    | XO p ->
      (match y with
       | XI q -> succ_double_mask (sub_mask_carry p q)
       | XO q -> double_mask (sub_mask p q)
       | XH -> IsPos (pred_double p))
    | XH -> (match y with
             | XH -> IsNul
             | _ -> IsNeg)

  (** val sub_mask_carry : positive -> positive -> mask **)

  and sub_mask_carry x y =
    match x with
    | XI p ->
      (match y with
       | XI q -> succ_double_mask (sub_mask_carry p q)
       | XO q -> double_mask (sub_mask p q)
       | XH -> IsPos (pred_double p))
    | XO p ->
      (match y with
       | XI q -> double_mask (sub_mask_carry p q)
       | XO q -> succ_double_mask (sub_mask_carry p q)
       | XH -> double_pred_mask p)
    | XH -> IsNeg

  (** val mul : positive -> positive -> positive **)

  let rec mul x y =
    match x with
    | XI p -> add y (XO (mul p y))
    | XO p -> XO (mul p y)
    | XH -> y

  (** val size : positive -> positive **)

  let rec size = function
  | XI p0 -> succ (size p0)
  | XO p0 -> succ (size p0)
  | XH -> XH

  (** val compare_cont : comparison -> positive -> positive -> comparison **)

  let rec compare_cont r x y =
    match x with
    | XI p ->
      (match y with
       | XI q -> compare_cont r p q
       | XO q -> compare_cont Gt p q
       | XH -> Gt)
    | XO p ->
      (match y with
       | XI q -> compare_cont Lt p q
       | XO q -> compare_cont r p q
       | XH -> Gt)
    | XH -> (match y with
             | XH -> r
             | _ -> Lt)

  (** val compare : positive -> positive -> comparison **)

  let compare =
    compare_cont Eq

  (** val eqb : positive -> positive -> bool **)

  let rec eqb p q =
    match p with
    | XI p0 -> (match q with
                | XI q0 -> eqb p0 q0
                | _ -> false)
    | XO p0 -> (match q with
                | XO q0 -> eqb p0 q0
                | _ -> false)
    | XH -> (match q with
             | XH -> true
             | _ -> false)

  (** val iter_op : ('a1 -> 'a1 -> 'a1) -> positive -> 'a1 -> 'a1 **)

  let rec iter_op op p a =
    match p with
    | XI p0 -> op a (iter_op op p0 (op a a))
    | XO p0 -> iter_op op p0 (op a a)
    | XH -> a

  (** val to_nat : positive -> nat **)

  let to_nat x =
    iter_op Coq__1.add x (S O)

  (** val of_succ_nat : nat -> positive **)

  let rec of_succ_nat = function
  | O -> XH
  | S x -> succ (of_succ_nat x)
 end

module N =
 struct
  (** val succ_double : n -> n **)

  let succ_double = function
  | N0 -> Npos XH
  | Npos p -> Npos (XI p)

  (** val double : n -> n **)

  let double = function
  | N0 -> N0
  | Npos p -> Npos (XO p)

  (** val add : n -> n -> n **)

  let add n0 m =
    match n0 with
    | N0 -> m
    | Npos p -> (match m with
                 | N0 -> n0
                 | Npos q -> Npos (Coq_Pos.add p q))

  (** val sub : n -> n -> n **)

  let sub n0 m =
    match n0 with
    | N0 -> N0
    | Npos n' ->
      (match m with
       | N0 -> n0
       | Npos m' ->
         (match Coq_Pos.sub_mask n' m' with
          | Coq_Pos.IsPos p -> Npos p
          | _ -> N0))

  (** val mul : n -> n -> n **)

  let mul n0 m =
    match n0 with
    | N0 -> N0
    | Npos p -> (match m with
                 | N0 -> N0
                 | Npos q -> Npos (Coq_Pos.mul p q))

  (** val compare : n -> n -> comparison **)

  let compare n0 m =
    match n0 with
    | N0 -> (match m with
             | N0 -> Eq
             | Npos _ -> Lt)
    | Npos n' -> (match m with
                  | N0 -> Gt
                  | Npos m' -> Coq_Pos.compare n' m')

  (** val eqb : n -> n -> bool **)

  let eqb n0 m =
    match n0 with
    | N0 -> (match m with
             | N0 -> true
             | Npos _ -> false)
    | Npos p -> (match m with
                 | N0 -> false
                 | Npos q -> Coq_Pos.eqb p q)

  (** val leb : n -> n -> bool **)

  let leb x y =
    match compare x y with
    | Gt -> false
    | _ -> true

  (** val ltb : n -> n -> bool **)

  let ltb x y =
    match compare x y with
    | Lt -> true
    | _ -> false

  (** val size : n -> n **)

  let size = function
  | N0 -> N0
  | Npos p -> Npos (Coq_Pos.size p)

  (** val pos_div_eucl : positive -> n -> n * n **)

  let rec pos_div_eucl a b =
    match a with
    | XI a' ->
      let (q, r) = pos_div_eucl a' b in
      let r' = succ_double r in
      if leb b r' then ((succ_double q), (sub r' b)) else ((double q), r')
    | XO a' ->
      let (q, r) = pos_div_eucl a' b in
      let r' = double r in
      if leb b r' then ((succ_double q), (sub r' b)) else ((double q), r')
    | XH ->
      (match b with
       | N0 -> (N0, (Npos XH))
       | Npos p -> (match p with
                    | XH -> ((Npos XH), N0)
                    | _ -> (N0, (Npos XH))))

  (** val div_eucl : n -> n -> n * n **)

  let div_eucl a b =
    match a with
    | N0 -> (N0, N0)
    | Npos na -> (match b with
                  | N0 -> (N0, a)
                  | Npos _ -> pos_div_eucl na b)

  (** val modulo : n -> n -> n **)

  let modulo a b =
    snd (div_eucl a b)

  (** val to_nat : n -> nat **)

  let to_nat = function
  | N0 -> O
  | Npos p -> Coq_Pos.to_nat p

  (** val of_nat : nat -> n **)

  let of_nat = function
  | O -> N0
  | S n' -> Npos (Coq_Pos.of_succ_nat n')
 end

(** val nth_error : 'a1 list -> nat -> 'a1 option **)

let rec nth_error l = function
| O -> (match l with
        | [] -> None
        | x :: _ -> Some x)
| S n1 -> (match l with
           | [] -> None
           | _ :: l0 -> nth_error l0 n1)

(** val map : ('a1 -> 'a2) -> 'a1 list -> 'a2 list **)

let rec map f = function
| [] -> []
| a :: t -> (f a) :: (map f t)

(** val flat_map : ('a1 -> 'a2 list) -> 'a1 list -> 'a2 list **)

let rec flat_map f = function
| [] -> []
| x :: t -> app (f x) (flat_map f t)

(** val existsb : ('a1 -> bool) -> 'a1 list -> bool **)

let rec existsb f = function
| [] -> false
| a :: l0 -> (||) (f a) (existsb f l0)

(** val filter : ('a1 -> bool) -> 'a1 list -> 'a1 list **)

let rec filter f = function
| [] -> []
| x :: l0 -> if f x then x :: (filter f l0) else filter f l0

(** val firstn : nat -> 'a1 list -> 'a1 list **)

let rec firstn n0 l =
  match n0 with
  | O -> []
  | S n1 -> (match l with
             | [] -> []
             | a :: l0 -> a :: (firstn n1 l0))

(** val skipn : nat -> 'a1 list -> 'a1 list **)

let rec skipn n0 l =
  match n0 with
  | O -> l
  | S n1 -> (match l with
             | [] -> []
             | _ :: l0 -> skipn n1 l0)

(** val seq : nat -> nat -> nat list **)

let rec seq start = function
| O -> []
| S len0 -> start :: (seq (S start) len0)

(** val repeat : 'a1 -> nat -> 'a1 list **)

let rec repeat x = function
| O -> []
| S k -> x :: (repeat x k)

type ascii =
| Ascii of bool * bool * bool * bool * bool * bool * bool * bool

(** val n_of_digits : bool list -> n **)

let rec n_of_digits = function
| [] -> N0
| b :: l' ->
  N.add (if b then Npos XH else N0) (N.mul (Npos (XO XH)) (n_of_digits l'))

(** val n_of_ascii : ascii -> n **)

let n_of_ascii = function
| Ascii (a0, a1, a2, a3, a4, a5, a6, a7) ->
  n_of_digits
    (a0 :: (a1 :: (a2 :: (a3 :: (a4 :: (a5 :: (a6 :: (a7 :: []))))))))

type string =
| EmptyString
| String of ascii * string

(** val list_ascii_of_string : string -> ascii list **)

let rec list_ascii_of_string = function
| EmptyString -> []
| String (ch, s1) -> ch :: (list_ascii_of_string s1)

type ('e, 'a) outcome =
| Ok of 'a
| Err of 'e
| Panic
| UB

(** val bind :
    ('a1, 'a2) outcome -> ('a2 -> ('a1, 'a3) outcome) -> ('a1, 'a3) outcome **)

let bind x f =
  match x with
  | Ok a -> f a
  | Err e -> Err e
  | Panic -> Panic
  | UB -> UB

(** val unwrap : 'a2 option -> ('a1, 'a2) outcome **)

let unwrap = function
| Some a -> Ok a
| None -> Panic

(** val wrap8 : n -> n **)

let wrap8 x =
  N.modulo x (Npos (XO (XO (XO (XO (XO (XO (XO (XO XH)))))))))

(** val two32 : n **)

let two32 =
  Npos (XO (XO (XO (XO (XO (XO (XO (XO (XO (XO (XO (XO (XO (XO (XO (XO (XO
    (XO (XO (XO (XO (XO (XO (XO (XO (XO (XO (XO (XO (XO (XO (XO
    XH))))))))))))))))))))))))))))))))

(** val lenN : 'a1 list -> n **)

let lenN l =
  N.of_nat (length l)

(** val idx : 'a1 list -> n -> 'a1 option **)

let idx l i =
  if N.ltb i (lenN l) then nth_error l (N.to_nat i) else None

(** val index : 'a2 list -> n -> ('a1, 'a2) outcome **)

let index l i =
  unwrap (idx l i)

(** val takeN : n -> 'a1 list -> 'a1 list **)

let takeN n0 l =
  if N.leb (lenN l) n0 then l else firstn (N.to_nat n0) l

(** val dropN : n -> 'a1 list -> 'a1 list **)

let dropN n0 l =
  if N.leb (lenN l) n0 then [] else skipn (N.to_nat n0) l

(** val slice : 'a2 list -> n -> n -> ('a1, 'a2 list) outcome **)

let slice l a b =
  if (&&) (N.leb a b) (N.leb b (lenN l))
  then Ok (takeN (N.sub b a) (dropN a l))
  else Panic

(** val set_nth : 'a1 list -> nat -> 'a1 -> 'a1 list **)

let rec set_nth l i v =
  match l with
  | [] -> []
  | x :: r -> (match i with
               | O -> v :: r
               | S j -> x :: (set_nth r j v))

(** val invariant : bool -> bool -> bool -> ('a1, unit) outcome **)

let invariant unsafe_feature debug_assertions = function
| true -> Ok ()
| false ->
  if unsafe_feature then UB else if debug_assertions then Panic else Ok ()

type tok =
| TN of n
| TB of n list
| TS of n list

(** val sym : string -> n list **)

let sym s0 =
  map n_of_ascii (list_ascii_of_string s0)

(** val s : string -> tok **)

let s s0 =
  TS (sym s0)

(** val list_eqb : n list -> n list -> bool **)

let rec list_eqb a b =
  match a with
  | [] -> (match b with
           | [] -> true
           | _ :: _ -> false)
  | x :: a' ->
    (match b with
     | [] -> false
     | y :: b' -> (&&) (N.eqb x y) (list_eqb a' b'))

(** val is_sym : tok -> string -> bool **)

let is_sym t s0 =
  match t with
  | TS l -> list_eqb l (sym s0)
  | _ -> false

(** val bad : tok list **)

let bad =
  (s (String ((Ascii (true, false, true, true, false, false, true, false)),
    (String ((Ascii (true, true, true, true, false, false, true, false)),
    (String ((Ascii (false, false, true, false, false, false, true, false)),
    (String ((Ascii (true, false, true, false, false, false, true, false)),
    (String ((Ascii (false, false, true, true, false, false, true, false)),
    (String ((Ascii (true, false, true, true, false, true, false, false)),
    (String ((Ascii (false, true, false, false, false, false, true, false)),
    (String ((Ascii (true, false, false, false, false, false, true, false)),
    (String ((Ascii (false, false, true, false, false, false, true, false)),
    (String ((Ascii (true, false, true, true, false, true, false, false)),
    (String ((Ascii (true, false, false, true, false, false, true, false)),
    (String ((Ascii (false, true, true, true, false, false, true, false)),
    (String ((Ascii (false, false, false, false, true, false, true, false)),
    (String ((Ascii (true, false, true, false, true, false, true, false)),
    (String ((Ascii (false, false, true, false, true, false, true, false)),
    EmptyString))))))))))))))))))))))))))))))) :: []

(** val b01 : bool -> tok **)

let b01 b =
  TN (if b then Npos XH else N0)

(** val top_value : n list **)

let top_value =
  (Npos XH) :: ((Npos (XO XH)) :: ((Npos (XI XH)) :: ((Npos (XI (XO
    XH))) :: ((Npos (XI (XI XH))) :: ((Npos (XI (XI (XO XH)))) :: ((Npos (XI
    (XO (XO (XO XH))))) :: ((Npos (XI (XO (XO (XI XH))))) :: ((Npos (XO (XI
    (XI (XO (XO XH)))))) :: ((Npos (XI (XO (XO (XI (XI XH)))))) :: ((Npos (XO
    (XI (XI (XO (XI (XO XH))))))) :: ((Npos (XI (XO (XO (XO (XO (XO (XO
    XH)))))))) :: ((Npos (XO (XI (XO (XO (XO (XO (XI XH)))))))) :: ((Npos (XI
    (XI (XO (XO (XO (XI (XO (XO XH))))))))) :: ((Npos (XI (XO (XI (XO (XI (XI
    (XO (XI XH))))))))) :: ((Npos (XO (XO (XO (XO (XI (XO (XO (XI (XO
    XH)))))))))) :: ((Npos (XO (XI (XI (XO (XI (XO (XI (XO (XI
    XH)))))))))) :: ((Npos (XO (XI (XI (XO (XI (XO (XI (XO (XO (XO
    XH))))))))))) :: ((Npos (XI (XI (XO (XO (XO (XI (XO (XI (XI (XO
    XH))))))))))) :: ((Npos (XO (XO (XI (XO (XI (XO (XI (XO (XI (XI
    XH))))))))))) :: ((Npos (XI (XI (XI (XO (XO (XO (XO (XI (XI (XO (XO
    XH)))))))))))) :: ((Npos (XI (XI (XO (XO (XO (XI (XI (XO (XO (XO (XI
    XH)))))))))))) :: ((Npos (XI (XI (XO (XO (XI (XO (XO (XI (XI (XO (XI
    XH)))))))))))) :: ((Npos (XI (XI (XI (XI (XO (XI (XI (XI (XO (XI (XI
    XH)))))))))))) :: ((Npos (XI (XO (XI (XI (XO (XI (XI (XO (XO (XO (XO (XO
    XH))))))))))))) :: ((Npos (XO (XI (XO (XO (XI (XO (XO (XO (XO (XI (XO (XO
    XH))))))))))))) :: ((Npos (XO (XO (XO (XO (XO (XI (XI (XI (XI (XI (XO (XO
    XH))))))))))))) :: ((Npos (XI (XO (XI (XI (XI (XO (XI (XI (XI (XO (XI (XO
    XH))))))))))))) :: ((Npos (XI (XO (XI (XI (XO (XO (XO (XO (XO (XO (XO (XI
    XH))))))))))))) :: ((Npos (XO (XO (XI (XO (XI (XI (XI (XO (XO (XI (XO (XI
    XH))))))))))))) :: ((Npos (XO (XI (XO (XI (XI (XO (XO (XO (XI (XO (XI (XI
    XH))))))))))))) :: ((Npos (XI (XI (XO (XO (XO (XO (XO (XO (XO (XO (XO (XO
    (XO XH)))))))))))))) :: ((Npos (XO (XI (XI (XO (XI (XI (XO (XO (XI (XI
    (XO (XO (XO XH)))))))))))))) :: ((Npos (XO (XO (XI (XI (XI (XI (XO (XI
    (XO (XI (XI (XO (XO XH)))))))))))))) :: ((Npos (XI (XI (XO (XI (XI (XO
    (XO (XI (XO (XI (XO (XI (XO XH)))))))))))))) :: ((Npos (XO (XI (XI (XI
    (XI (XO (XI (XI (XO (XI (XI (XI (XO XH)))))))))))))) :: ((Npos (XO (XI
    (XI (XI (XO (XO (XO (XI (XI (XI (XO (XO (XI XH)))))))))))))) :: ((Npos
    (XO (XI (XI (XO (XI (XI (XO (XI (XO (XO (XO (XI (XI
    XH)))))))))))))) :: ((Npos (XO (XI (XO (XO (XO (XI (XI (XO (XO (XI (XI
    (XI (XI XH)))))))))))))) :: ((Npos (XI (XI (XI (XI (XI (XO (XO (XI (XO
    (XO (XI (XO (XO (XO XH))))))))))))))) :: ((Npos (XI (XI (XO (XI (XI (XI
    (XI (XO (XI (XI (XO (XI (XO (XO XH))))))))))))))) :: ((Npos (XO (XO (XO
    (XI (XO (XO (XO (XO (XI (XI (XO (XO (XI (XO XH))))))))))))))) :: ((Npos
    (XO (XI (XI (XO (XI (XO (XI (XO (XI (XI (XO (XI (XI (XO
    XH))))))))))))))) :: ((Npos (XO (XO (XO (XI (XI (XI (XI (XO (XO (XO (XI
    (XO (XO (XI XH))))))))))))))) :: ((Npos (XO (XO (XI (XO (XO (XO (XO (XI
    (XO (XI (XI (XI (XO (XI XH))))))))))))))) :: ((Npos (XI (XO (XO (XO (XI
    (XO (XO (XI (XI (XO (XO (XI (XI (XI XH))))))))))))))) :: ((Npos (XI (XO
    (XO (XI (XI (XI (XO (XI (XI (XO (XI (XO (XO (XO (XO
    XH)))))))))))))))) :: ((Npos (XO (XO (XO (XI (XI (XO (XO (XO (XI (XI (XO
    (XO (XI (XO (XO XH)))))))))))))))) :: ((Npos (XO (XI (XI (XI (XO (XO (XI
    (XI (XI (XO (XO (XO (XO (XI (XO XH)))))))))))))))) :: ((Npos (XO (XO (XI
    (XI (XI (XI (XI (XI (XI (XO (XO (XO (XI (XI (XO
    XH)))))))))))))))) :: ((Npos (XI (XO (XO (XI (XO (XO (XI (XI (XI (XI (XO
    (XO (XO (XO (XI XH)))))))))))))))) :: ((Npos (XI (XO (XI (XI (XI (XO (XI
    (XO (XI (XI (XI (XO (XI (XO (XI XH)))))))))))))))) :: ((Npos (XO (XI (XI
    (XO (XO (XI (XI (XI (XO (XO (XI (XI (XO (XI (XI
    XH)))))))))))))))) :: ((Npos (XI (XI (XI (XO (XI (XO (XO (XI (XO (XO (XI
    (XO (XO (XO (XO (XO XH))))))))))))))))) :: ((Npos (XO (XI (XI (XO (XO (XI
    (XO (XI (XO (XI (XI (XI (XI (XO (XO (XO XH))))))))))))))))) :: ((Npos (XI
    (XO (XO (XO (XI (XO (XI (XO (XI (XI (XO (XI (XI (XI (XO (XO
    XH))))))))))))))))) :: ((Npos (XI (XO (XO (XI (XI (XO (XI (XI (XO (XI (XO
    (XI (XI (XO (XI (XO XH))))))))))))))))) :: ((Npos (XO (XO (XO (XI (XO (XO
    (XO (XI (XI (XO (XI (XI (XI (XI (XI (XO XH))))))))))))))))) :: ((Npos (XI
    (XI (XI (XI (XO (XI (XO (XI (XI (XI (XO (XO (XO (XI (XO (XI
    XH))))))))))))))))) :: ((Npos (XI (XI (XI (XO (XO (XI (XO (XI (XI (XO (XI
    (XI (XO (XO (XI (XI XH))))))))))))))))) :: ((Npos (XO (XI (XO (XO (XI (XO
    (XI (XI (XI (XI (XO (XI (XI (XI (XI (XI XH))))))))))))))))) :: ((Npos (XO
    (XI (XO (XI (XI (XO (XO (XI (XO (XI (XI (XI (XO (XI (XO (XO (XO
    XH)))))))))))))))))) :: ((Npos (XO (XI (XI (XO (XI (XI (XI (XO (XO (XI
    (XI (XO (XO (XI (XI (XO (XO XH)))))))))))))))))) :: ((Npos (XO (XO (XO
    (XI (XO (XI (XI (XI (XI (XI (XO (XO (XO (XI (XO (XI (XO
    XH)))))))))))))))))) :: ((Npos (XI (XI (XI (XI (XI (XI (XI (XO (XI (XI
    (XI (XO (XO (XI (XI (XI (XO XH)))))))))))))))))) :: ((Npos (XI (XO (XO
    (XI (XI (XO (XI (XI (XI (XO (XO (XO (XI (XI (XO (XO (XI
    XH)))))))))))))))))) :: ((Npos (XO (XI (XO (XO (XO (XI (XO (XI (XI (XI
    (XO (XO (XO (XO (XO (XI (XI XH)))))))))))))))))) :: ((Npos (XI (XO (XO
    (XI (XI (XO (XO (XI (XI (XO (XI (XI (XI (XO (XI (XI (XI
    XH)))))))))))))))))) :: ((Npos (XO (XI (XI (XI (XO (XO (XO (XI (XO (XO
    (XO (XO (XO (XO (XI (XO (XO (XO XH))))))))))))))))))) :: ((Npos (XO (XI
    (XO (XI (XO (XI (XI (XO (XI (XO (XI (XI (XO (XI (XO (XI (XO (XO
    XH))))))))))))))))))) :: ((Npos (XI (XI (XI (XO (XO (XI (XO (XO (XI (XO
    (XI (XO (XO (XI (XO (XO (XI (XO XH))))))))))))))))))) :: ((Npos (XI (XI
    (XI (XI (XI (XO (XI (XI (XO (XO (XO (XI (XO (XI (XO (XI (XI (XO
    XH))))))))))))))))))) :: ((Npos (XO (XI (XO (XO (XO (XO (XI (XI (XI (XO
    (XO (XI (XI (XI (XO (XO (XO (XI XH))))))))))))))))))) :: ((Npos (XO (XI
    (XO (XO (XO (XI (XO (XO (XI (XO (XO (XI (XI (XO (XI (XI (XO (XI
    XH))))))))))))))))))) :: ((Npos (XO (XI (XO (XO (XI (XI (XI (XO (XO (XO
    (XO (XI (XO (XO (XO (XI (XI (XI XH))))))))))))))))))) :: ((Npos (XO (XI
    (XO (XI (XO (XO (XI (XO (XI (XO (XO (XI (XO (XO (XI (XO (XO (XO (XO
    XH)))))))))))))))))))) :: ((Npos (XO (XO (XI (XI (XO (XI (XI (XO (XI (XO
    (XI (XI (XI (XO (XO (XO (XI (XO (XO XH)))))))))))))))))))) :: ((Npos (XI
    (XI (XO (XO (XO (XO (XI (XI (XO (XI (XI (XO (XO (XO (XO (XO (XO (XI (XO
    XH)))))))))))))))))))) :: ((Npos (XO (XO (XO (XO (XI (XI (XI (XO (XI (XI
    (XI (XO (XO (XO (XO (XO (XI (XI (XO XH)))))))))))))))))))) :: ((Npos (XI
    (XO (XO (XI (XO (XO (XI (XI (XI (XO (XO (XO (XO (XI (XO (XO (XO (XO (XI
    XH)))))))))))))))))))) :: ((Npos (XI (XO (XI (XI (XI (XO (XI (XO (XO (XO
    (XO (XI (XI (XO (XI (XO (XI (XO (XI XH)))))))))))))))))))) :: ((Npos (XO
    (XO (XO (XO (XO (XO (XO (XO (XO (XI (XI (XI (XO (XI (XO (XI (XO (XI (XI
    XH)))))))))))))))))))) :: ((Npos (XO (XO (XI (XI (XO (XO (XI (XI (XI (XO
    (XI (XO (XO (XI (XO (XO (XO (XO (XO (XO XH))))))))))))))))))))) :: ((Npos
    (XO (XI (XI (XI (XO (XI (XO (XO (XI (XI (XO (XO (XO (XO (XI (XI (XI (XO
    (XO (XO XH))))))))))))))))))))) :: ((Npos (XO (XI (XI (XO (XO (XI (XI (XI
    (XI (XO (XO (XI (XO (XO (XO (XI (XI (XI (XO (XO
    XH))))))))))))))))))))) :: ((Npos (XO (XI (XI (XO (XI (XO (XO (XO (XO (XI
    (XI (XI (XI (XI (XI (XO (XI (XO (XI (XO XH))))))))))))))))))))) :: ((Npos
    (XO (XO (XI (XI (XO (XO (XI (XO (XO (XO (XI (XO (XO (XI (XO (XI (XI (XI
    (XI (XO XH))))))))))))))))))))) :: ((Npos (XI (XI (XI (XO (XO (XO (XO (XI
    (XI (XO (XO (XO (XO (XO (XO (XO (XO (XI (XO (XI
    XH))))))))))))))))))))) :: ((Npos (XI (XI (XI (XO (XO (XO (XI (XO (XI (XI
    (XO (XI (XI (XO (XO (XI (XO (XO (XI (XI XH))))))))))))))))))))) :: ((Npos
    (XO (XO (XI (XI (XI (XO (XO (XI (XI (XI (XI (XO (XI (XI (XI (XO (XI (XI
    (XI (XI XH))))))))))))))))))))) :: ((Npos (XI (XI (XO (XI (XO (XI (XO (XO
    (XI (XO (XI (XI (XI (XO (XO (XI (XO (XI (XO (XO (XO
    XH)))))))))))))))))))))) :: ((Npos (XI (XO (XO (XI (XO (XO (XI (XO (XI
    (XI (XO (XO (XI (XO (XO (XO (XO (XI (XI (XO (XO
    XH)))))))))))))))))))))) :: ((Npos (XO (XO (XI (XO (XO (XO (XO (XO (XO
    (XI (XO (XO (XO (XI (XI (XI (XI (XO (XO (XI (XO
    XH)))))))))))))))))))))) :: ((Npos (XO (XO (XO (XI (XI (XI (XO (XO (XO
    (XI (XO (XO (XI (XO (XO (XO (XO (XI (XI (XI (XO
    XH)))))))))))))))))))))) :: ((Npos (XO (XO (XI (XO (XO (XI (XO (XI (XI
    (XO (XI (XI (XO (XI (XO (XI (XO (XI (XO (XO (XI
    XH)))))))))))))))))))))) :: ((Npos (XO (XI (XI (XI (XI (XI (XI (XI (XO
    (XI (XI (XI (XI (XI (XO (XI (XI (XI (XI (XO (XI
    XH)))))))))))))))))))))) :: ((Npos (XI (XI (XI (XO (XI (XO (XO (XO (XO
    (XI (XO (XO (XI (XO (XI (XO (XI (XO (XI (XI (XI
    XH)))))))))))))))))))))) :: ((Npos (XO (XI (XI (XO (XO (XI (XI (XI (XI
    (XI (XO (XO (XI (XI (XI (XO (XI (XI (XO (XO (XO (XO
    XH))))))))))))))))))))))) :: ((Npos (XI (XO (XO (XO (XI (XI (XO (XI (XO
    (XI (XO (XO (XI (XI (XO (XO (XO (XI (XO (XI (XO (XO
    XH))))))))))))))))))))))) :: ((Npos (XI (XO (XO (XI (XO (XI (XO (XO (XO
    (XI (XI (XI (XI (XO (XO (XI (XI (XO (XO (XO (XI (XO
    XH))))))))))))))))))))))) :: ((Npos (XO (XO (XI (XO (XI (XO (XO (XI (XI
    (XI (XI (XO (XO (XO (XI (XI (XI (XO (XO (XI (XI (XO
    XH))))))))))))))))))))))) :: ((Npos (XO (XO (XO (XO (XI (XI (XI (XI (XI
    (XO (XO (XO (XO (XO (XI (XI (XO (XI (XO (XO (XO (XI
    XH))))))))))))))))))))))) :: ((Npos (XO (XI (XO (XO (XO (XI (XO (XO (XO
    (XI (XO (XO (XO (XI (XO (XI (XO (XO (XI (XI (XO (XI
    XH))))))))))))))))))))))) :: ((Npos (XI (XO (XI (XO (XO (XI (XO (XO (XI
    (XI (XI (XI (XI (XI (XI (XO (XI (XI (XI (XO (XI (XI
    XH))))))))))))))))))))))) :: ((Npos (XI (XI (XO (XO (XO (XO (XI (XO (XO
    (XI (XO (XO (XI (XI (XI (XO (XI (XI (XO (XO (XO (XO (XO
    XH)))))))))))))))))))))))) :: ((Npos (XI (XO (XI (XO (XO (XO (XI (XO (XI
    (XI (XI (XO (XI (XO (XO (XI (XO (XO (XO (XO (XI (XO (XO
    XH)))))))))))))))))))))))) :: ((Npos (XI (XO (XI (XI (XO (XO (XI (XI (XO
    (XO (XI (XI (XO (XO (XO (XO (XI (XI (XI (XI (XI (XO (XO
    XH)))))))))))))))))))))))) :: ((Npos (XI (XI (XO (XI (XI (XI (XI (XO (XO
    (XO (XI (XO (XI (XI (XI (XI (XO (XI (XI (XI (XO (XI (XO
    XH)))))))))))))))))))))))) :: ((Npos (XI (XO (XI (XO (XI (XO (XI (XO (XI
    (XI (XO (XO (XI (XI (XI (XO (XO (XO (XO (XO (XO (XO (XI
    XH)))))))))))))))))))))))) :: ((Npos (XI (XO (XO (XO (XI (XO (XO (XO (XO
    (XI (XO (XO (XI (XI (XO (XI (XI (XI (XO (XO (XI (XO (XI
    XH)))))))))))))))))))))))) :: ((Npos (XO (XI (XO (XI (XI (XI (XI (XO (XI
    (XO (XI (XI (XI (XO (XI (XI (XO (XO (XO (XI (XO (XI (XI
    XH)))))))))))))))))))))))) :: ((Npos (XO (XI (XO (XO (XI (XO (XI (XI (XO
    (XI (XI (XO (XO (XI (XO (XO (XO (XO (XO (XO (XO (XO (XO (XO
    XH))))))))))))))))))))))))) :: ((Npos (XO (XI (XI (XI (XO (XO (XI (XO (XO
    (XO (XI (XO (XO (XO (XI (XI (XI (XO (XO (XI (XI (XO (XO (XO
    XH))))))))))))))))))))))))) :: ((Npos (XO (XI (XO (XI (XO (XO (XO (XI (XI
    (XO (XO (XO (XI (XI (XI (XI (XI (XO (XI (XO (XI (XI (XO (XO
    XH))))))))))))))))))))))))) :: ((Npos (XO (XI (XO (XI (XI (XO (XO (XO (XO
    (XO (XO (XO (XI (XI (XI (XI (XO (XO (XI (XO (XI (XO (XI (XO
    XH))))))))))))))))))))))))) :: ((Npos (XI (XO (XI (XI (XI (XO (XO (XO (XO
    (XO (XO (XI (XO (XO (XO (XO (XI (XI (XI (XO (XI (XI (XI (XO
    XH))))))))))))))))))))))))) :: ((Npos (XO (XI (XI (XI (XO (XI (XI (XI (XO
    (XO (XO (XI (XO (XO (XO (XI (XO (XO (XI (XI (XI (XO (XO (XI
    XH))))))))))))))))))))))))) :: ((Npos (XO (XI (XO (XO (XI (XO (XI (XI (XI
    (XO (XO (XI (XO (XO (XI (XI (XI (XO (XI (XO (XO (XO (XI (XI
    XH))))))))))))))))))))))))) :: ((Npos (XI (XO (XO (XO (XI (XO (XI (XI (XO
    (XI (XO (XI (XO (XI (XO (XO (XI (XI (XO (XO (XI (XI (XI (XI
    XH))))))))))))))))))))))))) :: ((Npos (XO (XI (XO (XO (XO (XO (XO (XI (XI
    (XO (XI (XO (XI (XO (XO (XO (XI (XO (XI (XO (XO (XI (XO (XO (XO
    XH)))))))))))))))))))))))))) :: ((Npos (XI (XO (XI (XI (XO (XO (XO (XO
    (XO (XI (XI (XI (XI (XI (XI (XI (XI (XI (XO (XI (XI (XO (XI (XO (XO
    XH)))))))))))))))))))))))))) :: ((Npos (XI (XO (XI (XO (XO (XO (XI (XO
    (XO (XO (XI (XO (XO (XI (XI (XO (XO (XO (XO (XI (XI (XO (XO (XI (XO
    XH)))))))))))))))))))))))))) :: ((Npos (XO (XI (XO (XO (XI (XI (XO (XI
    (XO (XO (XI (XO (XI (XO (XI (XI (XO (XI (XO (XI (XI (XO (XI (XI (XO
    XH)))))))))))))))))))))))))) :: ((Npos (XO (XI (XO (XI (XI (XI (XI (XI
    (XI (XO (XO (XI (XO (XI (XI (XI (XI (XI (XO (XO (XO (XI (XO (XO (XI
    XH)))))))))))))))))))))))))) :: ((Npos (XI (XO (XI (XI (XO (XI (XO (XO
    (XO (XI (XI (XI (XO (XO (XI (XO (XO (XO (XI (XO (XI (XI (XI (XO (XI
    XH)))))))))))))))))))))))))) :: ((Npos (XI (XO (XI (XO (XO (XI (XI (XO
    (XO (XO (XI (XI (XI (XI (XO (XI (XO (XO (XI (XI (XO (XO (XI (XI (XI
    XH)))))))))))))))))))))))))) :: ((Npos (XO (XO (XI (XO (XI (XI (XI (XO
    (XO (XI (XO (XO (XO (XO (XO (XO (XO (XI (XI (XI (XO (XI (XO (XO (XO (XO
    XH))))))))))))))))))))))))))) :: ((Npos (XO (XO (XI (XO (XI (XI (XO (XI
    (XO (XI (XO (XO (XO (XO (XO (XO (XI (XO (XO (XI (XI (XO (XO (XI (XO (XO
    XH))))))))))))))))))))))))))) :: ((Npos (XO (XO (XI (XO (XI (XI (XO (XO
    (XO (XI (XI (XO (XI (XI (XO (XI (XO (XI (XI (XI (XO (XO (XO (XO (XI (XO
    XH))))))))))))))))))))))))))) :: ((Npos (XO (XO (XI (XO (XI (XO (XI (XI
    (XO (XI (XI (XI (XO (XI (XO (XO (XO (XO (XO (XO (XI (XO (XO (XI (XI (XO
    XH))))))))))))))))))))))))))) :: ((Npos (XI (XI (XO (XI (XO (XI (XI (XI
    (XI (XO (XO (XI (XI (XO (XO (XI (XO (XI (XI (XI (XI (XO (XO (XO (XO (XI
    XH))))))))))))))))))))))))))) :: ((Npos (XI (XI (XO (XI (XO (XI (XI (XI
    (XO (XI (XO (XO (XO (XO (XI (XO (XI (XI (XO (XI (XI (XI (XO (XI (XO (XI
    XH))))))))))))))))))))))))))) :: ((Npos (XI (XI (XO (XI (XO (XI (XI (XO
    (XO (XI (XI (XO (XI (XO (XO (XI (XI (XI (XI (XO (XO (XI (XI (XO (XI (XI
    XH))))))))))))))))))))))))))) :: ((Npos (XI (XI (XI (XO (XI (XI (XI (XO
    (XI (XO (XI (XO (XO (XI (XO (XO (XI (XO (XI (XO (XO (XI (XO (XO (XO (XO
    (XO XH)))))))))))))))))))))))))))) :: ((Npos (XO (XO (XO (XI (XO (XO (XI
    (XO (XI (XO (XO (XI (XO (XI (XO (XI (XI (XO (XI (XO (XI (XI (XI (XI (XO
    (XO (XO XH)))))))))))))))))))))))))))) :: ((Npos (XO (XO (XO (XI (XO (XO
    (XO (XO (XI (XI (XI (XO (XO (XO (XO (XO (XI (XI (XO (XI (XI (XO (XI (XI
    (XI (XO (XO XH)))))))))))))))))))))))))))) :: ((Npos (XO (XO (XO (XI (XO
    (XO (XO (XI (XO (XO (XI (XO (XI (XO (XI (XO (XI (XI (XI (XO (XI (XO (XI
    (XI (XO (XI (XO XH)))))))))))))))))))))))))))) :: ((Npos (XO (XO (XO (XI
    (XO (XO (XO (XO (XI (XO (XI (XI (XI (XO (XI (XI (XO (XO (XI (XI (XO (XI
    (XI (XI (XI (XI (XO XH)))))))))))))))))))))))))))) :: ((Npos (XI (XI (XI
    (XO (XI (XO (XI (XO (XO (XI (XI (XO (XO (XI (XO (XO (XO (XI (XI (XI (XI
    (XO (XO (XO (XI (XO (XI XH)))))))))))))))))))))))))))) :: ((Npos (XI (XI
    (XI (XO (XI (XI (XI (XI (XO (XI (XI (XO (XI (XI (XI (XI (XI (XO (XI (XI
    (XO (XI (XI (XO (XO (XI (XI XH)))))))))))))))))))))))))))) :: ((Npos (XO
    (XO (XO (XI (XO (XO (XO (XI (XO (XO (XI (XI (XI (XO (XI (XO (XI (XI (XI
    (XI (XI (XO (XI (XI (XI (XI (XI XH)))))))))))))))))))))))))))) :: ((Npos
    (XO (XO (XO (XO (XI (XO (XO (XI (XO (XI (XO (XO (XI (XI (XO (XI (XI (XO
    (XI (XO (XI (XI (XI (XO (XI (XO (XO (XO
    XH))))))))))))))))))))))))))))) :: ((Npos (XI (XI (XI (XI (XO (XI (XI (XI
    (XO (XI (XO (XI (XO (XI (XO (XI (XO (XO (XI (XO (XI (XI (XO (XO (XI (XI
    (XO (XO XH))))))))))))))))))))))))))))) :: ((Npos (XI (XI (XI (XI (XO (XI
    (XO (XI (XI (XO (XI (XO (XI (XO (XI (XO (XO (XO (XO (XO (XO (XI (XO (XO
    (XI (XO (XI (XO XH))))))))))))))))))))))))))))) :: ((Npos (XO (XO (XO (XO
    (XI (XO (XO (XO (XI (XI (XO (XI (XO (XI (XO (XO (XI (XO (XI (XI (XI (XI
    (XO (XO (XI (XI (XI (XO XH))))))))))))))))))))))))))))) :: ((Npos (XO (XO
    (XO (XO (XI (XO (XI (XI (XI (XO (XI (XO (XI (XO (XO (XO (XO (XO (XO (XO
    (XI (XO (XO (XI (XI (XO (XO (XI XH))))))))))))))))))))))))))))) :: ((Npos
    (XI (XI (XI (XI (XO (XI (XI (XO (XO (XI (XI (XI (XI (XI (XI (XO (XO (XI
    (XI (XI (XI (XO (XO (XO (XO (XO (XI (XI
    XH))))))))))))))))))))))))))))) :: ((Npos (XI (XI (XI (XI (XO (XI (XI (XI
    (XI (XI (XI (XO (XI (XO (XI (XO (XO (XI (XI (XI (XO (XI (XI (XI (XO (XI
    (XI (XI XH))))))))))))))))))))))))))))) :: ((Npos (XO (XO (XO (XO (XO (XI
    (XO (XI (XI (XO (XI (XI (XO (XI (XO (XO (XO (XI (XI (XO (XO (XO (XO (XO
    (XO (XI (XO (XO (XO XH)))))))))))))))))))))))))))))) :: ((Npos (XI (XI
    (XI (XI (XI (XO (XI (XO (XO (XI (XO (XO (XI (XI (XO (XO (XI (XO (XI (XI
    (XO (XI (XI (XO (XI (XO (XI (XO (XO
    XH)))))))))))))))))))))))))))))) :: ((Npos (XI (XI (XI (XI (XI (XO (XI
    (XI (XO (XO (XO (XO (XI (XO (XI (XO (XI (XI (XO (XI (XO (XI (XO (XO (XI
    (XO (XO (XI (XO XH)))))))))))))))))))))))))))))) :: ((Npos (XO (XO (XO
    (XO (XO (XI (XO (XI (XI (XI (XI (XI (XI (XI (XO (XO (XI (XO (XO (XI (XO
    (XO (XI (XO (XI (XO (XI (XI (XO
    XH)))))))))))))))))))))))))))))) :: ((Npos (XI (XI (XI (XI (XI (XO (XI
    (XI (XO (XI (XO (XO (XI (XO (XO (XI (XO (XO (XO (XO (XI (XO (XI (XI (XI
    (XO (XO (XO (XI XH)))))))))))))))))))))))))))))) :: ((Npos (XI (XI (XI
    (XI (XI (XO (XI (XI (XO (XO (XI (XO (XI (XO (XI (XI (XI (XI (XO (XI (XO
    (XO (XI (XI (XO (XI (XI (XO (XI
    XH)))))))))))))))))))))))))))))) :: ((Npos (XI (XI (XI (XI (XI (XO (XI
    (XO (XI (XO (XI (XI (XI (XO (XO (XI (XO (XI (XI (XO (XO (XO (XI (XO (XO
    (XO (XI (XI (XI XH)))))))))))))))))))))))))))))) :: ((Npos (XO (XO (XO
    (XO (XO (XO (XI (XO (XI (XO (XI (XI (XO (XI (XO (XI (XI (XO (XI (XI (XO
    (XO (XI (XO (XO (XI (XO (XO (XO (XO
    XH))))))))))))))))))))))))))))))) :: ((Npos (XO (XO (XO (XO (XO (XO (XI
    (XO (XO (XI (XO (XO (XO (XO (XO (XO (XI (XI (XI (XI (XO (XI (XI (XI (XO
    (XO (XO (XI (XO (XO XH))))))))))))))))))))))))))))))) :: ((Npos (XI (XI
    (XI (XI (XI (XI (XO (XI (XO (XO (XI (XI (XI (XO (XO (XO (XO (XI (XO (XI
    (XI (XI (XO (XO (XO (XO (XO (XO (XI (XO
    XH))))))))))))))))))))))))))))))) :: ((Npos (XO (XO (XO (XO (XO (XO (XI
    (XO (XO (XO (XI (XI (XO (XI (XI (XI (XI (XI (XI (XI (XI (XI (XO (XO (XO
    (XO (XO (XI (XI (XO XH))))))))))))))))))))))))))))))) :: ((Npos (XI (XI
    (XI (XI (XI (XI (XO (XI (XI (XO (XI (XI (XI (XO (XO (XO (XI (XI (XO (XO
    (XI (XO (XO (XO (XI (XO (XO (XO (XO (XI
    XH))))))))))))))))))))))))))))))) :: ((Npos (XI (XI (XI (XI (XI (XI (XO
    (XI (XO (XI (XO (XI (XI (XI (XO (XO (XO (XO (XO (XI (XO (XO (XI (XI (XO
    (XI (XO (XI (XO (XI XH))))))))))))))))))))))))))))))) :: ((Npos (XO (XO
    (XO (XO (XO (XO (XI (XO (XO (XI (XO (XI (XI (XO (XI (XI (XI (XO (XI (XO
    (XI (XI (XI (XO (XI (XO (XI (XO (XI (XI
    XH))))))))))))))))))))))))))))))) :: ((Npos (XO (XO (XO (XO (XO (XO (XO
    (XI (XO (XI (XI (XO (XI (XO (XI (XI (XO (XO (XI (XO (XI (XI (XO (XO (XI
    (XO (XO (XO (XO (XO (XO XH)))))))))))))))))))))))))))))))) :: ((Npos (XO
    (XO (XO (XO (XO (XO (XO (XI (XO (XI (XI (XO (XO (XO (XO (XI (XO (XO (XO
    (XO (XO (XI (XO (XO (XO (XI (XI (XI (XO (XO (XO
    XH)))))))))))))))))))))))))))))))) :: ((Npos (XO (XO (XO (XO (XO (XO (XO
    (XI (XO (XI (XO (XI (XI (XI (XI (XI (XO (XI (XI (XO (XI (XO (XI (XO (XO
    (XO (XI (XI (XI (XO (XO XH)))))))))))))))))))))))))))))))) :: ((Npos (XO
    (XO (XO (XO (XO (XO (XO (XI (XO (XI (XI (XO (XO (XO (XI (XO (XI (XO (XO
    (XI (XI (XI (XI (XI (XI (XI (XO (XI (XO (XI (XO
    XH)))))))))))))))))))))))))))))))) :: ((Npos (XO (XO (XO (XO (XO (XO (XO
    (XI (XO (XI (XI (XI (XO (XO (XI (XI (XI (XI (XO (XI (XO (XI (XO (XO (XI
    (XO (XI (XI (XI (XI (XO XH)))))))))))))))))))))))))))))))) :: ((Npos (XO
    (XO (XO (XO (XO (XO (XO (XI (XO (XI (XI (XO (XI (XO (XO (XI (XO (XI (XI
    (XO (XI (XO (XO (XO (XO (XO (XO (XO (XI (XO (XI
    XH)))))))))))))))))))))))))))))))) :: ((Npos (XO (XO (XO (XO (XO (XO (XO
    (XI (XO (XI (XI (XO (XO (XI (XO (XI (XI (XO (XI (XO (XO (XI (XI (XI (XO
    (XO (XI (XO (XO (XI (XI XH)))))))))))))))))))))))))))))))) :: ((Npos (XO
    (XO (XO (XO (XO (XO (XO (XI (XO (XI (XO (XI (XO (XI (XI (XO (XI (XO (XO
    (XI (XO (XO (XI (XI (XI (XI (XO (XI (XI (XI (XI
    XH)))))))))))))))))))))))))))))))) :: [])))))))))))))))))))))))))))))))))))))))))))))))))))))))))))))))))))))))))))))))))))))))))))))))))))))))))))))))))))))))))))))))))))))))))))))))))))))))))))))))))))))))))

(** val encoded_value_size : n **)

let encoded_value_size =
  Npos (XO (XI (XO (XI (XO (XI (XO XH)))))))

(** val len_max : n **)

let len_max =
  Npos (XO (XO (XO (XO (XO (XO (XO (XI (XO (XI (XO (XI (XO (XI (XI (XO (XI
    (XO (XO (XI (XO (XO (XI (XI (XI (XI (XO (XI (XI (XI (XI
    XH)))))))))))))))))))))))))))))))

(** val len_min_short : n **)

let len_min_short =
  Npos (XO (XI (XO XH)))

(** val len_min_conservative_short : n **)

let len_min_conservative_short =
  Npos (XO (XI (XO XH)))

(** val len_min_normal : n **)

let len_min_normal =
  Npos (XO (XI (XO (XO (XI XH)))))

(** val len_min_conservative_normal : n **)

let len_min_conservative_normal =
  Npos (XO (XO (XO (XO (XO (XO (XO XH)))))))

(** val len_min_long : n **)

let len_min_long =
  Npos (XO (XI (XO (XO (XI XH)))))

(** val len_min_conservative_long : n **)

let len_min_conservative_long =
  Npos (XO (XO (XO (XO (XO (XO (XO XH)))))))

(** val clz32 : n -> n **)

let clz32 x =
  N.sub (Npos (XO (XO (XO (XO (XO XH)))))) (N.size x)

(** val clz_table_loop : n list -> n -> n list -> n list **)

let rec clz_table_loop top i arr =
  match top with
  | [] -> arr
  | t :: r ->
    clz_table_loop r (N.add i (Npos XH))
      (set_nth arr (N.to_nat (clz32 t)) (N.add i (Npos XH)))

(** val clz_table : n list **)

let clz_table =
  clz_table_loop top_value N0
    (repeat N0 (S (S (S (S (S (S (S (S (S (S (S (S (S (S (S (S (S (S (S (S (S
      (S (S (S (S (S (S (S (S (S (S (S (S O))))))))))))))))))))))))))))))))))

(** val rank : n list -> n -> n **)

let rank l x =
  lenN (filter (fun t -> N.ltb t x) l)

type len_cfg =
| LenClz
| LenWhole

(** val encode_new :
    len_cfg -> bool -> bool -> n -> (unit, n option) outcome **)

let encode_new c unsafe_f dbg len =
  if N.eqb len N0
  then Ok (Some N0)
  else if N.ltb len_max len
       then Ok None
       else (match c with
             | LenClz ->
               let clz = clz32 len in
               bind (index clz_table (N.add clz (Npos XH))) (fun bottom ->
                 bind (index clz_table clz) (fun top ->
                   bind
                     (invariant unsafe_f dbg (N.leb bottom (lenN top_value)))
                     (fun _ ->
                     bind
                       (invariant unsafe_f dbg (N.leb top (lenN top_value)))
                       (fun _ ->
                       bind (invariant unsafe_f dbg (N.leb bottom top))
                         (fun _ ->
                         bind (slice top_value bottom top) (fun s0 -> Ok
                           (Some (wrap8 (N.add bottom (rank s0 len))))))))))
             | LenWhole -> Ok (Some (wrap8 (rank top_value len))))

(** val is_valid : n -> bool **)

let is_valid lvalue =
  N.ltb lvalue encoded_value_size

(** val range : n -> (unit, (n * n) option) outcome **)

let range lvalue =
  if N.eqb lvalue N0
  then bind (index top_value N0) (fun t0 -> Ok (Some (N0, t0)))
  else if N.leb encoded_value_size lvalue
       then Ok None
       else bind (index top_value (N.sub lvalue (Npos XH))) (fun b ->
              bind (index top_value lvalue) (fun t ->
                if N.ltb (N.add b (Npos XH)) two32
                then Ok (Some ((N.add b (Npos XH)), t))
                else Panic))

type parse_error =
| LengthIsTooLarge
| InvalidPrefix
| InvalidCharacter
| InvalidStringLength
| InvalidChecksum

(** val try_from_u32 :
    len_cfg -> bool -> bool -> n -> (parse_error, n) outcome **)

let try_from_u32 c unsafe_f dbg len =
  match encode_new c unsafe_f dbg len with
  | Ok a -> (match a with
             | Some v -> Ok v
             | None -> Err LengthIsTooLarge)
  | UB -> UB
  | _ -> Panic

type validity =
| TooSmall
| ValidWhenOptimistic
| Valid
| TooLarge

type len_mode =
| Optimistic
| Conservative

type buckets_kind =
| B48
| B128
| B256

(** val len_min : buckets_kind -> n **)

let len_min = function
| B48 -> len_min_short
| B128 -> len_min_normal
| B256 -> len_min_long

(** val len_min_conservative : buckets_kind -> n **)

let len_min_conservative = function
| B48 -> len_min_conservative_short
| B128 -> len_min_conservative_normal
| B256 -> len_min_conservative_long

(** val validity_new : buckets_kind -> n -> validity **)

let validity_new b len =
  if N.ltb len (len_min b)
  then TooSmall
  else if N.ltb len (len_min_conservative b)
       then ValidWhenOptimistic
       else if N.leb len len_max then Valid else TooLarge

(** val validity_is_err : validity -> bool **)

let validity_is_err = function
| TooSmall -> true
| TooLarge -> true
| _ -> false

(** val validity_is_err_on : validity -> len_mode -> bool **)

let validity_is_err_on v m =
  match v with
  | ValidWhenOptimistic ->
    (match m with
     | Optimistic -> false
     | Conservative -> true)
  | Valid -> false
  | _ -> true

type mcfg = { c_strict : bool; c_unsafe : bool; c_dbg : bool; c_len : len_cfg }

(** val cfg_of_flags : n list -> mcfg **)

let cfg_of_flags fl =
  let has = fun k -> existsb (N.eqb k) fl in
  { c_strict = (has (Npos XH)); c_unsafe = (has (Npos (XO XH))); c_dbg =
  (negb (has (Npos (XI XH)))); c_len =
  (if has (Npos (XO (XO XH))) then LenWhole else LenClz) }

(** val show_perr : parse_error -> tok **)

let show_perr = function
| LengthIsTooLarge ->
  s (String ((Ascii (false, false, true, true, false, false, true, false)),
    (String ((Ascii (true, false, true, false, false, true, true, false)),
    (String ((Ascii (false, true, true, true, false, true, true, false)),
    (String ((Ascii (true, true, true, false, false, true, true, false)),
    (String ((Ascii (false, false, true, false, true, true, true, false)),
    (String ((Ascii (false, false, false, true, false, true, true, false)),
    (String ((Ascii (true, false, false, true, false, false, true, false)),
    (String ((Ascii (true, true, false, false, true, true, true, false)),
    (String ((Ascii (false, false, true, false, true, false, true, false)),
    (String ((Ascii (true, true, true, true, false, true, true, false)),
    (String ((Ascii (true, true, true, true, false, true, true, false)),
    (String ((Ascii (false, false, true, true, false, false, true, false)),
    (String ((Ascii (true, false, false, false, false, true, true, false)),
    (String ((Ascii (false, true, false, false, true, true, true, false)),
    (String ((Ascii (true, true, true, false, false, true, true, false)),
    (String ((Ascii (true, false, true, false, false, true, true, false)),
    EmptyString))))))))))))))))))))))))))))))))
| InvalidPrefix ->
  s (String ((Ascii (true, false, false, true, false, false, true, false)),
    (String ((Ascii (false, true, true, true, false, true, true, false)),
    (String ((Ascii (false, true, true, false, true, true, true, false)),
    (String ((Ascii (true, false, false, false, false, true, true, false)),
    (String ((Ascii (false, false, true, true, false, true, true, false)),
    (String ((Ascii (true, false, false, true, false, true, true, false)),
    (String ((Ascii (false, false, true, false, false, true, true, false)),
    (String ((Ascii (false, false, false, false, true, false, true, false)),
    (String ((Ascii (false, true, false, false, true, true, true, false)),
    (String ((Ascii (true, false, true, false, false, true, true, false)),
    (String ((Ascii (false, true, true, false, false, true, true, false)),
    (String ((Ascii (true, false, false, true, false, true, true, false)),
    (String ((Ascii (false, false, false, true, true, true, true, false)),
    EmptyString))))))))))))))))))))))))))
| InvalidCharacter ->
  s (String ((Ascii (true, false, false, true, false, false, true, false)),
    (String ((Ascii (false, true, true, true, false, true, true, false)),
    (String ((Ascii (false, true, true, false, true, true, true, false)),
    (String ((Ascii (true, false, false, false, false, true, true, false)),
    (String ((Ascii (false, false, true, true, false, true, true, false)),
    (String ((Ascii (true, false, false, true, false, true, true, false)),
    (String ((Ascii (false, false, true, false, false, true, true, false)),
    (String ((Ascii (true, true, false, false, false, false, true, false)),
    (String ((Ascii (false, false, false, true, false, true, true, false)),
    (String ((Ascii (true, false, false, false, false, true, true, false)),
    (String ((Ascii (false, true, false, false, true, true, true, false)),
    (String ((Ascii (true, false, false, false, false, true, true, false)),
    (String ((Ascii (true, true, false, false, false, true, true, false)),
    (String ((Ascii (false, false, true, false, true, true, true, false)),
    (String ((Ascii (true, false, true, false, false, true, true, false)),
    (String ((Ascii (false, true, false, false, true, true, true, false)),
    EmptyString))))))))))))))))))))))))))))))))
| InvalidStringLength ->
  s (String ((Ascii (true, false, false, true, false, false, true, false)),
    (String ((Ascii (false, true, true, true, false, true, true, false)),
    (String ((Ascii (false, true, true, false, true, true, true, false)),
    (String ((Ascii (true, false, false, false, false, true, true, false)),
    (String ((Ascii (false, false, true, true, false, true, true, false)),
    (String ((Ascii (true, false, false, true, false, true, true, false)),
    (String ((Ascii (false, false, true, false, false, true, true, false)),
    (String ((Ascii (true, true, false, false, true, false, true, false)),
    (String ((Ascii (false, false, true, false, true, true, true, false)),
    (String ((Ascii (false, true, false, false, true, true, true, false)),
    (String ((Ascii (true, false, false, true, false, true, true, false)),
    (String ((Ascii (false, true, true, true, false, true, true, false)),
    (String ((Ascii (true, true, true, false, false, true, true, false)),
    (String ((Ascii (false, false, true, true, false, false, true, false)),
    (String ((Ascii (true, false, true, false, false, true, true, false)),
    (String ((Ascii (false, true, true, true, false, true, true, false)),
    (String ((Ascii (true, true, true, false, false, true, true, false)),
    (String ((Ascii (false, false, true, false, true, true, true, false)),
    (String ((Ascii (false, false, false, true, false, true, true, false)),
    EmptyString))))))))))))))))))))))))))))))))))))))
| InvalidChecksum ->
  s (String ((Ascii (true, false, false, true, false, false, true, false)),
    (String ((Ascii (false, true, true, true, false, true, true, false)),
    (String ((Ascii (false, true, true, false, true, true, true, false)),
    (String ((Ascii (true, false, false, false, false, true, true, false)),
    (String ((Ascii (false, false, true, true, false, true, true, false)),
    (String ((Ascii (true, false, false, true, false, true, true, false)),
    (String ((Ascii (false, false, true, false, false, true, true, false)),
    (String ((Ascii (true, true, false, false, false, false, true, false)),
    (String ((Ascii (false, false, false, true, false, true, true, false)),
    (String ((Ascii (true, false, true, false, false, true, true, false)),
    (String ((Ascii (true, true, false, false, false, true, true, false)),
    (String ((Ascii (true, true, false, true, false, true, true, false)),
    (String ((Ascii (true, true, false, false, true, true, true, false)),
    (String ((Ascii (true, false, true, false, true, true, true, false)),
    (String ((Ascii (true, false, true, true, false, true, true, false)),
    EmptyString))))))))))))))))))))))))))))))

(** val show_validity : validity -> tok **)

let show_validity = function
| TooSmall ->
  s (String ((Ascii (false, false, true, false, true, false, true, false)),
    (String ((Ascii (true, true, true, true, false, true, true, false)),
    (String ((Ascii (true, true, true, true, false, true, true, false)),
    (String ((Ascii (true, true, false, false, true, false, true, false)),
    (String ((Ascii (true, false, true, true, false, true, true, false)),
    (String ((Ascii (true, false, false, false, false, true, true, false)),
    (String ((Ascii (false, false, true, true, false, true, true, false)),
    (String ((Ascii (false, false, true, true, false, true, true, false)),
    EmptyString))))))))))))))))
| ValidWhenOptimistic ->
  s (String ((Ascii (false, true, true, false, true, false, true, false)),
    (String ((Ascii (true, false, false, false, false, true, true, false)),
    (String ((Ascii (false, false, true, true, false, true, true, false)),
    (String ((Ascii (true, false, false, true, false, true, true, false)),
    (String ((Ascii (false, false, true, false, false, true, true, false)),
    (String ((Ascii (true, true, true, false, true, false, true, false)),
    (String ((Ascii (false, false, false, true, false, true, true, false)),
    (String ((Ascii (true, false, true, false, false, true, true, false)),
    (String ((Ascii (false, true, true, true, false, true, true, false)),
    (String ((Ascii (true, true, true, true, false, false, true, false)),
    (String ((Ascii (false, false, false, false, true, true, true, false)),
    (String ((Ascii (false, false, true, false, true, true, true, false)),
    (String ((Ascii (true, false, false, true, false, true, true, false)),
    (String ((Ascii (true, false, true, true, false, true, true, false)),
    (String ((Ascii (true, false, false, true, false, true, true, false)),
    (String ((Ascii (true, true, false, false, true, true, true, false)),
    (String ((Ascii (false, false, true, false, true, true, true, false)),
    (String ((Ascii (true, false, false, true, false, true, true, false)),
    (String ((Ascii (true, true, false, false, false, true, true, false)),
    EmptyString))))))))))))))))))))))))))))))))))))))
| Valid ->
  s (String ((Ascii (false, true, true, false, true, false, true, false)),
    (String ((Ascii (true, false, false, false, false, true, true, false)),
    (String ((Ascii (false, false, true, true, false, true, true, false)),
    (String ((Ascii (true, false, false, true, false, true, true, false)),
    (String ((Ascii (false, false, true, false, false, true, true, false)),
    EmptyString))))))))))
| TooLarge ->
  s (String ((Ascii (false, false, true, false, true, false, true, false)),
    (String ((Ascii (true, true, true, true, false, true, true, false)),
    (String ((Ascii (true, true, true, true, false, true, true, false)),
    (String ((Ascii (false, false, true, true, false, false, true, false)),
    (String ((Ascii (true, false, false, false, false, true, true, false)),
    (String ((Ascii (false, true, false, false, true, true, true, false)),
    (String ((Ascii (true, true, true, false, false, true, true, false)),
    (String ((Ascii (true, false, true, false, false, true, true, false)),
    EmptyString))))))))))))))))

(** val out_or :
    ('a1, 'a2) outcome -> ('a2 -> tok list) -> ('a1 -> tok list) -> tok list **)

let out_or x f g =
  match x with
  | Ok a -> f a
  | Err e -> g e
  | Panic ->
    (s (String ((Ascii (false, false, false, false, true, false, true,
      false)), (String ((Ascii (true, false, false, false, false, false,
      true, false)), (String ((Ascii (false, true, true, true, false, false,
      true, false)), (String ((Ascii (true, false, false, true, false, false,
      true, false)), (String ((Ascii (true, true, false, false, false, false,
      true, false)), EmptyString))))))))))) :: []
  | UB ->
    (s (String ((Ascii (true, false, true, false, true, false, true, false)),
      (String ((Ascii (false, true, false, false, false, false, true,
      false)), EmptyString))))) :: []

(** val bk_of_variant : tok -> buckets_kind option **)

let bk_of_variant v =
  if is_sym v (String ((Ascii (true, true, false, false, true, false, true,
       false)), EmptyString))
  then Some B48
  else if (||)
            (is_sym v (String ((Ascii (false, true, true, true, false, false,
              true, false)), EmptyString)))
            (is_sym v (String ((Ascii (false, true, true, true, false, false,
              true, false)), (String ((Ascii (false, false, true, true,
              false, false, true, false)), EmptyString)))))
       then Some B128
       else if (||)
                 (is_sym v (String ((Ascii (false, false, true, true, false,
                   false, true, false)), EmptyString)))
                 (is_sym v (String ((Ascii (false, false, true, true, false,
                   false, true, false)), (String ((Ascii (false, false, true,
                   true, false, false, true, false)), EmptyString)))))
            then Some B256
            else None

(** val dispatch_len : mcfg -> tok -> tok list -> tok list option **)

let dispatch_len c op args =
  if is_sym op (String ((Ascii (false, false, true, true, false, true, true,
       false)), (String ((Ascii (true, false, true, false, false, true, true,
       false)), (String ((Ascii (false, true, true, true, false, true, true,
       false)), (String ((Ascii (true, true, true, true, true, false, true,
       false)), (String ((Ascii (false, true, true, true, false, true, true,
       false)), (String ((Ascii (true, false, true, false, false, true, true,
       false)), (String ((Ascii (true, true, true, false, true, true, true,
       false)), EmptyString))))))))))))))
  then (match args with
        | [] -> Some bad
        | t :: l ->
          (match t with
           | TN n0 ->
             (match l with
              | [] ->
                Some
                  (out_or (encode_new c.c_len c.c_unsafe c.c_dbg n0)
                    (fun o ->
                    match o with
                    | Some v ->
                      (s (String ((Ascii (true, true, false, false, true,
                        true, true, false)), (String ((Ascii (true, true,
                        true, true, false, true, true, false)), (String
                        ((Ascii (true, false, true, true, false, true, true,
                        false)), (String ((Ascii (true, false, true, false,
                        false, true, true, false)), EmptyString))))))))) :: ((TN
                        v) :: [])
                    | None ->
                      (s (String ((Ascii (false, true, true, true, false,
                        true, true, false)), (String ((Ascii (true, true,
                        true, true, false, true, true, false)), (String
                        ((Ascii (false, true, true, true, false, true, true,
                        false)), (String ((Ascii (true, false, true, false,
                        false, true, true, false)), EmptyString))))))))) :: [])
                    (fun _ -> bad))
              | _ :: _ -> Some bad)
           | _ -> Some bad))
  else if is_sym op (String ((Ascii (false, false, true, true, false, true,
            true, false)), (String ((Ascii (true, false, true, false, false,
            true, true, false)), (String ((Ascii (false, true, true, true,
            false, true, true, false)), (String ((Ascii (true, true, true,
            true, true, false, true, false)), (String ((Ascii (false, false,
            true, false, true, true, true, false)), (String ((Ascii (false,
            true, false, false, true, true, true, false)), (String ((Ascii
            (true, false, false, true, true, true, true, false)), (String
            ((Ascii (false, true, true, false, false, true, true, false)),
            (String ((Ascii (false, true, false, false, true, true, true,
            false)), (String ((Ascii (true, true, true, true, false, true,
            true, false)), (String ((Ascii (true, false, true, true, false,
            true, true, false)), EmptyString))))))))))))))))))))))
       then (match args with
             | [] -> Some bad
             | t :: l ->
               (match t with
                | TN n0 ->
                  (match l with
                   | [] ->
                     Some
                       (out_or (try_from_u32 c.c_len c.c_unsafe c.c_dbg n0)
                         (fun v ->
                         (s (String ((Ascii (true, true, true, true, false,
                           true, true, false)), (String ((Ascii (true, true,
                           false, true, false, true, true, false)),
                           EmptyString))))) :: ((TN v) :: [])) (fun e ->
                         (s (String ((Ascii (true, false, true, false, false,
                           true, true, false)), (String ((Ascii (false, true,
                           false, false, true, true, true, false)), (String
                           ((Ascii (false, true, false, false, true, true,
                           true, false)), EmptyString))))))) :: ((show_perr e) :: [])))
                   | _ :: _ -> Some bad)
                | _ -> Some bad))
       else if is_sym op (String ((Ascii (false, false, true, true, false,
                 true, true, false)), (String ((Ascii (true, false, true,
                 false, false, true, true, false)), (String ((Ascii (false,
                 true, true, true, false, true, true, false)), (String
                 ((Ascii (true, true, true, true, true, false, true, false)),
                 (String ((Ascii (true, true, false, false, false, true,
                 true, false)), (String ((Ascii (true, true, true, true,
                 false, true, true, false)), (String ((Ascii (false, false,
                 true, false, false, true, true, false)), (String ((Ascii
                 (true, false, true, false, false, true, true, false)),
                 EmptyString))))))))))))))))
            then (match args with
                  | [] -> Some bad
                  | t :: l ->
                    (match t with
                     | TN v ->
                       (match l with
                        | [] ->
                          if (&&) c.c_strict (negb (is_valid v))
                          then Some
                                 ((s (String ((Ascii (true, false, true,
                                    false, false, true, true, false)),
                                    (String ((Ascii (false, true, false,
                                    false, true, true, true, false)), (String
                                    ((Ascii (false, true, false, false, true,
                                    true, true, false)), EmptyString))))))) :: (
                                 (show_perr LengthIsTooLarge) :: []))
                          else Some
                                 (out_or (range v) (fun r ->
                                   app
                                     ((s (String ((Ascii (false, true, true,
                                        false, true, true, true, false)),
                                        (String ((Ascii (true, false, false,
                                        false, false, true, true, false)),
                                        (String ((Ascii (false, false, true,
                                        true, false, true, true, false)),
                                        (String ((Ascii (true, false, false,
                                        true, false, true, true, false)),
                                        (String ((Ascii (false, false, true,
                                        false, false, true, true, false)),
                                        EmptyString))))))))))) :: ((b01
                                                                    (is_valid
                                                                    v)) :: (
                                     (s (String ((Ascii (false, true, false,
                                       false, true, true, true, false)),
                                       (String ((Ascii (true, false, false,
                                       false, false, true, true, false)),
                                       (String ((Ascii (false, true, true,
                                       true, false, true, true, false)),
                                       (String ((Ascii (true, true, true,
                                       false, false, true, true, false)),
                                       (String ((Ascii (true, false, true,
                                       false, false, true, true, false)),
                                       EmptyString))))))))))) :: [])))
                                     (match r with
                                      | Some p ->
                                        let (lo, hi) = p in
                                        (s (String ((Ascii (true, true,
                                          false, false, true, true, true,
                                          false)), (String ((Ascii (true,
                                          true, true, true, false, true,
                                          true, false)), (String ((Ascii
                                          (true, false, true, true, false,
                                          true, true, false)), (String
                                          ((Ascii (true, false, true, false,
                                          false, true, true, false)),
                                          EmptyString))))))))) :: ((TN
                                        lo) :: ((TN hi) :: []))
                                      | None ->
                                        (s (String ((Ascii (false, true,
                                          true, true, false, true, true,
                                          false)), (String ((Ascii (true,
                                          true, true, true, false, true,
                                          true, false)), (String ((Ascii
                                          (false, true, true, true, false,
                                          true, true, false)), (String
                                          ((Ascii (true, false, true, false,
                                          false, true, true, false)),
                                          EmptyString))))))))) :: []))
                                   (fun _ -> bad))
                        | _ :: _ -> Some bad)
                     | _ -> Some bad))
            else if is_sym op (String ((Ascii (false, true, true, false,
                      true, true, true, false)), (String ((Ascii (true,
                      false, false, false, false, true, true, false)),
                      (String ((Ascii (false, false, true, true, false, true,
                      true, false)), (String ((Ascii (true, false, false,
                      true, false, true, true, false)), (String ((Ascii
                      (false, false, true, false, false, true, true, false)),
                      (String ((Ascii (true, false, false, true, false, true,
                      true, false)), (String ((Ascii (false, false, true,
                      false, true, true, true, false)), (String ((Ascii
                      (true, false, false, true, true, true, true, false)),
                      EmptyString))))))))))))))))
                 then (match args with
                       | [] -> Some bad
                       | v :: l ->
                         (match l with
                          | [] -> Some bad
                          | t :: l0 ->
                            (match t with
                             | TN n0 ->
                               (match l0 with
                                | [] ->
                                  (match bk_of_variant v with
                                   | Some bk ->
                                     let x = validity_new bk n0 in
                                     Some
                                     ((show_validity x) :: ((b01
                                                              (validity_is_err
                                                                x)) :: (
                                     (b01 (validity_is_err_on x Optimistic)) :: (
                                     (b01 (validity_is_err_on x Conservative)) :: []))))
                                   | None -> Some bad)
                                | _ :: _ -> Some bad)
                             | _ -> Some bad)))
                 else if is_sym op (String ((Ascii (false, false, true, true,
                           false, true, true, false)), (String ((Ascii (true,
                           false, false, true, false, true, true, false)),
                           (String ((Ascii (true, false, true, true, false,
                           true, true, false)), (String ((Ascii (true, false,
                           false, true, false, true, true, false)), (String
                           ((Ascii (false, false, true, false, true, true,
                           true, false)), (String ((Ascii (true, true, false,
                           false, true, true, true, false)),
                           EmptyString))))))))))))
                      then (match args with
                            | [] -> Some bad
                            | v :: l ->
                              (match l with
                               | [] ->
                                 (match bk_of_variant v with
                                  | Some bk ->
                                    Some ((TN (len_min bk)) :: ((TN
                                      (len_min_conservative bk)) :: ((TN
                                      len_max) :: [])))
                                  | None -> Some bad)
                               | _ :: _ -> Some bad))
                      else if is_sym op (String ((Ascii (false, false, true,
                                true, false, true, true, false)), (String
                                ((Ascii (true, false, true, false, false,
                                true, true, false)), (String ((Ascii (false,
                                true, true, true, false, true, true, false)),
                                (String ((Ascii (true, true, true, true,
                                true, false, true, false)), (String ((Ascii
                                (false, true, false, false, true, true, true,
                                false)), (String ((Ascii (false, false, true,
                                true, false, true, true, false)), (String
                                ((Ascii (true, false, true, false, false,
                                true, true, false)), (String ((Ascii (true,
                                true, true, true, true, false, true, false)),
                                (String ((Ascii (true, false, true, false,
                                false, true, true, false)), (String ((Ascii
                                (false, false, false, true, true, true, true,
                                false)), (String ((Ascii (false, false,
                                false, false, true, true, true, false)),
                                (String ((Ascii (true, false, true, false,
                                false, true, true, false)), (String ((Ascii
                                (true, true, false, false, false, true, true,
                                false)), (String ((Ascii (false, false, true,
                                false, true, true, true, false)), (String
                                ((Ascii (true, false, true, false, false,
                                true, true, false)), (String ((Ascii (false,
                                false, true, false, false, true, true,
                                false)),
                                EmptyString))))))))))))))))))))))))))))))))
                           then Some
                                  (app
                                    (flat_map (fun c0 ->
                                      match range c0 with
                                      | Ok a ->
                                        (match a with
                                         | Some p ->
                                           let (lo, _) = p in
                                           (s (String ((Ascii (false, true,
                                             false, false, true, true, true,
                                             false)), (String ((Ascii (true,
                                             false, true, false, true, true,
                                             true, false)), (String ((Ascii
                                             (false, true, true, true, false,
                                             true, true, false)),
                                             EmptyString))))))) :: ((TN
                                           lo) :: ((TN
                                           c0) :: ((s (String ((Ascii (true,
                                                     true, false, true, true,
                                                     true, false, false)),
                                                     EmptyString))) :: [])))
                                         | None ->
                                           (s (String ((Ascii (false, true,
                                             false, false, false, false,
                                             true, false)), (String ((Ascii
                                             (true, false, false, false,
                                             false, false, true, false)),
                                             (String ((Ascii (false, false,
                                             true, false, false, false, true,
                                             false)), EmptyString))))))) :: [])
                                      | _ ->
                                        (s (String ((Ascii (false, true,
                                          false, false, false, false, true,
                                          false)), (String ((Ascii (true,
                                          false, false, false, false, false,
                                          true, false)), (String ((Ascii
                                          (false, false, true, false, false,
                                          false, true, false)),
                                          EmptyString))))))) :: [])
                                      (map N.of_nat
                                        (seq O (N.to_nat encoded_value_size))))
                                    ((s (String ((Ascii (false, true, false,
                                       false, true, true, true, false)),
                                       (String ((Ascii (true, false, true,
                                       false, true, true, true, false)),
                                       (String ((Ascii (false, true, true,
                                       true, false, true, true, false)),
                                       EmptyString))))))) :: ((TN
                                    (N.add len_max (Npos XH))) :: ((s (String
                                                                    ((Ascii
                                                                    (false,
                                                                    true,
                                                                    true,
                                                                    true,
                                                                    false,
                                                                    true,
                                                                    true,
                                                                    false)),
                                                                    (String
                                                                    ((Ascii
                                                                    (true,
                                                                    true,
                                                                    true,
                                                                    true,
                                                                    false,
                                                                    true,
                                                                    true,
                                                                    false)),
                                                                    (String
                                                                    ((Ascii
                                                                    (false,
                                                                    true,
                                                                    true,
                                                                    true,
                                                                    false,
                                                                    true,
                                                                    true,
                                                                    false)),
                                                                    (String
                                                                    ((Ascii
                                                                    (true,
                                                                    false,
                                                                    true,
                                                                    false,
                                                                    false,
                                                                    true,
                                                                    true,
                                                                    false)),
                                                                    EmptyString))))))))) :: (
                                    (s (String ((Ascii (true, true, false,
                                      true, true, true, false, false)),
                                      EmptyString))) :: [])))))
                           else None

(** val dispatch : mcfg -> tok list -> tok list **)

let dispatch c = function
| [] -> bad
| op :: args ->
  (match dispatch_len c op args with
   | Some r -> r
   | None ->
     (s (String ((Ascii (true, false, true, true, false, false, true,
       false)), (String ((Ascii (true, true, true, true, false, false, true,
       false)), (String ((Ascii (false, false, true, false, false, false,
       true, false)), (String ((Ascii (true, false, true, false, false,
       false, true, false)), (String ((Ascii (false, false, true, true,
       false, false, true, false)), (String ((Ascii (true, false, true, true,
       false, true, false, false)), (String ((Ascii (true, false, true,
       false, true, false, true, false)), (String ((Ascii (false, true, true,
       true, false, false, true, false)), (String ((Ascii (true, true, false,
       true, false, false, true, false)), (String ((Ascii (false, true, true,
       true, false, false, true, false)), (String ((Ascii (true, true, true,
       true, false, false, true, false)), (String ((Ascii (true, true, true,
       false, true, false, true, false)), (String ((Ascii (false, true, true,
       true, false, false, true, false)), (String ((Ascii (true, false, true,
       true, false, true, false, false)), (String ((Ascii (true, true, true,
       true, false, false, true, false)), (String ((Ascii (false, false,
       false, false, true, false, true, false)),
       EmptyString))))))))))))))))))))))))))))))))) :: [])

(** val dispatch_flags : n list -> tok list -> tok list **)

let dispatch_flags fl line =
  dispatch (cfg_of_flags fl) line
