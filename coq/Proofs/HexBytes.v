(* Per-byte facts about the hex encoders/decoders: complete enumerations of the 256 byte values /
   the 65536 character pairs, evaluated by the kernel (vm_compute), for every table variant. *)
From Coq Require Import Lia.
From TlshV Require Import Model.Machine Gen.Tables Model.MHexStr Spec.SpecHex Proofs.ListN.

Definition bytes256 : list N := map N.of_nat (seq 0 256).

Lemma in_bytes256 x : x < 256 -> In x bytes256.
Proof. intros H. unfold bytes256. change 256%nat with (N.to_nat 256). apply in_N_seq. exact H. Qed.

Definition all_dec := [DecFull; DecHalf; DecQuarter; DecMin].
Definition all_enc := [EncFull; EncHalf; EncMin].

Lemma in_all_dec d : In d all_dec. Proof. destruct d; cbn; tauto. Qed.
Lemma in_all_enc e : In e all_enc. Proof. destruct e; cbn; tauto. Qed.

(* the reference value of a character pair; [hi_first] as in decode_pair *)
Definition spec_pair (hi_first : bool) (c0 c1 : N) : option N :=
  let ch := if hi_first then c0 else c1 in
  let cl := if hi_first then c1 else c0 in
  match hexdigit_val ch, hexdigit_val cl with
  | Some h, Some l => Some (16 * h + l)
  | _, _ => None
  end.

Definition out_eqb (a : outcome unit (option N)) (b : option N) : bool :=
  match a, b with
  | Ok (Some x), Some y => x =? y
  | Ok None, None => true
  | _, _ => false
  end.

Lemma out_eqb_eq a b : out_eqb a b = true -> a = Ok b.
Proof.
  destruct a as [[x|]| | |]; destruct b as [y|]; cbn; try discriminate; [|reflexivity].
  intros H. apply N.eqb_eq in H. subst. reflexivity.
Qed.

(* exhaustive(4 x 2 x 65536): every decoder variant implements the digit grammar *)
Lemma decode_sweep_ok :
  forallb (fun d => forallb (fun hf => forallb (fun c0 => forallb (fun c1 =>
    out_eqb (decode_pair d hf c0 c1) (spec_pair hf c0 c1)) bytes256) bytes256) [true; false]) all_dec = true.
Proof. vm_cast_no_check (@eq_refl bool true). Qed.

Lemma decode_pair_spec d hf c0 c1 :
  c0 < 256 -> c1 < 256 -> @decode_pair unit d hf c0 c1 = Ok (spec_pair hf c0 c1).
Proof.
  intros H0 H1. pose proof decode_sweep_ok as H.
  rewrite forallb_forall in H. specialize (H d (in_all_dec d)).
  rewrite forallb_forall in H. specialize (H hf (ltac:(destruct hf; cbn; tauto))).
  rewrite forallb_forall in H. specialize (H c0 (in_bytes256 _ H0)).
  rewrite forallb_forall in H. specialize (H c1 (in_bytes256 _ H1)).
  apply out_eqb_eq. exact H.
Qed.

(* the error type of decode_pair is irrelevant: it never returns Err *)
Definition retype {E F A} (x : outcome E A) : outcome F A :=
  match x with Ok a => Ok a | Err _ => Panic | Panic => Panic | UB => UB end.

Lemma decode_pair_retype {E} d hf c0 c1 : @decode_pair E d hf c0 c1 = retype (@decode_pair unit d hf c0 c1).
Proof.
  unfold decode_pair, tbl, index. destruct d;
    repeat match goal with |- context [unwrap (idx ?t ?c)] => destruct (idx t c); cbn [unwrap bind retype] end;
    try reflexivity;
    repeat match goal with |- context [if ?b then _ else _] => destruct b end; reflexivity.
Qed.

Lemma decode_pair_spec' {E} d hf c0 c1 :
  c0 < 256 -> c1 < 256 -> @decode_pair E d hf c0 c1 = Ok (spec_pair hf c0 c1).
Proof. intros H0 H1. rewrite decode_pair_retype, decode_pair_spec by assumption. reflexivity. Qed.

(* exhaustive(3 x 256): every encoder variant emits the reference digits *)
Definition pair_eqb (a : N * N) (b : list N) : bool :=
  match b with [x; y] => (fst a =? x) && (snd a =? y) | _ => false end.

Lemma encode_sweep_ok :
  forallb (fun e => forallb (fun x =>
    pair_eqb (enc_rev_pair e x) (hex_lo_hi x) && pair_eqb (enc_pair e x) (hex_hi_lo x)) bytes256) all_enc = true.
Proof. vm_cast_no_check (@eq_refl bool true). Qed.

Lemma pair_eqb_eq a x y : pair_eqb a [x; y] = true -> a = (x, y).
Proof.
  destruct a as [p q]. cbn. intros H. apply andb_prop in H as [H1 H2].
  apply N.eqb_eq in H1, H2. subst. reflexivity.
Qed.

Lemma enc_rev_pair_spec e x : x < 256 ->
  enc_rev_pair e x = (upper_digit (x mod 16), upper_digit (x / 16)).
Proof.
  intros Hx. pose proof encode_sweep_ok as H.
  rewrite forallb_forall in H. specialize (H e (in_all_enc e)).
  rewrite forallb_forall in H. specialize (H x (in_bytes256 _ Hx)).
  apply andb_prop in H as [H _]. apply pair_eqb_eq. exact H.
Qed.

Lemma enc_pair_spec e x : x < 256 ->
  enc_pair e x = (upper_digit (x / 16), upper_digit (x mod 16)).
Proof.
  intros Hx. pose proof encode_sweep_ok as H.
  rewrite forallb_forall in H. specialize (H e (in_all_enc e)).
  rewrite forallb_forall in H. specialize (H x (in_bytes256 _ Hx)).
  apply andb_prop in H as [_ H]. apply pair_eqb_eq. exact H.
Qed.

(* exhaustive(256): decoding the reference digits of a byte gives the byte back *)
Lemma roundtrip_sweep_ok :
  forallb (fun x =>
    match hex_hi_lo x, hex_lo_hi x with
    | [a; b], [c; d] =>
        match spec_pair true a b, spec_pair false c d with
        | Some y, Some z => (y =? x) && (z =? x)
        | _, _ => false
        end
        && is_upper_hexdigit a && is_upper_hexdigit b
    | _, _ => false
    end) bytes256 = true.
Proof. vm_cast_no_check (@eq_refl bool true). Qed.

Lemma spec_pair_hex_hi_lo x : x < 256 ->
  spec_pair true (upper_digit (x / 16)) (upper_digit (x mod 16)) = Some x /\
  spec_pair false (upper_digit (x mod 16)) (upper_digit (x / 16)) = Some x /\
  is_upper_hexdigit (upper_digit (x / 16)) = true /\ is_upper_hexdigit (upper_digit (x mod 16)) = true.
Proof.
  intros Hx. pose proof roundtrip_sweep_ok as H.
  rewrite forallb_forall in H. specialize (H x (in_bytes256 _ Hx)).
  unfold hex_hi_lo, hex_lo_hi in H.
  destruct (spec_pair true (upper_digit (x / 16)) (upper_digit (x mod 16))) as [y|]; [|discriminate].
  destruct (spec_pair false (upper_digit (x mod 16)) (upper_digit (x / 16))) as [z|]; [|discriminate].
  apply andb_prop in H as [H Hb]. apply andb_prop in H as [H Ha].
  apply andb_prop in H as [Hy Hz]. apply N.eqb_eq in Hy, Hz. subst. auto.
Qed.

(* exhaustive(65536): an accepted pair re-encodes to its own upper-cased characters; the
   decoded value is a byte *)
Lemma canonical_sweep_ok :
  forallb (fun c0 => forallb (fun c1 =>
    match spec_pair true c0 c1 with
    | Some x => (x <? 256) && (upper_digit (x / 16) =? upper c0) && (upper_digit (x mod 16) =? upper c1)
    | None => true
    end) bytes256) bytes256 = true.
Proof. vm_cast_no_check (@eq_refl bool true). Qed.

Lemma spec_pair_canonical c0 c1 x : c0 < 256 -> c1 < 256 -> spec_pair true c0 c1 = Some x ->
  x < 256 /\ upper_digit (x / 16) = upper c0 /\ upper_digit (x mod 16) = upper c1.
Proof.
  intros H0 H1 Hs. pose proof canonical_sweep_ok as H.
  rewrite forallb_forall in H. specialize (H c0 (in_bytes256 _ H0)).
  rewrite forallb_forall in H. specialize (H c1 (in_bytes256 _ H1)).
  rewrite Hs in H. apply andb_prop in H as [H Hc]. apply andb_prop in H as [Ha Hb].
  apply N.ltb_lt in Ha. apply N.eqb_eq in Hb, Hc. auto.
Qed.

(* swap_nibbles: involutive on bytes, and the value read nibble-swapped is the swap of the plain value *)
Lemma swap_sweep_ok :
  forallb (fun x => (swap_nibbles (swap_nibbles x) =? x) && (swap_nibbles x <? 256)
                    && (swap_nibbles x / 16 =? x mod 16) && (swap_nibbles x mod 16 =? x / 16)) bytes256 = true.
Proof. vm_cast_no_check (@eq_refl bool true). Qed.

Lemma swap_nibbles_facts x : x < 256 ->
  swap_nibbles (swap_nibbles x) = x /\ swap_nibbles x < 256 /\
  swap_nibbles x / 16 = x mod 16 /\ swap_nibbles x mod 16 = x / 16.
Proof.
  intros Hx. pose proof swap_sweep_ok as H.
  rewrite forallb_forall in H. specialize (H x (in_bytes256 _ Hx)).
  apply andb_prop in H as [H Hd]. apply andb_prop in H as [H Hc]. apply andb_prop in H as [Ha Hb].
  apply N.eqb_eq in Ha, Hc, Hd. apply N.ltb_lt in Hb. auto.
Qed.

Lemma spec_pair_swap c0 c1 : spec_pair false c0 c1 = spec_pair true c1 c0.
Proof. reflexivity. Qed.
