(* C01: the generator model refines the TLSH reference (Spec/SpecGenerate.v). *)
From Coq Require Import Lia ZArith ZifyBool ZifyN Sorted Permutation.
From TlshV Require Import Model.Machine Gen.Tables Model.MLength Model.MHash Model.MPearson
  Model.MGenerate Model.MFloat Model.MFinalize Spec.SpecTables Spec.SpecLength Spec.SpecGenerate
  Proofs.ListN Proofs.LengthProofs Proofs.HashCodec Proofs.GenUpdate Proofs.GenLen Proofs.Select
  Proofs.Finalize Proofs.FinalizeChar Proofs.GenProps.

Ltac Zify.zify_post_hook ::= Z.div_mod_to_equations.

(* ---- R1: everything regenerated from the source equals the reference's own copy ---- *)

Lemma subst_table_is_v_table : subst_table = v_table.
Proof. vm_compute. reflexivity. Qed.
Lemma top_value_is_topval : top_value = topval.
Proof. vm_compute. reflexivity. Qed.
(* the six increment lines of the source are the reference's six (salt, triplet) pairs, IN ANY ORDER:
   wrapping increments commute, so the order of the lines is immaterial (a reordering is a harmless rewrite) *)
Definition triplet_eqb (a b : N * (N * N * N)) : bool :=
  let '(s, (i, j, k)) := a in let '(s', (i', j', k')) := b in (s =? s') && (i =? i') && (j =? j') && (k =? k').
Lemma triplet_eqb_eq a b : triplet_eqb a b = true -> a = b.
Proof.
  destruct a as [s [[i j] k]], b as [s' [[i' j'] k']]. cbn. intros H.
  apply andb_prop in H as [H Hk]. apply andb_prop in H as [H Hj]. apply andb_prop in H as [Hs Hi].
  apply N.eqb_eq in Hs, Hi, Hj, Hk. subst. reflexivity.
Qed.
Fixpoint remove_first (x : N * (N * N * N)) (l : list (N * (N * N * N))) : option (list (N * (N * N * N))) :=
  match l with
  | [] => None
  | y :: r => if triplet_eqb x y then Some r else option_map (cons y) (remove_first x r)
  end.
Fixpoint perm_check (a b : list (N * (N * N * N))) : bool :=
  match a with
  | [] => match b with [] => true | _ => false end
  | x :: r => match remove_first x b with Some b' => perm_check r b' | None => false end
  end.
Lemma remove_first_perm x : forall l l', remove_first x l = Some l' -> Permutation l (x :: l').
Proof.
  induction l as [|y r IH]; intros l' H; cbn in H; [discriminate|].
  destruct (triplet_eqb x y) eqn:E.
  - injection H as <-. apply triplet_eqb_eq in E. subst. apply Permutation_refl.
  - destruct (remove_first x r) as [r'|]; [|discriminate]. injection H as <-.
    apply perm_trans with (y :: x :: r'); [apply perm_skip; apply IH; reflexivity|apply perm_swap].
Qed.
Lemma perm_check_sound : forall a b, perm_check a b = true -> Permutation a b.
Proof.
  induction a as [|x r IH]; intros b H; cbn in H.
  - destruct b; [apply perm_nil|discriminate].
  - destruct (remove_first x b) as [b'|] eqn:E; [|discriminate].
    apply Permutation_sym. apply perm_trans with (x :: b'); [apply remove_first_perm; exact E|].
    apply perm_skip. apply Permutation_sym. apply IH. exact H.
Qed.
Lemma triplets_are_spec : Permutation bucket_triplets spec_triplets.
Proof. apply perm_check_sound. vm_compute. reflexivity. Qed.
Lemma checksum_args_are_spec : checksum_args = (4, 3).
Proof. vm_compute. reflexivity. Qed.
Lemma constants_are_spec :
  pearson_initial_state = 0 /\ window_size = 5 /\ len_max = spec_max_len /\
  (forall bk, len_min bk = spec_min bk /\ len_min_conservative bk = spec_min_conservative bk /\
              min_nonzero bk = spec_min_nonzero bk /\ nb_of bk = spec_nb bk /\
              (b_kind bk =? 48) = match bk with B48 => true | _ => false end).
Proof. repeat split; try reflexivity; destruct bk; reflexivity. Qed.

(* ---- R2: the Pearson mappings ---- *)

Lemma sub_vt i : sub i = vt i.
Proof. unfold sub, vt. rewrite subst_table_is_v_table. reflexivity. Qed.

Lemma sub48_fold48 i : sub48 i = fold48 (vt i).
Proof.
  unfold sub48, subst_table_48, vt. rewrite subst_table_is_v_table.
  set (f := fun x => if 240 <=? x then 48 else x mod 48).
  change 0 with (f 0) at 1. rewrite map_nth. reflexivity.
Qed.

Lemma bmap_spec gc bk salt a b c : bmap gc bk salt a b c = spec_bucket bk salt a b c.
Proof.
  destruct constants_are_spec as [Hp [_ [_ Hbk]]]. destruct (Hbk bk) as [_ [_ [_ [_ Hk]]]].
  unfold bmap. rewrite Hk. unfold b_mapping_48, b_mapping_256, p_final_48, p_final_256, p_init.
  rewrite !p_update_double_eq. unfold p_update. rewrite Hp, N.lxor_0_l.
  destruct bk; cbn [spec_bucket]; unfold spec_pearson; rewrite ?sub48_fold48, ?sub_vt; reflexivity.
Qed.

Lemma b_mapping_256_spec dt salt a b c : b_mapping_256 dt salt a b c = spec_pearson salt a b c.
Proof.
  destruct constants_are_spec as [Hp _].
  unfold b_mapping_256, p_final_256, p_init. rewrite p_update_double_eq. unfold p_update.
  rewrite Hp, N.lxor_0_l, !sub_vt. reflexivity.
Qed.

Lemma wsel_wnth w i : wsel w i = wnth w i.
Proof. destruct w as [[[[a b] c] d] e]. reflexivity. Qed.

(* ---- R3/R4: one window at a time ---- *)

Definition mhits (gc : gcfg) (bk : buckets_kind) (w : window) : list N :=
  map (fun t => let '(salt, (i, j, k)) := t in bmap gc bk salt (wsel w i) (wsel w j) (wsel w k)) bucket_triplets.

Lemma mhits_spec gc bk w : Permutation (mhits gc bk w) (hits bk w).
Proof.
  unfold mhits, hits.
  rewrite (map_ext _ (fun t : N * (N * N * N) => let '(salt, (i, j, k)) := t in spec_bucket bk salt (wnth w i) (wnth w j) (wnth w k))).
  - apply Permutation_map. exact triplets_are_spec.
  - intros [salt [[i j] k]]. rewrite bmap_spec, !wsel_wnth. reflexivity.
Qed.

Lemma flat_map_perm {A} (f g : A -> list N) l : (forall x, Permutation (f x) (g x)) ->
  Permutation (flat_map f l) (flat_map g l).
Proof.
  intros H. induction l as [|x l IH]; cbn [flat_map]; [apply perm_nil|]. apply Permutation_app; [apply H|exact IH].
Qed.

Lemma bucket_updates_p_fold gc bk trip w buckets :
  bucket_updates_p gc bk trip w buckets =
  fold_left (increment_p gc bk)
    (map (fun t => let '(salt, (i, j, k)) := t in bmap gc bk salt (wsel w i) (wsel w j) (wsel w k)) trip) buckets.
Proof.
  revert buckets. induction trip as [|[salt [[i j] k]] r IH]; intros buckets; [reflexivity|].
  cbn [bucket_updates_p map fold_left]. apply IH.
Qed.

Definition wstep (gc : gcfg) (v : variant) (st : list N * list N) (w : window) : list N * list N :=
  (checksum_p gc v (fst st) (wsel w 4) (wsel w 3),
   fold_left (increment_p gc (v_bk v)) (mhits gc (v_bk v) w) (snd st)).

Lemma absorb_p_wstep gc v cks bk t0 t1 t2 t3 x :
  absorb_p gc v cks bk (t0, t1, t2, t3) x =
  (fst (wstep gc v (cks, bk) (t0, t1, t2, t3, x)), snd (wstep gc v (cks, bk) (t0, t1, t2, t3, x)), (t1, t2, t3, x)).
Proof.
  unfold absorb_p, wstep. rewrite checksum_args_are_spec. cbn [fst snd].
  rewrite bucket_updates_p_fold. reflexivity.
Qed.

Lemma windows_cons4 t0 t1 t2 t3 x d :
  windows (t0 :: t1 :: t2 :: t3 :: x :: d) = (t0, t1, t2, t3, x) :: windows (t1 :: t2 :: t3 :: x :: d).
Proof. reflexivity. Qed.

Lemma feed_windows_full gc v d : forall bk cks t0 t1 t2 t3 len,
  len + lenN d <= max_len ->
  let s' := feed gc v {| g_buckets := bk; g_len := len; g_cks := cks; g_tail := [t0; t1; t2; t3]; g_tail_len := 4 |} d in
  (g_cks s', g_buckets s') = fold_left (wstep gc v) (windows ([t0; t1; t2; t3] ++ d)) (cks, bk).
Proof.
  unfold feed. induction d as [|x d IH]; intros bk cks t0 t1 t2 t3 len Hl; cbn zeta.
  - reflexivity.
  - rewrite lenN_cons in Hl. cbn [fold_left app]. rewrite windows_cons4. cbn [fold_left].
    assert (Hstep : feed1 gc v {| g_buckets := bk; g_len := len; g_cks := cks; g_tail := [t0; t1; t2; t3]; g_tail_len := 4 |} x
                    = {| g_buckets := snd (wstep gc v (cks, bk) (t0, t1, t2, t3, x)); g_len := len + 1;
                         g_cks := fst (wstep gc v (cks, bk) (t0, t1, t2, t3, x));
                         g_tail := [t1; t2; t3; x]; g_tail_len := 4 |}).
    { unfold feed1. cbn [g_tail_len g_len g_tail g_cks g_buckets]. change (4 <? 4) with false. cbn iota.
      destruct (N.leb_spec max_len len); [lia|]. rewrite absorb_p_wstep. reflexivity. }
    rewrite Hstep.
    specialize (IH (snd (wstep gc v (cks, bk) (t0, t1, t2, t3, x))) (fst (wstep gc v (cks, bk) (t0, t1, t2, t3, x)))
                   t1 t2 t3 x (len + 1) ltac:(lia)).
    cbn zeta in IH. rewrite IH. cbn [app].
    destruct (wstep gc v (cks, bk) (t0, t1, t2, t3, x)) as [c b]. reflexivity.
Qed.

Lemma windows_short d : (length d < 5)%nat -> windows d = [].
Proof. destruct d as [|a [|b [|c [|e [|f r]]]]]; cbn [length]; intros H; try reflexivity. lia. Qed.

Lemma fresh_windows gc v d : is_variant v -> lenN d <= max_len + 4 ->
  (g_cks (fresh gc v d), g_buckets (fresh gc v d)) =
  fold_left (wstep gc v) (windows d) (g_cks (g_init gc v), g_buckets (g_init gc v)).
Proof.
  intros Hv Hl. unfold fresh.
  destruct (N.le_gt_cases (lenN d) 4) as [H4|H4].
  - rewrite fill_fold by (cbn; try reflexivity; lia). cbn [with_tail g_cks g_buckets].
    assert (Hw : windows d = []) by (apply windows_short; unfold lenN in H4; lia).
    rewrite Hw. reflexivity.
  - rewrite <- (takeN_dropN 4 d) at 1 2. rewrite feed_app.
    assert (Lp : lenN (takeN 4 d) = 4) by (rewrite lenN_takeN; lia).
    rewrite (fill_fold gc v (takeN 4 d)) by (cbn [g_init g_tail g_tail_len]; try reflexivity; lia).
    cbn [g_init g_tail g_tail_len]. rewrite Lp. rewrite takeN_0. cbn [app].
    assert (Hd : dropN (0 + 4) (repeat 0 (N.to_nat tail_size)) = []) by reflexivity.
    rewrite Hd, app_nil_r.
    destruct (tail4 _ Lp) as [t0 [t1 [t2 [t3 Et]]]]. rewrite Et. unfold with_tail. cbn [g_buckets g_len g_cks].
    pose proof (feed_windows_full gc v (dropN 4 d) (g_buckets (g_init gc v))
                  (g_cks (g_init gc v)) t0 t1 t2 t3 (g_len (g_init gc v))) as Hf.
    cbn zeta in Hf. change (0 + 4) with 4. rewrite Hf by (cbn [g_init g_len]; rewrite lenN_dropN; lia).
    rewrite <- Et, takeN_dropN. reflexivity.
Qed.

(* folding window steps: checksum and buckets evolve independently *)
Lemma fold_wstep_split gc v ws : forall cks bk,
  fold_left (wstep gc v) ws (cks, bk) =
  (fold_left (fun c w => checksum_p gc v c (wsel w 4) (wsel w 3)) ws cks,
   fold_left (increment_p gc (v_bk v)) (flat_map (mhits gc (v_bk v)) ws) bk).
Proof.
  induction ws as [|w ws IH]; intros cks bk; [reflexivity|].
  cbn [fold_left flat_map]. unfold wstep at 2. cbn [fst snd]. rewrite IH.
  rewrite fold_left_app. reflexivity.
Qed.

(* ---- counting ---- *)

Lemma nth_set_nth (l : list N) i k v : (i < length l)%nat ->
  nth k (set_nth l i v) 0 = if Nat.eqb k i then v else nth k l 0.
Proof.
  revert i k. induction l as [|x l IH]; intros i k Hi; [cbn in Hi; lia|].
  destruct i as [|i]; destruct k as [|k]; cbn [set_nth nth Nat.eqb]; try reflexivity.
  apply IH. cbn in Hi. lia.
Qed.

Lemma set_nth_oob (l : list N) i v : (length l <= i)%nat -> set_nth l i v = l.
Proof.
  revert i. induction l as [|x l IH]; intros i Hi; [reflexivity|].
  destruct i as [|i]; cbn [length] in Hi; [lia|]. cbn [set_nth]. f_equal. apply IH. lia.
Qed.

Lemma count_fold' gc bk L : forall arr k,
  k < nb_of bk -> (N.to_nat k < length arr)%nat -> nth (N.to_nat k) arr 0 < two32 ->
  nth (N.to_nat k) (fold_left (increment_p gc bk) L arr) 0 =
  (nth (N.to_nat k) arr 0 + N.of_nat (count_occ N.eq_dec L k)) mod two32.
Proof.
  induction L as [|i L IH]; intros arr k Hk Hlen Hb.
  - cbn [fold_left count_occ]. rewrite N.add_0_r. symmetry. apply N.mod_small. exact Hb.
  - cbn [fold_left count_occ].
    assert (Hlen' : (N.to_nat k < length (increment_p gc bk arr i))%nat).
    { unfold increment_p. destruct (_ && _ && _); [exact Hlen|]. rewrite set_nth_length. exact Hlen. }
    assert (Hstep : nth (N.to_nat k) (increment_p gc bk arr i) 0 =
                    if N.eq_dec i k then (nth (N.to_nat k) arr 0 + 1) mod two32 else nth (N.to_nat k) arr 0).
    { unfold increment_p.
      destruct (gc_low_mem gc && negb (b_constrained bk) && (nb_of bk <=? i)) eqn:Es.
      - destruct (N.eq_dec i k) as [->|Hne]; [|reflexivity].
        apply andb_prop in Es as [_ Es]. apply N.leb_le in Es. lia.
      - destruct (Nat.lt_ge_cases (N.to_nat i) (length arr)) as [Hi|Hi].
        + rewrite nth_set_nth by exact Hi.
          destruct (N.eq_dec i k) as [->|Hne]; [rewrite Nat.eqb_refl; reflexivity|].
          destruct (Nat.eqb_spec (N.to_nat k) (N.to_nat i)); [lia|reflexivity].
        + rewrite set_nth_oob by exact Hi. destruct (N.eq_dec i k) as [->|Hne]; [lia|reflexivity]. }
    rewrite IH; [|exact Hk|exact Hlen'|].
    + rewrite Hstep. destruct (N.eq_dec i k) as [->|Hne].
      * rewrite Nat2N.inj_succ. unfold two32. rewrite N.add_mod_idemp_l by discriminate. f_equal. lia.
      * reflexivity.
    + rewrite Hstep. destruct (N.eq_dec i k); [apply N.mod_lt; discriminate|exact Hb].
Qed.

Lemma nth_repeat0 n k : nth k (repeat 0 n) 0 = 0.
Proof. revert k. induction n as [|n IH]; intros k; destruct k; cbn [repeat nth]; auto. Qed.

(* effective buckets of a fresh generator = the reference counts *)
Lemma fresh_buckets_spec gc v d : is_variant v -> lenN d <= max_len + 4 ->
  takeN (nb_of (v_bk v)) (g_buckets (fresh gc v d)) = spec_counts (v_bk v) d.
Proof.
  intros Hv Hl. pose proof (fresh_windows gc v d Hv Hl) as Hw. rewrite fold_wstep_split in Hw.
  injection Hw as _ Hbk. rewrite Hbk. cbn [g_init g_buckets].
  destruct (nb_facts (v_bk v)) as [Hnb [Hnb8 [_ [Hnb256 _]]]]. cbn zeta in *.
  set (nb := nb_of (v_bk v)) in *.
  set (arr0 := repeat 0 (N.to_nat (phys_buckets gc (v_bk v)))).
  set (L := flat_map (mhits gc (v_bk v)) (windows d)).
  assert (Larr : length arr0 = N.to_nat (phys_buckets gc (v_bk v))) by (unfold arr0; apply repeat_length).
  assert (Hphys : nb <= phys_buckets gc (v_bk v)).
  { unfold phys_buckets. fold nb. destruct (gc_low_mem gc); lia. }
  assert (Lfold : forall L' arr, length (fold_left (increment_p gc (v_bk v)) L' arr) = length arr).
  { induction L' as [|i L' IH]; intros arr; [reflexivity|]. cbn [fold_left]. rewrite IH.
    unfold increment_p. destruct (_ && _ && _); [reflexivity|apply set_nth_length]. }
  apply nth_ext with (d := 0) (d' := 0).
  - rewrite takeN_firstn, firstn_length, Lfold, Larr. unfold spec_counts. cbn zeta. rewrite map_length, seq_length.
    rewrite <- Hnb. fold nb. lia.
  - intros n Hn. rewrite takeN_firstn, firstn_length, Lfold, Larr in Hn.
    rewrite takeN_firstn. rewrite nth_firstn' by lia.
    assert (Hnn : (n < N.to_nat nb)%nat) by lia.
    unfold spec_counts. cbn zeta. rewrite <- Hnb. fold nb.
    assert (Hmap : forall (f : nat -> N) m j, (j < m)%nat -> nth j (map f (seq 0 m)) 0 = f j).
    { intros f m j Hj. rewrite (nth_indep _ 0 (f 0%nat)) by (rewrite map_length, seq_length; exact Hj).
      rewrite map_nth, seq_nth by exact Hj. reflexivity. }
    rewrite Hmap by exact Hnn.
    replace n with (N.to_nat (N.of_nat n)) at 1 by lia.
    rewrite count_fold'; [| fold nb; lia | rewrite Larr; lia | unfold arr0; rewrite nth_repeat0; reflexivity ].
    unfold arr0. rewrite nth_repeat0. rewrite N.add_0_l. unfold spec_count, count_in, all_hits, two32.
    unfold L. f_equal. f_equal.
    apply (proj1 (Permutation_count_occ N.eq_dec _ _)). apply flat_map_perm. intros w. apply mhits_spec.
Qed.

Lemma checksum_p_spec gc v cks w : checksum_p gc v cks (wsel w 4) (wsel w 3) = spec_cks_step (v_bk v) cks w.
Proof.
  unfold checksum_p, spec_cks_step. rewrite !wsel_wnth.
  destruct cks as [|c0 [|c1 [|c2 [|? ?]]]]; try reflexivity.
  - rewrite bmap_spec. reflexivity.
  - rewrite bmap_spec, !b_mapping_256_spec. reflexivity.
Qed.

Lemma fresh_checksum_spec gc v d : is_variant v -> lenN d <= max_len + 4 ->
  g_cks (fresh gc v d) = spec_checksum v d.
Proof.
  intros Hv Hl. pose proof (fresh_windows gc v d Hv Hl) as Hw. rewrite fold_wstep_split in Hw.
  injection Hw as Hc _. rewrite Hc. unfold spec_checksum. cbn [g_init g_cks].
  generalize (repeat 0 (N.to_nat (v_cks v))) as c0. generalize (windows d) as ws.
  induction ws as [|w ws IH]; intros c0; [reflexivity|].
  cbn [fold_left]. rewrite checksum_p_spec. apply IH.
Qed.

(* ---- the refinement theorem ---- *)

Definition gen_outcome (r : hash + gen_error) : outcome gen_error hash :=
  match r with inl h => Ok h | inr e => Err e end.

Lemma gate_len_is_spec bk o n : n <= len_max ->
  gate_len bk o n = if spec_too_small bk o n && negb (o_small o) then Err TooSmallInput else Ok tt.
Proof.
  intros Hn. destruct constants_are_spec as [_ [_ [_ Hbk]]]. destruct (Hbk bk) as [Hmin [Hminc _]].
  rewrite gate_len_spec. cbn zeta. unfold validity_new, spec_too_small. rewrite Hmin, Hminc.
  destruct (N.ltb_spec n (spec_min bk)); cbn [orb validity_is_err_on].
  { destruct (o_small o); reflexivity. }
  destruct (N.ltb_spec n (spec_min_conservative bk)).
  { destruct (o_mode o); cbn [validity_is_err_on andb]; [reflexivity|]. destruct (o_small o); reflexivity. }
  destruct (N.leb_spec n len_max); [|lia]. cbn [validity_is_err_on]. destruct (o_mode o); reflexivity.
Qed.

Theorem finalize_value_is_reference gc v o d : is_variant v ->
  finalize_value v o (fresh gc v d) = gen_outcome (spec_tlsh v o d).
Proof.
  intros Hv. destruct constants_are_spec as [_ [_ [Hmax Hbk]]].
  destruct (Hbk (v_bk v)) as [_ [_ [Hnz [Hnb _]]]].
  unfold finalize_value, spec_tlsh. rewrite fin_len_fresh by exact Hv.
  change (N.of_nat (length d)) with (lenN d). rewrite <- Hmax.
  pose proof len_max_u32 as Hm32. pose proof max_len_val as Hmlv. unfold two32, u32_max in *.
  destruct (N.ltb_spec len_max (lenN d)) as [Hbig|Hsmall].
  - (* too large *)
    assert (Hg : gate_len (v_bk v) o (if lenN d <? 4294967296 then lenN d else 4294967295) = Err TooLargeInput).
    { apply gate_len_too_large. destruct (N.ltb_spec (lenN d) 4294967296); [exact Hbig|].
      assert (len_max < 4294967295) by (vm_compute; reflexivity). assumption. }
    rewrite Hg. reflexivity.
  - destruct (N.ltb_spec (lenN d) 4294967296); [|lia].
    rewrite gate_len_is_spec by exact Hsmall.
    destruct (spec_too_small (v_bk v) o (lenN d) && negb (o_small o)); [reflexivity|]. cbn [bind].
    rewrite fresh_buckets_spec by (assumption || lia).
    rewrite fresh_checksum_spec by (assumption || lia).
    unfold kq, spec_quartiles, kth. rewrite Hnb.
    set (counts := spec_counts (v_bk v) d).
    set (qa := nth (N.to_nat (spec_nb (v_bk v) / 4 - 1)) (isort counts) 0).
    set (qb := nth (N.to_nat (spec_nb (v_bk v) / 2 - 1)) (isort counts) 0).
    set (qc := nth (N.to_nat (3 * spec_nb (v_bk v) / 4 - 1)) (isort counts) 0).
    unfold gate_q3. destruct (N.eqb_spec qc 0) as [Hq0|Hq0].
    + destruct (o_quarter o) eqn:Eq; cbn [negb andb bind]; [|reflexivity].
      unfold gate_half. rewrite Hnz. unfold nonzero_count. change (lenN ?l) with (N.of_nat (length l)).
      rewrite Eq. destruct (_ && _); cbn [bind]; [reflexivity|].
      unfold spec_len_code, spec_length_code, code_of. rewrite <- top_value_is_topval.
      change (if N.of_nat (length d) =? 0 then Some 0 else least_code top_value (N.of_nat (length d)))
        with (code_of (N.of_nat (length d))).
      rewrite code_of_rank by exact Hsmall. reflexivity.
    + cbn [andb bind].
      unfold gate_half. rewrite Hnz. unfold nonzero_count. change (lenN ?l) with (N.of_nat (length l)).
      destruct (_ && _); cbn [bind]; [reflexivity|].
      unfold spec_len_code, spec_length_code, code_of. rewrite <- top_value_is_topval.
      change (if N.of_nat (length d) =? 0 then Some 0 else least_code top_value (N.of_nat (length d)))
        with (code_of (N.of_nat (length d))).
      rewrite code_of_rank by exact Hsmall. reflexivity.
Qed.

(* headline: for every selection function meeting std's contract, every configuration, variant,
   option setting and every way of feeding the data *)
Theorem gen_refines_reference sel gc v o pieces : sel_contract sel -> is_variant v ->
  (do s <- @update_all gen_error gc v (g_init gc v) pieces; finalize sel gc v o s)
  = gen_outcome (spec_tlsh v o (concat pieces)).
Proof.
  intros Hs Hv.
  destruct (chunking_irrelevant (E:=gen_error) gc v pieces _ (init_inv gc v Hv)) as [_ ->]. cbn [bind].
  fold (fresh gc v (concat pieces)).
  rewrite finalize_reachable by (assumption || (exists (concat pieces); reflexivity)).
  apply finalize_value_is_reference. exact Hv.
Qed.
