(* Proofs about Generator::update (C03, C11; used by C01, C10, C12, C15).
   Main result: on every state satisfying the representation invariant, update never panics and
   equals the byte-wise fold of [feed1]; hence update (update s a) b = update s (a ++ b). *)
From Coq Require Import Lia ZArith ZifyBool ZifyN.
From TlshV Require Import Model.Machine Gen.Tables Model.MLength Model.MHash Model.MPearson
  Model.MGenerate Proofs.ListN Proofs.HashCodec.

Ltac Zify.zify_post_hook ::= Z.div_mod_to_equations.

(* ---- table facts (regenerated table, closed by computation) ---- *)

Lemma subst_table_bytes : forallb (fun x => x <? 256) subst_table = true.
Proof. vm_compute. reflexivity. Qed.

Lemma subst_table_len : length subst_table = 256%nat.
Proof. vm_compute. reflexivity. Qed.

Lemma subst_table_48_le : forallb (fun x => x <=? 48) subst_table_48 = true.
Proof. vm_compute. reflexivity. Qed.

Lemma sub_lt i : sub i < 256.
Proof.
  unfold sub. destruct (Nat.lt_ge_cases (N.to_nat i) (length subst_table)) as [H|H].
  - pose proof subst_table_bytes as Hb. rewrite forallb_forall in Hb.
    apply N.ltb_lt. apply Hb. apply nth_In. exact H.
  - rewrite nth_overflow by exact H. lia.
Qed.

Lemma sub48_le i : sub48 i <= 48.
Proof.
  unfold sub48. destruct (Nat.lt_ge_cases (N.to_nat i) (length subst_table_48)) as [H|H].
  - pose proof subst_table_48_le as Hb. rewrite forallb_forall in Hb.
    apply N.leb_le. apply Hb. apply nth_In. exact H.
  - rewrite nth_overflow by exact H. lia.
Qed.

(* the double table is, by its defining loop, two single updates *)
Lemma p_update_double_eq dt s b1 b2 : p_update_double dt s b1 b2 = p_update (p_update s b1) b2.
Proof. destruct dt; reflexivity. Qed.

Lemma b_mapping_256_lt dt a b c d : b_mapping_256 dt a b c d < 256.
Proof. unfold b_mapping_256, p_final_256, p_update. apply sub_lt. Qed.

Lemma b_mapping_48_le dt a b c d : b_mapping_48 dt a b c d <= 48.
Proof. unfold b_mapping_48, p_final_48. apply sub48_le. Qed.

Lemma bmap_double gc gc' bk a b c d :
  gc_double gc = true -> gc_double gc' = false -> bmap gc bk a b c d = bmap gc' bk a b c d.
Proof.
  intros H H'. unfold bmap, b_mapping_48, b_mapping_256. rewrite H, H', !p_update_double_eq. reflexivity.
Qed.

(* the bucket index always lies inside the physical bucket array unless increment skips it *)
Lemma bmap_in_range gc bk a b c d :
  let i := bmap gc bk a b c d in
  (gc_low_mem gc && negb (b_constrained bk) && (nb_of bk <=? i) = true) \/ i < phys_buckets gc bk.
Proof.
  cbn zeta. unfold phys_buckets, bmap.
  destruct (gc_low_mem gc); cbn [andb].
  - destruct bk; cbn [b_kind b_constrained nb_of].
    + change (b_mapping_kind_short =? 48) with true. cbn [negb andb].
      pose proof (b_mapping_48_le (gc_double gc) a b c d).
      destruct (N.leb_spec num_buckets_short (b_mapping_48 (gc_double gc) a b c d)); [left; reflexivity|right; assumption].
    + change (b_mapping_kind_normal =? 48) with false. cbn [negb andb].
      destruct (N.leb_spec num_buckets_normal (b_mapping_256 (gc_double gc) a b c d)); [left; reflexivity|right; assumption].
    + change (b_mapping_kind_long =? 48) with false. right. apply b_mapping_256_lt.
  - right. destruct (b_kind bk =? 48).
    + pose proof (b_mapping_48_le (gc_double gc) a b c d). lia.
    + apply b_mapping_256_lt.
Qed.

(* ---- pure counterparts ---- *)

Definition increment_p (gc : gcfg) (bk : buckets_kind) (buckets : list N) (i : N) : list N :=
  if gc_low_mem gc && negb (b_constrained bk) && (nb_of bk <=? i) then buckets
  else set_nth buckets (N.to_nat i) (wrap32 (nth (N.to_nat i) buckets 0 + 1)).

Lemma set_nth_length {A} (l : list A) i v : length (set_nth l i v) = length l.
Proof.
  revert i. induction l as [|x l IH]; intros i; [reflexivity|].
  destruct i; cbn [set_nth length]; [reflexivity|]. rewrite IH. reflexivity.
Qed.

Lemma lenN_set_nth {A} (l : list A) i v : lenN (set_nth l i v) = lenN l.
Proof. unfold lenN. rewrite set_nth_length. reflexivity. Qed.

Lemma increment_ok {E} gc bk buckets a b c d :
  lenN buckets = phys_buckets gc bk ->
  @increment E gc bk buckets (bmap gc bk a b c d) = Ok (increment_p gc bk buckets (bmap gc bk a b c d)).
Proof.
  intros Hl. unfold increment, increment_p.
  destruct (bmap_in_range gc bk a b c d) as [Hs|Hr].
  - rewrite Hs. reflexivity.
  - destruct (gc_low_mem gc && negb (b_constrained bk) && (nb_of bk <=? bmap gc bk a b c d)); [reflexivity|].
    unfold index. rewrite idx_nth by (rewrite Hl; exact Hr). reflexivity.
Qed.

Lemma increment_p_len gc bk buckets i : lenN (increment_p gc bk buckets i) = lenN buckets.
Proof. unfold increment_p. destruct (_ && _ && _); [reflexivity|apply lenN_set_nth]. Qed.

Definition cks_wf (v : variant) (cks : list N) : Prop :=
  (v_cks v = 1 /\ exists c0, cks = [c0]) \/ (v_cks v = 3 /\ exists c0 c1 c2, cks = [c0; c1; c2]).

Definition checksum_p (gc : gcfg) (v : variant) (cks : list N) (curr prev : N) : list N :=
  match cks with
  | [c0] => [bmap gc (v_bk v) 0 curr prev c0]
  | [c0; c1; c2] =>
      let n0 := bmap gc (v_bk v) 0 curr prev c0 in
      let n1 := b_mapping_256 (gc_double gc) n0 curr prev c1 in
      let n2 := b_mapping_256 (gc_double gc) n1 curr prev c2 in
      [n0; n1; n2]
  | _ => cks
  end.

Lemma checksum_ok {E} gc v cks curr prev : cks_wf v cks ->
  @checksum_update E gc v cks curr prev = Ok (checksum_p gc v cks curr prev) /\
  cks_wf v (checksum_p gc v cks curr prev).
Proof.
  intros [[Hv [c0 ->]]|[Hv [c0 [c1 [c2 ->]]]]]; cbn [checksum_update checksum_p]; (split; [reflexivity|]).
  - left. eauto.
  - right. split; [exact Hv|]. eauto.
Qed.

Fixpoint bucket_updates_p (gc : gcfg) (bk : buckets_kind) (trip : list (N * (N * N * N)))
  (w : N * N * N * N * N) (buckets : list N) : list N :=
  match trip with
  | [] => buckets
  | (salt, (i, j, k)) :: r =>
      bucket_updates_p gc bk r w (increment_p gc bk buckets (bmap gc bk salt (wsel w i) (wsel w j) (wsel w k)))
  end.

Lemma bucket_updates_ok {E} gc bk trip w buckets :
  lenN buckets = phys_buckets gc bk ->
  @bucket_updates E gc bk trip w buckets = Ok (bucket_updates_p gc bk trip w buckets) /\
  lenN (bucket_updates_p gc bk trip w buckets) = phys_buckets gc bk.
Proof.
  revert buckets. induction trip as [|[salt [[i j] k]] r IH]; intros buckets Hl.
  - split; [reflexivity|exact Hl].
  - cbn [bucket_updates bucket_updates_p]. rewrite increment_ok by exact Hl. cbn [bind].
    apply IH. rewrite increment_p_len. exact Hl.
Qed.

Definition absorb_p (gc : gcfg) (v : variant) (cks buckets : list N) (w4 : N * N * N * N) (b4 : N)
  : list N * list N * (N * N * N * N) :=
  let '(b0, b1, b2, b3) := w4 in
  let w := (b0, b1, b2, b3, b4) in
  (checksum_p gc v cks (wsel w (fst checksum_args)) (wsel w (snd checksum_args)),
   bucket_updates_p gc (v_bk v) bucket_triplets w buckets,
   (b1, b2, b3, b4)).

Lemma absorb_ok {E} gc v cks buckets w4 b4 :
  cks_wf v cks -> lenN buckets = phys_buckets gc (v_bk v) ->
  @absorb E gc v cks buckets w4 b4 = Ok (absorb_p gc v cks buckets w4 b4) /\
  cks_wf v (fst (fst (absorb_p gc v cks buckets w4 b4))) /\
  lenN (snd (fst (absorb_p gc v cks buckets w4 b4))) = phys_buckets gc (v_bk v).
Proof.
  intros Hc Hb. destruct w4 as [[[b0 b1] b2] b3]. unfold absorb, absorb_p.
  destruct (checksum_ok (E:=E) gc v cks (wsel (b0, b1, b2, b3, b4) (fst checksum_args))
              (wsel (b0, b1, b2, b3, b4) (snd checksum_args)) Hc) as [-> Hc'].
  cbn [bind].
  destruct (bucket_updates_ok (E:=E) gc (v_bk v) bucket_triplets (b0, b1, b2, b3, b4) buckets Hb) as [-> Hb'].
  cbn [bind fst snd]. auto.
Qed.

(* ---- byte-wise characterisation ---- *)

Definition ginv (gc : gcfg) (v : variant) (s : gstate) : Prop :=
  lenN (g_tail s) = 4 /\ g_tail_len s <= 4 /\ g_len s <= max_len /\
  cks_wf v (g_cks s) /\ lenN (g_buckets s) = phys_buckets gc (v_bk v).

Definition feed1 (gc : gcfg) (v : variant) (s : gstate) (x : N) : gstate :=
  if g_tail_len s <? 4 then
    with_tail s (set_nth (g_tail s) (N.to_nat (g_tail_len s)) x) (g_tail_len s + 1)
  else if max_len <=? g_len s then s
  else
    match g_tail s with
    | [t0; t1; t2; t3] =>
        let '(c, b, _) := absorb_p gc v (g_cks s) (g_buckets s) (t0, t1, t2, t3) x in
        {| g_buckets := b; g_len := g_len s + 1; g_cks := c; g_tail := [t1; t2; t3; x];
           g_tail_len := g_tail_len s |}
    | _ => s
    end.

Definition feed (gc : gcfg) (v : variant) (s : gstate) (data : list N) : gstate :=
  fold_left (feed1 gc v) data s.

Lemma tail4 (t : list N) : lenN t = 4 -> exists t0 t1 t2 t3, t = [t0; t1; t2; t3].
Proof.
  intros H. apply lenN_length in H. destruct t as [|a [|b [|c [|d [|e r]]]]]; try discriminate. eauto.
Qed.

Lemma max_len_val : max_len = 4294967292. Proof. reflexivity. Qed.
Lemma tail_size_val : tail_size = 4. Proof. reflexivity. Qed.

Lemma feed1_inv gc v s x : ginv gc v s -> ginv gc v (feed1 gc v s x).
Proof.
  intros [Ht [Htl [Hl [Hc Hb]]]]. unfold feed1.
  destruct (N.ltb_spec (g_tail_len s) 4) as [H4|H4].
  - unfold ginv, with_tail. cbn [g_tail g_tail_len g_len g_cks g_buckets].
    rewrite lenN_set_nth. repeat split; try assumption. lia.
  - destruct (N.leb_spec max_len (g_len s)) as [Hm|Hm]; [unfold ginv; auto|].
    destruct (tail4 _ Ht) as [t0 [t1 [t2 [t3 Et]]]]. rewrite Et.
    destruct (absorb_ok (E:=unit) gc v (g_cks s) (g_buckets s) (t0, t1, t2, t3) x Hc Hb) as [_ [Hc' Hb']].
    destruct (absorb_p gc v (g_cks s) (g_buckets s) (t0, t1, t2, t3) x) as [[c b] w].
    cbn [fst snd] in *. unfold ginv. cbn [g_tail g_tail_len g_len g_cks g_buckets].
    repeat split; try assumption; try reflexivity. lia.
Qed.

Lemma feed_inv gc v data : forall s, ginv gc v s -> ginv gc v (feed gc v s data).
Proof.
  unfold feed. induction data as [|x data IH]; intros s H; [exact H|].
  cbn [fold_left]. apply IH. apply feed1_inv. exact H.
Qed.

Lemma feed_app gc v s a b : feed gc v s (a ++ b) = feed gc v (feed gc v s a) b.
Proof. unfold feed. apply fold_left_app. Qed.

(* filling the tail: the first (4 - tail_len) bytes only touch tail and tail_len *)
Lemma set_nth_split (t : list N) (tl : N) x :
  tl < lenN t ->
  set_nth t (N.to_nat tl) x = takeN tl t ++ [x] ++ dropN (tl + 1) t.
Proof.
  intros H. rewrite takeN_firstn, dropN_skipn. unfold lenN in H.
  replace (N.to_nat (tl + 1)) with (S (N.to_nat tl)) by lia.
  assert (Hn' : (N.to_nat tl < length t)%nat) by lia. clear H.
  revert Hn'. generalize (N.to_nat tl) as n. intros n Hn'.
  revert t Hn'. induction n as [|n IH]; intros t Hn; destruct t as [|y t]; cbn [length] in Hn; try lia.
  - reflexivity.
  - cbn [set_nth firstn skipn app]. f_equal. apply IH. lia.
Qed.

Lemma fill_fold gc v data : forall s,
  lenN (g_tail s) = 4 -> g_tail_len s + lenN data <= 4 ->
  feed gc v s data =
  with_tail s (takeN (g_tail_len s) (g_tail s) ++ data ++ dropN (g_tail_len s + lenN data) (g_tail s))
              (g_tail_len s + lenN data).
Proof.
  unfold feed. induction data as [|x data IH]; intros s Ht Hl.
  - cbn [fold_left app]. change (lenN []) with 0. rewrite !N.add_0_r.
    rewrite takeN_dropN. destruct s; reflexivity.
  - rewrite lenN_cons in Hl. cbn [fold_left].
    assert (Hlt : g_tail_len s < 4) by lia.
    unfold feed1 at 2. destruct (N.ltb_spec (g_tail_len s) 4); [|lia].
    rewrite IH; unfold with_tail; cbn [g_tail g_tail_len g_buckets g_len g_cks];
      [|rewrite lenN_set_nth; exact Ht|lia].
    rewrite lenN_cons. f_equal; [|lia].
    rewrite set_nth_split by (rewrite Ht; exact Hlt).
    set (tl := g_tail_len s). set (t := g_tail s).
    assert (Lt : lenN (takeN tl t) = tl) by (rewrite lenN_takeN; fold t in Ht; lia).
    set (A := takeN tl t ++ [x]).
    assert (LA : lenN A = tl + 1) by (unfold A; rewrite lenN_app, Lt; reflexivity).
    assert (Ha : takeN tl t ++ [x] ++ dropN (tl + 1) t = A ++ dropN (tl + 1) t) by (unfold A; apply app_assoc).
    rewrite Ha. rewrite <- LA at 1. rewrite takeN_app_exact.
    replace (tl + 1 + lenN data) with (lenN A + lenN data) by lia.
    rewrite <- dropN_dropN. rewrite dropN_app_exact. rewrite dropN_dropN.
    unfold A. rewrite <- !app_assoc. cbn [app].
    replace (tl + (1 + lenN data)) with (tl + 1 + lenN data) by lia. reflexivity.
Qed.

(* at the limit, further bytes are ignored *)
Lemma feed_at_limit gc v data : forall s, g_tail_len s = 4 -> max_len <= g_len s -> feed gc v s data = s.
Proof.
  unfold feed. induction data as [|x data IH]; intros s Ht Hl; [reflexivity|].
  cbn [fold_left]. unfold feed1 at 2. rewrite Ht. change (4 <? 4) with false. cbn iota.
  destruct (N.leb_spec max_len (g_len s)); [|lia]. apply IH; assumption.
Qed.

(* the window after processing d from window w: the last four of w ++ d *)
Definition shift4 (w : list N) (x : N) : list N := tl w ++ [x].

Lemma absorb_loop_feed {E} gc v d : forall cks bk t0 t1 t2 t3 len tlen,
  cks_wf v cks -> lenN bk = phys_buckets gc (v_bk v) -> len + lenN d <= max_len -> tlen = 4 ->
  exists cks' bk' w',
    @absorb_loop E gc v d cks bk (t0, t1, t2, t3) = Ok (cks', bk', w') /\
    feed gc v {| g_buckets := bk; g_len := len; g_cks := cks; g_tail := [t0; t1; t2; t3]; g_tail_len := tlen |} d
    = {| g_buckets := bk'; g_len := len + lenN d; g_cks := cks';
         g_tail := (let '(a, b, c, e) := w' in [a; b; c; e]); g_tail_len := tlen |} /\
    (let '(a, b, c, e) := w' in [a; b; c; e]) = fold_left shift4 d [t0; t1; t2; t3].
Proof.
  unfold feed. induction d as [|x d IH]; intros cks bk t0 t1 t2 t3 len tlen Hc Hb Hl Ht.
  - exists cks, bk, (t0, t1, t2, t3). cbn [absorb_loop fold_left]. change (lenN []) with 0.
    rewrite N.add_0_r. auto.
  - rewrite lenN_cons in Hl. cbn [absorb_loop fold_left].
    destruct (absorb_ok (E:=E) gc v cks bk (t0, t1, t2, t3) x Hc Hb) as [-> [Hc' Hb']]. cbn [bind].
    unfold feed1 at 2. cbn [g_tail_len g_len g_tail g_cks g_buckets]. subst tlen. change (4 <? 4) with false. cbn iota.
    destruct (N.leb_spec max_len len); [lia|].
    destruct (absorb_p gc v cks bk (t0, t1, t2, t3) x) as [[c b] w] eqn:Ea.
    assert (Ew : w = (t1, t2, t3, x)).
    { unfold absorb_p in Ea. injection Ea as _ _ <-. reflexivity. }
    subst w. cbn [fst snd] in *.
    destruct (IH c b t1 t2 t3 x (len + 1) 4 Hc' Hb' ltac:(lia) eq_refl) as [cks' [bk' [w' [H1 [H2 H3]]]]].
    exists cks', bk', w'. split; [exact H1|]. split.
    + rewrite H2. rewrite lenN_cons. f_equal. lia.
    + rewrite H3. reflexivity.
Qed.

(* what Rust writes back into self.tail equals the shifted window *)
Lemma shift4_fold (d : list N) : forall w, lenN w = 4 ->
  fold_left shift4 d w = if 4 <=? lenN d then dropN (lenN d - 4) d else dropN (lenN d) w ++ d.
Proof.
  induction d as [|x d IH]; intros w Hw.
  - cbn [fold_left]. change (lenN []) with 0. change (4 <=? 0) with false. cbn iota.
    rewrite dropN_0, app_nil_r. reflexivity.
  - cbn [fold_left]. destruct (tail4 w Hw) as [a [b [c [e ->]]]]. unfold shift4 at 2. cbn [tl app].
    rewrite IH by reflexivity. rewrite lenN_cons.
    destruct (N.leb_spec 4 (lenN d)) as [H4|H4].
    + destruct (N.leb_spec 4 (1 + lenN d)); [|lia].
      replace (1 + lenN d - 4) with (1 + (lenN d - 4)) by lia.
      rewrite !dropN_skipn. replace (N.to_nat (1 + (lenN d - 4))) with (S (N.to_nat (lenN d - 4))) by lia.
      reflexivity.
    + destruct (N.leb_spec 4 (1 + lenN d)) as [H5|H5].
      * assert (Hd : lenN d = 3) by lia. rewrite Hd. change (1 + 3 - 4) with 0. rewrite dropN_0.
        apply lenN_length in Hd. destruct d as [|d0 [|d1 [|d2 [|? ?]]]]; try discriminate. reflexivity.
      * rewrite !dropN_skipn. replace (N.to_nat (1 + lenN d)) with (S (N.to_nat (lenN d))) by lia.
        assert (Hd : (length d < 3)%nat) by (unfold lenN in H5; lia).
        destruct d as [|d0 [|d1 [|d2 ?]]]; cbn [length] in Hd; try lia; reflexivity.
Qed.

(* ---- update = feed ---- *)

Lemma add_u32_ok {E} dbg a b : a + b < two32 -> @add_u32 E dbg a b = Ok (a + b).
Proof. intros H. unfold add_u32. destruct (N.ltb_spec (a + b) two32); [reflexivity|lia]. Qed.

Lemma slice_to_ok {E} (l : list N) n : n <= lenN l -> @slice_to E N l n = Ok (takeN n l).
Proof. intros H. unfold slice_to. destruct (N.leb_spec n (lenN l)); [reflexivity|lia]. Qed.

Lemma slice_from_ok {E} (l : list N) n : n <= lenN l -> @slice_from E N l n = Ok (dropN n l).
Proof. intros H. unfold slice_from. destruct (N.leb_spec n (lenN l)); [reflexivity|lia]. Qed.

Lemma update_main_feed {E} gc v s d :
  ginv gc v s -> g_tail_len s = 4 -> @update_main E gc v s d = Ok (feed gc v s d).
Proof.
  intros [Ht [Htl [Hl [Hc Hb]]]] H4. unfold update_main.
  change (0 <? tail_size) with true. unfold invariant. cbn [bind].
  destruct (N.leb_spec max_len (g_len s)) as [Hm|Hm].
  { rewrite feed_at_limit by assumption. reflexivity. }
  pose proof max_len_val as Hmv. unfold two32, u32_max in *.
  set (k := if max_len - g_len s <? N.min (lenN d) 4294967295 then max_len - g_len s else N.min (lenN d) 4294967295).
  assert (Hk : k <= lenN d /\ g_len s + k <= max_len /\ (k < lenN d -> g_len s + k = max_len)).
  { unfold k. destruct (N.ltb_spec (max_len - g_len s) (N.min (lenN d) 4294967295)); lia. }
  assert (Hdd : (if max_len - g_len s <? N.min (lenN d) 4294967295
                 then do d0 <- @slice_to E N d (max_len - g_len s); Ok (max_len - g_len s, d0)
                 else Ok (N.min (lenN d) 4294967295, d)) = Ok (k, takeN k d)).
  { unfold k. destruct (N.ltb_spec (max_len - g_len s) (N.min (lenN d) 4294967295)) as [Hc1|Hc1].
    - rewrite slice_to_ok by lia. reflexivity.
    - f_equal. f_equal. unfold takeN. destruct (N.leb_spec (lenN d) (N.min (lenN d) 4294967295)); [reflexivity|lia]. }
  rewrite Hdd. cbn [bind]. clear Hdd.
  set (d' := takeN k d).
  assert (Ld' : lenN d' = k) by (unfold d'; rewrite lenN_takeN; lia).
  rewrite add_u32_ok by (unfold two32; lia). cbn [bind].
  destruct (tail4 _ Ht) as [t0 [t1 [t2 [t3 Et]]]]. rewrite Et.
  unfold index. cbn [idx unwrap bind].
  change (idx [t0; t1; t2; t3] 0) with (Some t0). change (idx [t0; t1; t2; t3] 1) with (Some t1).
  change (idx [t0; t1; t2; t3] 2) with (Some t2). change (idx [t0; t1; t2; t3] 3) with (Some t3).
  cbn [unwrap bind].
  destruct (absorb_loop_feed (E:=E) gc v d' (g_cks s) (g_buckets s) t0 t1 t2 t3 (g_len s) 4 Hc Hb ltac:(lia) eq_refl)
    as [cks' [bk' [w' [H1 [H2 H3]]]]].
  rewrite H1. cbn [bind].
  (* the tail rewrite *)
  assert (Hnt : (if lenN [t0; t1; t2; t3] <=? lenN d'
                 then do sl <- @slice_from E N d' (lenN d' - tail_size);
                      copy_into [t0; t1; t2; t3] 0 (lenN [t0; t1; t2; t3]) sl
                 else do moved <- slice_from [t0; t1; t2; t3] (lenN d');
                      do t' <- copy_into [t0; t1; t2; t3] 0 (lenN moved) moved;
                      copy_into t' (tail_size - lenN d') (lenN t') d')
                = Ok (fold_left shift4 d' [t0; t1; t2; t3])).
  { rewrite shift4_fold by reflexivity. change (lenN [t0; t1; t2; t3]) with 4. rewrite tail_size_val.
    destruct (N.leb_spec 4 (lenN d')) as [H5|H5].
    - rewrite slice_from_ok by lia. cbn [bind].
      rewrite copy_into_ok; [|lia|change (lenN [t0; t1; t2; t3]) with 4; lia|rewrite lenN_dropN; lia].
      rewrite takeN_0. cbn [app].
      replace (dropN 4 [t0; t1; t2; t3]) with (@nil N) by reflexivity. rewrite app_nil_r. reflexivity.
    - rewrite slice_from_ok by (change (lenN [t0; t1; t2; t3]) with 4; lia). cbn [bind].
      set (T := [t0; t1; t2; t3]). assert (LT : lenN T = 4) by reflexivity.
      set (moved := dropN (lenN d') T).
      assert (Lm : lenN moved = 4 - lenN d') by (unfold moved; rewrite lenN_dropN, LT; reflexivity).
      rewrite copy_into_ok by lia. cbn [bind]. rewrite takeN_0. cbn [app].
      set (t' := moved ++ dropN (lenN moved) T).
      assert (Lt' : lenN t' = 4) by (unfold t'; rewrite lenN_app, lenN_dropN, Lm, LT; lia).
      rewrite copy_into_ok by lia. f_equal.
      assert (Hta : takeN (4 - lenN d') t' = moved) by (unfold t'; rewrite <- Lm; apply takeN_app_exact).
      rewrite Hta. rewrite Lt'.
      assert (Hdr : dropN 4 t' = []) by (unfold dropN; rewrite Lt'; reflexivity).
      rewrite Hdr, app_nil_r. reflexivity. }
  rewrite Hnt. cbn [bind]. f_equal.
  (* feed s d = feed (feed s d') (dropN k d) *)
  replace (feed gc v s d) with (feed gc v (feed gc v s d') (dropN k d))
    by (rewrite <- feed_app; unfold d'; rewrite takeN_dropN; reflexivity).
  assert (Es : s = {| g_buckets := g_buckets s; g_len := g_len s; g_cks := g_cks s;
                      g_tail := [t0; t1; t2; t3]; g_tail_len := 4 |}).
  { destruct s; cbn in *; subst; reflexivity. }
  rewrite Es at 3. rewrite H2. rewrite <- H3, Ld', H4.
  destruct (N.eq_dec k (lenN d)) as [Hkd|Hkd].
  - assert (Hnil : dropN k d = []) by (unfold dropN; rewrite Hkd, N.leb_refl; reflexivity).
    rewrite Hnil. reflexivity.
  - rewrite feed_at_limit; cbn [g_tail_len g_len]; [reflexivity|reflexivity|lia].
Qed.

Lemma update_fill_feed {E} gc v s d : ginv gc v s ->
  (exists s', @update_fill E gc s d = Ok (inl s') /\ feed gc v s d = s') \/
  (exists s' rest, @update_fill E gc s d = Ok (inr (s', rest)) /\
                   feed gc v s d = feed gc v s' rest /\ ginv gc v s' /\ g_tail_len s' = 4).
Proof.
  intros Hinv. pose proof Hinv as [Ht [Htl [Hl [Hc Hb]]]]. unfold update_fill. rewrite tail_size_val.
  destruct (N.ltb_spec (g_tail_len s) 4) as [H4|H4].
  - destruct (N.leb_spec (lenN d) (4 - g_tail_len s)) as [Hd|Hd].
    + left. rewrite copy_into_ok by lia. cbn [bind].
      rewrite add_u32_ok by (unfold two32; lia). cbn [bind].
      eexists. split; [reflexivity|]. rewrite fill_fold by (assumption || lia). reflexivity.
    + right. rewrite slice_to_ok by lia. cbn [bind].
      set (rem := 4 - g_tail_len s).
      rewrite copy_into_ok; [|lia|lia|rewrite lenN_takeN; lia]. cbn [bind].
      rewrite add_u32_ok by (unfold two32; lia). cbn [bind].
      rewrite slice_from_ok by lia. cbn [bind].
      eexists. eexists. split; [reflexivity|].
      assert (Lp : lenN (takeN rem d) = rem) by (rewrite lenN_takeN; lia).
      assert (Hf : feed gc v s (takeN rem d) =
                   with_tail s (takeN (g_tail_len s) (g_tail s) ++ takeN rem d ++ dropN (lenN (g_tail s)) (g_tail s))
                             (g_tail_len s + rem)).
      { rewrite fill_fold by (assumption || lia). rewrite Lp. unfold rem. rewrite Ht.
        replace (g_tail_len s + (4 - g_tail_len s)) with 4 by lia. reflexivity. }
      split; [|split].
      * rewrite <- (takeN_dropN rem d) at 1. rewrite feed_app, Hf. reflexivity.
      * rewrite <- Hf. apply feed_inv. exact Hinv.
      * unfold with_tail, rem. cbn [g_tail_len]. lia.
  - right. exists s, d. split; [reflexivity|]. split; [reflexivity|]. split; [exact Hinv|lia].
Qed.

(* Main theorem: on every state meeting the representation invariant, update returns normally
   (no slice, copy_from_slice, index or `+=` can fail) and equals the byte-wise fold. *)
Theorem update_feed {E} gc v s d : ginv gc v s -> @update E gc v s d = Ok (feed gc v s d).
Proof.
  intros Hinv. unfold update.
  destruct (update_fill_feed (E:=E) gc v s d Hinv) as [[s' [-> Hf]]|[s' [rest [-> [Hf [Hi H4]]]]]]; cbn [bind].
  - rewrite Hf. reflexivity.
  - rewrite Hf. apply update_main_feed; assumption.
Qed.

Lemma init_inv gc v : is_variant v -> ginv gc v (g_init gc v).
Proof.
  intros Hv. unfold ginv, g_init. cbn [g_tail g_tail_len g_len g_cks g_buckets].
  split; [reflexivity|]. split; [lia|]. split; [pose proof max_len_val; lia|]. split.
  - destruct Hv; cbn [v_cks]; [left|left|right|left|right]; (split; [reflexivity|]); vm_compute; eauto.
  - unfold lenN. rewrite repeat_length. lia.
Qed.

Theorem update_app {E} gc v s a b : ginv gc v s ->
  (do s1 <- @update E gc v s a; update gc v s1 b) = update gc v s (a ++ b).
Proof.
  intros Hinv. rewrite !update_feed by exact Hinv. cbn [bind].
  rewrite update_feed by (apply feed_inv; exact Hinv). rewrite feed_app. reflexivity.
Qed.

(* feeding pieces one after the other *)
Fixpoint update_all {E} (gc : gcfg) (v : variant) (s : gstate) (pieces : list (list N)) : outcome E gstate :=
  match pieces with
  | [] => Ok s
  | p :: r => do s1 <- update gc v s p; update_all gc v s1 r
  end.

Theorem chunking_irrelevant {E} gc v pieces : forall s, ginv gc v s ->
  @update_all E gc v s pieces = update gc v s (concat pieces) /\
  @update_all E gc v s pieces = Ok (feed gc v s (concat pieces)).
Proof.
  induction pieces as [|p r IH]; intros s Hinv; cbn [update_all concat].
  - rewrite update_feed by exact Hinv. split; reflexivity.
  - rewrite (update_feed gc v s p) by exact Hinv. cbn [bind].
    destruct (IH (feed gc v s p) (feed_inv gc v p s Hinv)) as [_ ->].
    rewrite update_feed by exact Hinv. rewrite feed_app. split; reflexivity.
Qed.
