(* C07: every SIMD bucket-aggregation backend computes the reference body. *)
From Coq Require Import Lia Arith PeanoNat.
From TlshV Require Import Model.Machine Gen.Tables Model.MLength Model.MHash Model.MFinalize Model.MAgg Gen.AggKernels
  Spec.SpecGenerate Proofs.ListN Proofs.HashCodec Proofs.FinalizeChar Proofs.AggSweeps Proofs.AggSweepAvx2.

(* ---- the unsigned-compare idiom: signed > after flipping the sign bits = unsigned > ---- *)
Definition two31 : N := 2147483648.
(* signed 32-bit "greater than" on two's-complement encodings *)
Definition sgt32 (a b : N) : bool :=
  let key x := if x <? two31 then x + two31 else x - two31 in   (* order-preserving map of signed onto unsigned *)
  key b <? key a.

Lemma land_small_two31 x : x < two31 -> N.land x two31 = 0.
Proof.
  intros H. apply N.bits_inj. intros n. rewrite N.land_spec, N.bits_0.
  change two31 with (2 ^ 31). rewrite N.pow2_bits_eqb.
  destruct (N.eqb_spec 31 n) as [<-|]; [|apply andb_false_r].
  rewrite andb_true_r. apply N.testbit_false. change (2 ^ 31) with two31. rewrite N.div_small by exact H. reflexivity.
Qed.

Lemma lxor_two31 x : x < 4294967296 -> N.lxor x two31 = if x <? two31 then x + two31 else x - two31.
Proof.
  intros H. destruct (N.ltb_spec x two31) as [Hlt|Hge].
  - symmetry. apply N.add_nocarry_lxor. apply land_small_two31. exact Hlt.
  - assert (E : x = N.lxor (x - two31) two31).
    { rewrite <- N.add_nocarry_lxor by (apply land_small_two31; unfold two31 in *; lia). unfold two31 in *. lia. }
    rewrite E at 1. rewrite N.lxor_assoc, N.lxor_nilpotent, N.lxor_0_r. reflexivity.
Qed.

Lemma key_flip x : x < 4294967296 ->
  (if (if x <? two31 then x + two31 else x - two31) <? two31
   then (if x <? two31 then x + two31 else x - two31) + two31
   else (if x <? two31 then x + two31 else x - two31) - two31) = x.
Proof.
  intros H. unfold two31 in *. destruct (N.ltb_spec x 2147483648) as [H1|H1].
  - destruct (N.ltb_spec (x + 2147483648) 2147483648); lia.
  - destruct (N.ltb_spec (x - 2147483648) 2147483648); lia.
Qed.

Theorem cmpgt_idiom b q : b < 4294967296 -> q < 4294967296 ->
  sgt32 (N.lxor b two31) (N.lxor q two31) = (q <? b).
Proof.
  intros Hb Hq. rewrite !lxor_two31 by assumption. unfold sgt32.
  rewrite (key_flip b Hb), (key_flip q Hq). reflexivity.
Qed.

(* with ordered quartiles, "bucket > q_k" is "k <= outcome" *)
Lemma cmp_of_outcome q1 q2 q3 b : q1 <= q2 -> q2 <= q3 ->
  (q1 <? b) = (1 <=? outcome_of q1 q2 q3 b) /\ (q2 <? b) = (2 <=? outcome_of q1 q2 q3 b) /\
  (q3 <? b) = (3 <=? outcome_of q1 q2 q3 b).
Proof.
  intros H1 H2. unfold outcome_of.
  destruct (N.ltb_spec q3 b), (N.ltb_spec q2 b), (N.ltb_spec q1 b); cbn; repeat split; try reflexivity; lia.
Qed.

Lemma outcome_is_dibit q1 q2 q3 b : outcome_of q1 q2 q3 b = dibit q1 q2 q3 b.
Proof. reflexivity. Qed.

(* ---- from the sweeps ---- *)
Lemma in_all_outs l : Forall (fun o => o < 4) l -> In l (all_outs (length l)).
Proof.
  induction 1 as [|o l Ho _ IH]; [left; reflexivity|]. cbn [length all_outs]. apply in_flat_map. exists l. split; [exact IH|].
  apply in_map_iff. exists o. split; [reflexivity|].
  assert (Ho4 : o = 0 \/ o = 1 \/ o = 2 \/ o = 3) by lia. destruct Ho4 as [E|[E|[E|E]]]; rewrite E; cbn; tauto.
Qed.

Lemma outcome_lt q1 q2 q3 b : outcome_of q1 q2 q3 b < 4.
Proof. unfold outcome_of. destruct (q3 <? b), (q2 <? b), (q1 <? b); lia. Qed.

Lemma list_eq_opt_eq a b : list_eq_opt a b = true -> a = Some b.
Proof.
  destruct a as [x|]; [|discriminate]. cbn. revert b. induction x as [|y x IH]; intros [|z b] H; cbn in H; try discriminate; [reflexivity|].
  apply andb_prop in H as [H1 H2]. apply N.eqb_eq in H1. subst. f_equal. f_equal. specialize (IH b H2). injection IH as ->. reflexivity.
Qed.

Lemma agg4_elim p results : agg4_ok p results = true -> forall q1 q2 q3 a b c d u, u < 256 ->
  aeval p results (map (outcome_of q1 q2 q3) [a; b; c; d]) u = Some [chunk_byte q1 q2 q3 [a; b; c; d]].
Proof.
  intros H q1 q2 q3 a b c d u Hu. unfold agg4_ok in H. rewrite forallb_forall in H.
  specialize (H (map (outcome_of q1 q2 q3) [a; b; c; d])).
  assert (Hin : In (map (outcome_of q1 q2 q3) [a; b; c; d]) (all_outs 4)).
  { apply (in_all_outs (map (outcome_of q1 q2 q3) [a; b; c; d])). repeat constructor; apply outcome_lt. }
  specialize (H Hin). rewrite forallb_forall in H.
  assert (Hiu : In u (map N.of_nat (seq 0 256))) by (change 256%nat with (N.to_nat 256); apply in_N_seq; exact Hu).
  specialize (H u Hiu). apply list_eq_opt_eq in H. rewrite H. reflexivity.
Qed.

Lemma agg8_elim p results : agg8_ok p results = true -> forall q1 q2 q3 a b c d e f g h,
  aeval p results (map (outcome_of q1 q2 q3) [a; b; c; d; e; f; g; h]) 0 =
  Some [chunk_byte q1 q2 q3 [e; f; g; h]; chunk_byte q1 q2 q3 [a; b; c; d]].
Proof.
  intros H q1 q2 q3 a b c d e f g h. unfold agg8_ok in H. rewrite forallb_forall in H.
  specialize (H (map (outcome_of q1 q2 q3) [a; b; c; d; e; f; g; h])).
  assert (Hin : In (map (outcome_of q1 q2 q3) [a; b; c; d; e; f; g; h]) (all_outs 8)).
  { apply (in_all_outs (map (outcome_of q1 q2 q3) [a; b; c; d; e; f; g; h])). repeat constructor; apply outcome_lt. }
  specialize (H Hin). apply list_eq_opt_eq in H. rewrite H. reflexivity.
Qed.

(* ---- the loops ---- *)
Lemma qgate {E} dbg q1 q2 q3 : q1 <= q2 -> q2 <= q3 ->
  (if dbg && negb ((q1 <=? q2) && (q2 <=? q3)) then @Panic E unit else Ok tt) = Ok tt.
Proof.
  intros H1 H2. destruct dbg; [|reflexivity]. destruct (N.leb_spec q1 q2); [|lia]. destruct (N.leb_spec q2 q3); [|lia]. reflexivity.
Qed.

Theorem aggregate_x4_spec {E} p results u dbg body_size buckets q1 q2 q3 :
  agg4_ok p results = true -> u < 256 -> q1 <= q2 -> q2 <= q3 -> lenN buckets = 4 * body_size ->
  @aggregate_x4 E p results u dbg body_size buckets q1 q2 q3 = Ok (spec_body q1 q2 q3 buckets).
Proof.
  intros Hk Hu H1 H2 Hl. unfold aggregate_x4. rewrite qgate by assumption. cbn [bind]. rewrite chunks4_eq.
  assert (Hn : length (chunks_of_4 buckets) = N.to_nat body_size).
  { apply chunks_length. apply lenN_length in Hl. lia. }
  rewrite firstn_all2 by lia.
  rewrite (map_out_list_ok _ (chunk_byte q1 q2 q3)).
  - cbn [bind]. rewrite map_length, Hn, Nat.sub_diag. cbn [repeat app]. reflexivity.
  - intros ch Hch. destruct (chunks_all4 _ _ Hch) as [a [b [c [d ->]]]].
    rewrite (agg4_elim p results Hk q1 q2 q3 a b c d u Hu). reflexivity.
Qed.


Fixpoint pairs_of (q1 q2 q3 : N) (l : list (list N)) : list N :=
  match l with
  | [a; b; c; d; e; f; g; h] :: r => chunk_byte q1 q2 q3 [a; b; c; d] :: chunk_byte q1 q2 q3 [e; f; g; h] :: pairs_of q1 q2 q3 r
  | _ => []
  end.

Lemma pairs_of_chunks q1 q2 q3 : forall n l, length l = (8 * n)%nat ->
  pairs_of q1 q2 q3 (chunks8 l) = map (chunk_byte q1 q2 q3) (chunks_of_4 l) /\ length (chunks8 l) = n.
Proof.
  induction n as [|n IH]; intros l Hl.
  - destruct l; [split; reflexivity|discriminate].
  - destruct l as [|a [|b [|c [|d [|e [|f [|g [|h r]]]]]]]]; cbn [length] in Hl; try lia.
    cbn [chunks8 pairs_of chunks_of_4 map length]. destruct (IH r) as [E1 E2]; [lia|]. rewrite E1, E2. split; reflexivity.
Qed.

Lemma chunks8_all l ch : In ch (chunks8 l) -> exists a b c d e f g h, ch = [a; b; c; d; e; f; g; h].
Proof.
  revert ch. induction l as [l IH] using (well_founded_induction (Wf_nat.well_founded_ltof _ (@length N))).
  intros ch H. destruct l as [|a [|b [|c [|d [|e [|f [|g [|h r]]]]]]]]; cbn [chunks8] in H; try contradiction.
  destruct H as [<-|H]; [do 8 eexists; reflexivity|]. apply (IH r); [unfold ltof; cbn; lia|exact H].
Qed.

Lemma map_out_concat {E} (f : list N -> outcome E (list N)) q1 q2 q3 : forall L,
  (forall ch, In ch L -> exists a b c d e f' g h, ch = [a; b; c; d; e; f'; g; h] /\
     f ch = Ok [chunk_byte q1 q2 q3 [a; b; c; d]; chunk_byte q1 q2 q3 [e; f'; g; h]]) ->
  exists pairs, map_out_list f L = Ok pairs /\ concat pairs = pairs_of q1 q2 q3 L.
Proof.
  induction L as [|ch L IH]; intros H; [exists []; split; reflexivity|].
  destruct (H ch (or_introl eq_refl)) as [a [b [c [d [e [f' [g [h [-> Hf]]]]]]]]].
  destruct IH as [pairs [Hp Hc]]; [intros x Hx; apply H; right; exact Hx|].
  eexists. cbn [map_out_list]. rewrite Hf. cbn [bind]. rewrite Hp. cbn [bind]. split; [reflexivity|].
  cbn [concat app pairs_of]. rewrite Hc. reflexivity.
Qed.

Theorem aggregate_x8_spec {E} p results dbg body_size buckets q1 q2 q3 :
  agg8_ok p results = true -> q1 <= q2 -> q2 <= q3 -> lenN buckets = 4 * body_size -> body_size mod 2 = 0 ->
  @aggregate_x8 E p results dbg body_size buckets q1 q2 q3 = Ok (spec_body q1 q2 q3 buckets).
Proof.
  intros Hk H1 H2 Hl Hev. unfold aggregate_x8. rewrite qgate by assumption. cbn [bind].
  assert (Hb : body_size = 2 * (body_size / 2)) by (rewrite (N.div_mod body_size 2) at 1 by discriminate; lia).
  assert (Hlen : length buckets = (8 * N.to_nat (body_size / 2))%nat) by (apply lenN_length in Hl; lia).
  destruct (pairs_of_chunks q1 q2 q3 _ buckets Hlen) as [Ep En].
  rewrite firstn_all2 by lia.
  destruct (map_out_concat (E:=E) (fun ch => match aeval p results (map (outcome_of q1 q2 q3) ch) 0 with
                                     | Some [hi; lo] => Ok [lo; hi] | _ => Panic end) q1 q2 q3 (chunks8 buckets)) as [pairs [Hp Hc]].
  { intros ch Hch. destruct (chunks8_all _ _ Hch) as [a [b [c [d [e [f [g [h ->]]]]]]]].
    do 8 eexists. split; [reflexivity|]. rewrite (agg8_elim p results Hk). reflexivity. }
  rewrite Hp. cbn [bind]. rewrite Hc, Ep.
  assert (Hn : length (chunks_of_4 buckets) = N.to_nat body_size) by (apply chunks_length; lia).
  rewrite map_length, Hn, Nat.sub_diag. cbn [repeat app]. reflexivity.
Qed.

(* ---- all backends ---- *)
Definition agg_backend := N.   (* 0 naive, 1 sse2, 2 ssse3, 3 avx2 *)

Definition aggregate_by {E} (be : agg_backend) (u : N) (dbg : bool) (body_size : N) (buckets : list N) (q1 q2 q3 : N)
  : outcome E (list N) :=
  if be =? 1 then aggregate_x4 agg_sse2_prog agg_sse2_results u dbg body_size buckets q1 q2 q3
  else if be =? 2 then aggregate_x4 agg_ssse3_prog agg_ssse3_results 0 dbg body_size buckets q1 q2 q3
  else if be =? 3 then aggregate_x8 agg_avx2_prog agg_avx2_results dbg body_size buckets q1 q2 q3
  else aggregate_naive dbg body_size buckets q1 q2 q3.

Theorem aggregate_any_backend {E} be u dbg body_size buckets q1 q2 q3 :
  u < 256 -> q1 <= q2 -> q2 <= q3 -> lenN buckets = 4 * body_size -> body_size mod 2 = 0 ->
  @aggregate_by E be u dbg body_size buckets q1 q2 q3 = Ok (spec_body q1 q2 q3 buckets) /\
  @aggregate_by E be u dbg body_size buckets q1 q2 q3 = aggregate_naive dbg body_size buckets q1 q2 q3.
Proof.
  intros Hu H1 H2 Hl Hev.
  assert (Hn : @aggregate_naive E dbg body_size buckets q1 q2 q3 = Ok (spec_body q1 q2 q3 buckets))
    by (apply aggregate_naive_ok; [intros _; split; assumption|exact Hl]).
  rewrite Hn. unfold aggregate_by.
  destruct (be =? 1); [split; apply aggregate_x4_spec; auto using agg_sse2_ok|].
  destruct (be =? 2); [split; apply aggregate_x4_spec; auto using agg_ssse3_ok; lia|].
  destruct (be =? 3); [split; apply aggregate_x8_spec; auto using agg_avx2_ok|].
  split; exact Hn.
Qed.

(* ---- at the level of finalize: whichever backend aggregates, the body is the one finalize returns ---- *)
From TlshV Require Import Model.MGenerate Proofs.Select Proofs.GenUpdate Proofs.GenLen Proofs.GenProps.

Lemma kq_ordered nb buckets : (N.to_nat (3 * nb / 4 - 1) < length buckets)%nat -> 8 <= nb ->
  let '(a, b, c) := kq nb buckets in a <= b /\ b <= c.
Proof.
  intros Hlen Hnb. unfold kq.
  assert (D1 : nb / 4 <= nb / 2) by (apply N.div_le_compat_l; lia).
  assert (D2 : nb / 2 <= 3 * nb / 4).
  { assert (E : nb / 2 = 2 * nb / 4).
    { replace (2 * nb) with (nb * 2) by lia. change 4 with (2 * 2). rewrite N.div_mul_cancel_r by discriminate. reflexivity. }
    rewrite E. apply N.div_le_mono; lia. }
  assert (D0 : 2 <= nb / 4) by (apply N.div_le_lower_bound; lia).
  split; apply kth_mono; lia.
Qed.

Theorem finalize_backend_independent sel gc v o s h :
  sel_contract sel -> is_variant v -> reachable gc v s -> finalize sel gc v o s = Ok h ->
  let buckets := takeN (nb_of (v_bk v)) (g_buckets s) in
  exists q1 q2 q3, gate_q3 o (kq (nb_of (v_bk v)) buckets) = Ok (q1, q2, q3) /\ q1 <= q2 /\ q2 <= q3 /\
    forall (be : agg_backend) u dbg, u < 256 ->
      @aggregate_by gen_error be u dbg (size_body v) buckets q1 q2 q3 = Ok (h_body h).
Proof.
  intros Hsel Hv Hr Hf. rewrite (finalize_reachable sel gc v o s Hsel Hv Hr) in Hf.
  destruct (reachable_inv gc v s Hv Hr) as [[Ht [Htl [Hl [Hc Hb]]]] Hbd].
  unfold finalize_value in Hf. set (bk := v_bk v) in *. set (buckets := takeN (nb_of bk) (g_buckets s)) in *.
  destruct (gate_len bk o (fin_len s)) as [[]|e| |]; cbn [bind] in Hf; try discriminate.
  destruct (gate_q3 o (kq (nb_of bk) buckets)) as [[[q1 q2] q3]|e| |] eqn:Eq; cbn [bind] in Hf; try discriminate.
  destruct (gate_half bk o (nonzero_count buckets)) as [[]|e| |]; cbn [bind] in Hf; try discriminate.
  injection Hf as <-. cbn [h_body].
  destruct (nb_facts bk) as [Hnb [Hnb8 [Hnb4 [Hnb256 Hsz]]]]. cbn zeta in *.
  assert (Hphys : nb_of bk <= lenN (g_buckets s)).
  { rewrite Hb. unfold phys_buckets. fold bk. destruct (gc_low_mem gc); lia. }
  assert (Lb : lenN buckets = nb_of bk) by (unfold buckets; rewrite lenN_takeN; lia).
  assert (Lbn : length buckets = N.to_nat (nb_of bk)) by (apply lenN_length; exact Lb).
  assert (Hord : q1 <= q2 /\ q2 <= q3).
  { pose proof (kq_ordered (nb_of bk) buckets) as K.
    assert (H34 : 3 * nb_of bk / 4 < nb_of bk) by (apply N.div_lt_upper_bound; lia).
    destruct (kq (nb_of bk) buckets) as [[a b] c]. specialize (K ltac:(lia) Hnb8). destruct K as [K1 K2].
    unfold gate_q3 in Eq. destruct (c =? 0).
    - destruct (negb (o_quarter o)); [discriminate|]. injection Eq as <- <- <-. lia.
    - injection Eq as <- <- <-. split; assumption. }
  destruct Hord as [H1 H2]. exists q1, q2, q3. split; [exact Eq|]. split; [exact H1|]. split; [exact H2|].
  intros be u dbg Hu.
  assert (Hsize : size_body v * 4 = nb_of bk) by (unfold size_body; fold bk; destruct bk; reflexivity).
  apply aggregate_any_backend; try assumption; try lia.
  unfold size_body. fold bk. destruct bk; reflexivity.
Qed.
