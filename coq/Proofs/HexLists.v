(* List-level facts about the hex array encoders/decoders, lifted from the per-byte sweeps. *)
From Coq Require Import Lia ZArith ZifyBool ZifyN.
From TlshV Require Import Model.Machine Gen.Tables Model.MHexStr Spec.SpecHex Proofs.ListN Proofs.HexBytes.

Ltac Zify.zify_post_hook ::= Z.div_mod_to_equations.

Definition bytes_all (l : list N) : Prop := Forall (fun x => x < 256) l.

Lemma bytesb_all l : bytesb l = true <-> bytes_all l.
Proof.
  unfold bytesb, bytes_all, byteb. rewrite forallb_forall, Forall_forall.
  split; intros H x Hx; specialize (H x Hx); apply N.ltb_lt; exact H.
Qed.

Lemma bytes_all_app a b : bytes_all (a ++ b) <-> bytes_all a /\ bytes_all b.
Proof. apply Forall_app. Qed.

Lemma bytes_all_firstn n l : bytes_all l -> bytes_all (firstn n l).
Proof. intros H. rewrite <- (firstn_skipn n l) in H. apply bytes_all_app in H. tauto. Qed.
Lemma bytes_all_skipn n l : bytes_all l -> bytes_all (skipn n l).
Proof. intros H. rewrite <- (firstn_skipn n l) in H. apply bytes_all_app in H. tauto. Qed.
Lemma bytes_all_takeN n l : bytes_all l -> bytes_all (takeN n l).
Proof. rewrite takeN_firstn. apply bytes_all_firstn. Qed.
Lemma bytes_all_dropN n l : bytes_all l -> bytes_all (dropN n l).
Proof. rewrite dropN_skipn. apply bytes_all_skipn. Qed.

(* the reference counterpart of decode_pairs *)
Fixpoint dp_spec (hf : bool) (n : nat) (ps : list (N * N)) : option (list N) :=
  match n, ps with
  | O, _ => Some []
  | _, [] => Some []
  | S n', (c0, c1) :: r =>
      match spec_pair hf c0 c1 with
      | None => None
      | Some x => option_map (cons x) (dp_spec hf n' r)
      end
  end.

Definition pairs_all (ps : list (N * N)) : Prop := Forall (fun p => fst p < 256 /\ snd p < 256) ps.

Lemma chunks2_all l : bytes_all l -> pairs_all (chunks2 l).
Proof.
  revert l. fix IH 1. intros [|a [|b r]] H; cbn [chunks2]; try constructor.
  - inversion H as [|? ? Ha H']; subst. inversion H' as [|? ? Hb H'']; subst. cbn. auto.
  - apply IH. inversion H as [|? ? Ha H']; subst. inversion H' as [|? ? Hb H'']; subst. exact H''.
Qed.

Lemma decode_pairs_spec {E} d hf n ps :
  pairs_all ps -> @decode_pairs E d hf n ps = Ok (dp_spec hf n ps).
Proof.
  revert ps. induction n as [|n IH]; intros ps H; [reflexivity|].
  destruct ps as [|[c0 c1] r]; [reflexivity|].
  inversion H as [|? ? [H0 H1] Hr]; subst. cbn [fst snd] in *.
  cbn [decode_pairs dp_spec]. rewrite decode_pair_spec' by assumption. cbn [bind].
  destruct (spec_pair hf c0 c1) as [x|]; [|reflexivity].
  rewrite IH by exact Hr. cbn [bind]. reflexivity.
Qed.

Lemma hexdigit_val_lt c h : hexdigit_val c = Some h -> h < 16.
Proof.
  unfold hexdigit_val. intros H.
  destruct ((48 <=? c) && (c <=? 57)) eqn:E1.
  { injection H as <-. apply andb_prop in E1 as [A B]. apply N.leb_le in A, B. lia. }
  destruct ((65 <=? c) && (c <=? 70)) eqn:E2.
  { injection H as <-. apply andb_prop in E2 as [A B]. apply N.leb_le in A, B. lia. }
  destruct ((97 <=? c) && (c <=? 102)) eqn:E3; [|discriminate].
  injection H as <-. apply andb_prop in E3 as [A B]. apply N.leb_le in A, B. lia.
Qed.

Lemma swap_nibbles_compose h l : h < 16 -> l < 16 -> swap_nibbles (16 * h + l) = 16 * l + h.
Proof. intros Hh Hl. unfold swap_nibbles. lia. Qed.

(* relation of the pairwise reference to plain hex decoding of the digit string *)
Lemma dp_spec_true_decode_hex n src : length src = (2 * n)%nat ->
  dp_spec true n (chunks2 src) = decode_hex src.
Proof.
  revert src. induction n as [|n IH]; intros src Hl.
  - destruct src; [reflexivity|discriminate].
  - destruct src as [|a [|b r]]; try (cbn in Hl; lia).
    cbn [chunks2 dp_spec decode_hex]. unfold spec_pair.
    destruct (hexdigit_val a) as [h|]; [|reflexivity].
    destruct (hexdigit_val b) as [l|]; [|reflexivity].
    rewrite IH by (cbn in Hl; lia).
    destruct (decode_hex r); reflexivity.
Qed.

Lemma dp_spec_false_decode_hex n src : length src = (2 * n)%nat ->
  dp_spec false n (chunks2 src) = option_map (map swap_nibbles) (decode_hex src).
Proof.
  revert src. induction n as [|n IH]; intros src Hl.
  - destruct src; [reflexivity|discriminate].
  - destruct src as [|a [|b r]]; try (cbn in Hl; lia).
    cbn [chunks2 dp_spec decode_hex]. unfold spec_pair.
    destruct (hexdigit_val a) as [h|] eqn:Ea; destruct (hexdigit_val b) as [l|] eqn:Eb; try reflexivity.
    rewrite IH by (cbn in Hl; lia).
    destruct (decode_hex r); [|reflexivity]. cbn [option_map map]. f_equal. f_equal.
    symmetry. apply swap_nibbles_compose; eapply hexdigit_val_lt; eassumption.
Qed.

Lemma decode_hex_app a b n : length a = (2 * n)%nat ->
  decode_hex (a ++ b) = match decode_hex a with
                        | Some x => option_map (app x) (decode_hex b)
                        | None => None
                        end.
Proof.
  revert a. induction n as [|n IH]; intros a Hl.
  - destruct a; [|discriminate]. cbn. destruct (decode_hex b); reflexivity.
  - destruct a as [|x [|y r]]; try (cbn in Hl; lia).
    cbn [app decode_hex].
    destruct (hexdigit_val x) as [h|]; [|reflexivity].
    destruct (hexdigit_val y) as [l|]; [|reflexivity].
    rewrite IH by (cbn in Hl; lia).
    destruct (decode_hex r); [|reflexivity].
    destruct (decode_hex b); reflexivity.
Qed.

Lemma decode_hex_length s raw : decode_hex s = Some raw -> length s = (2 * length raw)%nat.
Proof.
  revert s. induction raw as [|x raw IH]; intros s H.
  - destruct s as [|a [|b r]]; [reflexivity|discriminate|].
    cbn [decode_hex] in H. destruct (hexdigit_val a), (hexdigit_val b), (decode_hex r); discriminate.
  - destruct s as [|a [|b r]]; try discriminate.
    cbn [decode_hex] in H. destruct (hexdigit_val a), (hexdigit_val b); try discriminate.
    destruct (decode_hex r) eqn:E; [|discriminate]. injection H as _ <-.
    cbn [length]. rewrite (IH r E). lia.
Qed.

Lemma decode_hex_bytes s raw : decode_hex s = Some raw -> bytes_all raw.
Proof.
  revert s. induction raw as [|x raw IH]; intros s H; [constructor|].
  destruct s as [|a [|b r]]; try discriminate.
  cbn [decode_hex] in H.
  destruct (hexdigit_val a) as [h|] eqn:Ea; [|discriminate].
  destruct (hexdigit_val b) as [l|] eqn:Eb; [|discriminate].
  destruct (decode_hex r) eqn:E; [|discriminate]. injection H as <- <-.
  constructor; [|eapply IH; exact E].
  apply hexdigit_val_lt in Ea, Eb. cbn beta. lia.
Qed.

Lemma decode_hex_Some_iff s : (exists raw, decode_hex s = Some raw) <->
  (Nat.even (length s) = true /\ forallb is_hexdigit s = true).
Proof.
  revert s. fix IH 1. intros [|a [|b r]].
  - cbn. split; eauto.
  - cbn. split; [intros [raw H]; discriminate|intros [H _]; discriminate].
  - cbn [decode_hex length Nat.even forallb]. unfold is_hexdigit at 1 2.
    destruct (hexdigit_val a); [|split; [intros [? ?]; discriminate|cbn; intros [_ H]; discriminate]].
    destruct (hexdigit_val b); [|split; [intros [? ?]; discriminate|cbn; intros [_ H]; discriminate]].
    cbn [andb]. rewrite <- (IH r).
    destruct (decode_hex r); split; eauto; intros [? ?]; discriminate.
Qed.

(* ---- encoders ---- *)

Lemma encode_zip_spec f g dst src :
  (forall x, In x src -> let '(a, b) := f x in g x = [a; b]) ->
  (2 * length src <= length dst)%nat ->
  encode_zip f dst src = flat_map g src ++ skipn (2 * length src) dst.
Proof.
  revert dst. induction src as [|x src IH]; intros dst Hf Hl.
  - destruct dst as [|? [|? ?]]; reflexivity.
  - destruct dst as [|d0 [|d1 dst]]; try (cbn in Hl; lia).
    cbn [encode_zip flat_map]. pose proof (Hf x (or_introl eq_refl)) as Hx.
    destruct (f x) as [a b]. rewrite Hx. cbn [app].
    rewrite IH; [|intros y Hy; apply Hf; right; exact Hy|cbn in Hl; lia].
    f_equal. f_equal. f_equal.
    replace (2 * length (x :: src))%nat with (S (S (2 * length src))) by (cbn [length]; lia).
    reflexivity.
Qed.

Lemma encode_rev_array_spec e dst src : bytes_all src -> (2 * length src <= length dst)%nat ->
  encode_rev_array e dst src = flat_map hex_lo_hi src ++ skipn (2 * length src) dst.
Proof.
  intros Hb Hl. unfold encode_rev_array. apply encode_zip_spec; [|exact Hl].
  intros x Hx. unfold bytes_all in Hb. rewrite Forall_forall in Hb.
  rewrite enc_rev_pair_spec by (apply Hb; exact Hx). reflexivity.
Qed.

Lemma encode_array_spec e dst src : bytes_all src -> (2 * length src <= length dst)%nat ->
  encode_array e dst src = flat_map hex_hi_lo src ++ skipn (2 * length src) dst.
Proof.
  intros Hb Hl. unfold encode_array. apply encode_zip_spec; [|exact Hl].
  intros x Hx. unfold bytes_all in Hb. rewrite Forall_forall in Hb.
  rewrite enc_pair_spec by (apply Hb; exact Hx). reflexivity.
Qed.

Lemma flat_map_length2 (g : N -> list N) src : (forall x, length (g x) = 2%nat) ->
  length (flat_map g src) = (2 * length src)%nat.
Proof.
  intros Hg. induction src as [|x src IH]; [reflexivity|].
  cbn [flat_map length]. rewrite app_length, Hg, IH. lia.
Qed.

(* decoding the reference digits *)
Lemma decode_hex_hi_lo src : bytes_all src -> decode_hex (flat_map hex_hi_lo src) = Some src.
Proof.
  induction src as [|x src IH]; intros H; [reflexivity|].
  inversion H as [|? ? Hx Hr]; subst.
  cbn [flat_map hex_hi_lo app decode_hex].
  destruct (spec_pair_hex_hi_lo x Hx) as [Hs _]. unfold spec_pair in Hs.
  destruct (hexdigit_val (upper_digit (x / 16))) as [h|]; [|discriminate].
  destruct (hexdigit_val (upper_digit (x mod 16))) as [l|]; [|discriminate].
  injection Hs as Hs. rewrite IH by exact Hr. rewrite Hs. reflexivity.
Qed.

Lemma decode_hex_lo_hi src : bytes_all src ->
  decode_hex (flat_map hex_lo_hi src) = Some (map swap_nibbles src).
Proof.
  induction src as [|x src IH]; intros H; [reflexivity|].
  inversion H as [|? ? Hx Hr]; subst.
  cbn [flat_map hex_lo_hi app decode_hex map].
  destruct (spec_pair_hex_hi_lo x Hx) as [_ [Hs _]]. unfold spec_pair in Hs.
  destruct (hexdigit_val (upper_digit (x / 16))) as [h|] eqn:Eh; [|discriminate].
  destruct (hexdigit_val (upper_digit (x mod 16))) as [l|] eqn:El; [|discriminate].
  injection Hs as Hs. rewrite IH by exact Hr. f_equal. f_equal.
  apply hexdigit_val_lt in Eh, El. unfold swap_nibbles. lia.
Qed.

Lemma map_swap_swap l : bytes_all l -> map swap_nibbles (map swap_nibbles l) = l.
Proof.
  induction l as [|x l IH]; intros H; [reflexivity|].
  inversion H as [|? ? Hx Hr]; subst. cbn [map].
  destruct (swap_nibbles_facts x Hx) as [-> _]. rewrite IH by exact Hr. reflexivity.
Qed.

Lemma bytes_all_map_swap l : bytes_all l -> bytes_all (map swap_nibbles l).
Proof.
  induction l as [|x l IH]; intros H; [constructor|].
  inversion H as [|? ? Hx Hr]; subst. cbn [map]. constructor; [|apply IH; exact Hr].
  apply swap_nibbles_facts; exact Hx.
Qed.
