(* C07 / C17: results do not depend on the optimisation-only configuration (tables, SIMD flags,
   bucket layout, the `unsafe` feature, debug assertions): every operation is a function of the
   non-optimisation switches only (parser strictness). *)
From Coq Require Import Lia.
From TlshV Require Import Model.Machine Gen.Tables Gen.Kernels Model.MLength Model.MHexStr Model.MHash Model.MPearson
  Model.MGenerate Model.MFinalize Model.MLanes Model.MCompare Spec.SpecHex Spec.SpecGenerate Spec.SpecDistance
  Proofs.ListN Proofs.HexLists Proofs.HashCodec Proofs.CodecProps Proofs.LengthProofs Proofs.GenUpdate Proofs.GenLen
  Proofs.Select Proofs.Refine Proofs.Distance.

(* ---- parsing ---- *)
Theorem parse_config_independent c1 c2 v s m : is_variant v -> bytes_all s ->
  hc_strict c1 = hc_strict c2 -> parse c1 v s m = parse c2 v s m.
Proof.
  intros Hv Hb Hs. rewrite !parse_gen by assumption.
  destruct (resolve_prefix v s m) as [p|] eqn:Er; [|reflexivity].
  destruct (prefix_ok s p); cbn [negb]; [|reflexivity].
  pose proof (digits_len v s m p Hv Er) as Hl.
  pose proof (bytes_all_digits s p Hb) as Hbd.
  destruct (variant_sizes v Hv) as [_ [_ [Hsum _]]].
  destruct (split_fields (digits_of s p) (v_cks v * 2) (size_body v * 2)) as [d1 [d2 [d3 [d4 [Hd [L1 [L2 [L3 L4]]]]]]]].
  { rewrite Hl, <- Hsum. reflexivity. }
  rewrite Hd in *.
  apply bytes_all_app in Hbd as [B1 Hbd]. apply bytes_all_app in Hbd as [B2 Hbd].
  apply bytes_all_app in Hbd as [B3 B4].
  rewrite !parse_fields_seq by assumption. rewrite Hs. reflexivity.
Qed.

Theorem from_slice_config_independent c1 c2 v b :
  hc_strict c1 = hc_strict c2 -> from_slice c1 v b = from_slice c2 v b.
Proof. intros Hs. rewrite !from_slice_spec, Hs. reflexivity. Qed.

Theorem from_array_config_independent c1 c2 v b : lenN b = size_in_bytes v ->
  hc_strict c1 = hc_strict c2 -> from_array c1 v b = from_array c2 v b.
Proof. intros Hl Hs. rewrite !from_array_spec by exact Hl. rewrite Hs. reflexivity. Qed.

(* ---- formatting ---- *)
Theorem format_config_independent c1 c2 v h p out : is_variant v -> hash_okb v h ->
  store_str c1 v h p out = store_str c2 v h p out /\ display c1 v h = display c2 v h.
Proof.
  intros Hv Hh. rewrite !store_str_spec by assumption. rewrite !display_spec by assumption. split; reflexivity.
Qed.

(* ---- generation ---- *)
Theorem generate_config_independent sel1 sel2 gc1 gc2 v o pieces : sel_contract sel1 -> sel_contract sel2 -> is_variant v ->
  (do s <- @update_all gen_error gc1 v (g_init gc1 v) pieces; finalize sel1 gc1 v o s) =
  (do s <- @update_all gen_error gc2 v (g_init gc2 v) pieces; finalize sel2 gc2 v o s).
Proof. intros H1 H2 Hv. rewrite !gen_refines_reference by assumption. reflexivity. Qed.

(* ---- comparison ---- *)
Theorem compare_config_independent c1 c2 v a b m : is_variant v -> hash_okb v a -> hash_okb v b ->
  @compare unit c1 a b m = @compare unit c2 a b m.
Proof. intros Hv Ha Hb. rewrite !(compare_is_reference_lemma _ v) by assumption. reflexivity. Qed.

(* ---- length encoding ---- *)
Theorem encode_config_independent c1 c2 u1 u2 d1 d2 len : len < two32 ->
  encode_new c1 u1 d1 len = encode_new c2 u2 d2 len.
Proof. intros H. rewrite !encode_spec_lemma by exact H. reflexivity. Qed.
