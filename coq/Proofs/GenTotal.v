(* finalize never panics on a reachable state (moved here from Props/C11.v so that other proofs can use it) *)
From TlshV Require Import Model.Machine Gen.Tables Model.MLength Model.MHash Model.MGenerate Model.MFinalize
  Proofs.LengthProofs Proofs.GenUpdate Proofs.GenLen Proofs.Select Proofs.Finalize Proofs.FinalizeChar Proofs.GenProps.

Lemma finalize_never_panics_lemma :
  forall sel gc v o data, sel_contract sel -> is_variant v ->
    finalize sel gc v o (fresh gc v data) <> Panic /\ finalize sel gc v o (fresh gc v data) <> UB.
Proof.
  intros sel gc v o data Hs Hv. rewrite finalize_reachable by (assumption || (exists data; reflexivity)).
  unfold finalize_value.
  destruct (gate_len _ _ _) as [[]|e| |] eqn:E1; cbn [bind]; try (split; discriminate).
  - destruct (gate_q3 _ _) as [[[a b] c]|e| |] eqn:E2; cbn [bind]; try (split; discriminate).
    + destruct (gate_half _ _ _) as [[]|e| |] eqn:E3; cbn [bind]; try (split; discriminate).
      * unfold gate_half in E3. destruct (_ && _); discriminate.
      * unfold gate_half in E3. destruct (_ && _); discriminate.
    + destruct (kq _ _) as [[x y] z]. unfold gate_q3 in E2. destruct (z =? 0); [destruct (negb _)|]; discriminate.
    + destruct (kq _ _) as [[x y] z]. unfold gate_q3 in E2. destruct (z =? 0); [destruct (negb _)|]; discriminate.
  - unfold gate_len in E1. destruct (validity_is_err_on _ _); [|discriminate].
    destruct (validity_new _ _); try discriminate; destruct (negb _); discriminate.
  - unfold gate_len in E1. destruct (validity_is_err_on _ _); [|discriminate].
    destruct (validity_new _ _); try discriminate; destruct (negb _); discriminate.
Qed.
