(* Complete enumerations (kernel-evaluated) for the distance code, collected. *)
From Coq Require Import Lia.
From TlshV Require Import Model.Machine Gen.Tables Gen.Kernels Model.MLanes Model.MCompare Spec.SpecDistance
  Proofs.ListN Proofs.HexBytes Proofs.Lanes Proofs.SweepDefs.
From TlshV Require Export Proofs.SweepDefs Proofs.SweepHeader Proofs.Sweep_pseudo64 Proofs.Sweep_pseudo32 Proofs.Sweep_sse2
  Proofs.Sweep_sse41 Proofs.Sweep_avx2.

(* the horizontal-sum epilogues have the expected shape *)
Lemma epilogues_shape :
  pseudo64_epilogue = [EMul 72340172838076673; EShr 56] /\
  pseudo32_epilogue = [EMul 16843009; EShr 24] /\
  sse41_epilogue = [EMul32 16843009; EShr32 24] /\
  avx2_epilogue = [EMul32 16843009; EShr32 24] /\
  sse2_epilogue = [EShl16 EIn 8; EShr16 EIn 8; EShr16 (ERef 0) 8; EAdd16 (ERef 1) (ERef 2)].
Proof. repeat split; reflexivity. Qed.

(* body maxima and the other published constants *)
Lemma distance_constants :
  body_outlier_value = 6 /\ body_max_distance_short = 288 /\ body_max_distance_normal = 768 /\
  body_max_distance_long = 1536 /\ length_mult = 12 /\ qratio_mult = 12 /\
  length_max_distance = 1536 /\ qratios_max_distance = 168.
Proof. repeat split; reflexivity. Qed.
