(* Property-level corollaries for the generator: C10 (length limits, option monotonicity) and
   C11 (oversized inputs). *)
From Coq Require Import Lia ZArith ZifyBool ZifyN.
From TlshV Require Import Model.Machine Gen.Tables Model.MLength Model.MHash Model.MPearson
  Model.MGenerate Model.MFloat Model.MFinalize Spec.SpecGenerate
  Proofs.ListN Proofs.LengthProofs Proofs.HashCodec Proofs.GenUpdate Proofs.GenLen Proofs.Select
  Proofs.Finalize Proofs.FinalizeChar.

(* a reachable generator: fed any pieces, from new() *)
Definition reachable (gc : gcfg) (v : variant) (s : gstate) : Prop := exists data, s = fresh gc v data.

Lemma reachable_inv gc v s : is_variant v -> reachable gc v s -> ginv gc v s /\ bk_bounded s.
Proof.
  intros Hv [d ->]. split.
  - apply feed_inv. apply init_inv. exact Hv.
  - apply feed_bounded; [apply init_inv; exact Hv|apply init_bounded].
Qed.

(* finalize, for any std-conforming selection, on reachable states *)
Lemma finalize_reachable sel gc v o s : sel_contract sel -> is_variant v -> reachable gc v s ->
  finalize sel gc v o s = finalize_value v o s.
Proof.
  intros Hs Hv Hr. destruct (reachable_inv gc v s Hv Hr). apply finalize_char; assumption.
Qed.

(* ---- C10 ---- *)

(* a data-length error is reported exactly when the published classification says so *)
Definition length_error_expected (bk : buckets_kind) (o : options) (len : N) : option gen_error :=
  let val := validity_new bk len in
  if validity_is_err_on val (o_mode o) then
    match val with
    | TooLarge => Some TooLargeInput
    | _ => if o_small o then None else Some TooSmallInput
    end
  else None.

Lemma finalize_value_length_gate v o s :
  match length_error_expected (v_bk v) o (fin_len s) with
  | Some e => finalize_value v o s = Err e
  | None => forall e, finalize_value v o s = Err e -> is_len_error e = false
  end.
Proof.
  unfold finalize_value, length_error_expected. rewrite gate_len_spec. cbn zeta.
  destruct (validity_is_err_on (validity_new (v_bk v) (fin_len s)) (o_mode o)).
  - destruct (validity_new (v_bk v) (fin_len s)); try reflexivity;
      (destruct (o_small o); [|reflexivity]); cbn [bind]; intros e He.
    all: destruct (gate_q3 o _) as [[[q1 q2] q3]|e0| |] eqn:E3; cbn [bind] in He; try discriminate;
      [|injection He as <-; rewrite (gate_q3_errors _ _ _ E3); reflexivity].
    all: destruct (gate_half _ o _) as [[]|e0| |] eqn:Eh; cbn [bind] in He; try discriminate;
      injection He as <-; rewrite (gate_half_errors _ _ _ _ Eh); reflexivity.
  - cbn [bind]. intros e He.
    destruct (gate_q3 o _) as [[[q1 q2] q3]|e0| |] eqn:E3; cbn [bind] in He; try discriminate;
      [|injection He as <-; rewrite (gate_q3_errors _ _ _ E3); reflexivity].
    destruct (gate_half _ o _) as [[]|e0| |] eqn:Eh; cbn [bind] in He; try discriminate;
      injection He as <-; rewrite (gate_half_errors _ _ _ _ Eh); reflexivity.
Qed.

(* the permissiveness order on options (same Q-ratio mode) *)
Definition mode_le (a b : len_mode) : bool :=
  match a, b with Conservative, _ => true | Optimistic, Optimistic => true | Optimistic, Conservative => false end.
Definition bool_le (a b : bool) : bool := implb a b.
Definition options_le (o o' : options) : Prop :=
  o_pure_int o = o_pure_int o' /\ mode_le (o_mode o) (o_mode o') = true /\
  bool_le (o_small o) (o_small o') = true /\ bool_le (o_half o) (o_half o') = true /\
  bool_le (o_quarter o) (o_quarter o') = true.

Lemma gate_len_mono bk o o' len : options_le o o' -> gate_len bk o len = Ok tt -> gate_len bk o' len = Ok tt.
Proof.
  intros [_ [Hm [Hs _]]]. rewrite !gate_len_spec. cbn zeta.
  destruct (validity_new bk len); destruct (o_mode o), (o_mode o'); cbn in *; try discriminate;
    destruct (o_small o), (o_small o'); cbn in *; try discriminate; auto.
Qed.

Lemma gate_q3_mono o o' q r : options_le o o' -> gate_q3 o q = Ok r -> gate_q3 o' q = Ok r.
Proof.
  intros [_ [_ [_ [_ Hq]]]]. destruct q as [[a b] c]. unfold gate_q3.
  destruct (c =? 0); [|auto]. destruct (o_quarter o), (o_quarter o'); cbn in *; try discriminate; auto.
Qed.

Lemma gate_half_mono bk o o' nz : options_le o o' -> gate_half bk o nz = Ok tt -> gate_half bk o' nz = Ok tt.
Proof.
  intros [_ [_ [_ [Hh Hq]]]]. unfold gate_half. destruct (nz <? min_nonzero bk); cbn [andb]; [|auto].
  destruct (o_half o), (o_half o'), (o_quarter o), (o_quarter o'); cbn in *; try discriminate; auto.
Qed.

Theorem finalize_value_monotone v o o' s h : options_le o o' ->
  finalize_value v o s = Ok h -> finalize_value v o' s = Ok h.
Proof.
  intros Hle. pose proof Hle as [Hp _]. unfold finalize_value.
  destruct (gate_len (v_bk v) o (fin_len s)) as [[]|e| |] eqn:Eg; cbn [bind]; try discriminate.
  rewrite (gate_len_mono _ _ _ _ Hle Eg). cbn [bind].
  destruct (gate_q3 o _) as [[[q1 q2] q3]|e| |] eqn:E3; cbn [bind]; try discriminate.
  rewrite (gate_q3_mono _ _ _ _ Hle E3). cbn [bind].
  destruct (gate_half (v_bk v) o _) as [[]|e| |] eqn:Eh; cbn [bind]; try discriminate.
  rewrite (gate_half_mono _ _ _ _ Hle Eh). cbn [bind].
  unfold qratio_value. rewrite Hp. auto.
Qed.

(* allowing three-quarter-empty buckets implies allowing half-empty ones *)
Theorem quarter_implies_half_value v o s :
  o_quarter o = true ->
  finalize_value v o s =
  finalize_value v {| o_mode := o_mode o; o_pure_int := o_pure_int o; o_small := o_small o;
                      o_half := true; o_quarter := true |} s.
Proof.
  intros Hq. unfold finalize_value, gate_len, gate_q3, gate_half, qratio_value.
  cbn [o_mode o_pure_int o_small o_half o_quarter]. rewrite Hq. rewrite !orb_true_r. reflexivity.
Qed.

(* dummy quartiles are used only when q3 = 0 *)
Lemma gate_q3_dummy_only_when_zero o q r : gate_q3 o q = Ok r -> r = q \/ (snd q = 0 /\ r = (1, 1, 1)).
Proof.
  destruct q as [[a b] c]. unfold gate_q3. destruct (N.eqb_spec c 0) as [->|Hc].
  - destruct (negb (o_quarter o)); [discriminate|]. intros H; injection H as <-. right. auto.
  - intros H; injection H as <-. left. reflexivity.
Qed.

(* ---- C11 ---- *)

Lemma fin_len_fresh gc v data : is_variant v ->
  fin_len (fresh gc v data) = if lenN data <? two32 then lenN data else u32_max.
Proof.
  intros Hv. unfold fin_len, fresh. rewrite processed_len_exact by exact Hv.
  destruct (lenN data <? two32); reflexivity.
Qed.

Theorem too_large_iff_value gc v o data : is_variant v ->
  (finalize_value v o (fresh gc v data) = Err TooLargeInput <-> len_max < lenN data).
Proof.
  intros Hv. pose proof (finalize_value_length_gate v o (fresh gc v data)) as Hg.
  rewrite fin_len_fresh in Hg by exact Hv.
  assert (Hmax : len_max < u32_max) by (vm_compute; reflexivity).
  assert (Hcase : len_max < lenN data <-> len_max < (if lenN data <? two32 then lenN data else u32_max)).
  { unfold two32, u32_max in *. destruct (N.ltb_spec (lenN data) 4294967296); lia. }
  rewrite Hcase. set (len := if lenN data <? two32 then lenN data else u32_max) in *.
  pose proof (gate_len_too_large (v_bk v) o len) as Hgl. rewrite gate_len_spec in Hgl. cbn zeta in Hgl.
  unfold length_error_expected in Hg.
  destruct (validity_is_err_on (validity_new (v_bk v) len) (o_mode o)).
  - destruct (validity_new (v_bk v) len).
    + destruct (o_small o).
      * split; [intros He; specialize (Hg _ He); discriminate|intros Hl; apply Hgl in Hl; discriminate].
      * rewrite Hg. split; [discriminate|intros Hl; apply Hgl in Hl; discriminate].
    + destruct (o_small o).
      * split; [intros He; specialize (Hg _ He); discriminate|intros Hl; apply Hgl in Hl; discriminate].
      * rewrite Hg. split; [discriminate|intros Hl; apply Hgl in Hl; discriminate].
    + destruct (o_small o).
      * split; [intros He; specialize (Hg _ He); discriminate|intros Hl; apply Hgl in Hl; discriminate].
      * rewrite Hg. split; [discriminate|intros Hl; apply Hgl in Hl; discriminate].
    + rewrite Hg. split; [intros _; apply Hgl; reflexivity|reflexivity].
  - split; [intros He; specialize (Hg _ He); discriminate|intros Hl; apply Hgl in Hl; discriminate].
Qed.
