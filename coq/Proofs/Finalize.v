(* Facts about finalize_with_options that do not need the reference: error kinds and precedence,
   the length gate, monotonicity in the options (C10, C11). *)
From Coq Require Import Lia ZArith ZifyBool ZifyN.
From TlshV Require Import Model.Machine Gen.Tables Model.MLength Model.MHash Model.MPearson
  Model.MGenerate Model.MFloat Model.MFinalize Proofs.ListN Proofs.HashCodec Proofs.GenUpdate Proofs.GenLen.

Ltac Zify.zify_post_hook ::= Z.div_mod_to_equations.

Definition is_len_error (e : gen_error) : bool :=
  match e with TooLargeInput | TooSmallInput => true | _ => false end.

(* the published classification decides the length errors *)
Lemma gate_len_spec bk o len :
  gate_len bk o len =
  let val := validity_new bk len in
  if validity_is_err_on val (o_mode o) then
    match val with
    | TooLarge => Err TooLargeInput
    | _ => if o_small o then Ok tt else Err TooSmallInput
    end
  else Ok tt.
Proof. unfold gate_len. cbn zeta. destruct (validity_is_err_on _ _); [|reflexivity].
  destruct (validity_new bk len); destruct (o_small o); reflexivity. Qed.

Lemma gate_len_too_large bk o len : gate_len bk o len = Err TooLargeInput <-> len_max < len.
Proof.
  unfold gate_len, validity_new.
  destruct (N.ltb_spec len (len_min bk)) as [H1|H1].
  { cbn. assert (len_min bk <= len_max) by (destruct bk; vm_compute; discriminate).
    destruct (o_small o); cbn; split; try discriminate; lia. }
  destruct (N.ltb_spec len (len_min_conservative bk)) as [H2|H2].
  { assert (len_min_conservative bk <= len_max) by (destruct bk; vm_compute; discriminate).
    cbn. destruct (o_mode o); cbn; [split; [discriminate|lia]|].
    destruct (o_small o); cbn; split; try discriminate; lia. }
  destruct (N.leb_spec len len_max) as [H3|H3]; cbn; split; try discriminate; try lia. reflexivity.
Qed.

Lemma gate_len_errors bk o len e : gate_len bk o len = Err e -> is_len_error e = true.
Proof.
  unfold gate_len. destruct (validity_is_err_on _ _); [|discriminate].
  destruct (validity_new bk len); try (destruct (negb (o_small o)); [|discriminate]);
    intros H; injection H as <-; reflexivity.
Qed.

(* later stages never report a length error *)
Lemma lvalue_of_noerr gc len e : lvalue_of gc len <> Err e.
Proof. unfold lvalue_of. destruct (encode_new _ _ _ _) as [[x|]|?| |]; discriminate. Qed.

Lemma select_nth_noerr sel l k e : @select_nth sel gen_error l k <> Err e.
Proof. unfold select_nth. destruct (k <? lenN l); discriminate. Qed.

Lemma quartiles_noerr sel nb buckets e : quartiles sel nb buckets <> Err e.
Proof.
  unfold quartiles. destruct (select_nth sel buckets (nb / 2 - 1)) as [[[l0 q2] l1]|e0| |] eqn:E2; cbn [bind]; try discriminate.
  - destruct (select_nth sel l0 (nb / 4 - 1)) as [[[a q1] b]|e0| |] eqn:E1; cbn [bind]; try discriminate.
    + destruct (select_nth sel l1 (nb / 4 - 1)) as [[[c q3] d]|e0| |] eqn:E3; cbn [bind]; try discriminate.
      exfalso. exact (select_nth_noerr _ _ _ _ E3).
    + exfalso. exact (select_nth_noerr _ _ _ _ E1).
  - exfalso. exact (select_nth_noerr _ _ _ _ E2).
Qed.

Lemma gate_q3_errors o q e : gate_q3 o q = Err e -> e = BucketsAreThreeQuarterEmpty.
Proof.
  destruct q as [[q1 q2] q3]. unfold gate_q3. destruct (q3 =? 0); [|discriminate].
  destruct (negb (o_quarter o)); [|discriminate]. intros H; injection H as <-; reflexivity.
Qed.

Lemma gate_half_errors bk o nz e : gate_half bk o nz = Err e -> e = BucketsAreHalfEmpty.
Proof. unfold gate_half. destruct (_ && _); [|discriminate]. intros H; injection H as <-; reflexivity. Qed.

Lemma qratio_pair_noerr gc o q e : qratio_pair gc o q <> Err e.
Proof.
  destruct q as [[q1 q2] q3]. unfold qratio_pair. destruct (o_pure_int o); [|discriminate].
  destruct (q1 * 100 <? two64); [|destruct (gc_dbg gc)]; cbn [bind]; try discriminate;
    (destruct (q2 * 100 <? two64); [|destruct (gc_dbg gc)]; cbn [bind]; try discriminate;
     destruct (q3 =? 0); cbn [bind]; discriminate).
Qed.

Lemma qratios_new_noerr a b e : @qratios_new gen_error a b <> Err e.
Proof. unfold qratios_new. destruct (_ || _); discriminate. Qed.


(* ---- bucket values stay below 2^32 ---- *)

Definition bk_bounded (s : gstate) : Prop := Forall (fun x => x < two32) (g_buckets s).

Lemma set_nth_Forall {A} (P : A -> Prop) l i v : Forall P l -> P v -> Forall P (set_nth l i v).
Proof.
  revert i. induction l as [|x l IH]; intros i Hl Hv; [constructor|].
  inversion Hl as [|? ? Hx Hr]; subst. destruct i; cbn [set_nth]; constructor; auto.
Qed.

Lemma increment_p_bounded gc bk buckets i :
  Forall (fun x => x < two32) buckets -> Forall (fun x => x < two32) (increment_p gc bk buckets i).
Proof.
  intros H. unfold increment_p. destruct (_ && _ && _); [exact H|].
  apply set_nth_Forall; [exact H|]. unfold wrap32, two32. apply N.mod_lt. discriminate.
Qed.

Lemma bucket_updates_p_bounded gc bk trip w buckets :
  Forall (fun x => x < two32) buckets -> Forall (fun x => x < two32) (bucket_updates_p gc bk trip w buckets).
Proof.
  revert buckets. induction trip as [|[salt [[i j] k]] r IH]; intros buckets H; [exact H|].
  cbn [bucket_updates_p]. apply IH. apply increment_p_bounded. exact H.
Qed.

Lemma feed1_bounded gc v s x : ginv gc v s -> bk_bounded s -> bk_bounded (feed1 gc v s x).
Proof.
  intros [Ht _] Hb. unfold feed1. destruct (g_tail_len s <? 4); [exact Hb|].
  destruct (max_len <=? g_len s); [exact Hb|].
  destruct (tail4 _ Ht) as [t0 [t1 [t2 [t3 Et]]]]. rewrite Et.
  unfold absorb_p. unfold bk_bounded. cbn [g_buckets]. apply bucket_updates_p_bounded. exact Hb.
Qed.

Lemma feed_bounded gc v data : forall s, ginv gc v s -> bk_bounded s -> bk_bounded (feed gc v s data).
Proof.
  unfold feed. induction data as [|x data IH]; intros s Hi Hb; [exact Hb|].
  cbn [fold_left]. apply IH; [apply feed1_inv; exact Hi|apply feed1_bounded; assumption].
Qed.

Lemma init_bounded gc v : bk_bounded (g_init gc v).
Proof.
  unfold bk_bounded, g_init. cbn [g_buckets]. apply Forall_forall. intros x Hx.
  apply repeat_spec in Hx. subst. reflexivity.
Qed.
