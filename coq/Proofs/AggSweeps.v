(* exhaustive evaluation of the regenerated aggregation kernels on every vector of per-lane outcomes
   (4^4 x 256 undefined-byte patterns for the 128-bit kernels, 4^8 for AVX2) *)
From TlshV Require Import Model.Machine Model.MFinalize Model.MAgg Gen.AggKernels.

Fixpoint all_outs (n : nat) : list (list N) :=
  match n with
  | O => [[]]
  | Datatypes.S n' => flat_map (fun t => map (fun o => o :: t) [0; 1; 2; 3]) (all_outs n')
  end.

Definition byte_of4 (l : list N) : N :=
  match l with [a; b; c; d] => a + 4 * b + 16 * c + 64 * d | _ => 0 end.

Definition list_eq_opt (a : option (list N)) (b : list N) : bool :=
  match a with Some x => list_eqb x b | None => false end.

Definition agg4_ok (p : aprogram) (results : list nat) : bool :=
  forallb (fun outs => forallb (fun u => list_eq_opt (aeval p results outs u) [byte_of4 outs])
                               (map N.of_nat (seq 0 256))) (all_outs 4).

Definition agg8_ok (p : aprogram) (results : list nat) : bool :=
  forallb (fun outs => list_eq_opt (aeval p results outs 0) [byte_of4 (skipn 4 outs); byte_of4 (firstn 4 outs)])
          (all_outs 8).

Lemma agg_sse2_ok : agg4_ok agg_sse2_prog agg_sse2_results = true.
Proof. vm_cast_no_check (@eq_refl bool true). Qed.

Lemma agg_ssse3_ok : agg4_ok agg_ssse3_prog agg_ssse3_results = true.
Proof. vm_cast_no_check (@eq_refl bool true). Qed.
