(* Soundness of the tautology checker of Model/MCfgForm.v: if the finite enumeration over the
   atoms of a formula finds no falsifying assignment, the formula holds under EVERY
   environment (string -> bool), and likewise relative to the feature graph. *)
From Coq Require Import List String Bool.
From TlshV Require Import Model.MCfgForm.
Import ListNotations.
Open Scope string_scope.

Section FormInd.
  Variable P : form -> Prop.
  Hypothesis HT : P FTrue.
  Hypothesis HV : forall v, P (FVar v).
  Hypothesis HN : forall f, P f -> P (FNot f).
  Hypothesis HA : forall l, Forall P l -> P (FAnd l).
  Hypothesis HO : forall l, Forall P l -> P (FOr l).

  Fixpoint form_ind' (f : form) : P f :=
    match f with
    | FTrue => HT
    | FVar v => HV v
    | FNot g => HN g (form_ind' g)
    | FAnd l => HA l ((fix go (l : list form) : Forall P l :=
                         match l with [] => Forall_nil P | x :: r => Forall_cons x (form_ind' x) (go r) end) l)
    | FOr l => HO l ((fix go (l : list form) : Forall P l :=
                         match l with [] => Forall_nil P | x :: r => Forall_cons x (form_ind' x) (go r) end) l)
    end.
End FormInd.

Lemma eval_ext (e1 e2 : string -> bool) (f : form) :
  (forall v, In v (vars f) -> e1 v = e2 v) -> eval e1 f = eval e2 f.
Proof.
  induction f as [| v | g IH | l IH | l IH] using form_ind'; intros H.
  - reflexivity.
  - cbn. apply H. cbn. left. reflexivity.
  - cbn. f_equal. apply IH. exact H.
  - cbn in *. induction l as [| x r IHr].
    + reflexivity.
    + inversion IH as [| ? ? Hx Hr]; subst.
      rewrite (Hx (fun v Hv => H v (in_or_app _ _ _ (or_introl Hv)))).
      f_equal. apply IHr; [exact Hr |].
      intros v Hv. apply H. apply in_or_app. right. exact Hv.
  - cbn in *. induction l as [| x r IHr].
    + reflexivity.
    + inversion IH as [| ? ? Hx Hr]; subst.
      rewrite (Hx (fun v Hv => H v (in_or_app _ _ _ (or_introl Hv)))).
      f_equal. apply IHr; [exact Hr |].
      intros v Hv. apply H. apply in_or_app. right. exact Hv.
Qed.

Definition of_env (vs : list string) (env : string -> bool) : assignment :=
  map (fun v => (v, env v)) vs.

Lemma of_env_in (vs : list string) (env : string -> bool) : In (of_env vs env) (assignments vs).
Proof.
  induction vs as [| v r IH]; cbn.
  - left. reflexivity.
  - apply in_or_app. destruct (env v).
    + right. apply in_map_iff. exists (of_env r env). split; [reflexivity | exact IH].
    + left. apply in_map_iff. exists (of_env r env). split; [reflexivity | exact IH].
Qed.

Lemma lookup_of_env (vs : list string) (env : string -> bool) (v : string) :
  In v vs -> lookup (of_env vs env) v = env v.
Proof.
  induction vs as [| w r IH]; cbn; intros H.
  - destruct H.
  - destruct (String.eqb_spec w v) as [E | NE].
    + subst. reflexivity.
    + destruct H as [H | H]; [contradiction | apply IH; exact H].
Qed.

Theorem taut_sound (f : form) : taut f = true -> forall env, eval env f = true.
Proof.
  unfold taut. intros H env.
  rewrite forallb_forall in H.
  specialize (H (of_env (dedup (vars f)) env) (of_env_in _ _)).
  rewrite <- H. apply eval_ext.
  intros v Hv. symmetry. apply lookup_of_env.
  unfold dedup. apply nodup_In. exact Hv.
Qed.

Lemma eval_and_map (env : string -> bool) (l : list form) :
  eval env (FAnd l) = forallb (eval env) l.
Proof. cbn. induction l as [| x r IH]; [reflexivity | cbn; rewrite IH; reflexivity]. Qed.

Lemma eval_and_vars (env : string -> bool) (l : list string) :
  eval env (FAnd (map FVar l)) = forallb env l.
Proof. rewrite eval_and_map. induction l as [| x r IH]; [reflexivity | cbn; rewrite IH; reflexivity]. Qed.

Lemma clause_eval (env : string -> bool) (c : string * list string) :
  eval env (clause_form c) = implb (env (fst c)) (forallb env (snd c)).
Proof.
  unfold clause_form, FImp.
  change (eval env (FOr [FNot (FVar (fst c)); FAnd (map FVar (snd c))]))
    with (negb (env (fst c)) || (eval env (FAnd (map FVar (snd c))) || false)).
  rewrite eval_and_vars. destruct (env (fst c)), (forallb env (snd c)); reflexivity.
Qed.

Lemma closed_sub (g g' : fgraph) (env : string -> bool) :
  (forall c, In c g' -> In c g) -> closed g env = true -> eval env (closed_form g') = true.
Proof.
  intros Hsub H. unfold closed in H. rewrite forallb_forall in H.
  unfold closed_form. rewrite eval_and_map. apply forallb_forall.
  intros x Hx. apply in_map_iff in Hx. destruct Hx as [c [E Hc]]. subst x.
  rewrite clause_eval. apply H. apply Hsub. exact Hc.
Qed.

Theorem taut_closed_sound (g : fgraph) (f : form) :
  taut_closed g f = true -> forall env, closed g env = true -> eval env f = true.
Proof.
  unfold taut_closed. intros H env Hc.
  pose proof (taut_sound _ H env) as T.
  unfold FImp in T.
  change (eval env (FOr [FNot (closed_form (relevant g f)); f]))
    with (negb (eval env (closed_form (relevant g f))) || (eval env f || false)) in T.
  rewrite (closed_sub g (relevant g f) env) in T.
  - cbn in T. rewrite orb_false_r in T. exact T.
  - intros c Hin. unfold relevant in Hin. apply filter_In in Hin. tauto.
  - exact Hc.
Qed.
