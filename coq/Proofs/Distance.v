(* C02: the comparison model equals the reference distance, for every hash pair, every header
   table variant and every body backend. *)
From Coq Require Import Lia ZArith ZifyBool ZifyN.
From TlshV Require Import Model.Machine Gen.Tables Gen.Kernels Model.MLength Model.MHash Model.MLanes Model.MCompare
  Spec.SpecHex Spec.SpecDistance Proofs.ListN Proofs.HexBytes Proofs.HexLists Proofs.HashCodec Proofs.Lanes Proofs.DistSweeps.

Ltac Zify.zify_post_hook ::= Z.div_mod_to_equations.

(* ---- header parts ---- *)

Lemma in_all_ccfg c : In {| cc_len_table := cc_len_table c; cc_q := cc_q c; cc_body := 0; cc_dbg := cc_dbg c |} all_ccfg.
Proof. destruct c as [lt q b d]. destruct lt, q, d; cbn; tauto. Qed.

Lemma dist_length_spec c a b : a < 256 -> b < 256 -> @dist_length unit c a b = Ok (ld a b).
Proof.
  intros Ha Hb. pose proof header_sweep as H. rewrite forallb_forall in H.
  specialize (H _ (in_all_ccfg c)). rewrite forallb_forall in H. specialize (H a (in_bytes256 _ Ha)).
  rewrite forallb_forall in H. specialize (H b (in_bytes256 _ Hb)). apply andb_prop in H as [H _].
  apply oeq_eq in H. exact H.
Qed.

Lemma dist_q_spec c a b : a < 256 -> b < 256 -> @dist_q unit c a b = Ok (q_dist a b).
Proof.
  intros Ha Hb. pose proof header_sweep as H. rewrite forallb_forall in H.
  specialize (H _ (in_all_ccfg c)). rewrite forallb_forall in H. specialize (H a (in_bytes256 _ Ha)).
  rewrite forallb_forall in H. specialize (H b (in_bytes256 _ Hb)). apply andb_prop in H as [_ H].
  apply oeq_eq in H. exact H.
Qed.

Lemma dist_cks_spec a b : dist_cks a b = cks_dist a b.
Proof.
  unfold dist_cks, cks_dist.
  assert (G : forall l acc, fold_left (fun acc (p : N * N) => acc + (if fst p =? snd p then 0 else 1)) l acc
                            = acc + sum (map (fun p : N * N => if fst p =? snd p then 0 else 1) l)).
  { induction l as [|p l IH]; intros acc; cbn [fold_left map sum]; [lia|]. rewrite IH. lia. }
  rewrite G. lia.
Qed.

(* ---- horizontal sums ---- *)

Lemma hsum8 s0 s1 s2 s3 s4 s5 s6 s7 :
  s0 <= 24 -> s1 <= 24 -> s2 <= 24 -> s3 <= 24 -> s4 <= 24 -> s5 <= 24 -> s6 <= 24 -> s7 <= 24 ->
  ((pack [s0; s1; s2; s3; s4; s5; s6; s7] * 72340172838076673) mod 2 ^ 64) / 2 ^ 56
  = s0 + s1 + s2 + s3 + s4 + s5 + s6 + s7.
Proof.
  intros. cbn [pack]. change (2 ^ 64) with 18446744073709551616. change (2 ^ 56) with 72057594037927936. lia.
Qed.

Lemma hsum4 s0 s1 s2 s3 : s0 <= 24 -> s1 <= 24 -> s2 <= 24 -> s3 <= 24 ->
  ((pack [s0; s1; s2; s3] * 16843009) mod 2 ^ 32) / 2 ^ 24 = s0 + s1 + s2 + s3.
Proof. intros. cbn [pack]. change (2 ^ 32) with 4294967296. change (2 ^ 24) with 16777216. lia. Qed.

Lemma hsum_sse2 s0 s1 s2 s3 : s0 <= 24 -> s1 <= 24 -> s2 <= 24 -> s3 <= 24 ->
  granule_sum_sse2 (pack [s0; s1; s2; s3]) = s0 + s1 + s2 + s3.
Proof. intros. unfold granule_sum_sse2. cbn [pack]. lia. Qed.
