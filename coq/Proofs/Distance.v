(* C02: the comparison model equals the reference distance, for every hash pair, every header
   table variant and every body backend. *)
From Coq Require Import Lia ZArith ZifyBool ZifyN.
From TlshV Require Import Model.Machine Gen.Tables Gen.Kernels Model.MLength Model.MHash Model.MLanes Model.MCompare
  Spec.SpecHex Spec.SpecDistance Proofs.ListN Proofs.HexBytes Proofs.HexLists Proofs.HashCodec Proofs.Lanes Proofs.DistSweeps.

Ltac Zify.zify_post_hook ::= Z.div_mod_to_equations.

(* ---- header parts ---- *)

Lemma in_all_ccfg c : In {| cc_len_table := cc_len_table c; cc_q := cc_q c; cc_body := 0; cc_dbg := cc_dbg c |} all_ccfg.
Proof. destruct c as [lt q b d]. destruct lt, q, d; cbn; tauto. Qed.

Lemma dist_length_spec c a b : a < 256 -> b < 256 -> @dist_length unit c a b = Ok (ld a b).
Proof.
  intros Ha Hb. pose proof header_sweep as H. rewrite forallb_forall in H.
  specialize (H _ (in_all_ccfg c)). rewrite forallb_forall in H. specialize (H a (in_bytes256 _ Ha)).
  rewrite forallb_forall in H. specialize (H b (in_bytes256 _ Hb)). apply andb_prop in H as [H _].
  apply oeq_eq in H. exact H.
Qed.

Lemma dist_q_spec c a b : a < 256 -> b < 256 -> @dist_q unit c a b = Ok (q_dist a b).
Proof.
  intros Ha Hb. pose proof header_sweep as H. rewrite forallb_forall in H.
  specialize (H _ (in_all_ccfg c)). rewrite forallb_forall in H. specialize (H a (in_bytes256 _ Ha)).
  rewrite forallb_forall in H. specialize (H b (in_bytes256 _ Hb)). apply andb_prop in H as [_ H].
  apply oeq_eq in H. exact H.
Qed.

Lemma dist_cks_spec a b : dist_cks a b = cks_dist a b.
Proof.
  unfold dist_cks, cks_dist.
  assert (G : forall l acc, fold_left (fun acc (p : N * N) => acc + (if fst p =? snd p then 0 else 1)) l acc
                            = acc + sum (map (fun p : N * N => if fst p =? snd p then 0 else 1) l)).
  { induction l as [|p l IH]; intros acc; cbn [fold_left map sum]; [lia|]. rewrite IH. lia. }
  rewrite G. lia.
Qed.

(* ---- horizontal sums ---- *)

Lemma hsum8 s0 s1 s2 s3 s4 s5 s6 s7 :
  s0 <= 24 -> s1 <= 24 -> s2 <= 24 -> s3 <= 24 -> s4 <= 24 -> s5 <= 24 -> s6 <= 24 -> s7 <= 24 ->
  ((pack [s0; s1; s2; s3; s4; s5; s6; s7] * 72340172838076673) mod 2 ^ 64) / 2 ^ 56
  = s0 + s1 + s2 + s3 + s4 + s5 + s6 + s7.
Proof.
  intros.
  set (R := pack [s0; s0+s1; s0+s1+s2; s0+s1+s2+s3; s0+s1+s2+s3+s4; s0+s1+s2+s3+s4+s5; s0+s1+s2+s3+s4+s5+s6]).
  set (T := s0 + s1 + s2 + s3 + s4 + s5 + s6 + s7).
  set (Q := pack [s1+s2+s3+s4+s5+s6+s7; s2+s3+s4+s5+s6+s7; s3+s4+s5+s6+s7; s4+s5+s6+s7; s5+s6+s7; s6+s7; s7]).
  assert (HR : R < 2 ^ 56) by (subst R; cbn [pack]; change (2 ^ 56) with 72057594037927936; lia).
  assert (E : pack [s0; s1; s2; s3; s4; s5; s6; s7] * 72340172838076673 = (R + T * 2 ^ 56) + Q * 2 ^ 64).
  { subst R T Q. cbn [pack]. change (2 ^ 64) with 18446744073709551616. change (2 ^ 56) with 72057594037927936. lia. }
  rewrite E.
  assert (HT : R + T * 2 ^ 56 < 2 ^ 64).
  { subst T. change (2 ^ 64) with 18446744073709551616 in *. change (2 ^ 56) with 72057594037927936 in *. lia. }
  rewrite N.mod_add by discriminate. rewrite N.mod_small by exact HT.
  rewrite N.div_add by discriminate. rewrite N.div_small by exact HR. lia.
Qed.

Lemma hsum4 s0 s1 s2 s3 : s0 <= 24 -> s1 <= 24 -> s2 <= 24 -> s3 <= 24 ->
  ((pack [s0; s1; s2; s3] * 16843009) mod 2 ^ 32) / 2 ^ 24 = s0 + s1 + s2 + s3.
Proof.
  intros.
  set (R := pack [s0; s0+s1; s0+s1+s2]). set (T := s0 + s1 + s2 + s3). set (Q := pack [s1+s2+s3; s2+s3; s3]).
  assert (HR : R < 2 ^ 24) by (subst R; cbn [pack]; change (2 ^ 24) with 16777216; lia).
  assert (E : pack [s0; s1; s2; s3] * 16843009 = (R + T * 2 ^ 24) + Q * 2 ^ 32).
  { subst R T Q. cbn [pack]. change (2 ^ 32) with 4294967296. change (2 ^ 24) with 16777216. lia. }
  rewrite E.
  assert (HT : R + T * 2 ^ 24 < 2 ^ 32).
  { subst T. change (2 ^ 32) with 4294967296 in *. change (2 ^ 24) with 16777216 in *. lia. }
  rewrite N.mod_add by discriminate. rewrite N.mod_small by exact HT.
  rewrite N.div_add by discriminate. rewrite N.div_small by exact HR. lia.
Qed.

Lemma half_sum a b : a <= 24 -> b <= 24 -> ((a + 256 * b) * 256) mod 65536 / 256 + (a + 256 * b) / 256 = a + b.
Proof.
  intros Ha Hb.
  replace ((a + 256 * b) * 256) with (a * 256 + b * 65536) by lia.
  rewrite N.mod_add by discriminate. rewrite (N.mod_small (a * 256)) by lia. rewrite N.div_mul by discriminate.
  replace (a + 256 * b) with (a + b * 256) by lia. rewrite N.div_add by discriminate. rewrite N.div_small by lia. lia.
Qed.

Lemma hsum_sse2 s0 s1 s2 s3 : s0 <= 24 -> s1 <= 24 -> s2 <= 24 -> s3 <= 24 ->
  granule_sum_sse2 (pack [s0; s1; s2; s3]) = s0 + s1 + s2 + s3.
Proof.
  intros. unfold granule_sum_sse2. cbn [pack].
  replace (s0 + 256 * (s1 + 256 * (s2 + 256 * (s3 + 256 * 0)))) with ((s0 + 256 * s1) + (s2 + 256 * s3) * 65536) by lia.
  rewrite N.mod_add by discriminate. rewrite (N.mod_small (s0 + 256 * s1)) by lia.
  rewrite N.div_add by discriminate. rewrite (N.div_small (s0 + 256 * s1) 65536) by lia. rewrite N.add_0_l.
  rewrite !half_sum by assumption. lia.
Qed.

(* ---- what the exhaustive kernel sweeps give ---- *)

Lemma kernel_ok_elim p out : kernel_ok p out = true -> forall a b, a < 256 -> b < 256 ->
  lane_safe p out a b = true /\ eval 1 p out a b = byte_dist a b.
Proof.
  intros H a b Ha Hb. unfold kernel_ok in H. rewrite forallb_forall in H. specialize (H a (in_bytes256 _ Ha)).
  rewrite forallb_forall in H. specialize (H b (in_bytes256 _ Hb)). apply andb_prop in H as [H1 H2].
  apply N.eqb_eq in H2. split; assumption.
Qed.

Lemma byte_dist_le a b : a < 256 -> b < 256 -> byte_dist a b <= 24.
Proof.
  intros Ha Hb. pose proof byte_dist_le_24 as H. rewrite forallb_forall in H. specialize (H a (in_bytes256 _ Ha)).
  rewrite forallb_forall in H. specialize (H b (in_bytes256 _ Hb)). apply N.leb_le in H. exact H.
Qed.

(* ---- list plumbing ---- *)

Lemma sum_list_cons x l : sum_list (x :: l) = x + sum_list l.
Proof.
  unfold sum_list. cbn [fold_left]. rewrite N.add_0_l.
  assert (G : forall l a b, fold_left N.add l (a + b) = a + fold_left N.add l b).
  { induction l0 as [|y l0 IH]; intros a b; cbn [fold_left]; [reflexivity|]. rewrite <- N.add_assoc. apply IH. }
  rewrite <- (N.add_0_r x) at 1. apply G.
Qed.

Lemma body_dist_cons x a y b : body_dist (x :: a) (y :: b) = byte_dist x y + body_dist a b.
Proof. reflexivity. Qed.

Lemma body_dist_split n : forall a b,
  body_dist a b = body_dist (firstn n a) (firstn n b) + body_dist (skipn n a) (skipn n b).
Proof.
  induction n as [|n IH]; intros a b; [reflexivity|].
  destruct a as [|x a]; [reflexivity|]. destruct b as [|y b].
  - cbn [firstn skipn]. unfold body_dist. rewrite !combine_nil. reflexivity.
  - cbn [firstn skipn]. rewrite !body_dist_cons, (IH a b). lia.
Qed.

Lemma chunks_sum (f : list N * list N -> N) n k : forall a b,
  length a = (k * n)%nat -> length b = (k * n)%nat -> bytes_all a -> bytes_all b ->
  (forall X Y, length X = n -> length Y = n -> bytes_all X -> bytes_all Y -> f (X, Y) = body_dist X Y) ->
  sum_list (map f (combine (chunks_k n k a) (chunks_k n k b))) = body_dist a b.
Proof.
  induction k as [|k IH]; intros a b Ha Hb Ba Bb Hf.
  - destruct a; [|discriminate]. reflexivity.
  - cbn [chunks_k combine map]. rewrite sum_list_cons.
    rewrite (body_dist_split n a b). f_equal.
    + apply Hf; try (rewrite firstn_length; cbn [Nat.mul] in Ha, Hb; lia); apply bytes_all_firstn; assumption.
    + apply IH; try (rewrite skipn_length; cbn [Nat.mul] in Ha, Hb; lia); try apply bytes_all_skipn; assumption.
Qed.

Lemma bytes4 X : length X = 4%nat -> bytes_all X ->
  exists x0 x1 x2 x3, X = [x0; x1; x2; x3] /\ x0 < 256 /\ x1 < 256 /\ x2 < 256 /\ x3 < 256.
Proof.
  intros HL HB. destruct X as [|x0 [|x1 [|x2 [|x3 [|? ?]]]]]; try discriminate.
  exists x0, x1, x2, x3. unfold bytes_all in HB.
  inversion HB as [|? ? H0 HB1]; subst. inversion HB1 as [|? ? H1 HB2]; subst.
  inversion HB2 as [|? ? H2 HB3]; subst. inversion HB3 as [|? ? H3 _]; subst. tauto.
Qed.

(* ---- one 4-lane granule / one 8-lane word ---- *)

Lemma granule4 p out (gsum : N -> N) X Y :
  kernel_ok p out = true ->
  (forall s0 s1 s2 s3, s0 <= 24 -> s1 <= 24 -> s2 <= 24 -> s3 <= 24 -> gsum (pack [s0; s1; s2; s3]) = s0 + s1 + s2 + s3) ->
  length X = 4%nat -> length Y = 4%nat -> bytes_all X -> bytes_all Y ->
  gsum (eval 4 p out (pack X) (pack Y)) = body_dist X Y.
Proof.
  intros Hk Hg HX HY BX BY.
  destruct (bytes4 X HX BX) as [x0 [x1 [x2 [x3 [-> [? [? [? ?]]]]]]]].
  destruct (bytes4 Y HY BY) as [y0 [y1 [y2 [y3 [-> [? [? [? ?]]]]]]]].
  pose proof (kernel_ok_elim p out Hk) as K.
  pose proof (lane_homomorphism p out [x0; x1; x2; x3] [y0; y1; y2; y3]) as L.
  cbn [length] in L. rewrite L; [| discriminate | reflexivity |].
  2:{ intros a b Hab. cbn [combine In] in Hab.
      destruct Hab as [E|[E|[E|[E|[]]]]]; injection E as <- <-; apply K; assumption. }
  unfold map2. cbn [combine map fst snd].
  rewrite !(fun a b Ha Hb => proj2 (K a b Ha Hb)) by assumption.
  rewrite Hg by (apply byte_dist_le; assumption).
  rewrite !body_dist_cons. unfold body_dist. cbn [combine map sum]. lia.
Qed.

Lemma granule8 p out X Y :
  kernel_ok p out = true ->
  length X = 8%nat -> length Y = 8%nat -> bytes_all X -> bytes_all Y ->
  wrap32 (((eval 8 p out (pack X) (pack Y) * 72340172838076673) mod 2 ^ 64) / 2 ^ 56) = body_dist X Y.
Proof.
  intros Hk HX HY BX BY.
  rewrite <- (firstn_skipn 4 X) in *. rewrite <- (firstn_skipn 4 Y) in *.
  apply bytes_all_app in BX as [BX1 BX2]. apply bytes_all_app in BY as [BY1 BY2].
  assert (L1 : length (firstn 4 X) = 4%nat) by (rewrite app_length, firstn_length, skipn_length in HX; rewrite firstn_length; lia).
  assert (L2 : length (skipn 4 X) = 4%nat) by (rewrite app_length, firstn_length, skipn_length in HX; rewrite skipn_length; lia).
  assert (L3 : length (firstn 4 Y) = 4%nat) by (rewrite app_length, firstn_length, skipn_length in HY; rewrite firstn_length; lia).
  assert (L4 : length (skipn 4 Y) = 4%nat) by (rewrite app_length, firstn_length, skipn_length in HY; rewrite skipn_length; lia).
  destruct (bytes4 _ L1 BX1) as [x0 [x1 [x2 [x3 [-> [? [? [? ?]]]]]]]].
  destruct (bytes4 _ L2 BX2) as [x4 [x5 [x6 [x7 [-> [? [? [? ?]]]]]]]].
  destruct (bytes4 _ L3 BY1) as [y0 [y1 [y2 [y3 [-> [? [? [? ?]]]]]]]].
  destruct (bytes4 _ L4 BY2) as [y4 [y5 [y6 [y7 [-> [? [? [? ?]]]]]]]].
  cbn [app].
  pose proof (kernel_ok_elim p out Hk) as K.
  pose proof (lane_homomorphism p out [x0; x1; x2; x3; x4; x5; x6; x7] [y0; y1; y2; y3; y4; y5; y6; y7]) as L.
  cbn [length] in L. rewrite L; [| discriminate | reflexivity |].
  2:{ intros a b Hab. cbn [combine In] in Hab.
      destruct Hab as [E|[E|[E|[E|[E|[E|[E|[E|[]]]]]]]]]; injection E as <- <-; apply K; assumption. }
  unfold map2. cbn [combine map fst snd].
  rewrite !(fun a b Ha Hb => proj2 (K a b Ha Hb)) by assumption.
  rewrite hsum8 by (apply byte_dist_le; assumption).
  pose proof (byte_dist_le x0 y0) as B0. pose proof (byte_dist_le x1 y1) as B1. pose proof (byte_dist_le x2 y2) as B2.
  pose proof (byte_dist_le x3 y3) as B3. pose proof (byte_dist_le x4 y4) as B4. pose proof (byte_dist_le x5 y5) as B5.
  pose proof (byte_dist_le x6 y6) as B6. pose proof (byte_dist_le x7 y7) as B7.
  unfold wrap32. rewrite N.mod_small by lia.
  rewrite !body_dist_cons. unfold body_dist. cbn [combine map sum]. lia.
Qed.

(* ---- every body backend = reference body distance ---- *)

Definition body_len (n : nat) : Prop := n = 12%nat \/ n = 32%nat \/ n = 64%nat.

Lemma sub32_spec X Y : length X = 4%nat -> length Y = 4%nat -> bytes_all X -> bytes_all Y ->
  sub_distance_32 (word_of X) (word_of Y) = body_dist X Y.
Proof.
  intros. unfold sub_distance_32, word_of.
  apply (granule4 pseudo32_lanes pseudo32_out (fun s => ((s * 16843009) mod 2 ^ 32) / 2 ^ 24)); try assumption.
  - exact pseudo32_ok.
  - exact hsum4.
Qed.

Lemma sub64_spec X Y : length X = 8%nat -> length Y = 8%nat -> bytes_all X -> bytes_all Y ->
  sub_distance_64 (word_of X) (word_of Y) = body_dist X Y.
Proof. intros. unfold sub_distance_64, word_of. apply granule8; try assumption. exact pseudo64_ok. Qed.

Lemma body_pseudo32_spec a b : body_len (length a) -> length b = length a -> bytes_all a -> bytes_all b ->
  body_pseudo32 a b = body_dist a b.
Proof.
  intros HL Hb Ba Bb. unfold body_pseudo32, chunks_exact. rewrite Hb.
  apply (chunks_sum (fun p => sub_distance_32 (word_of (fst p)) (word_of (snd p)))); try assumption.
  - destruct HL as [E|[E|E]]; rewrite E; reflexivity.
  - rewrite Hb. destruct HL as [E|[E|E]]; rewrite E; reflexivity.
  - intros X Y HX HY BX BY. cbn [fst snd]. apply sub32_spec; assumption.
Qed.

Lemma body_pseudo64_spec a b : body_len (length a) -> length b = length a -> bytes_all a -> bytes_all b ->
  body_pseudo64 a b = body_dist a b.
Proof.
  intros HL Hb Ba Bb. unfold body_pseudo64.
  destruct (Nat.eqb_spec (length a) 12) as [E12|N12].
  - rewrite (body_dist_split 8 a b). f_equal.
    + apply sub64_spec; try (rewrite firstn_length; lia); apply bytes_all_firstn; assumption.
    + apply sub32_spec; try (rewrite skipn_length; lia); apply bytes_all_skipn; assumption.
  - unfold chunks_exact. rewrite Hb.
    apply (chunks_sum (fun p => sub_distance_64 (word_of (fst p)) (word_of (snd p)))); try assumption.
    + destruct HL as [E|[E|E]]; rewrite E; try reflexivity. contradiction.
    + rewrite Hb. destruct HL as [E|[E|E]]; rewrite E; try reflexivity. contradiction.
    + intros X Y HX HY BX BY. cbn [fst snd]. apply sub64_spec; assumption.
Qed.

Lemma body_x86_spec lanes out gsum a b :
  kernel_ok lanes out = true ->
  (forall s0 s1 s2 s3, s0 <= 24 -> s1 <= 24 -> s2 <= 24 -> s3 <= 24 -> gsum (pack [s0; s1; s2; s3]) = s0 + s1 + s2 + s3) ->
  body_len (length a) -> length b = length a -> bytes_all a -> bytes_all b ->
  body_x86 lanes out gsum a b = body_dist a b.
Proof.
  intros Hk Hg HL Hb Ba Bb. unfold body_x86, chunks_exact. rewrite Hb.
  apply (chunks_sum (fun p => gsum (eval 4 lanes out (word_of (fst p)) (word_of (snd p))))); try assumption.
  - destruct HL as [E|[E|E]]; rewrite E; reflexivity.
  - rewrite Hb. destruct HL as [E|[E|E]]; rewrite E; reflexivity.
  - intros X Y HX HY BX BY. cbn [fst snd]. unfold word_of. apply granule4; assumption.
Qed.

Theorem dist_body_spec c a b : body_len (length a) -> length b = length a -> bytes_all a -> bytes_all b ->
  dist_body c a b = body_dist a b.
Proof.
  intros HL Hb Ba Bb. unfold dist_body.
  destruct (Nat.eqb (length a) 12).
  - destruct (cc_body c =? 0); [apply body_pseudo32_spec | apply body_pseudo64_spec]; assumption.
  - destruct (cc_body c =? 0); [apply body_pseudo32_spec; assumption|].
    destruct (cc_body c =? 1); [apply body_pseudo64_spec; assumption|].
    destruct (cc_body c =? 2); [apply body_x86_spec; try assumption; [exact sse2_ok | exact hsum_sse2]|].
    destruct (cc_body c =? 3); [apply body_x86_spec; try assumption; [exact sse41_ok | exact hsum4]|].
    apply body_x86_spec; try assumption; [exact avx2_ok | exact hsum4].
Qed.

(* ---- the whole comparison ---- *)

Lemma body_len_of v h : is_variant v -> hash_okb v h -> body_len (length (h_body h)).
Proof.
  intros Hv [_ [Hb _]]. unfold lenN in Hb. unfold body_len.
  destruct Hv;
    [ change (size_body V_Short) with 12 in Hb; left
    | change (size_body V_Normal) with 32 in Hb; right; left
    | change (size_body V_NormalLong) with 32 in Hb; right; left
    | change (size_body V_Long) with 64 in Hb; right; right
    | change (size_body V_LongLong) with 64 in Hb; right; right ]; lia.
Qed.

Theorem compare_is_reference_lemma c v a b m :
  is_variant v -> hash_okb v a -> hash_okb v b ->
  @compare unit c a b m = Ok (spec_distance a b m).
Proof.
  intros Hv Ha Hb. pose proof (body_len_of v a Hv Ha) as La. pose proof (body_len_of v b Hv Hb) as Lb.
  destruct Ha as [Hac [Hab [Bac [Bab [Hal Haq]]]]]. destruct Hb as [Hbc [Hbb [Bbc [Bbb [Hbl Hbq]]]]].
  assert (Hlen : length (h_body b) = length (h_body a)) by (unfold lenN in *; lia).
  unfold compare, spec_distance.
  rewrite (dist_q_spec c _ _ Haq Hbq). cbn [bind].
  rewrite dist_body_spec by assumption. rewrite dist_cks_spec.
  destruct m.
  - rewrite (dist_length_spec c _ _ Hal Hbl). cbn [bind]. reflexivity.
  - cbn [bind]. reflexivity.
Qed.
