(* C02: the comparison model equals the reference distance, for every hash pair, every header
   table variant and every body backend. *)
From Coq Require Import Lia ZArith ZifyBool ZifyN.
From TlshV Require Import Model.Machine Gen.Tables Gen.Kernels Model.MLength Model.MHash Model.MLanes Model.MCompare
  Spec.SpecHex Spec.SpecDistance Proofs.ListN Proofs.HexBytes Proofs.HexLists Proofs.HashCodec Proofs.Lanes Proofs.DistSweeps.

Ltac Zify.zify_post_hook ::= Z.div_mod_to_equations.

(* ---- header parts ---- *)

Lemma in_all_ccfg c : In {| cc_len_table := cc_len_table c; cc_q := cc_q c; cc_body := 0; cc_dbg := cc_dbg c |} all_ccfg.
Proof. destruct c as [lt q b d]. destruct lt, q, d; cbn; tauto. Qed.

Lemma dist_length_spec c a b : a < 256 -> b < 256 -> @dist_length unit c a b = Ok (ld a b).
Proof.
  intros Ha Hb. pose proof header_sweep as H. rewrite forallb_forall in H.
  specialize (H _ (in_all_ccfg c)). rewrite forallb_forall in H. specialize (H a (in_bytes256 _ Ha)).
  rewrite forallb_forall in H. specialize (H b (in_bytes256 _ Hb)). apply andb_prop in H as [H _].
  apply oeq_eq in H. exact H.
Qed.

Lemma dist_q_spec c a b : a < 256 -> b < 256 -> @dist_q unit c a b = Ok (q_dist a b).
Proof.
  intros Ha Hb. pose proof header_sweep as H. rewrite forallb_forall in H.
  specialize (H _ (in_all_ccfg c)). rewrite forallb_forall in H. specialize (H a (in_bytes256 _ Ha)).
  rewrite forallb_forall in H. specialize (H b (in_bytes256 _ Hb)). apply andb_prop in H as [_ H].
  apply oeq_eq in H. exact H.
Qed.

Lemma dist_cks_spec a b : dist_cks a b = cks_dist a b.
Proof.
  unfold dist_cks, cks_dist.
  assert (G : forall l acc, fold_left (fun acc (p : N * N) => acc + (if fst p =? snd p then 0 else 1)) l acc
                            = acc + sum (map (fun p : N * N => if fst p =? snd p then 0 else 1) l)).
  { induction l as [|p l IH]; intros acc; cbn [fold_left map sum]; [lia|]. rewrite IH. lia. }
  rewrite G. lia.
Qed.

(* ---- horizontal sums ---- *)

Lemma hsum8 s0 s1 s2 s3 s4 s5 s6 s7 :
  s0 <= 24 -> s1 <= 24 -> s2 <= 24 -> s3 <= 24 -> s4 <= 24 -> s5 <= 24 -> s6 <= 24 -> s7 <= 24 ->
  ((pack [s0; s1; s2; s3; s4; s5; s6; s7] * 72340172838076673) mod 2 ^ 64) / 2 ^ 56
  = s0 + s1 + s2 + s3 + s4 + s5 + s6 + s7.
Proof.
  intros.
  set (R := pack [s0; s0+s1; s0+s1+s2; s0+s1+s2+s3; s0+s1+s2+s3+s4; s0+s1+s2+s3+s4+s5; s0+s1+s2+s3+s4+s5+s6]).
  set (T := s0 + s1 + s2 + s3 + s4 + s5 + s6 + s7).
  set (Q := pack [s1+s2+s3+s4+s5+s6+s7; s2+s3+s4+s5+s6+s7; s3+s4+s5+s6+s7; s4+s5+s6+s7; s5+s6+s7; s6+s7; s7]).
  assert (HR : R < 2 ^ 56) by (subst R; cbn [pack]; change (2 ^ 56) with 72057594037927936; lia).
  assert (E : pack [s0; s1; s2; s3; s4; s5; s6; s7] * 72340172838076673 = (R + T * 2 ^ 56) + Q * 2 ^ 64).
  { subst R T Q. cbn [pack]. change (2 ^ 64) with 18446744073709551616. change (2 ^ 56) with 72057594037927936. lia. }
  rewrite E.
  assert (HT : R + T * 2 ^ 56 < 2 ^ 64).
  { subst T. change (2 ^ 64) with 18446744073709551616 in *. change (2 ^ 56) with 72057594037927936 in *. lia. }
  rewrite N.mod_add by discriminate. rewrite N.mod_small by exact HT.
  rewrite N.div_add by discriminate. rewrite N.div_small by exact HR. lia.
Qed.

Lemma hsum4 s0 s1 s2 s3 : s0 <= 24 -> s1 <= 24 -> s2 <= 24 -> s3 <= 24 ->
  ((pack [s0; s1; s2; s3] * 16843009) mod 2 ^ 32) / 2 ^ 24 = s0 + s1 + s2 + s3.
Proof.
  intros.
  set (R := pack [s0; s0+s1; s0+s1+s2]). set (T := s0 + s1 + s2 + s3). set (Q := pack [s1+s2+s3; s2+s3; s3]).
  assert (HR : R < 2 ^ 24) by (subst R; cbn [pack]; change (2 ^ 24) with 16777216; lia).
  assert (E : pack [s0; s1; s2; s3] * 16843009 = (R + T * 2 ^ 24) + Q * 2 ^ 32).
  { subst R T Q. cbn [pack]. change (2 ^ 32) with 4294967296. change (2 ^ 24) with 16777216. lia. }
  rewrite E.
  assert (HT : R + T * 2 ^ 24 < 2 ^ 32).
  { subst T. change (2 ^ 32) with 4294967296 in *. change (2 ^ 24) with 16777216 in *. lia. }
  rewrite N.mod_add by discriminate. rewrite N.mod_small by exact HT.
  rewrite N.div_add by discriminate. rewrite N.div_small by exact HR. lia.
Qed.

Lemma half_sum a b : a <= 24 -> b <= 24 -> ((a + 256 * b) * 256) mod 65536 / 256 + (a + 256 * b) / 256 = a + b.
Proof.
  intros Ha Hb.
  replace ((a + 256 * b) * 256) with (a * 256 + b * 65536) by lia.
  rewrite N.mod_add by discriminate. rewrite (N.mod_small (a * 256)) by lia. rewrite N.div_mul by discriminate.
  replace (a + 256 * b) with (a + b * 256) by lia. rewrite N.div_add by discriminate. rewrite N.div_small by lia. lia.
Qed.

Lemma hsum_sse2 s0 s1 s2 s3 : s0 <= 24 -> s1 <= 24 -> s2 <= 24 -> s3 <= 24 ->
  granule_sum_sse2 (pack [s0; s1; s2; s3]) = s0 + s1 + s2 + s3.
Proof.
  intros. unfold granule_sum_sse2. cbn [pack].
  replace (s0 + 256 * (s1 + 256 * (s2 + 256 * (s3 + 256 * 0)))) with ((s0 + 256 * s1) + (s2 + 256 * s3) * 65536) by lia.
  rewrite N.mod_add by discriminate. rewrite (N.mod_small (s0 + 256 * s1)) by lia.
  rewrite N.div_add by discriminate. rewrite (N.div_small (s0 + 256 * s1) 65536) by lia. rewrite N.add_0_l.
  rewrite !half_sum by assumption. lia.
Qed.

(* ---- what the exhaustive kernel sweeps give ---- *)

Lemma kernel_ok_elim p out : kernel_ok p out = true -> forall a b, a < 256 -> b < 256 ->
  lane_safe p out a b = true /\ eval 1 p out a b = byte_dist a b.
Proof.
  intros H a b Ha Hb. unfold kernel_ok in H. rewrite forallb_forall in H. specialize (H a (in_bytes256 _ Ha)).
  rewrite forallb_forall in H. specialize (H b (in_bytes256 _ Hb)). apply andb_prop in H as [H1 H2].
  apply N.eqb_eq in H2. split; assumption.
Qed.

Lemma byte_dist_le a b : a < 256 -> b < 256 -> byte_dist a b <= 24.
Proof.
  intros Ha Hb. pose proof byte_dist_le_24 as H. rewrite forallb_forall in H. specialize (H a (in_bytes256 _ Ha)).
  rewrite forallb_forall in H. specialize (H b (in_bytes256 _ Hb)). apply N.leb_le in H. exact H.
Qed.

(* ---- list plumbing ---- *)

Lemma sum_list_cons x l : sum_list (x :: l) = x + sum_list l.
Proof.
  unfold sum_list. cbn [fold_left]. rewrite N.add_0_l.
  assert (G : forall l a b, fold_left N.add l (a + b) = a + fold_left N.add l b).
  { induction l0 as [|y l0 IH]; intros a b; cbn [fold_left]; [reflexivity|]. rewrite <- N.add_assoc. apply IH. }
  rewrite <- (N.add_0_r x) at 1. apply G.
Qed.

Lemma body_dist_cons x a y b : body_dist (x :: a) (y :: b) = byte_dist x y + body_dist a b.
Proof. reflexivity. Qed.

Lemma body_dist_split n : forall a b,
  body_dist a b = body_dist (firstn n a) (firstn n b) + body_dist (skipn n a) (skipn n b).
Proof.
  induction n as [|n IH]; intros a b; [reflexivity|].
  destruct a as [|x a]; [reflexivity|]. destruct b as [|y b].
  - cbn [firstn skipn]. unfold body_dist. rewrite !combine_nil. reflexivity.
  - cbn [firstn skipn]. rewrite !body_dist_cons, (IH a b). lia.
Qed.

Lemma chunks_sum (f : list N * list N -> N) n k : forall a b,
  length a = (k * n)%nat -> length b = (k * n)%nat -> bytes_all a -> bytes_all b ->
  (forall X Y, length X = n -> length Y = n -> bytes_all X -> bytes_all Y -> f (X, Y) = body_dist X Y) ->
  sum_list (map f (combine (chunks_k n k a) (chunks_k n k b))) = body_dist a b.
Proof.
  induction k as [|k IH]; intros a b Ha Hb Ba Bb Hf.
  - destruct a; [|discriminate]. reflexivity.
  - cbn [chunks_k combine map]. rewrite sum_list_cons.
    rewrite (body_dist_split n a b). f_equal.
    + apply Hf; try (rewrite firstn_length; cbn [Nat.mul] in Ha, Hb; lia); apply bytes_all_firstn; assumption.
    + apply IH; try (rewrite skipn_length; cbn [Nat.mul] in Ha, Hb; lia); try apply bytes_all_skipn; assumption.
Qed.

Lemma bytes4 X : length X = 4%nat -> bytes_all X ->
  exists x0 x1 x2 x3, X = [x0; x1; x2; x3] /\ x0 < 256 /\ x1 < 256 /\ x2 < 256 /\ x3 < 256.
Proof.
  intros HL HB. destruct X as [|x0 [|x1 [|x2 [|x3 [|? ?]]]]]; try discriminate.
  exists x0, x1, x2, x3. unfold bytes_all in HB.
  inversion HB as [|? ? H0 HB1]; subst. inversion HB1 as [|? ? H1 HB2]; subst.
  inversion HB2 as [|? ? H2 HB3]; subst. inversion HB3 as [|? ? H3 _]; subst. tauto.
Qed.

(* ---- one 4-lane granule / one 8-lane word ---- *)

Lemma granule4 p out (gsum : N -> N) X Y :
  kernel_ok p out = true ->
  (forall s0 s1 s2 s3, s0 <= 24 -> s1 <= 24 -> s2 <= 24 -> s3 <= 24 -> gsum (pack [s0; s1; s2; s3]) = s0 + s1 + s2 + s3) ->
  length X = 4%nat -> length Y = 4%nat -> bytes_all X -> bytes_all Y ->
  gsum (eval 4 p out (pack X) (pack Y)) = body_dist X Y.
Proof.
  intros Hk Hg HX HY BX BY.
  destruct (bytes4 X HX BX) as [x0 [x1 [x2 [x3 [-> [? [? [? ?]]]]]]]].
  destruct (bytes4 Y HY BY) as [y0 [y1 [y2 [y3 [-> [? [? [? ?]]]]]]]].
  pose proof (kernel_ok_elim p out Hk) as K.
  pose proof (lane_homomorphism p out [x0; x1; x2; x3] [y0; y1; y2; y3]) as L.
  cbn [length] in L. rewrite L; [| discriminate | reflexivity |].
  2:{ intros a b Hab. cbn [combine In] in Hab.
      destruct Hab as [E|[E|[E|[E|[]]]]]; injection E as <- <-; apply K; assumption. }
  unfold map2. cbn [combine map fst snd].
  rewrite !(fun a b Ha Hb => proj2 (K a b Ha Hb)) by assumption.
  rewrite Hg by (apply byte_dist_le; assumption).
  rewrite !body_dist_cons. unfold body_dist. cbn [combine map sum]. lia.
Qed.

Lemma granule8 p out X Y :
  kernel_ok p out = true ->
  length X = 8%nat -> length Y = 8%nat -> bytes_all X -> bytes_all Y ->
  wrap32 (((eval 8 p out (pack X) (pack Y) * 72340172838076673) mod 2 ^ 64) / 2 ^ 56) = body_dist X Y.
Proof.
  intros Hk HX HY BX BY.
  rewrite <- (firstn_skipn 4 X) in *. rewrite <- (firstn_skipn 4 Y) in *.
  apply bytes_all_app in BX as [BX1 BX2]. apply bytes_all_app in BY as [BY1 BY2].
  assert (L1 : length (firstn 4 X) = 4%nat) by (rewrite app_length, firstn_length, skipn_length in HX; rewrite firstn_length; lia).
  assert (L2 : length (skipn 4 X) = 4%nat) by (rewrite app_length, firstn_length, skipn_length in HX; rewrite skipn_length; lia).
  assert (L3 : length (firstn 4 Y) = 4%nat) by (rewrite app_length, firstn_length, skipn_length in HY; rewrite firstn_length; lia).
  assert (L4 : length (skipn 4 Y) = 4%nat) by (rewrite app_length, firstn_length, skipn_length in HY; rewrite skipn_length; lia).
  destruct (bytes4 _ L1 BX1) as [x0 [x1 [x2 [x3 [-> [? [? [? ?]]]]]]]].
  destruct (bytes4 _ L2 BX2) as [x4 [x5 [x6 [x7 [-> [? [? [? ?]]]]]]]].
  destruct (bytes4 _ L3 BY1) as [y0 [y1 [y2 [y3 [-> [? [? [? ?]]]]]]]].
  destruct (bytes4 _ L4 BY2) as [y4 [y5 [y6 [y7 [-> [? [? [? ?]]]]]]]].
  cbn [app].
  pose proof (kernel_ok_elim p out Hk) as K.
  pose proof (lane_homomorphism p out [x0; x1; x2; x3; x4; x5; x6; x7] [y0; y1; y2; y3; y4; y5; y6; y7]) as L.
  cbn [length] in L. rewrite L; [| discriminate | reflexivity |].
  2:{ intros a b Hab. cbn [combine In] in Hab.
      destruct Hab as [E|[E|[E|[E|[E|[E|[E|[E|[]]]]]]]]]; injection E as <- <-; apply K; assumption. }
  unfold map2. cbn [combine map fst snd].
  rewrite !(fun a b Ha Hb => proj2 (K a b Ha Hb)) by assumption.
  rewrite hsum8 by (apply byte_dist_le; assumption).
  pose proof (byte_dist_le x0 y0) as B0. pose proof (byte_dist_le x1 y1) as B1. pose proof (byte_dist_le x2 y2) as B2.
  pose proof (byte_dist_le x3 y3) as B3. pose proof (byte_dist_le x4 y4) as B4. pose proof (byte_dist_le x5 y5) as B5.
  pose proof (byte_dist_le x6 y6) as B6. pose proof (byte_dist_le x7 y7) as B7.
  unfold wrap32. rewrite N.mod_small by lia.
  rewrite !body_dist_cons. unfold body_dist. cbn [combine map sum]. lia.
Qed.

(* ---- every body backend = reference body distance ---- *)

Definition body_len (n : nat) : Prop := n = 12%nat \/ n = 32%nat \/ n = 64%nat.

Lemma sub32_spec X Y : length X = 4%nat -> length Y = 4%nat -> bytes_all X -> bytes_all Y ->
  sub_distance_32 (word_of X) (word_of Y) = body_dist X Y.
Proof.
  intros. unfold sub_distance_32, word_of.
  apply (granule4 pseudo32_lanes pseudo32_out (fun s => ((s * 16843009) mod 2 ^ 32) / 2 ^ 24)); try assumption.
  - exact pseudo32_ok.
  - exact hsum4.
Qed.

Lemma sub64_spec X Y : length X = 8%nat -> length Y = 8%nat -> bytes_all X -> bytes_all Y ->
  sub_distance_64 (word_of X) (word_of Y) = body_dist X Y.
Proof. intros. unfold sub_distance_64, word_of. apply granule8; try assumption. exact pseudo64_ok. Qed.

Lemma body_pseudo32_spec a b : body_len (length a) -> length b = length a -> bytes_all a -> bytes_all b ->
  body_pseudo32 a b = body_dist a b.
Proof.
  intros HL Hb Ba Bb. unfold body_pseudo32, chunks_exact. rewrite Hb.
  apply (chunks_sum (fun p => sub_distance_32 (word_of (fst p)) (word_of (snd p)))); try assumption.
  - destruct HL as [E|[E|E]]; rewrite E; reflexivity.
  - rewrite Hb. destruct HL as [E|[E|E]]; rewrite E; reflexivity.
  - intros X Y HX HY BX BY. cbn [fst snd]. apply sub32_spec; assumption.
Qed.

Lemma body_pseudo64_spec a b : body_len (length a) -> length b = length a -> bytes_all a -> bytes_all b ->
  body_pseudo64 a b = body_dist a b.
Proof.
  intros HL Hb Ba Bb. unfold body_pseudo64.
  destruct (Nat.eqb_spec (length a) 12) as [E12|N12].
  - rewrite (body_dist_split 8 a b). f_equal.
    + apply sub64_spec; try (rewrite firstn_length; lia); apply bytes_all_firstn; assumption.
    + apply sub32_spec; try (rewrite skipn_length; lia); apply bytes_all_skipn; assumption.
  - unfold chunks_exact. rewrite Hb.
    apply (chunks_sum (fun p => sub_distance_64 (word_of (fst p)) (word_of (snd p)))); try assumption.
    + destruct HL as [E|[E|E]]; rewrite E; try reflexivity. contradiction.
    + rewrite Hb. destruct HL as [E|[E|E]]; rewrite E; try reflexivity. contradiction.
    + intros X Y HX HY BX BY. cbn [fst snd]. apply sub64_spec; assumption.
Qed.

(* ---- the x86 wrappers: accumulate / shuffle-reduce / extract ---- *)

Lemma body_dist_le a : forall b, bytes_all a -> bytes_all b -> body_dist a b <= 24 * N.of_nat (length a).
Proof.
  induction a as [|x a IH]; intros [|y b] Ha Hb; try (unfold body_dist; cbn; lia).
  inversion Ha; subst. inversion Hb; subst. rewrite body_dist_cons. pose proof (byte_dist_le x y). pose proof (IH b).
  cbn [length]. lia.
Qed.

Lemma chunks_map {B} (f g : list N * list N -> B) n k : forall a b,
  length a = (k * n)%nat -> length b = (k * n)%nat -> bytes_all a -> bytes_all b ->
  (forall X Y, length X = n -> length Y = n -> bytes_all X -> bytes_all Y -> f (X, Y) = g (X, Y)) ->
  map f (combine (chunks_k n k a) (chunks_k n k b)) = map g (combine (chunks_k n k a) (chunks_k n k b)).
Proof.
  induction k as [|k IH]; intros a b Ha Hb Ba Bb Hf; [reflexivity|].
  cbn [chunks_k combine map]. f_equal.
  - apply Hf; try (rewrite firstn_length; cbn [Nat.mul] in Ha, Hb; lia); apply bytes_all_firstn; assumption.
  - apply IH; try (rewrite skipn_length; cbn [Nat.mul] in Ha, Hb; lia); try apply bytes_all_skipn; assumption.
Qed.

Lemma chunks_k_lengths n k : forall l X, length l = (k * n)%nat -> In X (chunks_k n k l) -> length X = n.
Proof.
  induction k as [|k IH]; intros l X Hl Hin; [contradiction|]. cbn [chunks_k In] in Hin. destruct Hin as [<-|Hin].
  - rewrite firstn_length. cbn [Nat.mul] in Hl. lia.
  - apply (IH (skipn n l)); [rewrite skipn_length; cbn [Nat.mul] in Hl; lia|exact Hin].
Qed.

Lemma chunks_k_bytes n k : forall l X, bytes_all l -> In X (chunks_k n k l) -> bytes_all X.
Proof.
  induction k as [|k IH]; intros l X Bl Hin; [contradiction|]. cbn [chunks_k In] in Hin. destruct Hin as [<-|Hin].
  - apply bytes_all_firstn; exact Bl.
  - apply (IH (skipn n l)); [apply bytes_all_skipn; exact Bl|exact Hin].
Qed.

(* per-granule values of a packed kernel with the multiply-shift epilogue: the reference distance of each granule *)
Lemma lanes_of_mullo lanes out k x y : kernel_ok lanes out = true ->
  length x = (k * 4)%nat -> length y = (k * 4)%nat -> bytes_all x -> bytes_all y ->
  lanes_of granule_sum_mullo lanes out x y =
  map (fun p => body_dist (fst p) (snd p)) (combine (chunks_k 4 k x) (chunks_k 4 k y)) /\
  sum_list (lanes_of granule_sum_mullo lanes out x y) = body_dist x y.
Proof.
  intros Hk Hx Hy Bx By. unfold lanes_of, chunks_exact. rewrite Hx, Hy, Nat.div_mul by discriminate.
  assert (E : map (fun p => granule_sum_mullo (eval 4 lanes out (word_of (fst p)) (word_of (snd p))))
                  (combine (chunks_k 4 k x) (chunks_k 4 k y)) =
              map (fun p => body_dist (fst p) (snd p)) (combine (chunks_k 4 k x) (chunks_k 4 k y))).
  { apply chunks_map; try assumption. intros X Y HX HY BX BY. cbn [fst snd]. unfold word_of.
    apply (granule4 lanes out granule_sum_mullo); try assumption. exact hsum4. }
  rewrite E. split; [reflexivity|].
  apply (chunks_sum (fun p => body_dist (fst p) (snd p))); try assumption. intros; reflexivity.
Qed.

(* sums of lane vectors *)
Lemma sum_list_nil : sum_list [] = 0. Proof. reflexivity. Qed.

Lemma vec4 (v : list N) : length v = 4%nat -> exists t0 t1 t2 t3, v = [t0; t1; t2; t3].
Proof. destruct v as [|t0 [|t1 [|t2 [|t3 [|? ?]]]]]; try discriminate. eauto. Qed.

Lemma sum4 t0 t1 t2 t3 : sum_list [t0; t1; t2; t3] = t0 + t1 + t2 + t3.
Proof. rewrite !sum_list_cons, sum_list_nil. lia. Qed.

Lemma add32v_sum a v : length a = 4%nat -> length v = 4%nat -> sum_list a + sum_list v < 4294967296 ->
  length (add32v a v) = 4%nat /\ sum_list (add32v a v) = sum_list a + sum_list v.
Proof.
  intros La Lv Hb. destruct (vec4 a La) as [a0 [a1 [a2 [a3 ->]]]]. destruct (vec4 v Lv) as [v0 [v1 [v2 [v3 ->]]]].
  rewrite !sum4 in Hb. unfold add32v. cbn [zipN length]. split; [reflexivity|].
  rewrite !sum4. rewrite !N.mod_small by lia. lia.
Qed.

Lemma fold_add32v vs : forall acc, length acc = 4%nat -> (forall v, In v vs -> length v = 4%nat) ->
  sum_list acc + sum_list (map sum_list vs) < 4294967296 ->
  length (fold_left add32v vs acc) = 4%nat /\
  sum_list (fold_left add32v vs acc) = sum_list acc + sum_list (map sum_list vs).
Proof.
  induction vs as [|v vs IH]; intros acc La Lv Hb; cbn [fold_left map].
  - rewrite sum_list_nil. split; [exact La|lia].
  - cbn [map] in Hb. rewrite sum_list_cons in Hb. rewrite sum_list_cons.
    assert (Hb1 : sum_list acc + sum_list v < 4294967296) by lia.
    destruct (add32v_sum acc v La (Lv v (or_introl eq_refl)) Hb1) as [L1 S1].
    destruct (IH (add32v acc v) L1) as [L2 S2]; [intros w Hw; apply Lv; right; exact Hw|rewrite S1; lia|].
    split; [exact L2|]. rewrite S2, S1. lia.
Qed.

(* the shuffle-and-add reduction of the 128-bit wrappers leaves the sum of the four lanes in lane 0 *)
Lemma reduce4_sse41 v : length v = 4%nat -> sum_list v < 4294967296 ->
  finish_lane0 (reduce add32v sse41_reduce v) = sum_list v.
Proof.
  intros L Hb. destruct (vec4 v L) as [t0 [t1 [t2 [t3 ->]]]]. rewrite sum4 in *.
  change sse41_reduce with [238; 85]. unfold reduce. cbn [fold_left].
  change (shuffle32 238 [t0; t1; t2; t3]) with [t2; t3; t2; t3]. unfold add32v at 2. cbn [zipN].
  match goal with |- context [shuffle32 85 ?s] => change (shuffle32 85 s) with [nth 1 s 0; nth 1 s 0; nth 1 s 0; nth 1 s 0] end.
  cbn [nth]. unfold add32v, finish_lane0. cbn [zipN nth]. rewrite !N.mod_small by lia. lia.
Qed.

Lemma vec8 (v : list N) : length v = 8%nat -> exists t0 t1 t2 t3 t4 t5 t6 t7, v = [t0; t1; t2; t3; t4; t5; t6; t7].
Proof. destruct v as [|t0 [|t1 [|t2 [|t3 [|t4 [|t5 [|t6 [|t7 [|? ?]]]]]]]]]; try discriminate. do 8 eexists. reflexivity. Qed.

Lemma reduce8_avx2 v : length v = 8%nat -> sum_list v < 4294967296 ->
  finish_extract avx2_extract (reduce add32v avx2_reduce v) = sum_list v.
Proof.
  intros L Hb. destruct (vec8 v L) as [t0 [t1 [t2 [t3 [t4 [t5 [t6 [t7 ->]]]]]]]].
  rewrite !sum_list_cons, sum_list_nil in *.
  change avx2_reduce with [238; 85]. change avx2_extract with [0; 4]%nat. unfold reduce. cbn [fold_left].
  change (shuffle32 238 [t0; t1; t2; t3; t4; t5; t6; t7]) with [t2; t3; t2; t3; t6; t7; t6; t7]. unfold add32v at 2. cbn [zipN].
  match goal with |- context [shuffle32 85 ?s] =>
    change (shuffle32 85 s) with [nth 1 s 0; nth 1 s 0; nth 1 s 0; nth 1 s 0; nth 5 s 0; nth 5 s 0; nth 5 s 0; nth 5 s 0] end.
  cbn [nth]. unfold add32v, finish_extract. cbn [zipN nth map]. rewrite !sum_list_cons, sum_list_nil.
  rewrite !N.mod_small by lia. lia.
Qed.

Lemma lanes_of_length gsum lanes out k x y : length x = (k * 4)%nat -> length y = (k * 4)%nat ->
  length (lanes_of gsum lanes out x y) = k.
Proof.
  intros Hx Hy. unfold lanes_of, chunks_exact. rewrite Hx, Hy, Nat.div_mul by discriminate.
  rewrite map_length, combine_length.
  assert (G : forall n kk (l : list N), length (chunks_k n kk l) = kk) by (induction kk; intros; cbn [chunks_k length]; auto).
  rewrite !G. lia.
Qed.

Definition vec_len (n : nat) : Prop := n = 32%nat \/ n = 64%nat.

(* SSE4.1: chunks of 16 bytes accumulated with add_epi32, one reduction *)
Theorem x86_acc32_spec lanes out a b : kernel_ok lanes out = true ->
  vec_len (length a) -> length b = length a -> bytes_all a -> bytes_all b ->
  x86_acc add32v granule_sum_mullo lanes out sse41_reduce finish_lane0 16 a b = body_dist a b.
Proof.
  intros Hk HL Hb Ba Bb. unfold x86_acc, chunks_exact. rewrite Hb.
  set (k := Nat.div (length a) 16).
  assert (Hka : length a = (k * 16)%nat) by (unfold k; destruct HL as [E|E]; rewrite E; reflexivity).
  assert (Hkb : length b = (k * 16)%nat) by lia.
  set (vs := map (fun p => lanes_of granule_sum_mullo lanes out (fst p) (snd p)) (combine (chunks_k 16 k a) (chunks_k 16 k b))).
  assert (Hvs : map sum_list vs = map (fun p => body_dist (fst p) (snd p)) (combine (chunks_k 16 k a) (chunks_k 16 k b))).
  { unfold vs. rewrite map_map.
    apply (chunks_map (fun p => sum_list (lanes_of granule_sum_mullo lanes out (fst p) (snd p)))); try assumption.
    intros X Y HX HY BX BY. cbn [fst snd]. apply (lanes_of_mullo lanes out 4); assumption. }
  assert (Hlen : forall v, In v vs -> length v = 4%nat).
  { intros v Hv. unfold vs in Hv. apply in_map_iff in Hv as [[X Y] [<- Hin]]. cbn [fst snd].
    apply (lanes_of_length _ _ _ 4).
    - apply (chunks_k_lengths 16 k a X Hka). apply in_combine_l in Hin. exact Hin.
    - apply (chunks_k_lengths 16 k b Y Hkb). apply in_combine_r in Hin. exact Hin. }
  assert (Htot : sum_list (map sum_list vs) = body_dist a b).
  { rewrite Hvs. apply (chunks_sum (fun p => body_dist (fst p) (snd p))); try assumption. intros; reflexivity. }
  pose proof (body_dist_le a b Ba Bb) as Hle.
  assert (Hsmall : body_dist a b < 4294967296) by (destruct HL as [E|E]; rewrite E in Hle; lia).
  destruct (fold_add32v vs (repeat 0 (Nat.div 16 4))) as [L S]; [reflexivity|exact Hlen|rewrite Htot; cbn; lia|].
  rewrite reduce4_sse41; [|exact L|rewrite S, Htot; cbn; lia]. rewrite S, Htot. cbn. lia.
Qed.

(* AVX2: every 32-byte chunk reduced on its own, scalars added *)
Theorem x86_each_spec lanes out a b : kernel_ok lanes out = true ->
  vec_len (length a) -> length b = length a -> bytes_all a -> bytes_all b ->
  x86_each add32v granule_sum_mullo lanes out avx2_reduce (finish_extract avx2_extract) 32 a b = body_dist a b.
Proof.
  intros Hk HL Hb Ba Bb. unfold x86_each, chunks_exact. rewrite Hb.
  set (k := Nat.div (length a) 32).
  assert (Hka : length a = (k * 32)%nat) by (unfold k; destruct HL as [E|E]; rewrite E; reflexivity).
  assert (Hkb : length b = (k * 32)%nat) by lia.
  apply (chunks_sum (fun p => finish_extract avx2_extract (reduce add32v avx2_reduce (lanes_of granule_sum_mullo lanes out (fst p) (snd p)))));
    try assumption.
  intros X Y HX HY BX BY. cbn [fst snd].
  destruct (lanes_of_mullo lanes out 8 X Y Hk HX HY BX BY) as [_ S].
  pose proof (body_dist_le X Y BX BY) as Hle. rewrite HX in Hle.
  rewrite reduce8_avx2; [exact S|apply (lanes_of_length _ _ _ 8); assumption|rewrite S; lia].
Qed.

(* ---- SSE2: 16-bit sums, two per granule ---- *)
Definition add16 (x y : N) : N := (x mod 65536 + y mod 65536) mod 65536 + 65536 * ((x / 65536 + y / 65536) mod 65536).
Definition val16 (t : N) : N := t mod 65536 + t / 65536.
Definition wb (B t : N) : Prop := t mod 65536 <= B /\ t / 65536 <= B.

Lemma add16_parts B1 B2 x y : wb B1 x -> wb B2 y -> B1 + B2 < 65536 ->
  (add16 x y) mod 65536 = x mod 65536 + y mod 65536 /\ (add16 x y) / 65536 = x / 65536 + y / 65536.
Proof.
  intros [X1 X2] [Y1 Y2] Hb. unfold add16.
  rewrite (N.mod_small (x mod 65536 + y mod 65536)) by lia. rewrite (N.mod_small (x / 65536 + y / 65536)) by lia.
  set (LO := x mod 65536 + y mod 65536) in *. set (HI := x / 65536 + y / 65536) in *.
  assert (HLO : LO < 65536) by lia.
  replace (LO + 65536 * HI) with (LO + HI * 65536) by lia.
  rewrite N.mod_add by discriminate. rewrite N.div_add by discriminate.
  rewrite N.mod_small by exact HLO. rewrite N.div_small by exact HLO. split; lia.
Qed.

Lemma add16_wb B1 B2 x y : wb B1 x -> wb B2 y -> B1 + B2 < 65536 ->
  wb (B1 + B2) (add16 x y) /\ val16 (add16 x y) = val16 x + val16 y.
Proof.
  intros Hx Hy Hb. destruct (add16_parts B1 B2 x y Hx Hy Hb) as [E1 E2]. destruct Hx as [X1 X2], Hy as [Y1 Y2].
  unfold wb, val16. rewrite E1, E2. repeat split; lia.
Qed.

Lemma words_pack s0 s1 s2 s3 : s0 <= 24 -> s1 <= 24 -> s2 <= 24 -> s3 <= 24 ->
  granule_words_sse2 (pack [s0; s1; s2; s3]) = (s0 + s1) + 65536 * (s2 + s3).
Proof.
  intros. unfold granule_words_sse2. cbn [pack].
  replace (s0 + 256 * (s1 + 256 * (s2 + 256 * (s3 + 256 * 0)))) with ((s0 + 256 * s1) + (s2 + 256 * s3) * 65536) by lia.
  rewrite N.mod_add by discriminate. rewrite (N.mod_small (s0 + 256 * s1)) by lia.
  rewrite N.div_add by discriminate. rewrite (N.div_small (s0 + 256 * s1) 65536) by lia. rewrite N.add_0_l.
  rewrite !half_sum by assumption. reflexivity.
Qed.

(* one granule of the SSE2 packed kernel: two 16-bit sums <= 48 whose total is the granule's reference distance *)
Definition gsum_chk (s : N) : N :=
  let w := granule_words_sse2 s in
  if (w mod 65536 <=? 48) && (w / 65536 <=? 48) then val16 w else 1099511627776.

Lemma gsum_chk_pack s0 s1 s2 s3 : s0 <= 24 -> s1 <= 24 -> s2 <= 24 -> s3 <= 24 ->
  gsum_chk (pack [s0; s1; s2; s3]) = s0 + s1 + s2 + s3.
Proof.
  intros. unfold gsum_chk. rewrite words_pack by assumption. unfold val16.
  replace (s0 + s1 + 65536 * (s2 + s3)) with ((s0 + s1) + (s2 + s3) * 65536) by lia.
  rewrite N.mod_add by discriminate. rewrite N.div_add by discriminate.
  rewrite (N.mod_small (s0 + s1)) by lia. rewrite (N.div_small (s0 + s1)) by lia.
  destruct (N.leb_spec (s0 + s1) 48); [|lia]. destruct (N.leb_spec (0 + (s2 + s3)) 48); [|lia]. cbn [andb]. lia.
Qed.

Lemma granule_sse2 lanes out X Y : kernel_ok lanes out = true ->
  length X = 4%nat -> length Y = 4%nat -> bytes_all X -> bytes_all Y ->
  wb 48 (granule_words_sse2 (eval 4 lanes out (word_of X) (word_of Y))) /\
  val16 (granule_words_sse2 (eval 4 lanes out (word_of X) (word_of Y))) = body_dist X Y.
Proof.
  intros Hk HX HY BX BY. unfold word_of.
  pose proof (granule4 lanes out gsum_chk X Y Hk gsum_chk_pack HX HY BX BY) as G.
  pose proof (body_dist_le X Y BX BY) as Hle. rewrite HX in Hle.
  unfold gsum_chk in G. set (w := granule_words_sse2 (eval 4 lanes out (pack X) (pack Y))) in *.
  destruct (N.leb_spec (w mod 65536) 48); destruct (N.leb_spec (w / 65536) 48); cbn [andb] in G; try lia.
  split; [split; assumption|exact G].
Qed.

Definition vsum16 (v : list N) : N := sum_list (map val16 v).

Lemma vsum16_4 t0 t1 t2 t3 : vsum16 [t0; t1; t2; t3] = val16 t0 + val16 t1 + val16 t2 + val16 t3.
Proof. unfold vsum16. cbn [map]. apply sum4. Qed.

Lemma lanes_of_sse2 lanes out k x y : kernel_ok lanes out = true ->
  length x = (k * 4)%nat -> length y = (k * 4)%nat -> bytes_all x -> bytes_all y ->
  Forall (wb 48) (lanes_of granule_words_sse2 lanes out x y) /\
  vsum16 (lanes_of granule_words_sse2 lanes out x y) = body_dist x y.
Proof.
  intros Hk Hx Hy Bx By. unfold lanes_of, chunks_exact, vsum16. rewrite Hx, Hy, Nat.div_mul by discriminate. split.
  - apply Forall_forall. intros w Hw. apply in_map_iff in Hw as [[X Y] [<- Hin]]. cbn [fst snd].
    apply granule_sse2; try assumption.
    + apply (chunks_k_lengths 4 k x X Hx). apply in_combine_l in Hin. exact Hin.
    + apply (chunks_k_lengths 4 k y Y Hy). apply in_combine_r in Hin. exact Hin.
    + apply in_combine_l in Hin. exact (chunks_k_bytes 4 k x X Bx Hin).
    + apply in_combine_r in Hin. exact (chunks_k_bytes 4 k y Y By Hin).
  - rewrite map_map.
    apply (chunks_sum (fun p => val16 (granule_words_sse2 (eval 4 lanes out (word_of (fst p)) (word_of (snd p)))))); try assumption.
    intros X Y HX HY BX BY. cbn [fst snd]. apply granule_sse2; assumption.
Qed.

Lemma add16v_sum B1 B2 a v : length a = 4%nat -> length v = 4%nat -> Forall (wb B1) a -> Forall (wb B2) v -> B1 + B2 < 65536 ->
  length (add16v a v) = 4%nat /\ Forall (wb (B1 + B2)) (add16v a v) /\ vsum16 (add16v a v) = vsum16 a + vsum16 v.
Proof.
  intros La Lv Wa Wv Hb. destruct (vec4 a La) as [a0 [a1 [a2 [a3 ->]]]]. destruct (vec4 v Lv) as [v0 [v1 [v2 [v3 ->]]]].
  inversion Wa as [|? ? A0 Wa1]; subst. inversion Wa1 as [|? ? A1 Wa2]; subst. inversion Wa2 as [|? ? A2 Wa3]; subst.
  inversion Wa3 as [|? ? A3 _]; subst.
  inversion Wv as [|? ? V0 Wv1]; subst. inversion Wv1 as [|? ? V1 Wv2]; subst. inversion Wv2 as [|? ? V2 Wv3]; subst.
  inversion Wv3 as [|? ? V3 _]; subst.
  assert (EZ : add16v = zipN add16) by reflexivity. rewrite EZ. cbn [zipN length].
  destruct (add16_wb B1 B2 a0 v0 A0 V0 Hb) as [W0 S0]. destruct (add16_wb B1 B2 a1 v1 A1 V1 Hb) as [W1 S1].
  destruct (add16_wb B1 B2 a2 v2 A2 V2 Hb) as [W2 S2]. destruct (add16_wb B1 B2 a3 v3 A3 V3 Hb) as [W3 S3].
  split; [reflexivity|]. split; [exact (Forall_cons _ W0 (Forall_cons _ W1 (Forall_cons _ W2 (Forall_cons _ W3 (Forall_nil _)))))|].
  rewrite !vsum16_4. lia.
Qed.

Lemma fold_add16v vs : forall acc B, length acc = 4%nat -> Forall (wb B) acc ->
  (forall v, In v vs -> length v = 4%nat /\ Forall (wb 48) v) -> B + 48 * N.of_nat (length vs) < 65536 ->
  length (fold_left add16v vs acc) = 4%nat /\ Forall (wb (B + 48 * N.of_nat (length vs))) (fold_left add16v vs acc) /\
  vsum16 (fold_left add16v vs acc) = vsum16 acc + sum_list (map vsum16 vs).
Proof.
  induction vs as [|v vs IH]; intros acc B La Wa Hv Hb; cbn [fold_left map length].
  - rewrite sum_list_nil. replace (B + 48 * N.of_nat 0) with B by lia. split; [exact La|]. split; [exact Wa|lia].
  - destruct (Hv v (or_introl eq_refl)) as [Lv Wv]. cbn [length] in Hb.
    destruct (add16v_sum B 48 acc v La Lv Wa Wv) as [L1 [W1 S1]]; [lia|].
    destruct (IH (add16v acc v) (B + 48) L1 W1) as [L2 [W2 S2]]; [intros w Hw; apply Hv; right; exact Hw|lia|].
    split; [exact L2|]. split.
    + replace (B + 48 * N.of_nat (S (length vs))) with (B + 48 + 48 * N.of_nat (length vs)) by lia. exact W2.
    + rewrite S2, S1, sum_list_cons. lia.
Qed.

Lemma add16v_zip : add16v = zipN add16.
Proof. reflexivity. Qed.

Lemma reduce4_sse2 B v : length v = 4%nat -> Forall (wb B) v -> 4 * B < 65536 ->
  finish_sse2 (reduce add16v sse2_reduce v) = vsum16 v.
Proof.
  intros L W Hb. destruct (vec4 v L) as [t0 [t1 [t2 [t3 ->]]]].
  inversion W as [|? ? W0 Wr1]; subst. inversion Wr1 as [|? ? W1 Wr2]; subst. inversion Wr2 as [|? ? W2 Wr3]; subst.
  inversion Wr3 as [|? ? W3 _]; subst.
  change sse2_reduce with [238; 85]. unfold reduce. cbn [fold_left]. rewrite add16v_zip.
  change (shuffle32 238 [t0; t1; t2; t3]) with [t2; t3; t2; t3]. cbn [zipN].
  change (shuffle32 85 [add16 t0 t2; add16 t1 t3; add16 t2 t2; add16 t3 t3])
    with [add16 t1 t3; add16 t1 t3; add16 t1 t3; add16 t1 t3].
  cbn [zipN]. unfold finish_sse2. cbn [nth].
  destruct (add16_wb B B t0 t2 W0 W2) as [U0 S0]; [lia|]. destruct (add16_wb B B t1 t3 W1 W3) as [U1 S1]; [lia|].
  destruct (add16_wb (B + B) (B + B) _ _ U0 U1) as [[F1 F2] S]; [lia|].
  rewrite vsum16_4.
  set (T := add16 (add16 t0 t2) (add16 t1 t3)) in *.
  change (T mod 65536 + T / 65536) with (val16 T). rewrite S, S0, S1.
  assert (Hv : forall t, wb B t -> val16 t <= 2 * B) by (intros t [A1 A2]; unfold val16; lia).
  pose proof (Hv _ W0). pose proof (Hv _ W1). pose proof (Hv _ W2). pose proof (Hv _ W3).
  rewrite N.mod_small by lia. lia.
Qed.

Theorem x86_acc16_spec lanes out a b : kernel_ok lanes out = true ->
  vec_len (length a) -> length b = length a -> bytes_all a -> bytes_all b ->
  x86_acc add16v granule_words_sse2 lanes out sse2_reduce finish_sse2 16 a b = body_dist a b.
Proof.
  intros Hk HL Hb Ba Bb. unfold x86_acc, chunks_exact. rewrite Hb.
  set (k := Nat.div (length a) 16).
  assert (Hka : length a = (k * 16)%nat) by (unfold k; destruct HL as [E|E]; rewrite E; reflexivity).
  assert (Hkb : length b = (k * 16)%nat) by lia.
  assert (Hk4 : (k <= 4)%nat) by (unfold k; destruct HL as [E|E]; rewrite E; cbn; lia).
  set (vs := map (fun p => lanes_of granule_words_sse2 lanes out (fst p) (snd p)) (combine (chunks_k 16 k a) (chunks_k 16 k b))).
  assert (Hvs : map vsum16 vs = map (fun p => body_dist (fst p) (snd p)) (combine (chunks_k 16 k a) (chunks_k 16 k b))).
  { unfold vs. rewrite map_map.
    apply (chunks_map (fun p => vsum16 (lanes_of granule_words_sse2 lanes out (fst p) (snd p)))); try assumption.
    intros X Y HX HY BX BY. cbn [fst snd]. apply (lanes_of_sse2 lanes out 4); assumption. }
  assert (Hin : forall v, In v vs -> length v = 4%nat /\ Forall (wb 48) v).
  { intros v Hv. unfold vs in Hv. apply in_map_iff in Hv as [[X Y] [<- Hin]]. cbn [fst snd].
    assert (LX : length X = 16%nat) by (apply (chunks_k_lengths 16 k a X Hka); apply in_combine_l in Hin; exact Hin).
    assert (LY : length Y = 16%nat) by (apply (chunks_k_lengths 16 k b Y Hkb); apply in_combine_r in Hin; exact Hin).
    split; [apply (lanes_of_length _ _ _ 4); assumption|].
    apply (lanes_of_sse2 lanes out 4); try assumption.
    - apply in_combine_l in Hin. exact (chunks_k_bytes 16 k a X Ba Hin).
    - apply in_combine_r in Hin. exact (chunks_k_bytes 16 k b Y Bb Hin). }
  assert (Htot : sum_list (map vsum16 vs) = body_dist a b).
  { rewrite Hvs. apply (chunks_sum (fun p => body_dist (fst p) (snd p))); try assumption. intros; reflexivity. }
  assert (Lvs : length vs = k).
  { unfold vs. rewrite map_length, combine_length.
    assert (G : forall n kk (l : list N), length (chunks_k n kk l) = kk) by (induction kk; intros; cbn [chunks_k length]; auto).
    rewrite !G. lia. }
  destruct (fold_add16v vs (repeat 0 (Nat.div 16 4)) 0) as [L [W S]].
  - reflexivity.
  - cbn [Nat.div repeat]. assert (Z0 : wb 0 0) by (split; cbn; lia).
    exact (Forall_cons _ Z0 (Forall_cons _ Z0 (Forall_cons _ Z0 (Forall_cons _ Z0 (Forall_nil _))))).
  - exact Hin.
  - rewrite Lvs. lia.
  - rewrite (reduce4_sse2 (0 + 48 * N.of_nat (length vs))); [|exact L|exact W|rewrite Lvs; lia].
    rewrite S, Htot. change (vsum16 (repeat 0 (Nat.div 16 4))) with 0. lia.
Qed.

Theorem dist_body_spec c a b : body_len (length a) -> length b = length a -> bytes_all a -> bytes_all b ->
  dist_body c a b = body_dist a b.
Proof.
  intros HL Hb Ba Bb. unfold dist_body.
  destruct (Nat.eqb_spec (length a) 12) as [E12|N12].
  - destruct (cc_body c =? 0); [apply body_pseudo32_spec | apply body_pseudo64_spec]; assumption.
  - assert (HV : vec_len (length a)) by (destruct HL as [E|[E|E]]; [contradiction|left; exact E|right; exact E]).
    destruct (cc_body c =? 0); [apply body_pseudo32_spec; assumption|].
    destruct (cc_body c =? 1); [apply body_pseudo64_spec; assumption|].
    destruct (cc_body c =? 2); [apply x86_acc16_spec; try assumption; exact sse2_ok|].
    destruct (cc_body c =? 3); [apply x86_acc32_spec; try assumption; exact sse41_ok|].
    apply x86_each_spec; try assumption; exact avx2_ok.
Qed.

(* ---- the whole comparison ---- *)

Lemma body_len_of v h : is_variant v -> hash_okb v h -> body_len (length (h_body h)).
Proof.
  intros Hv [_ [Hb _]]. unfold lenN in Hb. unfold body_len.
  destruct Hv;
    [ change (size_body V_Short) with 12 in Hb; left
    | change (size_body V_Normal) with 32 in Hb; right; left
    | change (size_body V_NormalLong) with 32 in Hb; right; left
    | change (size_body V_Long) with 64 in Hb; right; right
    | change (size_body V_LongLong) with 64 in Hb; right; right ]; lia.
Qed.

Theorem compare_is_reference_lemma c v a b m :
  is_variant v -> hash_okb v a -> hash_okb v b ->
  @compare unit c a b m = Ok (spec_distance a b m).
Proof.
  intros Hv Ha Hb. pose proof (body_len_of v a Hv Ha) as La. pose proof (body_len_of v b Hv Hb) as Lb.
  destruct Ha as [Hac [Hab [Bac [Bab [Hal Haq]]]]]. destruct Hb as [Hbc [Hbb [Bbc [Bbb [Hbl Hbq]]]]].
  assert (Hlen : length (h_body b) = length (h_body a)) by (unfold lenN in *; lia).
  unfold compare, spec_distance.
  rewrite (dist_q_spec c _ _ Haq Hbq). cbn [bind].
  rewrite dist_body_spec by assumption. rewrite dist_cks_spec.
  destruct m.
  - rewrite (dist_length_spec c _ _ Hal Hbl). cbn [bind]. reflexivity.
  - cbn [bind]. reflexivity.
Qed.

