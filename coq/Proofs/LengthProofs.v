(* Proofs about the length encoder model (C09).  Everything is stated over
   [Gen.Tables.top_value], i.e. the table as it is in /repo now. *)
From Coq Require Import Lia Sorted.
From TlshV Require Import Model.Machine Gen.Tables Model.MLength Spec.SpecLength Proofs.ListN.

Definition lt_all (x : N) (l : list N) : bool := forallb (fun t => t <? x) l.
Definition ge_all (x : N) (l : list N) : bool := forallb (fun t => x <=? t) l.

Lemma rank_app a b x : rank (a ++ b) x = rank a x + rank b x.
Proof. unfold rank. rewrite filter_app. apply lenN_app. Qed.

Lemma rank_cons t l x : rank (t :: l) x = (if t <? x then 1 else 0) + rank l x.
Proof. unfold rank. cbn [filter]. destruct (t <? x); [apply lenN_cons|reflexivity]. Qed.

Lemma rank_lt_all l x : lt_all x l = true -> rank l x = lenN l.
Proof.
  induction l as [|t l IH]; [reflexivity|].
  cbn [lt_all forallb]. intros H. apply andb_prop in H as [H1 H2].
  rewrite rank_cons, H1, lenN_cons. rewrite IH by exact H2. reflexivity.
Qed.

Lemma rank_ge_all l x : ge_all x l = true -> rank l x = 0.
Proof.
  induction l as [|t l IH]; [reflexivity|].
  cbn [ge_all forallb]. intros H. apply andb_prop in H as [H1 H2].
  rewrite rank_cons. rewrite IH by exact H2.
  destruct (N.ltb_spec t x); [|reflexivity]. apply N.leb_le in H1. lia.
Qed.

Lemma rank_le_len l x : rank l x <= lenN l.
Proof.
  induction l as [|t l IH]; [cbn; lia|].
  rewrite rank_cons, lenN_cons. destruct (t <? x); lia.
Qed.

Lemma lt_all_mono x y l : x <= y -> lt_all x l = true -> lt_all y l = true.
Proof.
  intros Hxy H. unfold lt_all in *. rewrite forallb_forall in *. intros t Ht.
  specialize (H t Ht). apply N.ltb_lt in H. apply N.ltb_lt. lia.
Qed.

Lemma ge_all_mono x y l : y <= x -> ge_all x l = true -> ge_all y l = true.
Proof.
  intros Hxy H. unfold ge_all in *. rewrite forallb_forall in *. intros t Ht.
  specialize (H t Ht). apply N.leb_le in H. apply N.leb_le. lia.
Qed.

Lemma rank_mono l x y : x <= y -> rank l x <= rank l y.
Proof.
  intros Hxy. induction l as [|t l IH]; [cbn; lia|].
  rewrite !rank_cons. destruct (N.ltb_spec t x); destruct (N.ltb_spec t y); lia.
Qed.

(* Strictly increasing, as a boolean the kernel can evaluate on the concrete table. *)
Fixpoint strictly_increasing (l : list N) : bool :=
  match l with
  | [] => true
  | t :: r => match r with [] => true | u :: _ => (t <? u) && strictly_increasing r end
  end.

Lemma strictly_increasing_tail t l : strictly_increasing (t :: l) = true -> strictly_increasing l = true.
Proof. cbn. destruct l; [reflexivity|]. intros H. apply andb_prop in H. tauto. Qed.

Lemma strictly_increasing_ge_all t l : strictly_increasing (t :: l) = true -> ge_all (t + 1) l = true.
Proof.
  revert t. induction l as [|u l IH]; intros t H; [reflexivity|].
  cbn [strictly_increasing] in H. apply andb_prop in H as [H1 H2].
  cbn [ge_all forallb]. apply N.ltb_lt in H1. apply andb_true_intro. split.
  - apply N.leb_le. lia.
  - apply (ge_all_mono (u + 1)); [lia|]. apply IH. exact H2.
Qed.

(* On a strictly increasing table "least code whose top value >= len" is the rank of len. *)
Lemma least_code_rank l x :
  strictly_increasing l = true ->
  least_code l x = (if rank l x <? lenN l then Some (rank l x) else None).
Proof.
  induction l as [|t l IH]; intros Hs; [reflexivity|].
  cbn [least_code]. rewrite rank_cons, lenN_cons.
  destruct (N.leb_spec x t) as [Hxt|Hxt].
  - destruct (N.ltb_spec t x); [lia|].
    rewrite rank_ge_all.
    + destruct (N.ltb_spec (0 + 0) (1 + lenN l)); [reflexivity|lia].
    + apply (ge_all_mono (t + 1)); [lia|]. apply strictly_increasing_ge_all; exact Hs.
  - destruct (N.ltb_spec t x); [|lia].
    rewrite IH by (eapply strictly_increasing_tail; exact Hs).
    destruct (N.ltb_spec (rank l x) (lenN l)); destruct (N.ltb_spec (1 + rank l x) (1 + lenN l)); try lia.
    + cbn [option_map]. f_equal. lia.
    + reflexivity.
Qed.

(* Characterisation of least_code (independent of sortedness): declarative meaning. *)
Lemma least_code_Some l x c :
  least_code l x = Some c ->
  (exists t, idx l c = Some t /\ x <= t) /\ (forall j t, j < c -> idx l j = Some t -> t < x).
Proof.
  revert c. induction l as [|t l IH]; intros c H; [discriminate|].
  cbn [least_code] in H. destruct (N.leb_spec x t) as [Hxt|Hxt].
  - inversion H; subst c. split; [exists t; split; [reflexivity|exact Hxt]|]. intros j u Hj; lia.
  - destruct (least_code l x) as [c'|] eqn:E; [|discriminate]. cbn in H. inversion H; subst c.
    destruct (IH c' eq_refl) as [[u [Hu1 Hu2]] Hall]. split.
    + exists u. rewrite idx_cons_succ. auto.
    + intros j v Hj Hv. destruct (N.eq_dec j 0) as [->|Hj0].
      * rewrite idx_cons_0 in Hv. inversion Hv; subst; exact Hxt.
      * replace j with (N.succ (N.pred j)) in Hv by lia. rewrite idx_cons_succ in Hv.
        eapply Hall; [|exact Hv]. lia.
Qed.

Lemma least_code_None l x : least_code l x = None -> forall t, In t l -> t < x.
Proof.
  induction l as [|t l IH]; intros H u Hu; [destruct Hu|].
  cbn [least_code] in H. destruct (N.leb_spec x t) as [Hxt|Hxt]; [discriminate|].
  destruct (least_code l x) eqn:E; [discriminate|].
  destruct Hu as [->|Hu]; [exact Hxt|]. apply IH; auto.
Qed.

(* ---- facts about the concrete, regenerated table (closed by computation) ---- *)

Lemma top_value_increasing : strictly_increasing top_value = true.
Proof. vm_compute. reflexivity. Qed.

Lemma top_value_len : lenN top_value = encoded_value_size.
Proof. vm_compute. reflexivity. Qed.

Lemma top_value_last : idx top_value (encoded_value_size - 1) = Some len_max.
Proof. vm_compute. reflexivity. Qed.

Lemma len_max_u32 : len_max < two32.
Proof. vm_compute. reflexivity. Qed.

Lemma encoded_value_size_le_256 : encoded_value_size <= 256.
Proof. vm_compute. discriminate. Qed.

Lemma top_value_nonempty_first : exists t0, idx top_value 0 = Some t0 /\ 1 <= t0.
Proof. eexists. split; [vm_compute; reflexivity|]. vm_compute. discriminate. Qed.

(* one row of the clz narrowing table: the three invariant!s of length.rs and the
   fact that the slice [bottom..top] contains every candidate for lengths with z leading zeros *)
Definition clz_row_ok (z : N) : bool :=
  match idx clz_table (z + 1), idx clz_table z with
  | Some b, Some t =>
      (b <=? t) && (t <=? lenN top_value)
      && lt_all (2 ^ (31 - z)) (takeN b top_value)
      && ge_all (2 ^ (32 - z)) (dropN t top_value)
  | _, _ => false
  end.

Lemma clz_rows_ok : forallb clz_row_ok (map N.of_nat (seq 0 32)) = true.
Proof. vm_compute. reflexivity. Qed.

Lemma clz_row_ok_z z : z < 32 -> clz_row_ok z = true.
Proof.
  intros Hz. pose proof clz_rows_ok as H. rewrite forallb_forall in H. apply H.
  change 32%nat with (N.to_nat 32). apply in_N_seq. exact Hz.
Qed.

Lemma clz32_bounds len : 0 < len -> len < two32 ->
  clz32 len < 32 /\ 2 ^ (31 - clz32 len) <= len /\ len < 2 ^ (32 - clz32 len).
Proof.
  intros Hpos Hlt. unfold clz32. rewrite N.size_log2 by lia.
  assert (Hl : N.log2 len < 32).
  { apply N.log2_lt_pow2; [lia|]. exact Hlt. }
  destruct (N.log2_spec len Hpos) as [Hlo Hhi].
  replace (31 - (32 - N.succ (N.log2 len))) with (N.log2 len) by lia.
  replace (32 - (32 - N.succ (N.log2 len))) with (N.succ (N.log2 len)) by lia.
  split; [lia|]. split; assumption.
Qed.

Lemma rank_top_value_le_max len : len <= len_max -> rank top_value len < encoded_value_size.
Proof.
  intros Hle.
  pose proof (split3 top_value (encoded_value_size - 1) encoded_value_size) as Hs.
  assert (Hlast : takeN (encoded_value_size - (encoded_value_size - 1)) (dropN (encoded_value_size - 1) top_value) = [len_max])
    by (vm_compute; reflexivity).
  rewrite Hlast in Hs.
  rewrite Hs by (vm_compute; discriminate).
  rewrite !rank_app, rank_cons.
  destruct (N.ltb_spec len_max len); [lia|].
  assert (Hd : dropN encoded_value_size top_value = []) by (vm_compute; reflexivity).
  rewrite Hd. change (rank [] len) with 0.
  pose proof (rank_le_len (takeN (encoded_value_size - 1) top_value) len) as Hr.
  rewrite lenN_takeN in Hr. rewrite top_value_len in Hr.
  assert (0 < encoded_value_size) by (vm_compute; reflexivity). lia.
Qed.

(* The clz-narrowed search equals the whole-table search, and no index, slice or invariant fails. *)
Lemma encode_clz_eq_rank u d len :
  0 < len -> len <= len_max ->
  encode_new LenClz u d len = Ok (Some (rank top_value len)).
Proof.
  intros Hpos Hle.
  assert (Hlt : len < two32) by (pose proof len_max_u32; lia).
  destruct (clz32_bounds len Hpos Hlt) as [Hz [Hlo Hhi]].
  pose proof (clz_row_ok_z _ Hz) as Hrow.
  unfold encode_new.
  destruct (N.eqb_spec len 0); [lia|].
  destruct (N.ltb_spec len_max len); [lia|].
  unfold clz_row_ok in Hrow.
  unfold index.
  destruct (idx clz_table (clz32 len + 1)) as [b|]; [|discriminate].
  destruct (idx clz_table (clz32 len)) as [t|]; [|discriminate].
  apply andb_prop in Hrow as [Hrow Hge]. apply andb_prop in Hrow as [Hrow Hltall].
  apply andb_prop in Hrow as [Hbt Htl].
  cbn [unwrap bind].
  assert (Hbl : (b <=? lenN top_value) = true).
  { apply N.leb_le. apply N.leb_le in Hbt, Htl. lia. }
  unfold invariant. rewrite Hbl, Htl, Hbt. cbn [bind].
  unfold slice. rewrite Hbt, Htl. cbn [andb bind].
  f_equal. f_equal.
  apply N.leb_le in Hbt.
  rewrite (split3 top_value b t Hbt) at 2.
  rewrite !rank_app.
  rewrite (rank_lt_all (takeN b top_value)) by (eapply lt_all_mono; [exact Hlo|exact Hltall]).
  rewrite (rank_ge_all (dropN t top_value)) by (eapply ge_all_mono; [|exact Hge]; lia).
  rewrite lenN_takeN. apply N.leb_le in Htl.
  replace (N.min b (lenN top_value)) with b by lia.
  rewrite N.add_0_r.
  pose proof (rank_top_value_le_max len Hle) as Hr.
  rewrite (split3 top_value b t Hbt) in Hr at 1.
  rewrite !rank_app in Hr.
  rewrite (rank_lt_all (takeN b top_value)) in Hr by (eapply lt_all_mono; [exact Hlo|exact Hltall]).
  rewrite lenN_takeN in Hr. replace (N.min b (lenN top_value)) with b in Hr by lia.
  unfold wrap8. apply N.mod_small. pose proof encoded_value_size_le_256. lia.
Qed.

Lemma encode_whole_eq_rank u d len :
  0 < len -> len <= len_max ->
  encode_new LenWhole u d len = Ok (Some (rank top_value len)).
Proof.
  intros Hpos Hle. unfold encode_new.
  destruct (N.eqb_spec len 0); [lia|].
  destruct (N.ltb_spec len_max len); [lia|].
  f_equal. f_equal. unfold wrap8. apply N.mod_small.
  pose proof (rank_top_value_le_max len Hle). pose proof encoded_value_size_le_256. lia.
Qed.

Definition code_of (len : N) : option N :=
  if len =? 0 then Some 0 else least_code top_value len.

Lemma least_code_top_value len : len <= len_max -> least_code top_value len = Some (rank top_value len).
Proof.
  intros Hle. rewrite least_code_rank by exact top_value_increasing.
  rewrite top_value_len. pose proof (rank_top_value_le_max len Hle) as H.
  destruct (N.ltb_spec (rank top_value len) encoded_value_size); [reflexivity|lia].
Qed.

Lemma least_code_too_large len : len_max < len -> least_code top_value len = None.
Proof.
  intros Hgt. rewrite least_code_rank by exact top_value_increasing.
  assert (Hall : lt_all len top_value = true).
  { pose proof top_value_increasing as Hs.
    (* every entry <= last = len_max < len *)
    unfold lt_all. rewrite forallb_forall. intros t Ht. apply N.ltb_lt.
    destruct (least_code top_value t) as [c|] eqn:E.
    - rewrite least_code_rank in E by exact Hs.
      destruct (N.ltb_spec (rank top_value t) (lenN top_value)); [|discriminate].
      destruct (N.le_gt_cases t len_max); [lia|].
      (* t > len_max: rank top t <= ... contradiction via rank counts len_max < t *)
      exfalso.
      assert (Hc : forall u, In u top_value -> u <= len_max).
      { clear. intros u Hu.
        assert (Hb : forallb (fun v => v <=? len_max) top_value = true) by (vm_compute; reflexivity).
        rewrite forallb_forall in Hb. apply N.leb_le. apply Hb. exact Hu. }
      specialize (Hc t Ht). lia.
    - pose proof (least_code_None _ _ E t Ht). lia. }
  rewrite rank_lt_all by exact Hall.
  destruct (N.ltb_spec (lenN top_value) (lenN top_value)); [lia|reflexivity].
Qed.

Theorem encode_spec_lemma :
  forall c u d len, len < two32 -> encode_new c u d len = Ok (code_of len).
Proof.
  intros c u d len Hlt. unfold code_of.
  destruct (N.eqb_spec len 0) as [->|Hne]; [destruct c; reflexivity|].
  destruct (N.le_gt_cases len len_max) as [Hle|Hgt].
  - rewrite least_code_top_value by exact Hle.
    destruct c; [apply encode_clz_eq_rank|apply encode_whole_eq_rank]; lia.
  - rewrite least_code_too_large by exact Hgt.
    unfold encode_new. destruct (N.eqb_spec len 0); [lia|].
    destruct (N.ltb_spec len_max len); [reflexivity|lia].
Qed.

Lemma code_some_iff_lemma len : (exists c, code_of len = Some c) <-> len <= len_max.
Proof.
  unfold code_of. destruct (N.eqb_spec len 0) as [->|Hne].
  - split; [intros _; vm_compute; discriminate|intros _; eauto].
  - split.
    + intros [c Hc]. destruct (N.le_gt_cases len len_max); [assumption|].
      rewrite least_code_too_large in Hc by assumption. discriminate.
    + intros H. rewrite least_code_top_value by exact H. eauto.
Qed.

Lemma code_of_rank len : len <= len_max -> code_of len = Some (rank top_value len).
Proof.
  intros H. unfold code_of. destruct (N.eqb_spec len 0) as [->|Hne].
  - vm_compute. reflexivity.
  - apply least_code_top_value; exact H.
Qed.

Lemma code_lt_size len c : code_of len = Some c -> c < encoded_value_size.
Proof.
  intros H. assert (Hle : len <= len_max) by (apply code_some_iff_lemma; eauto).
  rewrite code_of_rank in H by exact Hle. inversion H; subst. apply rank_top_value_le_max; exact Hle.
Qed.

Lemma encode_monotone_lemma l1 l2 c1 c2 :
  l1 <= l2 -> code_of l1 = Some c1 -> code_of l2 = Some c2 -> c1 <= c2.
Proof.
  intros Hle H1 H2.
  assert (Hm2 : l2 <= len_max) by (apply code_some_iff_lemma; eauto).
  assert (Hm1 : l1 <= len_max) by lia.
  rewrite code_of_rank in H1, H2 by assumption.
  inversion H1; inversion H2; subst. apply rank_mono; exact Hle.
Qed.

(* --- range() --- *)

Lemma idx_top_value_lt c : c < encoded_value_size -> exists t, idx top_value c = Some t.
Proof. intros H. apply idx_lt. rewrite top_value_len. exact H. Qed.

(* rank in terms of neighbours on a strictly increasing list *)
Lemma rank_eq_iff l x c t :
  strictly_increasing l = true -> idx l c = Some t ->
  (rank l x = c <-> (x <= t /\ forall p, c <> 0 -> idx l (c - 1) = Some p -> p < x)).
Proof.
  revert c. induction l as [|u l IH]; intros c Hs Hidx.
  - unfold idx in Hidx. cbn in Hidx. destruct c; discriminate.
  - rewrite rank_cons. destruct (N.eq_dec c 0) as [->|Hc].
    + rewrite idx_cons_0 in Hidx. inversion Hidx; subst u. split.
      * intros H. destruct (N.ltb_spec t x); [lia|]. split; [assumption|]. intros p Hp; congruence.
      * intros [Hx _]. destruct (N.ltb_spec t x); [lia|].
        rewrite rank_ge_all; [reflexivity|].
        apply (ge_all_mono (t + 1)); [lia|]. apply strictly_increasing_ge_all; exact Hs.
    + replace c with (N.succ (N.pred c)) in Hidx by lia. rewrite idx_cons_succ in Hidx.
      pose proof (strictly_increasing_tail _ _ Hs) as Hs'.
      specialize (IH (N.pred c) Hs' Hidx).
      (* u < t because the list is increasing *)
      assert (Hut : u < t).
      { pose proof (strictly_increasing_ge_all _ _ Hs) as Hg. unfold ge_all in Hg.
        rewrite forallb_forall in Hg. apply idx_Some_nth in Hidx as [Hn _].
        apply nth_error_In in Hn. specialize (Hg t Hn). apply N.leb_le in Hg. lia. }
      split.
      * intros H. destruct (N.ltb_spec u x) as [Hux|Hux].
        -- assert (Hr : rank l x = N.pred c) by lia. apply IH in Hr as [Hxt Hp]. split; [exact Hxt|].
           intros p _ Hpidx. destruct (N.eq_dec (N.pred c) 0) as [Hpc|Hpc].
           ++ replace (c - 1) with 0 in Hpidx by lia. rewrite idx_cons_0 in Hpidx. inversion Hpidx; subst; exact Hux.
           ++ replace (c - 1) with (N.succ (N.pred c - 1)) in Hpidx by lia. rewrite idx_cons_succ in Hpidx.
              apply Hp; assumption.
        -- rewrite rank_ge_all in H; [lia|].
           apply (ge_all_mono (u + 1)); [lia|]. apply strictly_increasing_ge_all; exact Hs.
      * intros [Hxt Hp]. destruct (N.eq_dec (N.pred c) 0) as [Hpc|Hpc].
        -- assert (Hux : u < x).
           { apply (Hp u Hc). replace (c - 1) with 0 by lia. apply idx_cons_0. }
           destruct (N.ltb_spec u x); [|lia].
           assert (Hr : rank l x = N.pred c).
           { apply IH. split; [exact Hxt|]. intros p Hne; congruence. }
           lia.
        -- assert (Hr : rank l x = N.pred c).
           { apply IH. split; [exact Hxt|]. intros p _ Hpidx. apply (Hp p Hc).
             replace (c - 1) with (N.succ (N.pred c - 1)) by lia. rewrite idx_cons_succ. exact Hpidx. }
           destruct (N.ltb_spec u x) as [Hux|Hux]; [lia|].
           (* u >= x but some later p < x with p > u: contradiction *)
           exfalso.
           destruct (idx_lt l (N.pred c - 1)) as [p Hpidx].
           { apply idx_Some_nth in Hidx as [_ Hlt]. lia. }
           assert (Hpx : p < x).
           { apply (Hp p Hc). replace (c - 1) with (N.succ (N.pred c - 1)) by lia. rewrite idx_cons_succ. exact Hpidx. }
           pose proof (strictly_increasing_ge_all _ _ Hs) as Hg. unfold ge_all in Hg.
           rewrite forallb_forall in Hg. apply idx_Some_nth in Hpidx as [Hn _].
           apply nth_error_In in Hn. specialize (Hg p Hn). apply N.leb_le in Hg. lia.
Qed.

Lemma range_exact_lemma c :
  (exists lo hi, range c = Ok (Some (lo, hi))) <-> c < encoded_value_size.
Proof.
  unfold range. destruct (N.eqb_spec c 0) as [->|Hc].
  - split; [intros _; vm_compute; reflexivity|]. intros _.
    destruct top_value_nonempty_first as [t0 [H0 _]]. unfold index. rewrite H0. cbn. eauto.
  - destruct (N.leb_spec encoded_value_size c) as [Hge|Hlt].
    + split; [intros [lo [hi H]]; discriminate|lia].
    + split; [intros _; exact Hlt|]. intros _.
      destruct (idx_top_value_lt (c - 1)) as [b Hb]; [lia|].
      destruct (idx_top_value_lt c Hlt) as [t Ht].
      unfold index. rewrite Hb, Ht. cbn [unwrap bind].
      assert (Hbm : b <= len_max).
      { assert (Hall : forallb (fun v => v <=? len_max) top_value = true) by (vm_compute; reflexivity).
        rewrite forallb_forall in Hall. apply N.leb_le. apply Hall.
        apply idx_Some_nth in Hb as [Hn _]. eapply nth_error_In; exact Hn. }
      pose proof len_max_u32.
      destruct (N.ltb_spec (b + 1) two32); [eauto|].
      assert (Hlm : len_max + 1 < two32) by (vm_compute; reflexivity). lia.
Qed.

Lemma range_contains_lemma c lo hi :
  range c = Ok (Some (lo, hi)) ->
  forall len, code_of len = Some c <-> lo <= len <= hi.
Proof.
  intros Hr len. unfold range in Hr.
  pose proof top_value_increasing as Hs.
  destruct (N.eqb_spec c 0) as [->|Hc].
  - destruct top_value_nonempty_first as [t0 [H0 H1]]. unfold index in Hr. rewrite H0 in Hr. cbn in Hr.
    inversion Hr; subst lo hi. clear Hr.
    unfold code_of. destruct (N.eqb_spec len 0) as [->|Hne]; [split; [lia|reflexivity]|].
    split.
    + intros H. assert (Hle : len <= len_max) by (apply code_some_iff_lemma; unfold code_of; destruct (N.eqb_spec len 0); [lia|eauto]).
      rewrite least_code_top_value in H by exact Hle. injection H as Hrk.
      apply (rank_eq_iff top_value len 0 t0 Hs H0) in Hrk as [Hx _]. lia.
    + intros [_ Hle].
      assert (Hlm : len <= len_max).
      { assert (t0 <= len_max).
        { assert (Hall : forallb (fun v => v <=? len_max) top_value = true) by (vm_compute; reflexivity).
          rewrite forallb_forall in Hall. apply N.leb_le. apply Hall.
          apply idx_Some_nth in H0 as [Hn _]. eapply nth_error_In; exact Hn. }
        lia. }
      rewrite least_code_top_value by exact Hlm. f_equal.
      apply (rank_eq_iff top_value len 0 t0 Hs H0). split; [exact Hle|]. intros p Hp; congruence.
  - destruct (N.leb_spec encoded_value_size c) as [Hge|Hlt]; [discriminate|].
    destruct (idx_top_value_lt (c - 1)) as [b Hb]; [lia|].
    destruct (idx_top_value_lt c Hlt) as [t Ht].
    unfold index in Hr. rewrite Hb, Ht in Hr. cbn [unwrap bind] in Hr.
    destruct (N.ltb_spec (b + 1) two32); [|discriminate]. inversion Hr; subst lo hi. clear Hr.
    assert (Htm : t <= len_max).
    { assert (Hall : forallb (fun v => v <=? len_max) top_value = true) by (vm_compute; reflexivity).
      rewrite forallb_forall in Hall. apply N.leb_le. apply Hall.
      apply idx_Some_nth in Ht as [Hn _]. eapply nth_error_In; exact Hn. }
    split.
    + intros Hcode. assert (Hle : len <= len_max) by (apply code_some_iff_lemma; eauto).
      rewrite code_of_rank in Hcode by exact Hle. injection Hcode as Hrk.
      apply (rank_eq_iff top_value len c t Hs Ht) in Hrk as [Hxt Hp].
      specialize (Hp b Hc Hb). lia.
    + intros [Hlo Hhi]. assert (Hle : len <= len_max) by lia.
      rewrite code_of_rank by exact Hle. f_equal.
      apply (rank_eq_iff top_value len c t Hs Ht). split; [exact Hhi|].
      intros p _ Hp. rewrite Hb in Hp. inversion Hp; subst. lia.
Qed.

(* ranges tile 0..=MAX: first starts at 0, consecutive ranges are adjacent, last ends at MAX *)
Definition ranges_tile_b : bool :=
  match range 0 with
  | Ok (Some (lo0, _)) => lo0 =? 0
  | _ => false
  end
  && forallb (fun c => match range c, range (c + 1) with
                       | Ok (Some (_, hi)), Ok (Some (lo', hi')) => (lo' =? hi + 1) && (lo' <=? hi')
                       | _, _ => false
                       end)
       (map N.of_nat (seq 0 (N.to_nat (encoded_value_size - 1))))
  && match range (encoded_value_size - 1) with
     | Ok (Some (_, hi)) => hi =? len_max
     | _ => false
     end
  && forallb (fun c => match range c with Ok None => true | _ => false end)
       (map N.of_nat (seq (N.to_nat encoded_value_size) (256 - N.to_nat encoded_value_size))).

Lemma ranges_tile_lemma : ranges_tile_b = true.
Proof. vm_compute. reflexivity. Qed.

Lemma is_valid_iff c : is_valid c = true <-> c < encoded_value_size.
Proof. unfold is_valid. apply N.ltb_lt. Qed.

Lemma try_from_u32_lemma c u d len : len < two32 ->
  try_from_u32 c u d len = match code_of len with Some v => Ok v | None => Err LengthIsTooLarge end.
Proof. intros H. unfold try_from_u32. rewrite encode_spec_lemma by exact H. reflexivity. Qed.

Lemma encode_naive_eq len : len < two32 -> encode_naive len = code_of len.
Proof.
  intros _. unfold encode_naive, code_of. destruct (len =? 0); [reflexivity|].
  assert (G : forall l i, i + lenN l <= 256 ->
     naive_loop l i len = option_map (fun c => i + c) (least_code l len)).
  { induction l as [|t l IH]; intros i Hi; [reflexivity|].
    cbn [naive_loop least_code]. rewrite lenN_cons in Hi.
    destruct (len <=? t).
    - cbn. f_equal. unfold wrap8. rewrite N.add_0_r. apply N.mod_small. lia.
    - rewrite IH by lia. destruct (least_code l len); [|reflexivity]. cbn. f_equal. lia. }
  rewrite G by (rewrite top_value_len; pose proof encoded_value_size_le_256; lia).
  destruct (least_code top_value len); reflexivity.
Qed.
