(* C18: from the computed checks over the regenerated inventory to statements about EVERY
   configuration (every assignment of every cfg atom that respects the feature graph). *)
From Coq Require Import List String Bool.
From TlshV Require Import Model.MCfgForm Model.MAlloc Gen.AllocSites Spec.AllocSpec Proofs.CfgTaut.
Import ListNotations.
Open Scope string_scope.

Lemma eval_imp (env : string -> bool) (a b : form) :
  eval env (FImp a b) = implb (eval env a) (eval env b).
Proof.
  unfold FImp.
  change (eval env (FOr [FNot a; b])) with (negb (eval env a) || (eval env b || false)).
  destruct (eval env a), (eval env b); reflexivity.
Qed.


Lemma use_forallb {A : Type} (f : A -> bool) (l : list A) :
  forallb f l = true -> forall x, In x l -> f x = true.
Proof. intros H x Hx. rewrite forallb_forall in H. exact (H x Hx). Qed.

Lemma imp_closed (g : fgraph) (a b : form) :
  taut_closed g (FImp a b) = true ->
  forall env, closed g env = true -> eval env a = true -> eval env b = true.
Proof.
  intros H env Hc Ha. pose proof (taut_closed_sound g (FImp a b) H env Hc) as T.
  rewrite eval_imp, Ha in T. exact T.
Qed.

Lemma imp_not_closed (g : fgraph) (a b : form) :
  taut_closed g (FImp a (FNot b)) = true ->
  forall env, closed g env = true -> eval env a = true -> eval env b = false.
Proof.
  intros H env Hc Ha. pose proof (imp_closed g a (FNot b) H env Hc Ha) as T.
  cbn in T. destruct (eval env b); [discriminate T | reflexivity].
Qed.

(* the three sweeps, stated with the formula spelled out so that later proof terms match them
   syntactically (the kernel must never be asked to unfold taut_closed on an open term) *)
Definition links_form (s : site) : form := FImp (s_cfg s) (need (s_kind s)).
Definition bare_form (s : site) : form := FImp bare (FNot (s_cfg s)).
Definition prod_form (s : site) : form := FImp production (FNot (s_cfg s)).

Lemma all_links_ok : forallb (fun s => taut_closed feature_graph (links_form s)) sites = true.
Proof. vm_compute. reflexivity. Qed.

Lemma all_off_when_bare : forallb (fun s => taut_closed feature_graph (bare_form s)) sites = true.
Proof. vm_compute. reflexivity. Qed.

Lemma all_heap_ok :
  forallb (fun s => documented s || taut_closed feature_graph (prod_form s)) sites = true.
Proof. vm_compute. reflexivity. Qed.

Lemma forall_taut (g : fgraph) (F : site -> form) (l : list site) :
  forallb (fun s => taut_closed g (F s)) l = true ->
  forall env, closed g env = true -> forall s, In s l -> eval env (F s) = true.
Proof.
  intros H env Hc s Hs.
  apply (taut_closed_sound g (F s)); [| exact Hc].
  exact (use_forallb (fun s => taut_closed g (F s)) l H s Hs).
Qed.

Lemma forall_doc_or_taut (g : fgraph) (D : site -> bool) (F : site -> form) (l : list site) :
  forallb (fun s => D s || taut_closed g (F s)) l = true ->
  forall env, closed g env = true -> forall s, In s l -> D s = true \/ eval env (F s) = true.
Proof.
  intros H env Hc s Hs.
  pose proof (use_forallb (fun s => D s || taut_closed g (F s)) l H s Hs) as E.
  cbv beta in E. apply orb_true_iff in E. destruct E as [E | E]; [left; exact E | right].
  exact (taut_closed_sound g (F s) E env Hc).
Qed.

Theorem links_what_it_names :
  forall env, closed feature_graph env = true ->
  forall s, In s sites -> eval env (s_cfg s) = true -> eval env (need (s_kind s)) = true.
Proof.
  intros env Hc s Hs Ha.
  pose proof (forall_taut feature_graph links_form sites all_links_ok env Hc s Hs) as T.
  unfold links_form in T. rewrite eval_imp, Ha in T. exact T.
Qed.

Lemma eval_bare (env : string -> bool) :
  env "f:std" = false -> env "f:alloc" = false -> env "test" = false -> env "doc" = false ->
  eval env bare = true.
Proof. intros H1 H2 H3 H4. unfold bare. cbn. rewrite H1, H2, H3, H4. reflexivity. Qed.

Theorem nothing_needs_std_or_alloc_when_both_are_off :
  forall env, closed feature_graph env = true ->
  env "f:std" = false -> env "f:alloc" = false -> env "test" = false -> env "doc" = false ->
  forall s, In s sites -> eval env (s_cfg s) = false.
Proof.
  intros env Hc H1 H2 H3 H4 s Hs.
  pose proof (forall_taut feature_graph bare_form sites all_off_when_bare env Hc s Hs) as T.
  unfold bare_form in T. rewrite eval_imp, (eval_bare env H1 H2 H3 H4) in T. cbn in T.
  destruct (eval env (s_cfg s)); [discriminate T | reflexivity].
Qed.

Lemma eval_production (env : string -> bool) :
  env "test" = false -> env "doc" = false -> eval env production = true.
Proof. intros H3 H4. unfold production. cbn. rewrite H3, H4. reflexivity. Qed.

Theorem heap_only_in_documented_helpers :
  forall env, closed feature_graph env = true -> env "test" = false -> env "doc" = false ->
  forall s, In s sites -> eval env (s_cfg s) = true -> documented s = true.
Proof.
  intros env Hc H3 H4 s Hs Ha.
  destruct (forall_doc_or_taut feature_graph documented prod_form sites all_heap_ok env Hc s Hs) as [D | T];
    [exact D |].
  unfold prod_form in T. rewrite eval_imp, (eval_production env H3 H4) in T. cbn in T.
  rewrite Ha in T. discriminate T.
Qed.

(* non-vacuity: the default build is a configuration that respects the graph, it is a production
   configuration, and the documented buffer of the stream helper is active in it *)
Lemma default_env_closed : closed feature_graph (env_of default_on) = true.
Proof. vm_compute. reflexivity. Qed.

Lemma default_env_has_the_buffer :
  existsb (fun s => eval (env_of default_on) (s_cfg s) && mem_str (s_text s) ["vec!"]) sites = true.
Proof. vm_compute. reflexivity. Qed.

Lemma bare_env_closed : closed feature_graph (env_of []) = true.
Proof. vm_compute. reflexivity. Qed.
