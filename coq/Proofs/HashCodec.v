(* Characterisation of the text / binary codec of Model/MHash.v by the reference grammar of
   Spec/SpecHex.v, for every table configuration. *)
From Coq Require Import Lia ZArith ZifyBool ZifyN.
From TlshV Require Import Model.Machine Gen.Tables Model.MLength Model.MHexStr Model.MHash
  Spec.SpecHex Proofs.ListN Proofs.HexBytes Proofs.HexLists.

Ltac Zify.zify_post_hook ::= Z.div_mod_to_equations.

(* ---- slices of concatenations ---- *)

Lemma takeN_app_exact {A} (a b : list A) : takeN (lenN a) (a ++ b) = a.
Proof.
  rewrite takeN_firstn. unfold lenN. rewrite Nat2N.id.
  rewrite firstn_app, Nat.sub_diag, firstn_all. cbn. apply app_nil_r.
Qed.

Lemma dropN_app_exact {A} (a b : list A) : dropN (lenN a) (a ++ b) = b.
Proof.
  rewrite dropN_skipn. unfold lenN. rewrite Nat2N.id.
  rewrite skipn_app, Nat.sub_diag, skipn_all. reflexivity.
Qed.

Lemma slice_app_0 {E A} (a b : list A) n : n = lenN a -> @slice E A (a ++ b) 0 n = Ok a.
Proof.
  intros ->. unfold slice. rewrite lenN_app.
  destruct (N.leb_spec 0 (lenN a)); [|lia].
  destruct (N.leb_spec (lenN a) (lenN a + lenN b)); [|lia].
  cbn [andb]. f_equal.
  replace (dropN 0 (a ++ b)) with (a ++ b).
  - rewrite N.sub_0_r. apply takeN_app_exact.
  - rewrite dropN_skipn. reflexivity.
Qed.

Lemma slice_from_app {E A} (a b : list A) n : n = lenN a -> @slice_from E A (a ++ b) n = Ok b.
Proof.
  intros ->. unfold slice_from. rewrite lenN_app.
  destruct (N.leb_spec (lenN a) (lenN a + lenN b)); [|lia].
  f_equal. apply dropN_app_exact.
Qed.

Lemma slice_app_mid {E A} (a b c : list A) n m :
  n = lenN a -> m = lenN a + lenN b -> @slice E A (a ++ b ++ c) n m = Ok b.
Proof.
  intros -> ->. unfold slice. rewrite !lenN_app.
  destruct (N.leb_spec (lenN a) (lenN a + lenN b)); [|lia].
  destruct (N.leb_spec (lenN a + lenN b) (lenN a + (lenN b + lenN c))); [|lia].
  cbn [andb]. f_equal. rewrite dropN_app_exact.
  replace (lenN a + lenN b - lenN a) with (lenN b) by lia. apply takeN_app_exact.
Qed.

Lemma lenN_length {A} (l : list A) n : lenN l = n -> length l = N.to_nat n.
Proof. unfold lenN. intros <-. rewrite Nat2N.id. reflexivity. Qed.

Lemma list_len2 (l : list N) : lenN l = 2 -> exists a b, l = [a; b].
Proof.
  intros H. apply lenN_length in H. destruct l as [|a [|b [|c r]]]; try discriminate. eauto.
Qed.

(* ---- decoders of the parts ---- *)

Lemma decode_array_spec {E} d hf n src : bytes_all src -> lenN src = n * 2 ->
  @decode_array E d hf n src = Ok (dp_spec hf (N.to_nat n) (chunks2 src)).
Proof.
  intros Hb Hl. unfold decode_array. rewrite Hl, N.eqb_refl. cbn [negb].
  apply decode_pairs_spec. apply chunks2_all. exact Hb.
Qed.

Lemma simd_decode_spec {E} n src : bytes_all src -> lenN src = n * 2 ->
  @simd_decode E n src = Ok (dp_spec true (N.to_nat n) (chunks2 src)).
Proof.
  intros Hb Hl. unfold simd_decode. rewrite Hl, N.eqb_refl. cbn [negb].
  apply decode_pairs_spec. apply chunks2_all. exact Hb.
Qed.

Lemma checksum_from_str_spec c v d1 : bytes_all d1 -> lenN d1 = v_cks v * 2 ->
  checksum_from_str c v d1 =
  match decode_hex d1 with Some r => Ok (map swap_nibbles r) | None => Err InvalidCharacter end.
Proof.
  intros Hb Hl. unfold checksum_from_str. rewrite Hl, N.eqb_refl. cbn [negb].
  rewrite decode_array_spec by assumption. cbn [bind].
  rewrite dp_spec_false_decode_hex by (apply lenN_length in Hl; lia).
  destruct (decode_hex d1); reflexivity.
Qed.

Lemma byte_from_str_rev_spec c d : bytes_all d -> lenN d = 2 ->
  byte_from_str_rev c d =
  match decode_hex d with Some r => Ok (swap_nibbles (hd 0 r)) | None => Err InvalidCharacter end.
Proof.
  intros Hb Hl. unfold byte_from_str_rev. rewrite Hl, N.eqb_refl. cbn [negb].
  destruct (list_len2 d Hl) as [a [b ->]].
  inversion Hb as [|? ? Ha Hb']; subst. inversion Hb' as [|? ? Hb2 _]; subst.
  cbn [decode_1]. rewrite decode_pair_spec' by assumption. cbn [bind].
  rewrite spec_pair_swap. cbn [decode_hex]. unfold spec_pair.
  destruct (hexdigit_val a) as [h|] eqn:Ea; destruct (hexdigit_val b) as [l|] eqn:Eb; try reflexivity.
  cbn [hd]. f_equal. symmetry. apply swap_nibbles_compose; eapply hexdigit_val_lt; eassumption.
Qed.

Lemma body_from_str_spec c v d4 : bytes_all d4 -> lenN d4 = size_body v * 2 ->
  body_from_str c v d4 =
  match decode_hex d4 with Some r => Ok r | None => Err InvalidCharacter end.
Proof.
  intros Hb Hl. unfold body_from_str. rewrite Hl, N.eqb_refl. cbn [negb].
  assert (Hd : (if hc_simd_parse c then @simd_decode parse_error (size_body v) d4
                else decode_array (hc_dec c) true (size_body v) d4)
               = Ok (dp_spec true (N.to_nat (size_body v)) (chunks2 d4))).
  { destruct (hc_simd_parse c); [apply simd_decode_spec|apply decode_array_spec]; assumption. }
  rewrite Hd. cbn [bind].
  rewrite dp_spec_true_decode_hex by (apply lenN_length in Hl; lia).
  destruct (decode_hex d4); reflexivity.
Qed.

(* ---- parse_fields, sequentially ---- *)

Definition pf_seq (strict : bool) (v : variant) (d1 d2 d3 d4 : list N) : outcome parse_error hash :=
  match decode_hex d1 with
  | None => Err InvalidCharacter
  | Some r1 =>
      if strict && negb (checksum_is_valid v (map swap_nibbles r1)) then Err InvalidChecksum
      else match decode_hex d2 with
           | None => Err InvalidCharacter
           | Some r2 =>
               if strict && negb (is_valid (swap_nibbles (hd 0 r2))) then Err LengthIsTooLarge
               else match decode_hex d3 with
                    | None => Err InvalidCharacter
                    | Some r3 =>
                        match decode_hex d4 with
                        | None => Err InvalidCharacter
                        | Some r4 =>
                            Ok {| h_cks := map swap_nibbles r1; h_len := swap_nibbles (hd 0 r2);
                                  h_q := swap_nibbles (hd 0 r3); h_body := r4 |}
                        end
                    end
           end
  end.

Lemma parse_fields_seq c v d1 d2 d3 d4 :
  bytes_all d1 -> bytes_all d2 -> bytes_all d3 -> bytes_all d4 ->
  lenN d1 = v_cks v * 2 -> lenN d2 = 2 -> lenN d3 = 2 -> lenN d4 = size_body v * 2 ->
  parse_fields c v (d1 ++ d2 ++ d3 ++ d4) = pf_seq (hc_strict c) v d1 d2 d3 d4.
Proof.
  intros B1 B2 B3 B4 L1 L2 L3 L4. unfold parse_fields, pf_seq.
  rewrite slice_app_0 by (symmetry; exact L1). cbn [bind].
  rewrite checksum_from_str_spec by assumption.
  destruct (decode_hex d1) as [r1|]; [|reflexivity]. cbn [bind].
  destruct (hc_strict c && negb (checksum_is_valid v (map swap_nibbles r1))); [reflexivity|]. cbn [bind].
  rewrite slice_from_app by (symmetry; exact L1). cbn [bind].
  rewrite slice_app_0 by (symmetry; exact L2). cbn [bind].
  rewrite byte_from_str_rev_spec by assumption.
  destruct (decode_hex d2) as [r2|]; [|reflexivity]. cbn [bind].
  destruct (hc_strict c && negb (is_valid (swap_nibbles (hd 0 r2)))); [reflexivity|]. cbn [bind].
  rewrite slice_app_mid by (rewrite ?L2, ?L3; reflexivity). cbn [bind].
  rewrite byte_from_str_rev_spec by assumption.
  destruct (decode_hex d3) as [r3|]; [|reflexivity]. cbn [bind].
  replace (d2 ++ d3 ++ d4) with ((d2 ++ d3) ++ d4) by (rewrite app_assoc; reflexivity).
  rewrite slice_from_app by (rewrite lenN_app, L2, L3; reflexivity). cbn [bind].
  rewrite body_from_str_spec by assumption.
  destruct (decode_hex d4) as [r4|]; reflexivity.
Qed.

(* every list of the right length splits into the four fields *)
Lemma split_fields (digits : list N) (a b : N) :
  lenN digits = a + 2 + 2 + b ->
  exists d1 d2 d3 d4, digits = d1 ++ d2 ++ d3 ++ d4 /\
    lenN d1 = a /\ lenN d2 = 2 /\ lenN d3 = 2 /\ lenN d4 = b.
Proof.
  intros H.
  exists (takeN a digits), (takeN 2 (dropN a digits)), (takeN 2 (dropN (a + 2) digits)), (dropN (a + 2 + 2) digits).
  split.
  - rewrite <- (takeN_dropN a digits) at 1. f_equal.
    rewrite <- (takeN_dropN 2 (dropN a digits)) at 1. f_equal.
    rewrite dropN_dropN.
    rewrite <- (takeN_dropN 2 (dropN (a + 2) digits)) at 1. f_equal.
    rewrite dropN_dropN. reflexivity.
  - rewrite !lenN_takeN, !lenN_dropN. lia.
Qed.

Lemma hd_nth0 (l : list N) : hd 0 l = nth 0 l 0.
Proof. destruct l; reflexivity. Qed.

(* lenient parser on the digit part = plain hex decoding + header nibble swap *)
Lemma pf_seq_lenient v d1 d2 d3 d4 :
  lenN d1 = v_cks v * 2 -> lenN d2 = 2 -> lenN d3 = 2 ->
  pf_seq false v d1 d2 d3 d4 =
  match decode_hex (d1 ++ d2 ++ d3 ++ d4) with
  | None => Err InvalidCharacter
  | Some raw => Ok (hash_of_raw v raw)
  end.
Proof.
  intros L1 L2 L3. unfold pf_seq. cbn [andb].
  rewrite (decode_hex_app d1 _ (N.to_nat (v_cks v))) by (apply lenN_length in L1; lia).
  destruct (decode_hex d1) as [r1|] eqn:E1; [|reflexivity].
  rewrite (decode_hex_app d2 _ 1) by (apply lenN_length in L2; exact L2).
  destruct (decode_hex d2) as [r2|] eqn:E2; [|reflexivity].
  rewrite (decode_hex_app d3 _ 1) by (apply lenN_length in L3; exact L3).
  destruct (decode_hex d3) as [r3|] eqn:E3; [|reflexivity].
  destruct (decode_hex d4) as [r4|] eqn:E4; [|reflexivity].
  cbn [option_map]. f_equal. unfold hash_of_raw.
  pose proof (decode_hex_length _ _ E1) as Hl1. apply lenN_length in L1.
  pose proof (decode_hex_length _ _ E2) as Hl2. apply lenN_length in L2.
  pose proof (decode_hex_length _ _ E3) as Hl3. apply lenN_length in L3.
  assert (Hr1 : length r1 = N.to_nat (v_cks v)) by lia.
  destruct r2 as [|x2 [|? ?]]; try (cbn in Hl2; lia).
  destruct r3 as [|x3 [|? ?]]; try (cbn in Hl3; lia).
  cbn [hd]. f_equal.
  - rewrite firstn_app, <- Hr1, Nat.sub_diag, firstn_all. cbn. rewrite app_nil_r. reflexivity.
  - rewrite <- Hr1, app_nth2, Nat.sub_diag by lia. reflexivity.
  - rewrite <- Hr1, app_nth2 by lia. replace (S (length r1) - length r1)%nat with 1%nat by lia. reflexivity.
  - rewrite <- Hr1.
    replace (r1 ++ [x2] ++ [x3] ++ r4) with ((r1 ++ [x2; x3]) ++ r4) by (rewrite <- app_assoc; reflexivity).
    rewrite skipn_app. rewrite skipn_all2 by (rewrite app_length; cbn; lia).
    rewrite app_length. cbn [length app].
    replace (S (S (length r1)) - (length r1 + 2))%nat with 0%nat by lia. reflexivity.
Qed.

Lemma variant_sizes v : is_variant v ->
  len_in_str v = spec_len_in_str v /\ len_in_str_except_prefix v = spec_len_in_str v - 2 /\
  v_cks v * 2 + 2 + 2 + size_body v * 2 = spec_len_in_str v - 2 /\
  size_in_bytes v = spec_size_in_bytes v /\ size_body v = spec_body_size v /\
  nb_of (v_bk v) = spec_nb (v_bk v).
Proof. intros H; destruct H; vm_compute; repeat split; reflexivity. Qed.

(* ---- the whole parser ---- *)

Definition parse_outcome (r : hash + parse_error) : outcome parse_error hash :=
  match r with inl h => Ok h | inr e => Err e end.

Lemma prefix_ok_sound (s : list N) : lenN s >= 2 ->
  exists a b r, s = a :: b :: r /\ prefix_ok s PWithVersion = list_eqb [a; b] [char_T; char_1].
Proof.
  intros H. destruct s as [|a [|b r]]; try (cbn in H; lia).
  exists a, b, r. split; [reflexivity|].
  cbn [prefix_ok list_eqb]. unfold char_T, char_1.
  destruct (N.eqb_spec a 84) as [->|Ha].
  - destruct (N.eqb_spec b 49) as [->|Hb]; [reflexivity|].
    cbn [andb]. destruct b as [|p]; [reflexivity|].
    do 6 (destruct p as [p|p|]; try reflexivity). all: try (exfalso; apply Hb; reflexivity).
  - cbn [andb]. destruct a as [|p]; [reflexivity|].
    do 7 (destruct p as [p|p|]; try reflexivity). all: try (exfalso; apply Ha; reflexivity).
Qed.

Lemma parse_fields_lenient c v digits :
  hc_strict c = false -> is_variant v -> bytes_all digits -> lenN digits = spec_len_in_str v - 2 ->
  parse_fields c v digits =
  match decode_hex digits with
  | None => Err InvalidCharacter
  | Some raw => Ok (hash_of_raw v raw)
  end.
Proof.
  intros Hs Hv Hb Hl.
  destruct (variant_sizes v Hv) as [_ [_ [Hsum _]]].
  destruct (split_fields digits (v_cks v * 2) (size_body v * 2)) as [d1 [d2 [d3 [d4 [-> [L1 [L2 [L3 L4]]]]]]]].
  { rewrite Hl, <- Hsum. reflexivity. }
  apply bytes_all_app in Hb as [B1 Hb]. apply bytes_all_app in Hb as [B2 Hb].
  apply bytes_all_app in Hb as [B3 B4].
  rewrite parse_fields_seq by assumption. rewrite Hs.
  apply pf_seq_lenient; assumption.
Qed.

Lemma with_version_stage (s : list N) (n : N) (k : list N -> outcome parse_error hash) :
  lenN s = n -> 2 <= n ->
  (if negb (lenN s =? n) then Err InvalidStringLength
   else do p2 <- slice s 0 2;
        if negb (list_eqb p2 [char_T; char_1]) then Err InvalidPrefix else slice_from s 2) =
  (if negb (prefix_ok s PWithVersion) then Err InvalidPrefix else Ok (skipn 2 s)).
Proof.
  intros Hl Hn. rewrite Hl, N.eqb_refl. cbn [negb].
  destruct (prefix_ok_sound s) as [a [b [r [-> Hp]]]]; [lia|].
  rewrite Hp.
  change (a :: b :: r) with ([a; b] ++ r).
  rewrite slice_app_0 by reflexivity. cbn [bind].
  destruct (list_eqb [a; b] [char_T; char_1]); cbn [negb]; [|reflexivity].
  rewrite slice_from_app by reflexivity. reflexivity.
Qed.

Lemma spec_len_ge v : is_variant v -> 4 <= spec_len_in_str v.
Proof. intros H; destruct H; vm_compute; discriminate. Qed.

Theorem parse_lenient_spec c v s m :
  hc_strict c = false -> is_variant v -> bytes_all s ->
  parse c v s m = parse_outcome (spec_parse v s m).
Proof.
  intros Hs Hv Hb.
  destruct (variant_sizes v Hv) as [HL [HLe _]].
  pose proof (spec_len_ge v Hv) as Hge.
  unfold parse, spec_parse, resolve_prefix. rewrite HL, HLe.
  change (slen s) with (lenN s).
  assert (Hempty : lenN s = spec_len_in_str v - 2 ->
    parse_fields c v s = parse_outcome (match decode_hex s with
                                        | Some raw => inl (hash_of_raw v raw)
                                        | None => inr InvalidCharacter end)).
  { intros Hl. rewrite parse_fields_lenient by assumption. destruct (decode_hex s); reflexivity. }
  assert (Hwith : lenN s = spec_len_in_str v ->
    (do bytes <- (if negb (lenN s =? spec_len_in_str v) then Err InvalidStringLength
                  else do p2 <- slice s 0 2;
                       if negb (list_eqb p2 [char_T; char_1]) then Err InvalidPrefix else slice_from s 2);
     parse_fields c v bytes) =
    parse_outcome (if negb (prefix_ok s PWithVersion) then inr InvalidPrefix
                   else match decode_hex (skipn 2 s) with
                        | Some raw => inl (hash_of_raw v raw)
                        | None => inr InvalidCharacter end)).
  { intros Hl. rewrite (with_version_stage s (spec_len_in_str v) (parse_fields c v)) by (assumption || lia).
    destruct (prefix_ok s PWithVersion); cbn [negb bind]; [|reflexivity].
    rewrite parse_fields_lenient; try assumption.
    - destruct (decode_hex (skipn 2 s)); reflexivity.
    - apply bytes_all_skipn; exact Hb.
    - unfold lenN in *. rewrite skipn_length. lia. }
  destruct m as [[|]|].
  - (* Some PEmpty *)
    cbn [bind]. destruct (N.eqb_spec (lenN s) (spec_len_in_str v - 2)) as [Hl|Hl]; cbn [negb bind].
    + cbn [prefix_ok negb digits_of]. apply Hempty; exact Hl.
    + reflexivity.
  - (* Some PWithVersion *)
    cbn [bind]. destruct (N.eqb_spec (lenN s) (spec_len_in_str v)) as [Hl|Hl].
    + cbn [digits_of]. rewrite <- Hwith by exact Hl.
      destruct (N.eqb_spec (lenN s) (spec_len_in_str v)); [reflexivity|contradiction].
    + cbn [negb bind]. reflexivity.
  - (* auto-detect *)
    destruct (N.eqb_spec (lenN s) (spec_len_in_str v - 2)) as [Hl|Hl]; cbn [bind].
    + cbn [negb bind prefix_ok digits_of]. apply Hempty; exact Hl.
    + destruct (N.eqb_spec (lenN s) (spec_len_in_str v)) as [Hl2|Hl2]; cbn [bind].
      * cbn [digits_of]. rewrite <- Hwith by exact Hl2.
        destruct (N.eqb_spec (lenN s) (spec_len_in_str v)); [reflexivity|contradiction].
      * reflexivity.
Qed.

(* ---- formatting ---- *)

Definition hash_okb (v : variant) (h : hash) : Prop :=
  lenN (h_cks h) = v_cks v /\ lenN (h_body h) = size_body v /\
  bytes_all (h_cks h) /\ bytes_all (h_body h) /\ h_len h < 256 /\ h_q h < 256.

Lemma hash_ok_okb v h : is_variant v -> hash_ok v h -> hash_okb v h.
Proof.
  intros Hv [H1 [H2 [H3 [H4 [H5 H6]]]]]. destruct (variant_sizes v Hv) as [_ [_ [_ [_ [Hb _]]]]].
  unfold hash_okb. change (lenN (h_cks h)) with (slen (h_cks h)). change (lenN (h_body h)) with (slen (h_body h)).
  rewrite Hb. tauto.
Qed.

Lemma skipn_app_exact {A} (a b : list A) n : length a = n -> skipn n (a ++ b) = b.
Proof. intros <-. rewrite skipn_app, skipn_all, Nat.sub_diag. reflexivity. Qed.

Lemma encode_rev_1_spec {E} e d x : lenN d = 2 -> x < 256 -> @encode_rev_1 E e d x = Ok (hex_lo_hi x).
Proof.
  intros Hl Hx. destruct (list_len2 d Hl) as [a [b ->]]. cbn [encode_rev_1].
  rewrite enc_rev_pair_spec by exact Hx. reflexivity.
Qed.

Lemma lenN_hex_lo_hi x : lenN (hex_lo_hi x) = 2.
Proof. reflexivity. Qed.

Lemma lenN_flat_map2 (g : N -> list N) src : (forall x, length (g x) = 2%nat) ->
  lenN (flat_map g src) = lenN src * 2.
Proof. intros Hg. unfold lenN. rewrite flat_map_length2 by exact Hg. lia. Qed.

Definition fields_text (h : hash) : list N :=
  flat_map hex_lo_hi (h_cks h) ++ hex_lo_hi (h_len h) ++ hex_lo_hi (h_q h) ++ flat_map hex_hi_lo (h_body h).

Lemma spec_format_fields h p : spec_format h p = prefix_text p ++ fields_text h.
Proof. reflexivity. Qed.

Lemma store_fields_spec c v h cur :
  hash_okb v h -> v_cks v * 2 + 2 + 2 + size_body v * 2 <= lenN cur ->
  store_fields c v h cur = Ok (fields_text h ++ dropN (v_cks v * 2 + 2 + 2 + size_body v * 2) cur).
Proof.
  intros [Lc [Lb [Bc [Bb [Hlen Hq]]]]] Hl.
  set (total := v_cks v * 2 + 2 + 2 + size_body v * 2) in *.
  rewrite <- (takeN_dropN total cur) at 1.
  set (rest := dropN total cur).
  destruct (split_fields (takeN total cur) (v_cks v * 2) (size_body v * 2)) as [x1 [x2 [x3 [x4 [Hx [L1 [L2 [L3 L4]]]]]]]].
  { rewrite lenN_takeN. unfold total in *. lia. }
  rewrite Hx. clear Hx.
  unfold store_fields, fields_text.
  set (F1 := flat_map hex_lo_hi (h_cks h)).
  set (F4 := flat_map hex_hi_lo (h_body h)).
  assert (LF1 : lenN F1 = v_cks v * 2).
  { unfold F1. rewrite lenN_flat_map2 by reflexivity. rewrite Lc. reflexivity. }
  (* checksum *)
  rewrite <- !app_assoc.
  rewrite encode_rev_array_spec;
    [|exact Bc|rewrite app_length; apply lenN_length in L1, Lc; lia].
  rewrite skipn_app_exact by (apply lenN_length in L1, Lc; lia).
  fold F1.
  rewrite slice_from_app by (symmetry; exact LF1). cbn [bind].
  rewrite <- LF1, takeN_app_exact.
  (* length *)
  rewrite slice_app_0 by (symmetry; exact L2). cbn [bind].
  rewrite encode_rev_1_spec by assumption. cbn [bind].
  assert (Hd2 : dropN 2 (x2 ++ x3 ++ x4 ++ rest) = x3 ++ x4 ++ rest).
  { rewrite <- L2. apply dropN_app_exact. }
  rewrite Hd2.
  (* q ratios *)
  rewrite (slice_app_mid (hex_lo_hi (h_len h)) x3 (x4 ++ rest)) by (rewrite ?lenN_hex_lo_hi, ?L3; reflexivity).
  cbn [bind].
  rewrite encode_rev_1_spec by assumption. cbn [bind].
  assert (Ht2 : takeN 2 (hex_lo_hi (h_len h) ++ x3 ++ x4 ++ rest) = hex_lo_hi (h_len h)).
  { change 2 with (lenN (hex_lo_hi (h_len h))). apply takeN_app_exact. }
  rewrite Ht2.
  assert (Hd4 : dropN 4 (hex_lo_hi (h_len h) ++ x3 ++ x4 ++ rest) = x4 ++ rest).
  { replace (hex_lo_hi (h_len h) ++ x3 ++ x4 ++ rest) with ((hex_lo_hi (h_len h) ++ x3) ++ x4 ++ rest)
      by (rewrite <- app_assoc; reflexivity).
    replace 4 with (lenN (hex_lo_hi (h_len h) ++ x3)) by (rewrite lenN_app, L3, lenN_hex_lo_hi; reflexivity).
    apply dropN_app_exact. }
  rewrite Hd4.
  (* body *)
  replace (hex_lo_hi (h_len h) ++ hex_lo_hi (h_q h) ++ x4 ++ rest)
    with ((hex_lo_hi (h_len h) ++ hex_lo_hi (h_q h)) ++ x4 ++ rest) by (rewrite <- app_assoc; reflexivity).
  rewrite (slice_from_app (hex_lo_hi (h_len h) ++ hex_lo_hi (h_q h)) (x4 ++ rest) 4) by reflexivity. cbn [bind].
  assert (He4 : (if hc_simd_convert c then @simd_encode op_error (x4 ++ rest) (h_body h)
                 else Ok (encode_array (hc_enc c) (x4 ++ rest) (h_body h))) = Ok (F4 ++ rest)).
  { assert (Hlen4 : (2 * length (h_body h) <= length (x4 ++ rest))%nat).
    { rewrite app_length. apply lenN_length in L4, Lb. lia. }
    destruct (hc_simd_convert c).
    - unfold simd_encode.
      destruct (N.ltb_spec (lenN (x4 ++ rest)) (2 * lenN (h_body h))) as [Hc|Hc].
      { rewrite lenN_app, L4, Lb in Hc. lia. }
      f_equal. change (encode_zip (enc_pair EncMin)) with (encode_array EncMin).
      rewrite encode_array_spec by assumption.
      rewrite skipn_app_exact by (apply lenN_length in L4, Lb; lia). reflexivity.
    - f_equal. rewrite encode_array_spec by assumption.
      rewrite skipn_app_exact by (apply lenN_length in L4, Lb; lia). reflexivity. }
  rewrite He4. cbn [bind]. f_equal.
  replace 4 with (lenN (hex_lo_hi (h_len h) ++ hex_lo_hi (h_q h))) by reflexivity.
  rewrite takeN_app_exact.
  rewrite <- !app_assoc. reflexivity.
Qed.

Definition str_len (v : variant) (p : prefix) : N :=
  match p with PEmpty => len_in_str_except_prefix v | PWithVersion => len_in_str v end.

Lemma takeN_0 {A} (l : list A) : takeN 0 l = [].
Proof. rewrite takeN_firstn. reflexivity. Qed.

Lemma dropN_0 {A} (l : list A) : dropN 0 l = l.
Proof. rewrite dropN_skipn. reflexivity. Qed.

(* store_into_str_bytes: too small -> error and untouched buffer; otherwise the reference text
   in the first [len] bytes and every later byte unchanged.  For every table configuration. *)
Theorem store_str_spec c v h p out :
  is_variant v -> hash_okb v h ->
  store_str c v h p out =
  if lenN out <? str_len v p then (Err BufferIsTooSmall, out)
  else (Ok (str_len v p), spec_format h p ++ dropN (str_len v p) out).
Proof.
  intros Hv Hh. destruct (variant_sizes v Hv) as [HL [HLe [Hsum _]]].
  pose proof (spec_len_ge v Hv) as Hge.
  unfold store_str. fold (str_len v p).
  destruct (N.ltb_spec (lenN out) (str_len v p)) as [Hlt|Hge']; [reflexivity|].
  rewrite spec_format_fields.
  destruct p; cbn [str_len] in *.
  - (* PEmpty *)
    cbn [bind fst snd prefix_text app].
    rewrite store_fields_spec; [|exact Hh|rewrite Hsum, <- HLe; exact Hge'].
    cbn [bind]. rewrite Hsum, <- HLe. reflexivity.
  - (* PWithVersion *)
    unfold copy_into. rewrite HL in *.
    destruct (N.leb_spec 0 2); [|lia]. destruct (N.leb_spec 2 (lenN out)); [|lia].
    change (lenN [char_T; char_1] =? 2 - 0) with true. cbn [andb bind].
    rewrite takeN_0. cbn [app].
    change (char_T :: char_1 :: dropN 2 out) with ([char_T; char_1] ++ dropN 2 out).
    rewrite slice_from_app by reflexivity. cbn [bind fst snd].
    assert (Ht : takeN 2 ([char_T; char_1] ++ dropN 2 out) = [char_T; char_1])
      by (apply (takeN_app_exact [char_T; char_1])).
    rewrite Ht.
    rewrite store_fields_spec; [|exact Hh|rewrite Hsum, lenN_dropN; lia].
    cbn [bind]. rewrite Hsum. rewrite dropN_dropN.
    replace (2 + (spec_len_in_str v - 2)) with (spec_len_in_str v) by lia.
    cbn [prefix_text]. unfold char_T, char_1. rewrite <- app_assoc. reflexivity.
Qed.

Lemma spec_format_length v h p : is_variant v -> hash_okb v h -> lenN (spec_format h p) = str_len v p.
Proof.
  intros Hv [Lc [Lb _]]. destruct (variant_sizes v Hv) as [HL [HLe [Hsum _]]].
  rewrite spec_format_fields. unfold fields_text. rewrite !lenN_app.
  rewrite !lenN_flat_map2 by reflexivity. rewrite !lenN_hex_lo_hi, Lc, Lb.
  destruct p; cbn [str_len prefix_text].
  - rewrite HLe, <- Hsum. change (lenN []) with 0. lia.
  - rewrite HL. change (lenN [84; 49]) with 2. pose proof (spec_len_ge v Hv). lia.
Qed.

(* ---- binary form ---- *)

Lemma copy_into_ok {E} (out : list N) a b src :
  a <= b -> b <= lenN out -> lenN src = b - a ->
  @copy_into E out a b src = Ok (takeN a out ++ src ++ dropN b out).
Proof.
  intros H1 H2 H3. unfold copy_into.
  destruct (N.leb_spec a b); [|lia]. destruct (N.leb_spec b (lenN out)); [|lia].
  rewrite H3, N.eqb_refl. reflexivity.
Qed.

Lemma set_at_ok {E} (out : list N) i x :
  i < lenN out -> @set_at E out i x = Ok (takeN i out ++ [x] ++ dropN (i + 1) out).
Proof. intros H. unfold set_at. destruct (N.ltb_spec i (lenN out)); [reflexivity|lia]. Qed.

Theorem store_bytes_spec v h out :
  hash_okb v h ->
  store_bytes v h out =
  if lenN out <? size_in_bytes v then (Err BufferIsTooSmall, out)
  else (Ok (size_in_bytes v), spec_bytes h ++ dropN (size_in_bytes v) out).
Proof.
  intros [Lc [Lb _]]. unfold store_bytes, size_in_bytes in *.
  destruct (N.ltb_spec (lenN out) (size_body v + 2 + v_cks v)) as [Hlt|Hge]; [reflexivity|].
  rewrite copy_into_ok by lia. cbn [bind]. rewrite takeN_0. cbn [app].
  set (o1 := h_cks h ++ dropN (v_cks v) out).
  assert (Lo1 : lenN o1 = lenN out).
  { unfold o1. rewrite lenN_app, lenN_dropN, Lc. lia. }
  rewrite set_at_ok by lia. cbn [bind].
  assert (Ht1 : takeN (v_cks v) o1 = h_cks h).
  { unfold o1. rewrite <- Lc. apply takeN_app_exact. }
  rewrite Ht1.
  assert (Hd1 : dropN (v_cks v + 1) o1 = dropN (v_cks v + 1) out).
  { unfold o1. rewrite <- (dropN_dropN 1 (v_cks v)). rewrite <- Lc at 1. rewrite dropN_app_exact.
    rewrite dropN_dropN. reflexivity. }
  rewrite Hd1.
  set (o2 := h_cks h ++ [h_len h] ++ dropN (v_cks v + 1) out).
  assert (Lo2 : lenN o2 = lenN out).
  { unfold o2. rewrite !lenN_app, lenN_dropN, Lc. change (lenN [h_len h]) with 1. lia. }
  rewrite set_at_ok by lia. cbn [bind].
  assert (Ht2 : takeN (v_cks v + 1) o2 = h_cks h ++ [h_len h]).
  { unfold o2. rewrite app_assoc.
    replace (v_cks v + 1) with (lenN (h_cks h ++ [h_len h])) by (rewrite lenN_app, Lc; reflexivity).
    apply takeN_app_exact. }
  rewrite Ht2.
  assert (Hd2 : dropN (v_cks v + 1 + 1) o2 = dropN (v_cks v + 2) out).
  { unfold o2. rewrite app_assoc. rewrite <- (dropN_dropN 1 (v_cks v + 1)).
    replace (v_cks v + 1) with (lenN (h_cks h ++ [h_len h])) at 1 by (rewrite lenN_app, Lc; reflexivity).
    rewrite dropN_app_exact. rewrite dropN_dropN. f_equal. lia. }
  rewrite Hd2.
  set (o3 := (h_cks h ++ [h_len h]) ++ [h_q h] ++ dropN (v_cks v + 2) out).
  assert (Lo3 : lenN o3 = lenN out).
  { unfold o3. rewrite !lenN_app, lenN_dropN, Lc. change (lenN [h_len h]) with 1. change (lenN [h_q h]) with 1. lia. }
  rewrite copy_into_ok by lia. f_equal.
  assert (Ht3 : takeN (v_cks v + 2) o3 = h_cks h ++ [h_len h; h_q h]).
  { unfold o3. rewrite app_assoc.
    replace (v_cks v + 2) with (lenN ((h_cks h ++ [h_len h]) ++ [h_q h])) by (rewrite !lenN_app, Lc; change (lenN [h_len h]) with 1; change (lenN [h_q h]) with 1; lia).
    rewrite takeN_app_exact. rewrite <- app_assoc. reflexivity. }
  rewrite Ht3.
  assert (Hd3 : dropN (size_body v + 2 + v_cks v) o3 = dropN (size_body v + 2 + v_cks v) out).
  { unfold o3. rewrite app_assoc.
    replace (size_body v + 2 + v_cks v) with ((v_cks v + 2) + size_body v) by lia.
    rewrite <- (dropN_dropN (size_body v) (v_cks v + 2)).
    replace (v_cks v + 2) with (lenN ((h_cks h ++ [h_len h]) ++ [h_q h])) at 1 by (rewrite !lenN_app, Lc; change (lenN [h_len h]) with 1; change (lenN [h_q h]) with 1; lia).
    rewrite dropN_app_exact. rewrite dropN_dropN. reflexivity. }
  rewrite Hd3. unfold spec_bytes. rewrite <- !app_assoc. reflexivity.
Qed.

Lemma spec_bytes_length v h : hash_okb v h -> lenN (spec_bytes h) = size_in_bytes v.
Proof.
  intros [Lc [Lb _]]. unfold spec_bytes, size_in_bytes. rewrite !lenN_app, Lc, Lb.
  change (lenN [h_len h; h_q h]) with 2. lia.
Qed.

(* the hash a byte array denotes *)
Definition hash_of_bytes (v : variant) (b : list N) : hash :=
  {| h_cks := takeN (v_cks v) b; h_len := nth (N.to_nat (v_cks v)) b 0;
     h_q := nth (N.to_nat (v_cks v + 1)) b 0; h_body := dropN (v_cks v + 2) b |}.

Lemma idx_nth (l : list N) i : i < lenN l -> idx l i = Some (nth (N.to_nat i) l 0).
Proof.
  intros H. unfold idx. destruct (N.ltb_spec i (lenN l)); [|lia].
  apply nth_error_nth'. unfold lenN in H. lia.
Qed.

Definition strict_gate (strict : bool) (v : variant) (h : hash) : outcome parse_error hash :=
  if strict && negb (checksum_is_valid v (h_cks h)) then Err InvalidChecksum
  else if strict && negb (is_valid (h_len h)) then Err LengthIsTooLarge
  else Ok h.

Theorem from_array_spec c v b :
  lenN b = size_in_bytes v ->
  from_array c v b = strict_gate (hc_strict c) v (hash_of_bytes v b).
Proof.
  intros Hl. unfold from_array, strict_gate, hash_of_bytes, size_in_bytes in *. cbn [h_cks h_len].
  unfold slice. destruct (N.leb_spec 0 (v_cks v)); [|lia]. destruct (N.leb_spec (v_cks v) (lenN b)); [|lia].
  cbn [andb bind]. rewrite N.sub_0_r, dropN_0.
  rewrite lenN_takeN. replace (N.min (v_cks v) (lenN b)) with (v_cks v) by lia.
  rewrite N.eqb_refl. cbn [bind].
  destruct (hc_strict c && negb (checksum_is_valid v (takeN (v_cks v) b))); [reflexivity|]. cbn [bind].
  unfold index. rewrite idx_nth by lia. cbn [unwrap bind].
  destruct (hc_strict c && negb (is_valid (nth (N.to_nat (v_cks v)) b 0))); [reflexivity|]. cbn [bind].
  rewrite idx_nth by lia. cbn [unwrap bind].
  unfold slice_from. destruct (N.leb_spec (v_cks v + 2) (lenN b)); [|lia]. cbn [bind].
  rewrite lenN_dropN. replace (lenN b - (v_cks v + 2)) with (size_body v) by lia.
  rewrite N.eqb_refl. unfold invariant. cbn [bind]. reflexivity.
Qed.

Theorem from_slice_spec c v b :
  from_slice c v b =
  if lenN b =? size_in_bytes v then strict_gate (hc_strict c) v (hash_of_bytes v b)
  else Err InvalidStringLength.
Proof.
  unfold from_slice. destruct (N.eqb_spec (lenN b) (size_in_bytes v)) as [Hl|Hl]; cbn [negb]; [|reflexivity].
  apply from_array_spec; exact Hl.
Qed.

Lemma hash_of_bytes_spec_bytes v h : hash_okb v h -> hash_of_bytes v (spec_bytes h) = h.
Proof.
  intros [Lc [Lb _]]. unfold hash_of_bytes, spec_bytes. destruct h as [ck l q bd]. cbn [h_cks h_len h_q h_body] in *.
  f_equal.
  - rewrite <- Lc. apply takeN_app_exact.
  - rewrite <- Lc. unfold lenN. rewrite Nat2N.id. rewrite app_nth2, Nat.sub_diag by lia. reflexivity.
  - rewrite <- Lc. replace (N.to_nat (lenN ck + 1)) with (S (length ck)) by (unfold lenN; lia).
    rewrite app_nth2 by lia. replace (S (length ck) - length ck)%nat with 1%nat by lia. reflexivity.
  - rewrite app_assoc. replace (v_cks v + 2) with (lenN (ck ++ [l; q])) by (rewrite lenN_app, Lc; reflexivity).
    apply dropN_app_exact.
Qed.

Lemma nth_skipn' {A} (l : list A) n i d : nth i (skipn n l) d = nth (n + i) l d.
Proof.
  revert l. induction n as [|n IH]; intros l; [reflexivity|].
  destruct l as [|x l]; [destruct i; reflexivity|]. cbn [skipn Nat.add nth]. apply IH.
Qed.

Lemma spec_bytes_hash_of_bytes v b : lenN b = size_in_bytes v -> spec_bytes (hash_of_bytes v b) = b.
Proof.
  intros Hl. unfold spec_bytes, hash_of_bytes, size_in_bytes in *. cbn [h_cks h_len h_q h_body].
  transitivity (takeN (v_cks v) b ++ dropN (v_cks v) b); [|apply takeN_dropN]. f_equal.
  assert (Hd : lenN (dropN (v_cks v) b) = size_body v + 2) by (rewrite lenN_dropN; lia).
  rewrite !dropN_skipn in *. unfold lenN in Hd.
  remember (skipn (N.to_nat (v_cks v)) b) as t eqn:Et.
  assert (Hn0 : nth (N.to_nat (v_cks v)) b 0 = nth 0 t 0).
  { subst t. rewrite nth_skipn'. f_equal. lia. }
  assert (Hn1 : nth (N.to_nat (v_cks v + 1)) b 0 = nth 1 t 0).
  { subst t. rewrite nth_skipn'. f_equal. lia. }
  assert (Hs : skipn (N.to_nat (v_cks v + 2)) b = skipn 2 t).
  { subst t. rewrite skipn_skipn'. f_equal. lia. }
  rewrite Hn0, Hn1, Hs. destruct t as [|a [|b' r]]; cbn [length] in Hd; try lia. reflexivity.
Qed.

Lemma hash_of_bytes_ok v b : lenN b = size_in_bytes v -> bytes_all b -> hash_okb v (hash_of_bytes v b).
Proof.
  intros Hl Hb. unfold hash_okb, hash_of_bytes, size_in_bytes in *. cbn [h_cks h_len h_q h_body].
  rewrite lenN_takeN, lenN_dropN.
  assert (Hnth : forall i, nth i b 0 < 256).
  { intros i. destruct (Nat.lt_ge_cases i (length b)) as [Hi|Hi].
    - unfold bytes_all in Hb. rewrite Forall_forall in Hb. apply Hb. apply nth_In. exact Hi.
    - rewrite nth_overflow by exact Hi. lia. }
  repeat split; try lia; auto using bytes_all_takeN, bytes_all_dropN.
Qed.

(* ---- the parser for any strictness ---- *)

Theorem parse_gen c v s m :
  is_variant v -> bytes_all s ->
  parse c v s m =
  match resolve_prefix v s m with
  | None => Err InvalidStringLength
  | Some p => if negb (prefix_ok s p) then Err InvalidPrefix else parse_fields c v (digits_of s p)
  end.
Proof.
  intros Hv Hb.
  destruct (variant_sizes v Hv) as [HL [HLe _]].
  pose proof (spec_len_ge v Hv) as Hge.
  unfold parse, resolve_prefix. rewrite HL, HLe.
  change (slen s) with (lenN s).
  assert (Hwith : lenN s = spec_len_in_str v ->
    (do bytes <- (if negb (lenN s =? spec_len_in_str v) then Err InvalidStringLength
                  else do p2 <- slice s 0 2;
                       if negb (list_eqb p2 [char_T; char_1]) then Err InvalidPrefix else slice_from s 2);
     parse_fields c v bytes) =
    (if negb (prefix_ok s PWithVersion) then Err InvalidPrefix else parse_fields c v (skipn 2 s))).
  { intros Hl. rewrite (with_version_stage s (spec_len_in_str v) (parse_fields c v)) by (assumption || lia).
    destruct (prefix_ok s PWithVersion); reflexivity. }
  destruct m as [[|]|].
  - cbn [bind]. destruct (N.eqb_spec (lenN s) (spec_len_in_str v - 2)) as [Hl|Hl]; reflexivity.
  - cbn [bind]. destruct (N.eqb_spec (lenN s) (spec_len_in_str v)) as [Hl|Hl].
    + cbn [digits_of]. rewrite <- Hwith by exact Hl.
      destruct (N.eqb_spec (lenN s) (spec_len_in_str v)); [reflexivity|contradiction].
    + reflexivity.
  - destruct (N.eqb_spec (lenN s) (spec_len_in_str v - 2)) as [Hl|Hl]; cbn [bind].
    + reflexivity.
    + destruct (N.eqb_spec (lenN s) (spec_len_in_str v)) as [Hl2|Hl2]; cbn [bind].
      * cbn [digits_of]. rewrite <- Hwith by exact Hl2.
        destruct (N.eqb_spec (lenN s) (spec_len_in_str v)); [reflexivity|contradiction].
      * reflexivity.
Qed.

Lemma digits_len v s m p : is_variant v -> resolve_prefix v s m = Some p ->
  lenN (digits_of s p) = spec_len_in_str v - 2.
Proof.
  intros Hv H. pose proof (spec_len_ge v Hv) as Hge. unfold resolve_prefix in H. change (slen s) with (lenN s) in H.
  assert (Hw : lenN s = spec_len_in_str v -> lenN (skipn 2 s) = spec_len_in_str v - 2).
  { intros Hl. unfold lenN in *. rewrite skipn_length. lia. }
  destruct m as [[|]|].
  - destruct (N.eqb_spec (lenN s) (spec_len_in_str v - 2)); [|discriminate]. injection H as <-. assumption.
  - destruct (N.eqb_spec (lenN s) (spec_len_in_str v)); [|discriminate]. injection H as <-. cbn [digits_of]. auto.
  - destruct (N.eqb_spec (lenN s) (spec_len_in_str v - 2)).
    + injection H as <-. assumption.
    + destruct (N.eqb_spec (lenN s) (spec_len_in_str v)); [|discriminate]. injection H as <-. cbn [digits_of]. auto.
Qed.

Lemma bytes_all_digits s p : bytes_all s -> bytes_all (digits_of s p).
Proof. destruct p; cbn [digits_of]; [auto|apply bytes_all_skipn]. Qed.

(* strict vs lenient on the fields *)
Lemma pf_seq_strict_of_lenient v d1 d2 d3 d4 :
  match pf_seq false v d1 d2 d3 d4 with
  | Ok h => pf_seq true v d1 d2 d3 d4 = strict_gate true v h
  | Err _ => exists e, pf_seq true v d1 d2 d3 d4 = Err e
  | Panic | UB => False
  end.
Proof.
  unfold pf_seq, strict_gate. cbn [andb].
  destruct (decode_hex d1) as [r1|]; [|eauto].
  destruct (decode_hex d2) as [r2|]; [|destruct (negb _); eauto].
  destruct (decode_hex d3) as [r3|]; [|destruct (negb _); [eauto|destruct (negb _); eauto]].
  destruct (decode_hex d4) as [r4|]; [|destruct (negb _); [eauto|destruct (negb _); eauto]].
  cbn [h_cks h_len]. reflexivity.
Qed.

Definition lenient_of (c : hcfg) : hcfg :=
  {| hc_strict := false; hc_dec := hc_dec c; hc_enc := hc_enc c; hc_simd_parse := hc_simd_parse c;
     hc_simd_convert := hc_simd_convert c; hc_unsafe := hc_unsafe c; hc_dbg := hc_dbg c |}.

Theorem parse_strict_vs_lenient c v s m :
  is_variant v -> bytes_all s ->
  match parse (lenient_of c) v s m with
  | Ok h => parse c v s m = strict_gate (hc_strict c) v h
  | Err _ => exists e, parse c v s m = Err e
  | Panic | UB => False
  end.
Proof.
  intros Hv Hb. rewrite !parse_gen by assumption.
  destruct (resolve_prefix v s m) as [p|] eqn:Er; [|eauto].
  destruct (prefix_ok s p); cbn [negb]; [|eauto].
  pose proof (digits_len v s m p Hv Er) as Hl.
  pose proof (bytes_all_digits s p Hb) as Hbd.
  destruct (variant_sizes v Hv) as [_ [_ [Hsum _]]].
  destruct (split_fields (digits_of s p) (v_cks v * 2) (size_body v * 2)) as [d1 [d2 [d3 [d4 [Hd [L1 [L2 [L3 L4]]]]]]]].
  { rewrite Hl, <- Hsum. reflexivity. }
  rewrite Hd in *.
  apply bytes_all_app in Hbd as [B1 Hbd]. apply bytes_all_app in Hbd as [B2 Hbd].
  apply bytes_all_app in Hbd as [B3 B4].
  rewrite !parse_fields_seq by assumption. cbn [lenient_of hc_strict].
  destruct (hc_strict c).
  - apply pf_seq_strict_of_lenient.
  - destruct (pf_seq false v d1 d2 d3 d4) as [h| e| |] eqn:E; [reflexivity|eauto| |].
    + unfold pf_seq in E. cbn [andb] in E.
      destruct (decode_hex d1), (decode_hex d2), (decode_hex d3), (decode_hex d4); discriminate.
    + unfold pf_seq in E. cbn [andb] in E.
      destruct (decode_hex d1), (decode_hex d2), (decode_hex d3), (decode_hex d4); discriminate.
Qed.

(* ---- round trip and canonical form ---- *)

Lemma hex_lo_hi_swap x : x < 256 -> hex_lo_hi (swap_nibbles x) = hex_hi_lo x.
Proof.
  intros Hx. destruct (swap_nibbles_facts x Hx) as [_ [_ [H1 H2]]].
  unfold hex_lo_hi, hex_hi_lo. rewrite H1, H2. reflexivity.
Qed.

Lemma flat_map_lo_hi_swap l : bytes_all l -> flat_map hex_lo_hi (map swap_nibbles l) = flat_map hex_hi_lo l.
Proof.
  induction l as [|x l IH]; intros H; [reflexivity|].
  inversion H as [|? ? Hx Hr]; subst. cbn [map flat_map]. rewrite hex_lo_hi_swap by exact Hx.
  rewrite IH by exact Hr. reflexivity.
Qed.

Lemma decode_hex_fields h : forall v, hash_okb v h ->
  decode_hex (fields_text h) =
  Some (map swap_nibbles (h_cks h) ++ [swap_nibbles (h_len h)] ++ [swap_nibbles (h_q h)] ++ h_body h).
Proof.
  intros v [Lc [Lb [Bc [Bb [Hlen Hq]]]]]. unfold fields_text.
  rewrite (decode_hex_app _ _ (length (h_cks h))) by (apply flat_map_length2; reflexivity).
  rewrite decode_hex_lo_hi by exact Bc.
  rewrite (decode_hex_app (hex_lo_hi (h_len h)) _ 1) by reflexivity.
  change (hex_lo_hi (h_len h)) with (flat_map hex_lo_hi [h_len h]) at 1.
  rewrite decode_hex_lo_hi by (constructor; [exact Hlen|constructor]).
  rewrite (decode_hex_app (hex_lo_hi (h_q h)) _ 1) by reflexivity.
  change (hex_lo_hi (h_q h)) with (flat_map hex_lo_hi [h_q h]) at 1.
  rewrite decode_hex_lo_hi by (constructor; [exact Hq|constructor]).
  rewrite decode_hex_hi_lo by exact Bb. reflexivity.
Qed.

Lemma hash_of_raw_fields v h : hash_okb v h ->
  hash_of_raw v (map swap_nibbles (h_cks h) ++ [swap_nibbles (h_len h)] ++ [swap_nibbles (h_q h)] ++ h_body h) = h.
Proof.
  intros [Lc [Lb [Bc [Bb [Hlen Hq]]]]]. unfold hash_of_raw. destruct h as [ck l q bd].
  cbn [h_cks h_len h_q h_body] in *.
  assert (Hck : length (map swap_nibbles ck) = N.to_nat (v_cks v)) by (rewrite map_length; apply lenN_length; exact Lc).
  f_equal.
  - rewrite <- Hck, firstn_app, Nat.sub_diag, firstn_all. cbn [firstn]. rewrite app_nil_r.
    apply map_swap_swap; exact Bc.
  - rewrite <- Hck, app_nth2, Nat.sub_diag by lia. cbn [nth app]. apply swap_nibbles_facts; exact Hlen.
  - rewrite <- Hck, app_nth2 by lia.
    replace (S (length (map swap_nibbles ck)) - length (map swap_nibbles ck))%nat with 1%nat by lia.
    cbn [nth app]. apply swap_nibbles_facts; exact Hq.
  - rewrite <- Hck.
    replace (map swap_nibbles ck ++ [swap_nibbles l] ++ [swap_nibbles q] ++ bd)
      with ((map swap_nibbles ck ++ [swap_nibbles l; swap_nibbles q]) ++ bd) by (rewrite <- app_assoc; reflexivity).
    apply skipn_app_exact. rewrite app_length. cbn [length]. lia.
Qed.

Lemma resolve_prefix_format v h p m : is_variant v -> hash_okb v h -> (m = None \/ m = Some p) ->
  resolve_prefix v (spec_format h p) m = Some p.
Proof.
  intros Hv Hh Hm. pose proof (spec_format_length v h p Hv Hh) as Hl.
  destruct (variant_sizes v Hv) as [HL [HLe _]]. pose proof (spec_len_ge v Hv) as Hge.
  unfold resolve_prefix. change (slen (spec_format h p)) with (lenN (spec_format h p)). rewrite Hl.
  destruct p; cbn [str_len]; rewrite ?HL, ?HLe.
  - destruct Hm as [->| ->]; rewrite N.eqb_refl; reflexivity.
  - destruct Hm as [->| ->]; rewrite ?N.eqb_refl; [|reflexivity].
    destruct (N.eqb_spec (spec_len_in_str v) (spec_len_in_str v - 2)); [lia|reflexivity].
Qed.

Theorem spec_parse_format v h p m : is_variant v -> hash_okb v h -> (m = None \/ m = Some p) ->
  spec_parse v (spec_format h p) m = inl h.
Proof.
  intros Hv Hh Hm. unfold spec_parse. rewrite (resolve_prefix_format v h p m) by assumption.
  assert (Hd : digits_of (spec_format h p) p = fields_text h) by (destruct p; reflexivity).
  assert (Hp : prefix_ok (spec_format h p) p = true) by (destruct p; reflexivity).
  rewrite Hp, Hd. cbn [negb]. rewrite (decode_hex_fields h v Hh). rewrite hash_of_raw_fields by exact Hh.
  reflexivity.
Qed.

(* an accepted digit string re-encodes to its own upper-cased characters *)
Lemma decode_hex_canonical s raw : bytes_all s -> decode_hex s = Some raw ->
  flat_map hex_hi_lo raw = map upper s.
Proof.
  revert s. induction raw as [|x raw IH]; intros s Hb H.
  - destruct s as [|a [|b r]]; [reflexivity|discriminate|].
    cbn [decode_hex] in H. destruct (hexdigit_val a), (hexdigit_val b), (decode_hex r); discriminate.
  - destruct s as [|a [|b r]]; try discriminate.
    inversion Hb as [|? ? Ha Hb']; subst. inversion Hb' as [|? ? Hb2 Hr]; subst.
    cbn [decode_hex] in H.
    destruct (hexdigit_val a) as [hh|] eqn:Ea; [|discriminate].
    destruct (hexdigit_val b) as [ll|] eqn:Eb; [|discriminate].
    destruct (decode_hex r) as [d|] eqn:Er; [|discriminate]. injection H as Hx <-.
    cbn [flat_map map app hex_hi_lo]. rewrite (IH r Hr Er).
    assert (Hsp : spec_pair true a b = Some x) by (unfold spec_pair; rewrite Ea, Eb, Hx; reflexivity).
    destruct (spec_pair_canonical a b x Ha Hb2 Hsp) as [_ [H1 H2]]. rewrite H1, H2. reflexivity.
Qed.

Lemma fields_text_hash_of_raw v raw : is_variant v -> bytes_all raw ->
  lenN raw = spec_size_in_bytes v ->
  fields_text (hash_of_raw v raw) = flat_map hex_hi_lo raw.
Proof.
  intros Hv Hb Hl. unfold fields_text, hash_of_raw. cbn [h_cks h_len h_q h_body].
  set (ck := N.to_nat (v_cks v)).
  assert (Hck : (S (S ck) <= length raw)%nat).
  { apply lenN_length in Hl. unfold spec_size_in_bytes in Hl. subst ck. lia. }
  assert (Hnth : forall i, nth i raw 0 < 256).
  { intros i. destruct (Nat.lt_ge_cases i (length raw)) as [Hi|Hi].
    - unfold bytes_all in Hb. rewrite Forall_forall in Hb. apply Hb. apply nth_In. exact Hi.
    - rewrite nth_overflow by exact Hi. lia. }
  rewrite flat_map_lo_hi_swap by (apply bytes_all_firstn; exact Hb).
  rewrite !hex_lo_hi_swap by apply Hnth.
  rewrite <- (firstn_skipn ck raw) at 5. rewrite flat_map_app. f_equal.
  assert (Hs : skipn ck raw = nth ck raw 0 :: nth (S ck) raw 0 :: skipn (S (S ck)) raw).
  { clear -Hck. revert raw Hck. induction ck as [|k IH]; intros raw Hck.
    - destruct raw as [|a [|b r]]; cbn [length] in Hck; try lia. reflexivity.
    - destruct raw as [|a r]; cbn [length] in Hck; [lia|]. cbn [skipn nth]. apply IH. lia. }
  rewrite Hs. reflexivity.
Qed.

Theorem spec_parse_canonical v s m h : is_variant v -> bytes_all s ->
  spec_parse v s m = inl h ->
  exists p, resolve_prefix v s m = Some p /\
    spec_format h PWithVersion = [84; 49] ++ map upper (digits_of s p) /\ hash_okb v h.
Proof.
  intros Hv Hb H. unfold spec_parse in H.
  destruct (resolve_prefix v s m) as [p|] eqn:Er; [|discriminate].
  destruct (prefix_ok s p); [|discriminate]. cbn [negb] in H.
  destruct (decode_hex (digits_of s p)) as [raw|] eqn:Ed; [|discriminate].
  injection H as <-. exists p. split; [reflexivity|].
  pose proof (digits_len v s m p Hv Er) as Hl.
  pose proof (decode_hex_length _ _ Ed) as Hlr.
  pose proof (decode_hex_bytes _ _ Ed) as Hbr.
  assert (Hraw : lenN raw = spec_size_in_bytes v).
  { apply lenN_length in Hl. unfold lenN, spec_len_in_str in *. lia. }
  split.
  - rewrite spec_format_fields. cbn [prefix_text]. f_equal.
    rewrite fields_text_hash_of_raw by assumption.
    apply decode_hex_canonical; [apply bytes_all_digits; exact Hb|exact Ed].
  - destruct (variant_sizes v Hv) as [_ [_ [_ [Hsz [Hbd _]]]]].
    unfold hash_okb, hash_of_raw. cbn [h_cks h_len h_q h_body].
    assert (Hnth : forall i, nth i raw 0 < 256).
    { intros i. destruct (Nat.lt_ge_cases i (length raw)) as [Hi|Hi].
      - unfold bytes_all in Hbr. rewrite Forall_forall in Hbr. apply Hbr. apply nth_In. exact Hi.
      - rewrite nth_overflow by exact Hi. lia. }
    unfold spec_size_in_bytes in Hraw. rewrite Hbd.
    repeat split.
    + unfold lenN in *. rewrite map_length, firstn_length. lia.
    + unfold lenN in *. rewrite skipn_length. lia.
    + apply bytes_all_map_swap. apply bytes_all_firstn. exact Hbr.
    + apply bytes_all_skipn. exact Hbr.
    + apply swap_nibbles_facts. apply Hnth.
    + apply swap_nibbles_facts. apply Hnth.
Qed.

(* ---- Display ---- *)

Lemma upper_digit_ascii n : n < 16 -> upper_digit n < 128.
Proof. intros H. unfold upper_digit. destruct (n <? 10); lia. Qed.

Lemma fields_text_props h : forall v, hash_okb v h ->
  forallb is_upper_hexdigit (fields_text h) = true.
Proof.
  intros v [_ [_ [Bc [Bb [Hlen Hq]]]]]. unfold fields_text.
  assert (G1 : forall l, bytes_all l -> forallb is_upper_hexdigit (flat_map hex_lo_hi l) = true).
  { induction l as [|x l IH]; intros H; [reflexivity|]. inversion H as [|? ? Hx Hr]; subst.
    cbn [flat_map hex_lo_hi app forallb]. destruct (spec_pair_hex_hi_lo x Hx) as [_ [_ [Ha Hb]]].
    rewrite Ha, Hb, IH by exact Hr. reflexivity. }
  assert (G2 : forall l, bytes_all l -> forallb is_upper_hexdigit (flat_map hex_hi_lo l) = true).
  { induction l as [|x l IH]; intros H; [reflexivity|]. inversion H as [|? ? Hx Hr]; subst.
    cbn [flat_map hex_hi_lo app forallb]. destruct (spec_pair_hex_hi_lo x Hx) as [_ [_ [Ha Hb]]].
    rewrite Ha, Hb, IH by exact Hr. reflexivity. }
  rewrite !forallb_app. rewrite G1 by exact Bc. rewrite G2 by exact Bb.
  change (hex_lo_hi (h_len h)) with (flat_map hex_lo_hi [h_len h]).
  change (hex_lo_hi (h_q h)) with (flat_map hex_lo_hi [h_q h]).
  rewrite !G1 by (constructor; [assumption|constructor]). reflexivity.
Qed.

Lemma is_upper_hexdigit_ascii x : is_upper_hexdigit x = true -> x < 128.
Proof.
  unfold is_upper_hexdigit. intros H. apply orb_prop in H as [H|H];
    apply andb_prop in H as [A B]; apply N.leb_le in A, B; lia.
Qed.

Theorem display_spec c v h : is_variant v -> hash_okb v h ->
  display c v h = Ok (spec_format h PWithVersion).
Proof.
  intros Hv Hh. unfold display. rewrite store_str_spec by assumption. cbn [str_len].
  assert (Hr : lenN (repeat 0 (N.to_nat (len_in_str v))) = len_in_str v).
  { unfold lenN. rewrite repeat_length. lia. }
  rewrite Hr. destruct (N.ltb_spec (len_in_str v) (len_in_str v)); [lia|].
  assert (Hd : dropN (len_in_str v) (repeat 0 (N.to_nat (len_in_str v))) = []).
  { unfold dropN. rewrite Hr. rewrite N.leb_refl. reflexivity. }
  rewrite Hd, app_nil_r.
  assert (Ha : is_ascii (spec_format h PWithVersion) = true).
  { rewrite spec_format_fields. unfold is_ascii. rewrite forallb_app. cbn [prefix_text forallb].
    apply andb_true_intro. split; [reflexivity|].
    pose proof (fields_text_props h v Hh) as Hp. rewrite forallb_forall in *.
    intros x Hx. apply N.ltb_lt. apply is_upper_hexdigit_ascii. apply Hp. exact Hx. }
  rewrite Ha. reflexivity.
Qed.

(* ---- accessors ---- *)

Lemma q1ratio_spec h : q1ratio h = h_q h mod 16.
Proof. unfold q1ratio. change 15 with (N.ones 4). rewrite N.land_ones. reflexivity. Qed.

Lemma q2ratio_spec h : q2ratio h = h_q h / 16.
Proof. unfold q2ratio. rewrite N.shiftr_div_pow2. reflexivity. Qed.

Lemma q_byte_layout h : h_q h < 256 -> h_q h = q2ratio h * 16 + q1ratio h /\ q1ratio h < 16 /\ q2ratio h < 16.
Proof. intros H. rewrite q1ratio_spec, q2ratio_spec. lia. Qed.

Theorem quartile_spec {E} v h i : hash_okb v h -> is_variant v ->
  @quartile E v h i =
  if i <? spec_nb (v_bk v)
  then Ok ((nth (N.to_nat (spec_body_size v - 1 - i / 4)) (h_body h) 0 / 4 ^ (i mod 4)) mod 4)
  else Panic.
Proof.
  intros [_ [Lb _]] Hv. destruct (variant_sizes v Hv) as [_ [_ [_ [_ [Hbd Hnb]]]]].
  unfold quartile. rewrite Hnb.
  destruct (N.ltb_spec i (spec_nb (v_bk v))) as [Hi|Hi]; cbn [negb]; [|reflexivity].
  rewrite Lb, Hbd.
  assert (Hq : i / 4 < spec_body_size v).
  { unfold spec_body_size. destruct (v_bk v); cbn [spec_nb] in *; lia. }
  destruct (N.ltb_spec (spec_body_size v) (1 + i / 4)); [lia|].
  unfold index. rewrite idx_nth by (rewrite Lb, Hbd; lia). cbn [unwrap bind]. f_equal.
  rewrite N.shiftr_div_pow2. change 3 with (N.ones 2). rewrite N.land_ones.
  replace (2 ^ (2 * (i mod 4))) with (4 ^ (i mod 4)).
  - reflexivity.
  - rewrite N.pow_mul_r. reflexivity.
Qed.

Lemma clear_checksum_spec v h : hash_okb v h ->
  spec_bytes (clear_checksum h) = repeat 0 (N.to_nat (v_cks v)) ++ dropN (v_cks v) (spec_bytes h).
Proof.
  intros [Lc _]. unfold spec_bytes, clear_checksum. cbn [h_cks h_len h_q h_body].
  rewrite <- Lc at 2. rewrite dropN_app_exact. f_equal.
  apply lenN_length in Lc. rewrite <- Lc. clear. induction (h_cks h) as [|x l IH]; [reflexivity|].
  cbn [map length repeat]. f_equal. exact IH.
Qed.
