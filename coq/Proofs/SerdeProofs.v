(* C16: serde encodings are canonical, round-trip, and malformed documents are errors. *)
From Coq Require Import Lia.
From TlshV Require Import Model.Machine Gen.Tables Model.MLength Model.MHexStr Model.MHash Model.MSerde Spec.SpecHex
  Proofs.ListN Proofs.HexLists Proofs.HashCodec Proofs.CodecProps.

Lemma dropN_all {A} (l : list A) n : lenN l <= n -> dropN n l = [].
Proof. intros H. unfold dropN. destruct (N.leb_spec (lenN l) n); [reflexivity|lia]. Qed.

(* what is serialized: exactly the "T1" hex text / exactly the binary form *)
Theorem ser_canonical c v h : is_variant v -> hash_ok v h ->
  ser c v true h = Ok (VStr (spec_format h PWithVersion)) /\
  ser c v false h = Ok (VBytes (h_cks h ++ [h_len h; h_q h] ++ h_body h)).
Proof.
  intros Hv Hh. pose proof (hash_ok_okb v h Hv Hh) as Hb. split.
  - unfold ser. rewrite display_spec by assumption. reflexivity.
  - unfold ser. rewrite store_bytes_spec by exact Hb.
    assert (Hl : lenN (repeat 0 (N.to_nat (size_in_bytes v))) = size_in_bytes v).
    { unfold lenN. rewrite repeat_length. lia. }
    rewrite Hl, N.ltb_irrefl. rewrite dropN_all by lia. rewrite app_nil_r. reflexivity.
Qed.

(* deserializing what was serialized gives back the identical hash (either representation, any configuration
   -- under the strict parser for every hash that is valid, in particular every generated one) *)
Theorem de_ser_lemma bug c v hr h : is_variant v -> hash_ok v h ->
  (hc_strict c = true -> strict_valid v h = true) ->
  exists ev, ser c v hr h = Ok ev /\ de bug c v hr ev = Ok h.
Proof.
  intros Hv Hh Hs. destruct (ser_canonical c v h Hv Hh) as [S1 S2]. pose proof (hash_ok_okb v h Hv Hh) as Hb.
  destruct hr.
  - eexists. split; [exact S1|]. unfold de, string_visitor.
    rewrite (parse_format_lemma c v h PWithVersion None Hv Hh Hs) by (left; reflexivity). reflexivity.
  - eexists. split; [exact S2|]. unfold de, bytes_visitor.
    assert (Hl : lenN (repeat 0 (N.to_nat (size_in_bytes v))) = size_in_bytes v).
    { unfold lenN. rewrite repeat_length. lia. }
    destruct (hash_roundtrip_lemma c v h _ Hb Hs Hl) as [_ [_ Hfs]].
    assert (Hlen : lenN (h_cks h ++ [h_len h; h_q h] ++ h_body h) = size_in_bytes v).
    { destruct Hb as [L1 [L2 _]]. rewrite !lenN_app, L1, L2. unfold size_in_bytes, lenN. cbn [length]. lia. }
    unfold spec_bytes in Hfs. rewrite Hlen, N.eqb_refl. cbn [negb]. rewrite Hfs. reflexivity.
Qed.

(* accepts exactly what the corresponding parser accepts, with the same value *)
Theorem de_accepts_iff_parser_lemma c v h :
  (forall s, de false c v true (VStr s) = Ok h <-> parse c v s None = Ok h) /\
  (forall s, de false c v true (VBytes s) = Ok h <-> parse c v s None = Ok h) /\
  (forall b, de false c v false (VBytes b) = Ok h <-> from_slice c v b = Ok h).
Proof.
  repeat split; unfold de, string_visitor, bytes_visitor, lift_parse.
  - destruct (parse c v s None); intros H; try discriminate; injection H as ->; reflexivity.
  - intros ->. reflexivity.
  - destruct (parse c v s None); intros H; try discriminate; injection H as ->; reflexivity.
  - intros ->. reflexivity.
  - destruct (N.eqb_spec (lenN b) (size_in_bytes v)) as [E|E]; cbn [negb].
    + destruct (from_slice c v b); intros H; try discriminate; injection H as ->; reflexivity.
    + discriminate.
  - intros H. rewrite H. destruct (N.eqb_spec (lenN b) (size_in_bytes v)) as [E|E]; cbn [negb]; [reflexivity|].
    rewrite from_slice_spec in H. destruct (N.eqb_spec (lenN b) (size_in_bytes v)); [contradiction|discriminate].
Qed.

(* any other document is a deserialization error of the right class *)
Theorem de_errors_lemma c v :
  (forall k hr, de false c v hr (VOther k) = Err DeInvalidType) /\
  (forall s, de false c v false (VStr s) = Err DeInvalidType) /\
  (forall b, lenN b <> size_in_bytes v -> de false c v false (VBytes b) = Err (DeInvalidLength (lenN b))) /\
  (forall s e, parse c v s None = Err e -> de false c v true (VStr s) = Err (DeCustom e)) /\
  (forall b e, from_slice c v b = Err e -> lenN b = size_in_bytes v -> de false c v false (VBytes b) = Err (DeCustom e)).
Proof.
  repeat split.
  - intros k hr. destruct hr; reflexivity.
  - intros b Hb. unfold de, bytes_visitor. destruct (N.eqb_spec (lenN b) (size_in_bytes v)); [contradiction|reflexivity].
  - intros s e H. unfold de, string_visitor. rewrite H. reflexivity.
  - intros b e H Hl. unfold de, bytes_visitor. rewrite Hl, N.eqb_refl, H. reflexivity.
Qed.

Lemma from_slice_total c v b : from_slice c v b <> Panic /\ from_slice c v b <> UB.
Proof.
  rewrite from_slice_spec. destruct (lenN b =? size_in_bytes v); [|split; discriminate].
  unfold strict_gate. destruct (hc_strict c && negb _); [split; discriminate|].
  destruct (hc_strict c && negb _); split; discriminate.
Qed.

(* never panics, never UB: for every event, both representations, every configuration (the repaired visitor) *)
Theorem de_total_lemma c v hr ev : is_variant v ->
  (match ev with VStr s | VBytes s => bytes_all s | VOther _ => True end) ->
  de false c v hr ev <> Panic /\ de false c v hr ev <> UB.
Proof.
  intros Hv Hb. unfold de. destruct hr.
  - unfold string_visitor. destruct ev as [s|s|k]; try (split; discriminate);
      destruct (parse_total_lemma c v s None Hv Hb) as [P1 P2];
      destruct (parse c v s None); cbn [lift_parse]; split; try discriminate; contradiction.
  - unfold bytes_visitor. destruct ev as [s|b|k]; try (split; discriminate).
    destruct (negb _); [split; discriminate|].
    destruct (from_slice_total c v b) as [P1 P2].
    destruct (from_slice c v b); split; try discriminate; contradiction.
Qed.

(* the code before the fix: with the strict parser, a byte string of the right size whose length code is
   170 makes the bytes visitor panic (try_from(v).unwrap()) instead of returning an error *)
Definition strict_cfg : hcfg :=
  {| hc_strict := true; hc_dec := DecFull; hc_enc := EncFull; hc_simd_parse := true; hc_simd_convert := true;
     hc_unsafe := false; hc_dbg := true |}.
Definition bad_doc : list N := [0; 170; 0] ++ repeat 0 32.

Lemma de_refuted_before_fix :
  lenN bad_doc = size_in_bytes V_Normal /\
  de true strict_cfg V_Normal false (VBytes bad_doc) = Panic /\
  de false strict_cfg V_Normal false (VBytes bad_doc) = Err (DeCustom LengthIsTooLarge) /\
  de true strict_cfg V_Short false (VBytes ([49; 0; 0] ++ repeat 0 12)) = Panic.
Proof. vm_compute. repeat split; reflexivity. Qed.
