(* C08 laws transported from the reference distance to the comparison model. *)
From Coq Require Import Lia.
From TlshV Require Import Model.Machine Gen.Tables Gen.Kernels Model.MLength Model.MHash Model.MLanes Model.MCompare
  Spec.SpecDistance Proofs.HexLists Proofs.HashCodec Proofs.Lanes Proofs.DistSweeps Proofs.Distance Proofs.DistLaws.

Lemma c08_reflexive c v a m : is_variant v -> hash_okb v a -> @compare unit c a a m = Ok 0.
Proof. intros Hv Ha. rewrite (compare_is_reference_lemma c v) by assumption. rewrite (spec_refl v) by assumption. reflexivity. Qed.

Lemma c08_zero_eq c v a b : is_variant v -> hash_okb v a -> hash_okb v b ->
  @compare unit c a b CmpDefault = Ok 0 -> a = b.
Proof.
  intros Hv Ha Hb H. rewrite (compare_is_reference_lemma c v) in H by assumption. injection H as H.
  exact (spec_zero_eq v a b Ha Hb H).
Qed.

Lemma c08_symmetric c v a b m : is_variant v -> hash_okb v a -> hash_okb v b ->
  @compare unit c a b m = @compare unit c b a m.
Proof.
  intros Hv Ha Hb. rewrite !(compare_is_reference_lemma c v) by assumption. rewrite (spec_sym v a b m) by assumption. reflexivity.
Qed.

Lemma c08_bounded c v a b m : is_variant v -> hash_okb v a -> hash_okb v b ->
  exists d, @compare unit c a b m = Ok d /\ d <= max_distance v m /\
            max_distance v m = 6 * spec_nb (v_bk v) + v_cks v + 168 + match m with CmpDefault => 1536 | CmpNoLength => 0 end.
Proof.
  intros Hv Ha Hb. exists (spec_distance a b m). split; [apply (compare_is_reference_lemma c v); assumption|].
  rewrite max_distance_eq by assumption. split; [apply spec_bounded; assumption|reflexivity].
Qed.

Lemma c08_max_attained c v m : is_variant v ->
  hash_okb v (far_a v) /\ hash_okb v (far_b v) /\ @compare unit c (far_a v) (far_b v) m = Ok (max_distance v m).
Proof.
  intros Hv. destruct (far_ok v Hv) as [Ha Hb]. split; [exact Ha|]. split; [exact Hb|].
  rewrite (compare_is_reference_lemma c v) by assumption. rewrite max_attained, max_distance_eq by assumption. reflexivity.
Qed.

Lemma c08_mode_split c v a b : is_variant v -> hash_okb v a -> hash_okb v b ->
  exists d0 dl, @compare unit c a b CmpNoLength = Ok d0 /\ @dist_length unit c (h_len a) (h_len b) = Ok dl /\
                @compare unit c a b CmpDefault = Ok (d0 + dl).
Proof.
  intros Hv Ha Hb. exists (spec_distance a b CmpNoLength), (ld (h_len a) (h_len b)).
  rewrite !(compare_is_reference_lemma c v) by assumption.
  destruct Ha as [_ [_ [_ [_ [Hal _]]]]]. destruct Hb as [_ [_ [_ [_ [Hbl _]]]]].
  rewrite dist_length_spec by assumption. rewrite spec_mode_split. repeat split; reflexivity.
Qed.

Lemma c08_clear c v a b m : is_variant v -> hash_okb v a -> hash_okb v b ->
  exists d d', @compare unit c a b m = Ok d /\
               @compare unit c (clear_checksum a) (clear_checksum b) m = Ok d' /\
               d' + lenN (filter (fun p => negb (fst p =? snd p)) (combine (h_cks a) (h_cks b))) = d.
Proof.
  intros Hv Ha Hb. exists (spec_distance a b m), (spec_distance (clear_checksum a) (clear_checksum b) m).
  rewrite !(compare_is_reference_lemma c v) by (try apply clear_okb; assumption).
  repeat split. rewrite <- cks_dist_counts. apply spec_clear.
Qed.
