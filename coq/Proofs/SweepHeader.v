(* exhaustive(12 x 65536): header distances of every table variant = reference *)
From Coq Require Import Lia.
From TlshV Require Import Model.Machine Gen.Tables Gen.Kernels Model.MLanes Model.MCompare Spec.SpecDistance
  Proofs.ListN Proofs.HexBytes Proofs.Lanes Proofs.SweepDefs.

Lemma header_sweep :
  forallb (fun c => forallb (fun a => forallb (fun b =>
     oeq (dist_length c a b) (ld a b) && oeq (dist_q c a b) (q_dist a b)) bytes256) bytes256) all_ccfg = true.
Proof. vm_cast_no_check (@eq_refl bool true). Qed.

Lemma byte_dist_le_24 : forallb (fun a => forallb (fun b => byte_dist a b <=? 24) bytes256) bytes256 = true.
Proof. vm_cast_no_check (@eq_refl bool true). Qed.
