(* C12 / C13: the read loop of hash_stream_common and the string comparison helpers. *)
From Coq Require Import Lia.
From TlshV Require Import Model.Machine Gen.Tables Model.MLength Model.MHexStr Model.MHash Model.MGenerate Model.MFinalize
  Model.MLanes Model.MCompare Model.MStream Spec.SpecHex Spec.SpecDistance
  Proofs.ListN Proofs.HexLists Proofs.HashCodec Proofs.CodecProps Proofs.GenUpdate Proofs.GenLen Proofs.Select Proofs.GenTotal Proofs.Distance.

Definition sc_fixed : scfg := {| sc_retry := true; sc_invariant := false |}.
Definition sc_before_fixes : scfg := {| sc_retry := false; sc_invariant := true |}.

(* ---- the loop, for a reader inside its contract and the retrying loop ---- *)
Lemma loop_in_contract sc gc v buflen trace : sc_retry sc = true -> forall s,
  ginv gc v s -> in_contract buflen trace = true ->
  stream_loop sc gc v buflen s trace =
  match first_hard trace with
  | Some k => Err (SIO k)
  | None => Ok (feed gc v s (delivered trace))
  end.
Proof.
  intros Hr. induction trace as [|x r IH]; intros s Hs Hc; cbn [stream_loop first_hard delivered in_contract] in *.
  - reflexivity.
  - destruct x as [d| |k|k].
    + destruct (lenN d =? 0); [reflexivity|]. apply andb_prop in Hc as [Hl Hc]. apply N.leb_le in Hl.
      destruct (N.ltb_spec buflen (lenN d)); [lia|].
      rewrite update_feed by exact Hs. cbn [bind]. rewrite IH by (try apply feed_inv; assumption).
      destruct (first_hard r); [reflexivity|]. rewrite feed_app. reflexivity.
    + rewrite Hr. apply IH; assumption.
    + reflexivity.
    + discriminate.
Qed.

(* hashing the stream = hashing the concatenation of the delivered bytes in one buffer *)
Theorem stream_equals_buffer_lemma sc gc v trace : sc_retry sc = true -> is_variant v ->
  in_contract stream_buffer_size trace = true -> first_hard trace = None ->
  hash_stream sc gc v trace = lift_gen (hash_buf gc v (delivered trace)).
Proof.
  intros Hr Hv Hc Hh. unfold hash_stream, hash_buf.
  rewrite (loop_in_contract sc gc v _ trace Hr _ (init_inv gc v Hv) Hc), Hh. cbn [bind].
  rewrite update_feed by (apply init_inv; exact Hv). cbn [bind]. reflexivity.
Qed.

Theorem first_hard_error_lemma sc gc v trace k : sc_retry sc = true -> is_variant v ->
  in_contract stream_buffer_size trace = true -> first_hard trace = Some k ->
  hash_stream sc gc v trace = Err (SIO k).
Proof.
  intros Hr Hv Hc Hh. unfold hash_stream.
  rewrite (loop_in_contract sc gc v _ trace Hr _ (init_inv gc v Hv) Hc), Hh. reflexivity.
Qed.

(* a reader that breaks the Read contract (claims more than the buffer holds): after the C17 fix always a
   clean panic, in every configuration *)
Fixpoint overclaims (buflen : N) (trace : list rres) : bool :=
  match trace with
  | RData d :: r => if lenN d =? 0 then false else if buflen <? lenN d then true else overclaims buflen r
  | RInterrupted :: r => overclaims buflen r
  | RHard _ :: _ => false
  | RLie _ :: _ => true
  | [] => false
  end.

Lemma overclaims_iff buflen trace : overclaims buflen trace = negb (in_contract buflen trace).
Proof.
  induction trace as [|x r IH]; cbn [overclaims in_contract]; [reflexivity|].
  destruct x as [d| |k|k]; try reflexivity; try exact IH.
  destruct (lenN d =? 0); [reflexivity|].
  destruct (N.ltb_spec buflen (lenN d)), (N.leb_spec (lenN d) buflen); try lia; cbn [andb negb]; first [reflexivity | exact IH].
Qed.

Theorem lying_reader_lemma sc gc v buflen trace : sc_retry sc = true -> forall s,
  ginv gc v s -> overclaims buflen trace = true ->
  stream_loop sc gc v buflen s trace = @overclaim gstate sc gc.
Proof.
  intros Hr. induction trace as [|x r IH]; intros s Hs Ho; cbn [stream_loop overclaims] in *; [discriminate|].
  destruct x as [d| |k|k]; try discriminate.
  - destruct (lenN d =? 0); [discriminate|]. destruct (buflen <? lenN d); [reflexivity|].
    rewrite update_feed by exact Hs. cbn [bind]. apply IH; [apply feed_inv; exact Hs|exact Ho].
  - rewrite Hr. apply IH; assumption.
  - reflexivity.
Qed.

Lemma overclaim_fixed_is_panic {A} sc gc : sc_invariant sc = false -> @overclaim A sc gc = Panic.
Proof. intros H. unfold overclaim. rewrite H. reflexivity. Qed.

(* total: for any trace whatsoever, the fixed loop returns normally, or panics exactly when the reader lies *)
Theorem stream_total_lemma gc v trace : is_variant v ->
  hash_stream sc_fixed gc v trace <> UB /\
  (hash_stream sc_fixed gc v trace = Panic -> overclaims stream_buffer_size trace = true).
Proof.
  intros Hv. destruct (overclaims stream_buffer_size trace) eqn:Ho.
  - unfold hash_stream. rewrite (lying_reader_lemma sc_fixed gc v _ trace eq_refl _ (init_inv gc v Hv) Ho).
    rewrite overclaim_fixed_is_panic by reflexivity. cbn [bind]. split; [discriminate|reflexivity].
  - assert (Hc : in_contract stream_buffer_size trace = true).
    { pose proof (overclaims_iff stream_buffer_size trace) as E. rewrite Ho in E. destruct (in_contract _ _); [reflexivity|discriminate]. }
    destruct (first_hard trace) as [k|] eqn:Hh.
    + rewrite (first_hard_error_lemma sc_fixed gc v trace k eq_refl Hv Hc Hh). split; discriminate.
    + rewrite (stream_equals_buffer_lemma sc_fixed gc v trace eq_refl Hv Hc Hh).
      unfold hash_buf. rewrite update_feed by (apply init_inv; exact Hv). cbn [bind].
      pose proof (finalize_never_panics_lemma sel_sort gc v default_options (delivered trace) sel_sort_contract Hv) as [F1 F2].
      unfold fresh in F1, F2. unfold finalize_exec.
      destruct (finalize sel_sort gc v default_options _); cbn [lift_gen]; split; try discriminate; try contradiction.
Qed.

(* ---- the code before the fixes: witnesses ---- *)
(* C12 defect: a transient interruption between two deliveries is returned as an I/O error *)
Definition d100 : list N := map (fun i => N.of_nat i * 7 mod 251) (seq 0 100).
Definition interrupted_trace : list rres := [RData d100; RInterrupted; RData d100; RData d100].

Lemma stream_refuted_before_fix :
  let gc := {| gc_low_mem := false; gc_double := true; gc_unsafe := false; gc_dbg := true |} in
  in_contract stream_buffer_size interrupted_trace = true /\ first_hard interrupted_trace = None /\
  hash_stream sc_before_fixes gc V_Normal interrupted_trace = Err (SIO io_interrupted) /\
  exists h, hash_buf gc V_Normal (delivered interrupted_trace) = Ok h /\
            hash_stream sc_fixed gc V_Normal interrupted_trace = Ok h.
Proof. vm_compute. repeat split. eexists. split; reflexivity. Qed.

(* C17 defect: with the invariant! present and feature `unsafe`, a reader claiming buf.len()+1 reaches
   unreachable_unchecked: undefined behaviour from safe code *)
Lemma reader_ub_refuted_before_fix :
  let gc := {| gc_low_mem := false; gc_double := true; gc_unsafe := true; gc_dbg := false |} in
  hash_stream sc_before_fixes gc V_Normal [RLie 1] = UB /\ hash_stream sc_fixed gc V_Normal [RLie 1] = Panic.
Proof. vm_compute. split; reflexivity. Qed.

(* ---- compare_easy ---- *)
Lemma compare_with_left_error hc cc v l r e : parse hc v l None = Err e -> compare_with hc cc v l r = Err (SLeft, e).
Proof. intros H. unfold compare_with. rewrite H. reflexivity. Qed.

Lemma compare_with_right_error hc cc v l r a e :
  parse hc v l None = Ok a -> parse hc v r None = Err e -> compare_with hc cc v l r = Err (SRight, e).
Proof. intros H1 H2. unfold compare_with. rewrite H1, H2. reflexivity. Qed.

Lemma parse_ok_okb hc v s m h : is_variant v -> bytes_all s -> parse hc v s m = Ok h -> hash_okb v h.
Proof.
  intros Hv Hb H. destruct (parse_Ok_spec hc v s m h Hv Hb H) as [Hsp _].
  destruct (spec_parse_canonical v s m h Hv Hb Hsp) as [p [_ [_ Hok]]]. apply hash_ok_okb; assumption.
Qed.

Theorem compare_with_both hc cc v l r a b : is_variant v -> bytes_all l -> bytes_all r ->
  parse hc v l None = Ok a -> parse hc v r None = Ok b ->
  compare_with hc cc v l r = Ok (spec_distance a b CmpDefault).
Proof.
  intros Hv Bl Br H1 H2. unfold compare_with. rewrite H1, H2.
  rewrite (compare_is_reference_lemma cc v a b CmpDefault Hv (parse_ok_okb _ _ _ _ _ Hv Bl H1) (parse_ok_okb _ _ _ _ _ Hv Br H2)).
  reflexivity.
Qed.

Theorem compare_with_total hc cc v l r : is_variant v -> bytes_all l -> bytes_all r ->
  compare_with hc cc v l r <> Panic /\ compare_with hc cc v l r <> UB.
Proof.
  intros Hv Bl Br. destruct (parse_total_lemma hc v l None Hv Bl) as [P1 P2].
  destruct (parse_total_lemma hc v r None Hv Br) as [P3 P4].
  destruct (parse hc v l None) as [a|e| |] eqn:H1; try contradiction.
  - destruct (parse hc v r None) as [b|e| |] eqn:H2; try contradiction.
    + rewrite (compare_with_both hc cc v l r a b Hv Bl Br H1 H2). split; discriminate.
    + rewrite (compare_with_right_error hc cc v l r a e H1 H2). split; discriminate.
  - rewrite (compare_with_left_error hc cc v l r e H1). split; discriminate.
Qed.

(* insensitive to letter case and to the presence of the prefix, on either side: replacing a string by its
   canonical form ("T1" + upper-cased digits) changes nothing *)
Definition canon_text (v : variant) (s : list N) : list N :=
  match resolve_prefix v s None with
  | Some p => [84; 49] ++ map upper (digits_of s p)
  | None => s
  end.

Lemma parse_canon hc v s h : is_variant v -> bytes_all s ->
  parse hc v s None = Ok h -> parse hc v (canon_text v s) None = Ok h.
Proof.
  intros Hv Hb H. destruct (parse_Ok_spec hc v s None h Hv Hb H) as [Hsp Hst].
  destruct (spec_parse_canonical v s None h Hv Hb Hsp) as [p [Hr [Hf Hok]]].
  unfold canon_text. rewrite Hr. rewrite <- Hf.
  apply parse_format_lemma; auto.
Qed.

Theorem compare_with_canon hc cc v l r a b : is_variant v -> bytes_all l -> bytes_all r ->
  parse hc v l None = Ok a -> parse hc v r None = Ok b ->
  compare_with hc cc v (canon_text v l) (canon_text v r) = compare_with hc cc v l r /\
  compare_with hc cc v (canon_text v l) r = compare_with hc cc v l r /\
  compare_with hc cc v l (canon_text v r) = compare_with hc cc v l r.
Proof.
  intros Hv Bl Br H1 H2.
  pose proof (parse_canon hc v l a Hv Bl H1) as C1. pose proof (parse_canon hc v r b Hv Br H2) as C2.
  unfold compare_with. rewrite H1, H2, C1, C2. repeat split.
Qed.

Lemma canon_same_hash hc v l l' a a' : is_variant v -> bytes_all l -> bytes_all l' ->
  parse hc v l None = Ok a -> parse hc v l' None = Ok a' -> canon_text v l = canon_text v l' -> a = a'.
Proof.
  intros Hv Bl Bl' H1 H2 E.
  pose proof (parse_canon hc v l a Hv Bl H1) as C1. pose proof (parse_canon hc v l' a' Hv Bl' H2) as C2.
  rewrite E in C1. rewrite C1 in C2. injection C2 as ->. reflexivity.
Qed.

Theorem same_digits_same_result hc cc v l l' r a a' : is_variant v -> bytes_all l -> bytes_all l' ->
  parse hc v l None = Ok a -> parse hc v l' None = Ok a' -> canon_text v l = canon_text v l' ->
  compare_with hc cc v l r = compare_with hc cc v l' r /\ compare_with hc cc v r l = compare_with hc cc v r l'.
Proof.
  intros Hv Bl Bl' H1 H2 E. pose proof (canon_same_hash hc v l l' a a' Hv Bl Bl' H1 H2 E) as ->.
  unfold compare_with. rewrite H1, H2. split; reflexivity.
Qed.
