(* Lane decomposition for the bit-sliced kernels (C02, C07).
   A word of m byte lanes is pack [l0; ...; l(m-1)].  Main theorem: if the reflective checker
   accepts every lane (no Add carry, no Sub borrow, no Shl shift-out; a right shift either has
   zero low bits or is consumed only by an And with a mask that kills the bits leaking in from
   the neighbouring lane), then running the program on the packed words equals packing the
   lane-wise runs.  Proved once, for every m and every program. *)
From Coq Require Import Lia ZArith ZifyBool ZifyN.
From TlshV Require Import Model.Machine Model.MLanes Proofs.ListN.

Ltac Zify.zify_post_hook ::= Z.div_mod_to_equations.

(* ---- bits of a concatenation ---- *)

Lemma testbit_cat w a p i : a < 2 ^ w ->
  N.testbit (a + 2 ^ w * p) i = if i <? w then N.testbit a i else N.testbit p (i - w).
Proof.
  intros Ha. assert (Hw : 2 ^ w <> 0) by (apply N.pow_nonzero; discriminate).
  destruct (N.ltb_spec i w) as [Hi|Hi].
  - rewrite <- (N.mod_pow2_bits_low (a + 2 ^ w * p) w i Hi). f_equal.
    rewrite (N.mul_comm (2 ^ w) p), N.mod_add by exact Hw. apply N.mod_small. exact Ha.
  - replace i with ((i - w) + w) at 1 by lia. rewrite <- N.div_pow2_bits. f_equal.
    rewrite (N.mul_comm (2 ^ w) p), N.div_add by exact Hw. rewrite N.div_small by exact Ha. lia.
Qed.

Lemma cat_lt w a p q : a < 2 ^ w -> p < q -> a + 2 ^ w * p < 2 ^ w * q.
Proof. intros Ha Hp. nia. Qed.

Lemma land_lt a b n : a < 2 ^ n -> N.land a b < 2 ^ n.
Proof.
  intros Ha. assert (Hw : 2 ^ n <> 0) by (apply N.pow_nonzero; discriminate).
  rewrite <- (N.mod_small a (2 ^ n) Ha). rewrite <- N.land_ones.
  rewrite <- N.land_assoc, (N.land_comm (N.ones n) b), N.land_assoc. rewrite N.land_ones.
  apply N.mod_lt. exact Hw.
Qed.

Lemma lor_lt a b n : a < 2 ^ n -> b < 2 ^ n -> N.lor a b < 2 ^ n.
Proof.
  intros Ha Hb. assert (Hw : 2 ^ n <> 0) by (apply N.pow_nonzero; discriminate).
  rewrite <- (N.mod_small a (2 ^ n) Ha), <- (N.mod_small b (2 ^ n) Hb). rewrite <- !N.land_ones.
  rewrite <- N.land_lor_distr_l. rewrite N.land_ones. apply N.mod_lt. exact Hw.
Qed.

Lemma lxor_lt a b n : a < 2 ^ n -> b < 2 ^ n -> N.lxor a b < 2 ^ n.
Proof.
  intros Ha Hb. destruct (N.eq_dec (N.lxor a b) 0) as [->|Hne]; [apply N.neq_0_lt_0, N.pow_nonzero; discriminate|].
  apply N.log2_lt_pow2; [lia|].
  apply N.le_lt_trans with (N.max (N.log2 a) (N.log2 b)); [apply N.log2_lxor|].
  destruct (N.eq_dec a 0) as [->|Ha0]; destruct (N.eq_dec b 0) as [->|Hb0].
  - rewrite N.lxor_0_l in Hne. contradiction.
  - change (N.log2 0) with 0. rewrite N.max_0_l. apply N.log2_lt_pow2; lia.
  - change (N.log2 0) with 0. rewrite N.max_0_r. apply N.log2_lt_pow2; lia.
  - apply N.max_lub_lt; apply N.log2_lt_pow2; lia.
Qed.

(* ---- pack ---- *)

Definition byte (x : N) : Prop := x < 256.

Lemma pack_map_lt {A} (f : A -> N) (L : list A) : (forall e, In e L -> f e < 256) ->
  pack (map f L) < 2 ^ (8 * N.of_nat (length L)).
Proof.
  induction L as [|e L IH]; intros H; [cbn; lia|].
  cbn [map pack length]. specialize (IH (fun x Hx => H x (or_intror Hx))).
  pose proof (H e (or_introl eq_refl)) as He.
  replace (8 * N.of_nat (S (length L))) with (8 + 8 * N.of_nat (length L)) by lia.
  rewrite N.pow_add_r. change (2 ^ 8) with 256. nia.
Qed.

Lemma pack_add {A} (f g : A -> N) L :
  pack (map f L) + pack (map g L) = pack (map (fun e => f e + g e) L).
Proof. induction L as [|e L IH]; cbn [map pack]; [reflexivity|]. rewrite <- IH. lia. Qed.

Lemma pack_sub {A} (f g : A -> N) L : (forall e, In e L -> g e <= f e) ->
  pack (map f L) - pack (map g L) = pack (map (fun e => f e - g e) L) /\ pack (map g L) <= pack (map f L).
Proof.
  induction L as [|e L IH]; intros H; cbn [map pack]; [split; [reflexivity|lia]|].
  destruct (IH (fun x Hx => H x (or_intror Hx))) as [IH1 IH2]. pose proof (H e (or_introl eq_refl)).
  rewrite <- IH1. split; lia.
Qed.

Lemma pack_mul {A} (f : A -> N) L k : pack (map f L) * k = pack (map (fun e => f e * k) L).
Proof. induction L as [|e L IH]; cbn [map pack]; [reflexivity|]. rewrite <- IH. lia. Qed.

Lemma pack_div_exact {A} (f : A -> N) L c : (forall e, In e L -> f e mod 2 ^ c = 0) ->
  pack (map f L) / 2 ^ c = pack (map (fun e => f e / 2 ^ c) L).
Proof.
  intros H. assert (Hw : 2 ^ c <> 0) by (apply N.pow_nonzero; discriminate).
  assert (E : pack (map f L) = pack (map (fun e => f e / 2 ^ c) L) * 2 ^ c).
  { rewrite pack_mul. f_equal. apply map_ext_in. intros e He. specialize (H e He).
    rewrite (N.div_mod (f e) (2 ^ c) Hw) at 1. rewrite H. lia. }
  rewrite E. apply N.div_mul. exact Hw.
Qed.

Lemma krep_map {A} (L : list A) c : krep (length L) c = pack (map (fun _ => c) L).
Proof. unfold krep. f_equal. induction L as [|e L IH]; cbn [length repeat map]; [reflexivity|]. f_equal. exact IH. Qed.

(* bitwise operations commute with packing *)
Lemma bitop_cat (op : N -> N -> N) (fb : bool -> bool -> bool) a b p q :
  (forall x y i, N.testbit (op x y) i = fb (N.testbit x i) (N.testbit y i)) ->
  (forall x y, x < 256 -> y < 256 -> op x y < 256) ->
  a < 256 -> b < 256 -> op (a + 256 * p) (b + 256 * q) = op a b + 256 * op p q.
Proof.
  intros Hop Hlt Ha Hb. apply N.bits_inj. intros i.
  change 256 with (2 ^ 8). rewrite Hop, !testbit_cat by (assumption || (apply Hlt; assumption)).
  destruct (i <? 8); rewrite Hop; reflexivity.
Qed.

Lemma pack_bitop (op : N -> N -> N) (fb : bool -> bool -> bool) {A} (f g : A -> N) L :
  (forall x y i, N.testbit (op x y) i = fb (N.testbit x i) (N.testbit y i)) ->
  (forall x y, x < 256 -> y < 256 -> op x y < 256) -> op 0 0 = 0 ->
  (forall e, In e L -> f e < 256) -> (forall e, In e L -> g e < 256) ->
  op (pack (map f L)) (pack (map g L)) = pack (map (fun e => op (f e) (g e)) L).
Proof.
  intros Hop Hlt H0 Hf Hg. induction L as [|e L IH]; cbn [map pack]; [exact H0|].
  rewrite (bitop_cat op fb) by (auto using in_eq). rewrite IH by (intros; auto using in_cons). reflexivity.
Qed.

Lemma pack_land {A} (f g : A -> N) L : (forall e, In e L -> f e < 256) -> (forall e, In e L -> g e < 256) ->
  N.land (pack (map f L)) (pack (map g L)) = pack (map (fun e => N.land (f e) (g e)) L).
Proof.
  apply (pack_bitop N.land andb); [apply N.land_spec| |reflexivity].
  intros x y Hx _. apply (land_lt x y 8). exact Hx.
Qed.
Lemma pack_lor {A} (f g : A -> N) L : (forall e, In e L -> f e < 256) -> (forall e, In e L -> g e < 256) ->
  N.lor (pack (map f L)) (pack (map g L)) = pack (map (fun e => N.lor (f e) (g e)) L).
Proof.
  apply (pack_bitop N.lor orb); [apply N.lor_spec| |reflexivity].
  intros x y Hx Hy. apply (lor_lt x y 8); assumption.
Qed.
Lemma pack_lxor {A} (f g : A -> N) L : (forall e, In e L -> f e < 256) -> (forall e, In e L -> g e < 256) ->
  N.lxor (pack (map f L)) (pack (map g L)) = pack (map (fun e => N.lxor (f e) (g e)) L).
Proof.
  apply (pack_bitop N.lxor xorb); [apply N.lxor_spec| |reflexivity].
  intros x y Hx Hy. apply (lxor_lt x y 8); assumption.
Qed.

(* the hard case: shift right, then mask.  The low c bits of the next lane leak into the top c
   bits of each lane; a mask k < 2^(8-c) removes exactly those. *)
Lemma pack_shrmask {A} (f : A -> N) L c k : c <= 8 -> k < 2 ^ (8 - c) ->
  (forall e, In e L -> f e < 256) ->
  N.land (pack (map f L) / 2 ^ c) (pack (map (fun _ => k) L)) = pack (map (fun e => N.land (f e / 2 ^ c) k) L).
Proof.
  intros Hc Hk Hf. assert (Hw : 2 ^ c <> 0) by (apply N.pow_nonzero; discriminate).
  assert (H256 : 256 = 2 ^ (8 - c) * 2 ^ c) by (rewrite <- N.pow_add_r; replace (8 - c + c) with 8 by lia; reflexivity).
  induction L as [|e L IH]; cbn [map pack]; [reflexivity|].
  specialize (IH (fun x Hx => Hf x (or_intror Hx))). pose proof (Hf e (or_introl eq_refl)) as He.
  set (P := pack (map f L)) in *. set (Kp := pack (map (fun _ => k) L)) in *.
  (* (a + 256 P) / 2^c = a / 2^c + 2^(8-c) * P *)
  assert (Hdiv : (f e + 256 * P) / 2 ^ c = f e / 2 ^ c + 2 ^ (8 - c) * P).
  { rewrite H256. replace (2 ^ (8 - c) * 2 ^ c * P) with (2 ^ (8 - c) * P * 2 ^ c) by lia.
    apply N.div_add. exact Hw. }
  rewrite Hdiv. rewrite <- IH.
  assert (Ha : f e / 2 ^ c < 2 ^ (8 - c)).
  { apply N.div_lt_upper_bound; [exact Hw|]. rewrite N.mul_comm, <- H256. exact He. }
  assert (Hk8 : k < 256).
  { apply N.lt_le_trans with (2 ^ (8 - c)); [exact Hk|]. change 256 with (2 ^ 8). apply N.pow_le_mono_r; lia. }
  apply N.bits_inj. intros i.
  rewrite N.land_spec.
  change 256 with (2 ^ 8). rewrite (testbit_cat 8 k Kp i Hk8).
  rewrite (testbit_cat (8 - c) _ P i Ha).
  rewrite (testbit_cat 8 (N.land (f e / 2 ^ c) k) _ i) by (apply (land_lt _ _ 8); change (2 ^ 8) with 256; lia).
  destruct (N.ltb_spec i 8) as [Hi8|Hi8].
  - rewrite N.land_spec. destruct (N.ltb_spec i (8 - c)) as [Hi|Hi]; [reflexivity|].
    (* mask bit is zero there *)
    assert (Hkb : N.testbit k i = false).
    { destruct (N.eq_dec k 0) as [->|Hk0]; [apply N.bits_0|]. apply N.bits_above_log2.
      apply N.lt_le_trans with (8 - c); [apply N.log2_lt_pow2; lia|exact Hi]. }
    rewrite Hkb, !andb_false_r. reflexivity.
  - destruct (N.ltb_spec i (8 - c)); [lia|].
    rewrite N.land_spec. f_equal.
    replace (i - (8 - c)) with ((i - 8) + c) by lia. rewrite <- N.div_pow2_bits. reflexivity.
Qed.

(* ---- the reflective checker ---- *)

Inductive status := Clean | ShrOf (s : nat) (c : N).

Definition status_of (ins : instr) : status :=
  match ins with IShr (R s) c => ShrOf s c | _ => Clean end.

(* operand usable as a lane-exact value in lane environment e *)
Definition op_ok (st : list status) (e : list N) (o : operand) : bool :=
  match o with
  | K c => c <? 256
  | R i => (Nat.ltb i (length e)) &&
           match nth i st Clean with
           | Clean => true
           | ShrOf s c => (nth s e 0) mod 2 ^ c =? 0
           end
  end.

(* And with a constant mask may also consume a "dirty" right shift *)
Definition mask_ok (st : list status) (e : list N) (i : nat) (k : N) : bool :=
  (Nat.ltb i (length e)) && (k <? 256) &&
  match nth i st Clean with
  | Clean => true
  | ShrOf s c => ((c <=? 8) && (k <? 2 ^ (8 - c))) || ((nth s e 0) mod 2 ^ c =? 0)
  end.

Definition chk (st : list status) (e : list N) (ins : instr) : bool :=
  match ins with
  | IAnd (R i) (K k) => mask_ok st e i k
  | IAnd (K k) (R i) => mask_ok st e i k
  | IAnd a b | IOr a b | IXor a b => op_ok st e a && op_ok st e b
  | IAdd a b => op_ok st e a && op_ok st e b && (opval 1 e a + opval 1 e b <? 256)
  | ISub a b => op_ok st e a && op_ok st e b && (opval 1 e b <=? opval 1 e a)
  | IShl a c => op_ok st e a && (opval 1 e a * 2 ^ c <? 256)
  | IShr (R s) c => op_ok st e (R s)
  | IShr (K _) _ => false
  end.

Fixpoint safe_run (p : program) (st : list status) (e : list N) : bool :=
  match p with
  | [] => true
  | i :: r => chk st e i && safe_run r (st ++ [status_of i]) (e ++ [step 1 e i])
  end.

Fixpoint statuses (p : program) (st : list status) : list status :=
  match p with [] => st | i :: r => statuses r (st ++ [status_of i]) end.

(* a lane pair is safe for program p with output register out *)
Definition lane_safe (p : program) (out : nat) (a b : N) : bool :=
  (a <? 256) && (b <? 256) && safe_run p [Clean; Clean] [a; b]
  && op_ok (statuses p [Clean; Clean]) (run 1 p [a; b]) (R out).

(* ---- invariant ---- *)

Definition col (r : nat) (LE : list (list N)) : list N := map (fun e => nth r e 0) LE.

Definition reg_rel (W : list N) (LE : list (list N)) (st : list status) (r : nat) : Prop :=
  match nth r st Clean with
  | Clean => nth r W 0 = pack (col r LE)
  | ShrOf s c => (s < r)%nat /\ nth r W 0 = pack (col s LE) / 2 ^ c /\
                 (forall e, In e LE -> nth r e 0 = nth s e 0 / 2 ^ c)
  end.

Definition inv (W : list N) (LE : list (list N)) (st : list status) : Prop :=
  length st = length W /\
  (forall e, In e LE -> length e = length W /\ Forall byte e) /\
  (forall r, (r < length W)%nat -> reg_rel W LE st r).

Lemma krep1 c : krep 1 c = c.
Proof. unfold krep. cbn. lia. Qed.

Lemma nth_byte (e : list N) i : Forall byte e -> nth i e 0 < 256.
Proof.
  intros H. destruct (Nat.lt_ge_cases i (length e)) as [Hi|Hi].
  - rewrite Forall_forall in H. apply H. apply nth_In. exact Hi.
  - rewrite nth_overflow by exact Hi. lia.
Qed.

(* an operand accepted in every lane has the packed lane values as its wide value *)
Lemma operand_rel W LE st o :
  LE <> [] -> inv W LE st -> (forall e, In e LE -> op_ok st e o = true) ->
  opval (length LE) W o = pack (map (fun e => opval 1 e o) LE) /\
  (forall e, In e LE -> opval 1 e o < 256).
Proof.
  intros Hne [Hst [Hle Hreg]] Hok. destruct o as [i|c]; cbn [opval].
  - assert (Hi : (i < length W)%nat).
    { destruct LE as [|e0 LE']; [contradiction|]. specialize (Hok e0 (or_introl eq_refl)).
      cbn [op_ok] in Hok. apply andb_prop in Hok as [Hok _]. apply Nat.ltb_lt in Hok.
      destruct (Hle e0 (or_introl eq_refl)) as [Hl _]. lia. }
    split; [|intros e He; apply nth_byte; apply (Hle e He)].
    specialize (Hreg i Hi). unfold reg_rel in Hreg.
    destruct (nth i st Clean) as [|s c] eqn:Est.
    + exact Hreg.
    + destruct Hreg as [_ [Hw Hl]]. rewrite Hw. unfold col. rewrite pack_div_exact.
      * f_equal. apply map_ext_in. intros e He. symmetry. apply Hl. exact He.
      * intros e He. specialize (Hok e He). cbn [op_ok] in Hok. rewrite Est in Hok.
        apply andb_prop in Hok as [_ Hok]. apply N.eqb_eq in Hok. exact Hok.
  - split.
    + rewrite krep_map. f_equal. apply map_ext. intros e. symmetry. apply krep1.
    + intros e He. rewrite krep1. specialize (Hok e He). cbn [op_ok] in Hok. apply N.ltb_lt. exact Hok.
Qed.

Lemma inv_extend W LE st ins v :
  inv W LE st ->
  (forall e, In e LE -> step 1 e ins < 256) ->
  (match status_of ins with
   | Clean => v = pack (map (fun e => step 1 e ins) LE)
   | ShrOf s c => (s < length W)%nat /\ v = pack (col s LE) / 2 ^ c /\
                  (forall e, In e LE -> step 1 e ins = nth s e 0 / 2 ^ c)
   end) ->
  inv (W ++ [v]) (map (fun e => e ++ [step 1 e ins]) LE) (st ++ [status_of ins]).
Proof.
  intros [Hst [Hle Hreg]] Hb Hv. unfold inv. rewrite !app_length. cbn [length]. split; [lia|]. split.
  - intros e' He'. apply in_map_iff in He' as [e [<- He]]. destruct (Hle e He) as [Hl Hby].
    rewrite app_length. cbn [length]. split; [lia|].
    apply Forall_app. split; [exact Hby|]. constructor; [apply Hb; exact He|constructor].
  - intros r Hr. unfold reg_rel.
    assert (Hcol : forall q, (q < length W)%nat ->
              col q (map (fun e => e ++ [step 1 e ins]) LE) = col q LE).
    { intros q Hq. unfold col. rewrite map_map. apply map_ext_in. intros e He.
      destruct (Hle e He) as [Hl _]. rewrite app_nth1 by lia. reflexivity. }
    destruct (Nat.eq_dec r (length W)) as [->|Hne].
    + (* the new register *)
      replace (nth (length W) (st ++ [status_of ins]) Clean) with (status_of ins)
        by (rewrite <- Hst; symmetry; apply nth_middle).
      rewrite nth_middle.
      destruct (status_of ins) as [|s c] eqn:Es.
      * rewrite Hv. f_equal. unfold col. rewrite map_map. apply map_ext_in. intros e He.
        destruct (Hle e He) as [Hl _]. rewrite <- Hl. rewrite nth_middle. reflexivity.
      * destruct Hv as [Hs [Hv1 Hv2]]. split; [exact Hs|]. split.
        -- rewrite Hv1. rewrite Hcol by exact Hs. reflexivity.
        -- intros e' He'. apply in_map_iff in He' as [e [<- He]]. destruct (Hle e He) as [Hl _].
           rewrite <- Hl at 1. rewrite nth_middle. rewrite app_nth1 by lia. apply Hv2. exact He.
    + assert (Hr' : (r < length W)%nat) by lia.
      rewrite app_nth1 by lia. rewrite app_nth1 by exact Hr'.
      specialize (Hreg r Hr'). unfold reg_rel in Hreg.
      destruct (nth r st Clean) as [|s c] eqn:Est.
      * rewrite Hcol by exact Hr'. exact Hreg.
      * destruct Hreg as [Hs [H1 H2]]. split; [exact Hs|]. split.
        -- rewrite Hcol by lia. exact H1.
        -- intros e' He'. apply in_map_iff in He' as [e [<- He]]. destruct (Hle e He) as [Hl _].
           rewrite !app_nth1 by lia. apply H2. exact He.
Qed.

Lemma step1_byte e ins st : Forall byte e -> chk st e ins = true -> step 1 e ins < 256.
Proof.
  intros Hb Hc.
  assert (Hop : forall o, op_ok st e o = true -> opval 1 e o < 256).
  { intros [i|c] H; cbn [opval]; [apply nth_byte; exact Hb|]. rewrite krep1. cbn in H. apply N.ltb_lt. exact H. }
  assert (Hany : forall o, (match o with K c => c < 256 | R _ => True end) -> opval 1 e o < 256).
  { intros [i|c] H; cbn [opval]; [apply nth_byte; exact Hb|rewrite krep1; exact H]. }
  unfold step. change (2 ^ wbits 1) with 256.
  destruct ins as [a b|a b|a b|a b|a b|a c|a c]; try (apply N.mod_lt; discriminate).
  - (* And *)
    apply (land_lt _ _ 8). change (2 ^ 8) with 256.
    destruct a as [i|k]; [cbn [opval]; apply nth_byte; exact Hb|].
    cbn [opval]. rewrite krep1. destruct b as [j|k']; cbn [chk] in Hc.
    + unfold mask_ok in Hc. apply andb_prop in Hc as [Hc _]. apply andb_prop in Hc as [_ Hc]. apply N.ltb_lt. exact Hc.
    + apply andb_prop in Hc as [Hc _]. cbn in Hc. apply N.ltb_lt. exact Hc.
  - (* Or *)
    cbn [chk] in Hc. apply andb_prop in Hc as [H1 H2]. apply (lor_lt _ _ 8); change (2 ^ 8) with 256; auto.
  - cbn [chk] in Hc. apply andb_prop in Hc as [H1 H2]. apply (lxor_lt _ _ 8); change (2 ^ 8) with 256; auto.
  - (* Shr *)
    destruct a as [s|k]; cbn [chk] in Hc; [|discriminate].
    apply N.le_lt_trans with (opval 1 e (R s)); [|cbn [opval]; apply nth_byte; exact Hb].
    apply N.div_le_upper_bound; [apply N.pow_nonzero; discriminate|].
    assert (1 <= 2 ^ c) by (apply N.lt_pred_le; apply N.neq_0_lt_0; apply N.pow_nonzero; discriminate). nia.
Qed.

(* ---- one instruction ---- *)

Lemma mod_small_pack {A} (f : A -> N) (L : list A) : (forall e, In e L -> f e < 256) ->
  pack (map f L) mod 2 ^ wbits (length L) = pack (map f L).
Proof. intros H. apply N.mod_small. apply pack_map_lt. exact H. Qed.

Lemma step_rel W LE st ins :
  LE <> [] -> inv W LE st -> (forall e, In e LE -> chk st e ins = true) ->
  match status_of ins with
  | Clean => step (length LE) W ins = pack (map (fun e => step 1 e ins) LE)
  | ShrOf s c => (s < length W)%nat /\ step (length LE) W ins = pack (col s LE) / 2 ^ c /\
                 (forall e, In e LE -> step 1 e ins = nth s e 0 / 2 ^ c)
  end.
Proof.
  intros Hne Hinv Hchk.
  assert (Hbin : forall a b, (forall e, In e LE -> op_ok st e a && op_ok st e b = true) ->
     (opval (length LE) W a = pack (map (fun e => opval 1 e a) LE) /\ (forall e, In e LE -> opval 1 e a < 256)) /\
     (opval (length LE) W b = pack (map (fun e => opval 1 e b) LE) /\ (forall e, In e LE -> opval 1 e b < 256))).
  { intros a b H. split; apply (operand_rel W LE st); try assumption; intros e He; specialize (H e He);
      apply andb_prop in H; tauto. }
  assert (Hand : forall a b, (forall e, In e LE -> op_ok st e a && op_ok st e b = true) ->
     N.land (opval (length LE) W a) (opval (length LE) W b) =
     pack (map (fun e => N.land (opval 1 e a) (opval 1 e b)) LE)).
  { intros a b H. destruct (Hbin a b H) as [[Ha Ha'] [Hb Hb']]. rewrite Ha, Hb. apply pack_land; assumption. }
  (* the masked-And rule *)
  assert (Hmask : forall i k, (forall e, In e LE -> mask_ok st e i k = true) ->
     N.land (nth i W 0) (krep (length LE) k) = pack (map (fun e => N.land (nth i e 0) (krep 1 k)) LE)).
  { intros i k H. destruct Hinv as [Hst [Hle Hreg]].
    assert (Hi : (i < length W)%nat /\ k < 256).
    { destruct LE as [|e0 LE']; [contradiction|]. specialize (H e0 (or_introl eq_refl)).
      unfold mask_ok in H. apply andb_prop in H as [H _]. apply andb_prop in H as [H1 H2].
      apply Nat.ltb_lt in H1. apply N.ltb_lt in H2. destruct (Hle e0 (or_introl eq_refl)) as [Hl _]. split; [lia|exact H2]. }
    destruct Hi as [Hi Hk].
    pose proof (Hreg i Hi) as Hr. unfold reg_rel in Hr.
    assert (Hkr : forall e : list N, N.land (nth i e 0) (krep 1 k) = N.land (nth i e 0) k) by (intros; rewrite krep1; reflexivity).
    destruct (nth i st Clean) as [|s c] eqn:Est.
    - rewrite Hr, krep_map. unfold col. rewrite pack_land.
      + f_equal. apply map_ext. intros e. symmetry. apply Hkr.
      + intros e He. apply nth_byte. apply (Hle e He).
      + intros e He. exact Hk.
    - destruct Hr as [Hs [Hw Hl]].
      destruct ((c <=? 8) && (k <? 2 ^ (8 - c))) eqn:Em.
      + apply andb_prop in Em as [Ec Ek]. apply N.leb_le in Ec. apply N.ltb_lt in Ek.
        rewrite Hw, krep_map. unfold col. rewrite pack_shrmask; try assumption.
        * f_equal. apply map_ext_in. intros e He. rewrite Hkr. rewrite (Hl e He). reflexivity.
        * intros e He. apply nth_byte. apply (Hle e He).
      + (* every lane has zero low bits: the shifted register is lane-exact *)
        assert (Hz : forall e, In e LE -> nth s e 0 mod 2 ^ c = 0).
        { intros e He. specialize (H e He). unfold mask_ok in H. rewrite Est, Em in H.
          apply andb_prop in H as [_ H]. cbn [orb] in H. apply N.eqb_eq. exact H. }
        rewrite Hw. unfold col. rewrite pack_div_exact by (intros e He; apply Hz; exact He).
        rewrite krep_map, pack_land.
        * f_equal. apply map_ext_in. intros e He. rewrite Hkr, (Hl e He). reflexivity.
        * intros e He. apply N.le_lt_trans with (nth s e 0); [|apply nth_byte; apply (Hle e He)].
          apply N.div_le_upper_bound; [apply N.pow_nonzero; discriminate|].
          assert (1 <= 2 ^ c) by (apply N.lt_pred_le; apply N.neq_0_lt_0; apply N.pow_nonzero; discriminate). nia.
        * intros e He. exact Hk. }
  destruct ins as [a b|a b|a b|a b|a b|a c|a c]; cbn [status_of].
  - (* And *)
    cbn [step].
    destruct a as [i|k]; destruct b as [j|k'].
    + apply Hand. exact Hchk.
    + cbn [opval]. apply Hmask. exact Hchk.
    + cbn [opval]. rewrite N.land_comm. rewrite (Hmask j k Hchk). f_equal. apply map_ext. intros e. apply N.land_comm.
    + apply Hand. exact Hchk.
  - cbn [step]. destruct (Hbin a b Hchk) as [[Ha Ha'] [Hb Hb']]. rewrite Ha, Hb. apply pack_lor; assumption.
  - cbn [step]. destruct (Hbin a b Hchk) as [[Ha Ha'] [Hb Hb']]. rewrite Ha, Hb. apply pack_lxor; assumption.
  - (* Add *)
    cbn [step].
    assert (H2 : forall e, In e LE -> op_ok st e a && op_ok st e b = true /\ opval 1 e a + opval 1 e b < 256).
    { intros e He. specialize (Hchk e He). cbn [chk] in Hchk. apply andb_prop in Hchk as [H1 H3].
      apply N.ltb_lt in H3. auto. }
    destruct (Hbin a b (fun e He => proj1 (H2 e He))) as [[Ha Ha'] [Hb Hb']]. rewrite Ha, Hb, pack_add.
    rewrite mod_small_pack by (intros e He; apply (H2 e He)).
    f_equal. apply map_ext_in. intros e He. change (2 ^ wbits 1) with 256.
    symmetry. apply N.mod_small. apply (H2 e He).
  - (* Sub *)
    cbn [step].
    assert (H2 : forall e, In e LE -> op_ok st e a && op_ok st e b = true /\ opval 1 e b <= opval 1 e a).
    { intros e He. specialize (Hchk e He). cbn [chk] in Hchk. apply andb_prop in Hchk as [H1 H3].
      apply N.leb_le in H3. auto. }
    destruct (Hbin a b (fun e He => proj1 (H2 e He))) as [[Ha Ha'] [Hb Hb']]. rewrite Ha, Hb.
    destruct (pack_sub (fun e => opval 1 e a) (fun e => opval 1 e b) LE (fun e He => proj2 (H2 e He))) as [Hs Hle].
    pose proof (pack_map_lt (fun e => opval 1 e a) LE Ha') as Hlt. fold (wbits (length LE)) in Hlt.
    set (PA := pack (map (fun e => opval 1 e a) LE)) in *. set (PB := pack (map (fun e => opval 1 e b) LE)) in *.
    assert (Hw : 2 ^ wbits (length LE) <> 0) by (apply N.pow_nonzero; discriminate).
    replace (PA + 2 ^ wbits (length LE) - PB) with ((PA - PB) + 1 * 2 ^ wbits (length LE)) by lia.
    rewrite N.mod_add by exact Hw. rewrite N.mod_small by lia. rewrite Hs.
    f_equal. apply map_ext_in. intros e He. change (2 ^ wbits 1) with 256.
    pose proof (proj2 (H2 e He)). pose proof (Ha' e He).
    replace (opval 1 e a + 256 - opval 1 e b) with ((opval 1 e a - opval 1 e b) + 1 * 256) by lia.
    rewrite N.mod_add by discriminate. symmetry. apply N.mod_small. lia.
  - (* Shl *)
    cbn [step].
    assert (H2 : forall e, In e LE -> op_ok st e a = true /\ opval 1 e a * 2 ^ c < 256).
    { intros e He. specialize (Hchk e He). cbn [chk] in Hchk. apply andb_prop in Hchk as [H1 H3].
      apply N.ltb_lt in H3. auto. }
    destruct (operand_rel W LE st a Hne Hinv (fun e He => proj1 (H2 e He))) as [Ha Ha'].
    rewrite Ha, pack_mul. rewrite mod_small_pack by (intros e He; apply (H2 e He)).
    f_equal. apply map_ext_in. intros e He. change (2 ^ wbits 1) with 256.
    symmetry. apply N.mod_small. apply (H2 e He).
  - (* Shr *)
    destruct a as [s|k].
    + cbn [status_of step].
      assert (H2 : forall e, In e LE -> op_ok st e (R s) = true).
      { intros e He. specialize (Hchk e He). exact Hchk. }
      destruct (operand_rel W LE st (R s) Hne Hinv H2) as [Ha _]. cbn [opval] in Ha.
      split; [|split].
      * destruct Hinv as [_ [Hle _]]. destruct LE as [|e0 LE']; [contradiction|].
        specialize (H2 e0 (or_introl eq_refl)). cbn [op_ok] in H2. apply andb_prop in H2 as [H2 _].
        apply Nat.ltb_lt in H2. destruct (Hle e0 (or_introl eq_refl)) as [Hl _]. lia.
      * cbn [opval]. rewrite Ha. reflexivity.
      * intros e He. reflexivity.
    + destruct LE as [|e0 LE']; [contradiction|]. specialize (Hchk e0 (or_introl eq_refl)). discriminate.
Qed.

(* ---- whole programs ---- *)

Lemma run_inv p : forall W LE st,
  LE <> [] -> inv W LE st -> (forall e, In e LE -> safe_run p st e = true) ->
  inv (run (length LE) p W) (map (run 1 p) LE) (statuses p st).
Proof.
  induction p as [|ins p IH]; intros W LE st Hne Hinv Hsafe.
  - cbn [run statuses]. rewrite map_id. exact Hinv.
  - cbn [run statuses].
    assert (Hchk : forall e, In e LE -> chk st e ins = true).
    { intros e He. specialize (Hsafe e He). cbn [safe_run] in Hsafe. apply andb_prop in Hsafe. tauto. }
    pose proof (step_rel W LE st ins Hne Hinv Hchk) as Hstep.
    assert (Hb : forall e, In e LE -> step 1 e ins < 256).
    { intros e He. destruct Hinv as [_ [Hle _]]. apply (step1_byte e ins st); [apply (Hle e He)|apply Hchk; exact He]. }
    pose proof (inv_extend W LE st ins (step (length LE) W ins) Hinv Hb Hstep) as Hinv'.
    set (LE' := map (fun e => e ++ [step 1 e ins]) LE) in *.
    assert (Hlen : length LE' = length LE) by (unfold LE'; apply map_length).
    assert (Hne' : LE' <> []) by (intros E; apply Hne; destruct LE; [reflexivity|discriminate]).
    specialize (IH (W ++ [step (length LE) W ins]) LE' (st ++ [status_of ins]) Hne').
    rewrite Hlen in IH.
    assert (Hmap : map (run 1 p) LE' = map (fun env : list N => run 1 p (env ++ [step 1 env ins])) LE).
    { unfold LE'. rewrite map_map. reflexivity. }
    rewrite <- Hmap. apply IH; [exact Hinv'|].
    intros e' He'. unfold LE' in He'. apply in_map_iff in He' as [e [<- He]].
    specialize (Hsafe e He). cbn [safe_run] in Hsafe. apply andb_prop in Hsafe. tauto.
Qed.

Definition map2 {A B C} (f : A -> B -> C) (la : list A) (lb : list B) : list C :=
  map (fun p => f (fst p) (snd p)) (combine la lb).

Lemma col_init0 (X Y : list N) : length X = length Y ->
  map (fun e : list N => nth 0 e 0) (map (fun p => [fst p; snd p]) (combine X Y)) = X.
Proof.
  revert Y. induction X as [|x X IH]; intros [|y Y] H; cbn in *; try discriminate; [reflexivity|].
  f_equal. apply IH. lia.
Qed.
Lemma col_init1 (X Y : list N) : length X = length Y ->
  map (fun e : list N => nth 1 e 0) (map (fun p => [fst p; snd p]) (combine X Y)) = Y.
Proof.
  revert Y. induction X as [|x X IH]; intros [|y Y] H; cbn in *; try discriminate; [reflexivity|].
  f_equal. apply IH. lia.
Qed.

(* MAIN THEOREM: packed evaluation = packing of lane-wise evaluations, for every lane count m >= 1,
   every program and output register, provided the checker accepts each lane's input pair *)
Theorem lane_homomorphism p out (X Y : list N) :
  X <> [] -> length X = length Y ->
  (forall a b, In (a, b) (combine X Y) -> lane_safe p out a b = true) ->
  eval (length X) p out (pack X) (pack Y) = pack (map2 (eval 1 p out) X Y).
Proof.
  intros Hne Hlen Hsafe.
  set (LE := map (fun q : N * N => [fst q; snd q]) (combine X Y)).
  assert (HLlen : length LE = length X).
  { unfold LE. rewrite map_length, combine_length. lia. }
  assert (HLne : LE <> []) by (intros E; rewrite E in HLlen; destruct X; [contradiction|discriminate]).
  assert (Hin : forall e, In e LE -> exists a b, e = [a; b] /\ In (a, b) (combine X Y)).
  { intros e He. unfold LE in He. apply in_map_iff in He as [[a b] [<- Hab]]. eauto. }
  assert (Hinv0 : inv [pack X; pack Y] LE [Clean; Clean]).
  { split; [reflexivity|]. split.
    - intros e He. destruct (Hin e He) as [a [b [-> Hab]]]. split; [reflexivity|].
      specialize (Hsafe a b Hab). unfold lane_safe in Hsafe.
      apply andb_prop in Hsafe as [Hs _]. apply andb_prop in Hs as [Hs _]. apply andb_prop in Hs as [Ha Hb].
      apply N.ltb_lt in Ha, Hb. repeat constructor; assumption.
    - intros r Hr. unfold reg_rel. destruct r as [|[|r]]; cbn [nth]; cbn [length] in Hr; try lia.
      + unfold col, LE. rewrite col_init0 by exact Hlen. reflexivity.
      + unfold col, LE. rewrite col_init1 by exact Hlen. reflexivity. }
  assert (Hsr : forall e, In e LE -> safe_run p [Clean; Clean] e = true).
  { intros e He. destruct (Hin e He) as [a [b [-> Hab]]]. specialize (Hsafe a b Hab). unfold lane_safe in Hsafe.
    apply andb_prop in Hsafe as [Hs _]. apply andb_prop in Hs as [_ Hs]. exact Hs. }
  pose proof (run_inv p [pack X; pack Y] LE [Clean; Clean] HLne Hinv0 Hsr) as Hfin.
  rewrite HLlen in Hfin.
  (* read the output register *)
  assert (Hout : forall e, In e (map (run 1 p) LE) -> op_ok (statuses p [Clean; Clean]) e (R out) = true).
  { intros e' He'. apply in_map_iff in He' as [e [<- He]]. destruct (Hin e He) as [a [b [-> Hab]]].
    specialize (Hsafe a b Hab). unfold lane_safe in Hsafe. apply andb_prop in Hsafe as [_ Hs]. exact Hs. }
  assert (HLne' : map (run 1 p) LE <> []) by (intros E; apply HLne; destruct LE; [reflexivity|discriminate]).
  destruct (operand_rel _ _ _ (R out) HLne' Hfin Hout) as [Hval _].
  rewrite map_length, HLlen in Hval. cbn [opval] in Hval.
  unfold eval. rewrite Hval. f_equal. unfold map2, LE. rewrite !map_map. apply map_ext. intros [a b]. reflexivity.
Qed.
