(* Shared definitions for the distance sweeps (each sweep lives in its own file so that make can
   run them in parallel). *)
From Coq Require Import Lia.
From TlshV Require Import Model.Machine Gen.Tables Gen.Kernels Model.MLanes Model.MCompare Spec.SpecDistance
  Proofs.ListN Proofs.HexBytes Proofs.Lanes.

Definition oeq (a : outcome unit N) (b : N) : bool := match a with Ok x => x =? b | _ => false end.
Lemma oeq_eq a b : oeq a b = true -> a = Ok b.
Proof. destruct a; cbn; try discriminate. intros H. apply N.eqb_eq in H. subst. reflexivity. Qed.

Definition all_ccfg : list ccfg :=
  flat_map (fun lt => flat_map (fun q => map (fun d => {| cc_len_table := lt; cc_q := q; cc_body := 0; cc_dbg := d |})
     [true; false]) [QNaive; QTable; QTableDouble]) [true; false].

Definition kernel_ok (p : program) (out : nat) : bool :=
  forallb (fun a => forallb (fun b => lane_safe p out a b && (eval 1 p out a b =? byte_dist a b)) bytes256) bytes256.
