(* Characterisation of finalize_with_options on well-formed states, for any selection function
   meeting std's contract: no panic, and an explicit value (used by C01, C10, C11, C15, C17). *)
From Coq Require Import Lia ZArith ZifyBool ZifyN Sorted Permutation.
From TlshV Require Import Model.Machine Gen.Tables Model.MLength Model.MHash Model.MPearson
  Model.MGenerate Model.MFloat Model.MFinalize Spec.SpecGenerate
  Proofs.ListN Proofs.LengthProofs Proofs.HashCodec Proofs.GenUpdate Proofs.GenLen Proofs.Select Proofs.Finalize.

Ltac Zify.zify_post_hook ::= Z.div_mod_to_equations.

Lemma chunks4_eq l : chunks4 l = chunks_of_4 l.
Proof. reflexivity. Qed.

Lemma dibit_cases q1 q2 q3 x : dibit q1 q2 q3 x = 0 \/ dibit q1 q2 q3 x = 1 \/ dibit q1 q2 q3 x = 2 \/ dibit q1 q2 q3 x = 3.
Proof. unfold dibit. destruct (q3 <? x), (q2 <? x), (q1 <? x); tauto. Qed.

Lemma get_quartile_ok {E} dbg x q1 q2 q3 : (dbg = true -> q1 <= q2 /\ q2 <= q3) ->
  @get_quartile E dbg x q1 q2 q3 = Ok (dibit q1 q2 q3 x).
Proof.
  intros H. unfold get_quartile, dibit. destruct dbg; cbn [andb]; [|reflexivity].
  destruct (H eq_refl) as [H1 H2].
  destruct (N.leb_spec q1 q2); [|lia]. destruct (N.leb_spec q2 q3); [|lia]. reflexivity.
Qed.

Definition chunk_byte (q1 q2 q3 : N) (ch : list N) : N :=
  match ch with
  | [a; b; c; d] => dibit q1 q2 q3 a + 4 * dibit q1 q2 q3 b + 16 * dibit q1 q2 q3 c + 64 * dibit q1 q2 q3 d
  | _ => 0
  end.

Lemma aggregate_chunk_ok {E} dbg q1 q2 q3 a b c d : (dbg = true -> q1 <= q2 /\ q2 <= q3) ->
  @aggregate_chunk E dbg q1 q2 q3 [a; b; c; d] = Ok (chunk_byte q1 q2 q3 [a; b; c; d]).
Proof.
  intros H. unfold aggregate_chunk. cbn [rev app fold_left bind].
  repeat (rewrite get_quartile_ok by exact H; cbn [bind]).
  unfold chunk_byte. f_equal.
  destruct (dibit_cases q1 q2 q3 a) as [-> |[-> |[-> | ->]]];
  destruct (dibit_cases q1 q2 q3 b) as [-> |[-> |[-> | ->]]];
  destruct (dibit_cases q1 q2 q3 c) as [-> |[-> |[-> | ->]]];
  destruct (dibit_cases q1 q2 q3 d) as [-> |[-> |[-> | ->]]]; reflexivity.
Qed.

Lemma chunks_all4 l ch : In ch (chunks_of_4 l) -> exists a b c d, ch = [a; b; c; d].
Proof.
  revert l. fix IH 1. intros [|a [|b [|c [|d r]]]]; cbn [chunks_of_4]; try (intros Hf; exact (match Hf with end)).
  intros [Heq|Hin]; [exists a, b, c, d; symmetry; exact Heq|]. exact (IH r Hin).
Qed.

Lemma chunks_length l n : length l = (4 * n)%nat -> length (chunks_of_4 l) = n.
Proof.
  revert l. induction n as [|n IH]; intros l Hl.
  - destruct l; [reflexivity|discriminate].
  - destruct l as [|a [|b [|c [|d r]]]]; cbn [length] in Hl; try lia.
    cbn [chunks_of_4 length]. f_equal. apply IH. lia.
Qed.

Lemma map_out_list_ok {E A B} (f : A -> outcome E B) (g : A -> B) l :
  (forall x, In x l -> f x = Ok (g x)) -> map_out_list f l = Ok (map g l).
Proof.
  induction l as [|x l IH]; intros H; [reflexivity|]. cbn [map_out_list map].
  rewrite (H x (or_introl eq_refl)). cbn [bind]. rewrite IH by (intros y Hy; apply H; right; exact Hy).
  reflexivity.
Qed.

Lemma aggregate_naive_ok {E} dbg body_size buckets q1 q2 q3 :
  (dbg = true -> q1 <= q2 /\ q2 <= q3) -> lenN buckets = 4 * body_size ->
  @aggregate_naive E dbg body_size buckets q1 q2 q3 = Ok (spec_body q1 q2 q3 buckets).
Proof.
  intros H Hl. unfold aggregate_naive.
  assert (Hg : (if dbg && negb ((q1 <=? q2) && (q2 <=? q3)) then @Panic E unit else Ok tt) = Ok tt).
  { destruct dbg; [|reflexivity]. destruct (H eq_refl) as [H1 H2].
    destruct (N.leb_spec q1 q2); [|lia]. destruct (N.leb_spec q2 q3); [|lia]. reflexivity. }
  rewrite Hg. cbn [bind]. rewrite chunks4_eq.
  assert (Hn : length (chunks_of_4 buckets) = N.to_nat body_size).
  { apply chunks_length. apply lenN_length in Hl. lia. }
  rewrite firstn_all2 by lia.
  rewrite (map_out_list_ok _ (chunk_byte q1 q2 q3)).
  - cbn [bind]. rewrite map_length, Hn, Nat.sub_diag. cbn [repeat app]. reflexivity.
  - intros ch Hch. destruct (chunks_all4 _ _ Hch) as [a [b [c [d ->]]]]. apply aggregate_chunk_ok. exact H.
Qed.

Lemma In_takeN {A} n (l : list A) x : In x (takeN n l) -> In x l.
Proof.
  rewrite takeN_firstn. intros H. rewrite <- (firstn_skipn (N.to_nat n) l). apply in_or_app. left. exact H.
Qed.

(* ---- the explicit value of finalize ---- *)

Definition kq (nb : N) (buckets : list N) : N * N * N :=
  (kth buckets (N.to_nat (nb / 4 - 1)), kth buckets (N.to_nat (nb / 2 - 1)),
   kth buckets (N.to_nat (3 * nb / 4 - 1))).

Definition qratio_value (o : options) (q q3 : N) : N :=
  if o_pure_int o then (q * 100 / q3) mod 16 else qratio_f32 q q3.

Definition finalize_value (v : variant) (o : options) (s : gstate) : outcome gen_error hash :=
  let bk := v_bk v in
  let len := fin_len s in
  let buckets := takeN (nb_of bk) (g_buckets s) in
  do _ <- gate_len bk o len;
  do q <- gate_q3 o (kq (nb_of bk) buckets);
  do _ <- gate_half bk o (nonzero_count buckets);
  let '(q1, q2, q3) := q in
  Ok {| h_cks := g_cks s;
        h_len := rank top_value len;
        h_q := qratio_value o q1 q3 + 16 * qratio_value o q2 q3;
        h_body := spec_body q1 q2 q3 buckets |}.

Lemma gate_len_ok_le_max bk o len : gate_len bk o len = Ok tt -> len <= len_max.
Proof.
  intros H. destruct (N.le_gt_cases len len_max) as [Hle|Hgt]; [exact Hle|].
  apply (gate_len_too_large bk o len) in Hgt. congruence.
Qed.

Lemma nb_facts bk : let nb := nb_of bk in
  nb = spec_nb bk /\ 8 <= nb /\ nb mod 4 = 0 /\ nb <= 256 /\ size_body {| v_cks := 1; v_bk := bk |} * 4 = nb.
Proof. destruct bk; vm_compute; repeat split; discriminate. Qed.

Lemma qratio_f32_lt q q3 : qratio_f32 q q3 < 16.
Proof. unfold qratio_f32. apply N.mod_lt. discriminate. Qed.

Lemma lor_shift_nibbles a b : a < 16 -> b < 16 -> N.lor a (N.shiftl b 4) = a + 16 * b.
Proof.
  intros Ha Hb. rewrite N.shiftl_mul_pow2. change (2 ^ 4) with 16.
  assert (Hs : forallb (fun x => forallb (fun y => N.lor x (y * 16) =? x + 16 * y)
                 (map N.of_nat (seq 0 16))) (map N.of_nat (seq 0 16)) = true) by (vm_compute; reflexivity).
  rewrite forallb_forall in Hs. specialize (Hs a).
  assert (Ia : In a (map N.of_nat (seq 0 16))) by (change 16%nat with (N.to_nat 16); apply in_N_seq; exact Ha).
  specialize (Hs Ia). rewrite forallb_forall in Hs.
  assert (Ib : In b (map N.of_nat (seq 0 16))) by (change 16%nat with (N.to_nat 16); apply in_N_seq; exact Hb).
  apply N.eqb_eq. apply Hs. exact Ib.
Qed.

Theorem finalize_char sel gc v o s :
  sel_contract sel -> is_variant v -> ginv gc v s -> bk_bounded s ->
  finalize sel gc v o s = finalize_value v o s.
Proof.
  intros Hsel Hv [Ht [Htl [Hl [Hc Hb]]]] Hbd. unfold finalize, finalize_value.
  set (bk := v_bk v). set (len := fin_len s).
  destruct (gate_len bk o len) as [[]|e| |] eqn:Eg; cbn [bind]; try reflexivity.
  pose proof (gate_len_ok_le_max _ _ _ Eg) as Hlen.
  (* length code *)
  unfold lvalue_of. rewrite encode_spec_lemma by (pose proof len_max_u32; unfold two32 in *; lia).
  rewrite code_of_rank by exact Hlen. cbn [bind].
  (* effective buckets *)
  destruct (nb_facts bk) as [Hnb [Hnb8 [Hnb4 [Hnb256 _]]]]. cbn zeta in *.
  assert (Hphys : nb_of bk <= lenN (g_buckets s)).
  { rewrite Hb. unfold phys_buckets. fold bk. destruct (gc_low_mem gc); lia. }
  unfold buckets_data. fold bk. rewrite slice_to_ok by exact Hphys. cbn [bind].
  set (buckets := takeN (nb_of bk) (g_buckets s)).
  assert (Lb : lenN buckets = nb_of bk) by (unfold buckets; rewrite lenN_takeN; lia).
  rewrite Lb, N.eqb_refl. cbn [bind].
  assert (Lbn : length buckets = N.to_nat (nb_of bk)) by (apply lenN_length; exact Lb).
  (* quartiles *)
  assert (Hq : quartiles sel (nb_of bk) buckets = Ok (kq (nb_of bk) buckets)).
  { unfold quartiles, select_nth.
    set (k2 := N.to_nat (nb_of bk / 2 - 1)). set (k1 := N.to_nat (nb_of bk / 4 - 1)).
    destruct (nested_selection sel buckets k2 k1 Hsel) as [H2 [H1 [H3 [L0 L1]]]];
      try (unfold k1, k2; lia).
    destruct (N.ltb_spec (nb_of bk / 2 - 1) (lenN buckets)); [|lia]. cbn [bind]. fold k2.
    assert (E0 : (nb_of bk / 4 - 1 <? lenN (firstn k2 (sel buckets k2))) = true).
    { apply N.ltb_lt. unfold lenN. rewrite L0. unfold k2. lia. }
    rewrite E0. cbn [bind]. fold k1.
    assert (E1 : (nb_of bk / 4 - 1 <? lenN (skipn (S k2) (sel buckets k2))) = true).
    { apply N.ltb_lt. unfold lenN. rewrite L1. unfold k2. lia. }
    rewrite E1. cbn [bind]. unfold kq. rewrite H1, H2, H3. fold k1 k2. do 3 f_equal.
    f_equal. unfold k1, k2. lia. }
  rewrite Hq. cbn [bind].
  assert (Hkq : let '(a, b, c) := kq (nb_of bk) buckets in a <= b /\ b <= c /\ c < two32).
  { unfold kq. repeat split.
    - apply kth_mono; lia.
    - apply kth_mono; lia.
    - unfold kth. assert (Hin : In (nth (N.to_nat (3 * nb_of bk / 4 - 1)) (isort buckets) 0) buckets).
      { apply (Permutation_in _ (isort_perm buckets)). apply nth_In. rewrite isort_length. lia. }
      unfold bk_bounded in Hbd. rewrite Forall_forall in Hbd. apply Hbd.
      apply (In_takeN (nb_of bk)). exact Hin. }
  destruct (kq (nb_of bk) buckets) as [[a b] c]. destruct Hkq as [Hab [Hbc Hc32]].
  destruct (gate_q3 o (a, b, c)) as [[[q1 q2] q3]|e| |] eqn:Eq3; cbn [bind]; try reflexivity.
  assert (Hq123 : q1 <= q2 /\ q2 <= q3 /\ q3 < two32 /\ q3 <> 0).
  { unfold gate_q3 in Eq3. destruct (N.eqb_spec c 0) as [Hc0|Hc0].
    - destruct (negb (o_quarter o)); [discriminate|]. injection Eq3 as <- <- <-. unfold two32. lia.
    - injection Eq3 as <- <- <-. auto. }
  destruct Hq123 as [H12 [H23 [H32 Hq30]]].
  destruct (gate_half bk o (nonzero_count buckets)) as [[]|e| |] eqn:Eh; cbn [bind]; try reflexivity.
  (* q ratios *)
  assert (Hr : qratio_pair gc o (q1, q2, q3) = Ok (qratio_value o q1 q3, qratio_value o q2 q3)).
  { unfold qratio_pair, qratio_value. destruct (o_pure_int o).
    - unfold two64, two32 in *.
      destruct (N.ltb_spec (q1 * 100) 18446744073709551616); [|lia]. cbn [bind].
      destruct (N.ltb_spec (q2 * 100) 18446744073709551616); [|lia]. cbn [bind].
      destruct (N.eqb_spec q3 0); [contradiction|]. cbn [bind]. unfold wrap8.
      rewrite !(N.mod_small (_ mod 16) 256) by (pose proof (N.mod_lt (q1 * 100 / q3) 16); pose proof (N.mod_lt (q2 * 100 / q3) 16); lia).
      reflexivity.
    - unfold wrap8. rewrite !N.mod_small by (pose proof (qratio_f32_lt q1 q3); pose proof (qratio_f32_lt q2 q3); lia).
      reflexivity. }
  rewrite Hr. cbn [bind fst snd].
  assert (Hr16 : qratio_value o q1 q3 < 16 /\ qratio_value o q2 q3 < 16).
  { unfold qratio_value. destruct (o_pure_int o); split; try apply qratio_f32_lt; apply N.mod_lt; discriminate. }
  destruct Hr16 as [Hr1 Hr2].
  unfold qratios_new. destruct (N.ltb_spec 15 (qratio_value o q1 q3)); [lia|].
  destruct (N.ltb_spec 15 (qratio_value o q2 q3)); [lia|]. cbn [orb bind].
  rewrite lor_shift_nibbles by assumption.
  (* body *)
  rewrite aggregate_naive_ok; [reflexivity|intros _; split; assumption|].
  rewrite Lb. destruct Hv; subst bk; reflexivity.
Qed.
