(* C15 (generator side): every hash the reference -- hence, by C01's refinement theorem, the generator --
   can produce is a well-formed value of its variant and passes the strict parser's validity gates. *)
From Coq Require Import Lia.
From TlshV Require Import Model.Machine Gen.Tables Model.MLength Model.MHexStr Model.MHash Model.MPearson Model.MGenerate
  Model.MFinalize Spec.SpecTables Spec.SpecLength Spec.SpecGenerate Spec.SpecHex
  Proofs.ListN Proofs.HexLists Proofs.HashCodec Proofs.CodecProps Proofs.LengthProofs
  Proofs.GenUpdate Proofs.GenLen Proofs.Select Proofs.Finalize Proofs.FinalizeChar Proofs.GenProps Proofs.Refine.

(* ---- the Pearson table holds bytes ---- *)
Lemma v_table_bytes : forallb (fun x => x <? 256) v_table = true.
Proof. vm_compute. reflexivity. Qed.

Lemma vt_lt i : vt i < 256.
Proof.
  unfold vt. destruct (Compare_dec.le_lt_dec (length v_table) (N.to_nat i)) as [H|H]; [rewrite nth_overflow by exact H; lia|].
  pose proof v_table_bytes as B. rewrite forallb_forall in B.
    specialize (B _ (nth_In v_table 0 H)). apply N.ltb_lt in B. exact B.
Qed.

Lemma spec_pearson_lt salt a b c : spec_pearson salt a b c < 256.
Proof. unfold spec_pearson. apply vt_lt. Qed.

Lemma fold48_le x : fold48 x <= 48.
Proof. unfold fold48. destruct (240 <=? x); [lia|]. pose proof (N.mod_lt x 48). lia. Qed.

Lemma spec_bucket_lt bk salt a b c : spec_bucket bk salt a b c < 256.
Proof. destruct bk; cbn [spec_bucket]; try apply spec_pearson_lt. pose proof (fold48_le (spec_pearson salt a b c)). lia. Qed.

(* ---- checksum: right size, bytes, and <= 48 on the 48-bucket variant ---- *)
Definition cks_inv (v : variant) (cks : list N) : Prop :=
  lenN cks = v_cks v /\ bytes_all cks /\ (v_bk v = B48 -> exists c, cks = [c] /\ c <= 48).

Lemma cks_step_inv v cks w : is_variant v -> cks_inv v cks -> cks_inv v (spec_cks_step (v_bk v) cks w).
Proof.
  intros Hv [Hl [Hb H48]]. unfold spec_cks_step.
  destruct cks as [|c0 [|c1 [|c2 [|c3 r]]]]; try (split; [exact Hl|split; [exact Hb|exact H48]]).
  - split; [exact Hl|]. split.
    + repeat constructor. apply spec_bucket_lt.
    + intros E. eexists. split; [reflexivity|]. rewrite E. cbn [spec_bucket]. apply fold48_le.
  - split; [exact Hl|]. split.
    + repeat constructor; try apply spec_pearson_lt. apply spec_bucket_lt.
    + intros E. destruct (H48 E) as [c [Hc _]]. discriminate.
Qed.

Lemma spec_checksum_inv v d : is_variant v -> cks_inv v (spec_checksum v d).
Proof.
  intros Hv. unfold spec_checksum.
  assert (H0 : cks_inv v (repeat 0 (N.to_nat (v_cks v)))).
  { split; [unfold lenN; rewrite repeat_length; lia|]. split.
    - apply Forall_forall. intros x Hx. apply repeat_spec in Hx. lia.
    - intros E. destruct Hv; try discriminate. exists 0. split; [reflexivity|lia]. }
  revert H0. generalize (repeat 0 (N.to_nat (v_cks v))). induction (windows d) as [|w ws IH]; intros cks H; [exact H|].
  cbn [fold_left]. apply IH. apply cks_step_inv; assumption.
Qed.

(* ---- body: right size, bytes ---- *)
Lemma dibit_lt q1 q2 q3 x : dibit q1 q2 q3 x < 4.
Proof. destruct (dibit_cases q1 q2 q3 x) as [H|[H|[H|H]]]; rewrite H; lia. Qed.

Lemma spec_body_bytes q1 q2 q3 counts : bytes_all (spec_body q1 q2 q3 counts).
Proof.
  unfold spec_body. apply Forall_forall. intros x Hx. apply in_rev in Hx. apply in_map_iff in Hx as [ch [<- Hch]].
  destruct (chunks_all4 _ _ Hch) as [a [b [c [d ->]]]].
  pose proof (dibit_lt q1 q2 q3 a). pose proof (dibit_lt q1 q2 q3 b). pose proof (dibit_lt q1 q2 q3 c).
  pose proof (dibit_lt q1 q2 q3 d). lia.
Qed.

Lemma spec_counts_length bk d : length (spec_counts bk d) = N.to_nat (spec_nb bk).
Proof. unfold spec_counts. rewrite map_length, seq_length. reflexivity. Qed.

Lemma spec_body_length v q1 q2 q3 d : lenN (spec_body q1 q2 q3 (spec_counts (v_bk v) d)) = spec_body_size v.
Proof.
  unfold spec_body, lenN. rewrite rev_length, map_length.
  rewrite (chunks_length _ (N.to_nat (spec_body_size v))).
  - lia.
  - rewrite spec_counts_length. unfold spec_body_size. destruct (v_bk v); reflexivity.
Qed.

Lemma spec_qratio_lt p q q3 : spec_qratio p q q3 < 16.
Proof. unfold spec_qratio. destruct p; [apply N.mod_lt; discriminate|apply qratio_f32_lt]. Qed.

Lemma spec_len_code_lt n lv : spec_len_code n = Some lv -> lv < 170.
Proof.
  unfold spec_len_code. destruct (n =? 0); [intros H; injection H as <-; lia|].
  unfold spec_length_code. rewrite <- top_value_is_topval. intros H.
  assert (Hc : code_of n = Some lv).
  { unfold code_of. destruct (N.eqb_spec n 0) as [->|]; [|exact H].
    (* n = 0: least_code gives 0 as well *) vm_compute in H. exact H. }
  apply code_lt_size in Hc. exact Hc.
Qed.

(* ---- the theorem ---- *)
Theorem generated_hash_ok v o d h : is_variant v -> spec_tlsh v o d = inl h ->
  hash_ok v h /\ strict_valid v h = true.
Proof.
  intros Hv. unfold spec_tlsh.
  destruct (spec_max_len <? _); [discriminate|]. destruct (_ && _); [discriminate|].
  destruct (spec_quartiles _ _) as [[q1 q2] q3]. destruct (_ && _); [discriminate|].
  destruct (if q3 =? 0 then _ else _) as [[a b] c]. destruct (_ && _); [discriminate|].
  destruct (spec_len_code _) as [lv|] eqn:Hlv; [|discriminate]. intros H; injection H as <-.
  pose proof (spec_len_code_lt _ _ Hlv) as Hl.
  destruct (spec_checksum_inv v d Hv) as [Hc1 [Hc2 Hc3]].
  pose proof (spec_qratio_lt (o_pure_int o) a c). pose proof (spec_qratio_lt (o_pure_int o) b c).
  split.
  - unfold hash_ok. cbn [h_cks h_len h_q h_body]. repeat split; try assumption; try lia.
    + apply spec_body_length.
    + apply spec_body_bytes.
  - unfold strict_valid. cbn [h_cks h_len]. apply andb_true_intro. split.
    + unfold checksum_is_valid. destruct Hv; cbn [v_cks v_bk]; try reflexivity.
      destruct (Hc3 eq_refl) as [c0 [-> Hc0]]. apply N.leb_le. exact Hc0.
    + apply is_valid_iff. exact Hl.
Qed.

(* through the generator model: whatever finalize returns for any pieces, options, configuration and
   conforming selection is well-formed, strict-valid, and survives the strict text and binary round trips *)
Theorem generated_strict_roundtrip sel gc v o pieces h (c : hcfg) p m (buf : list N) :
  sel_contract sel -> is_variant v ->
  (do s <- @update_all gen_error gc v (g_init gc v) pieces; finalize sel gc v o s) = Ok h ->
  (m = None \/ m = Some p) -> lenN buf = size_in_bytes v ->
  hash_ok v h /\ strict_valid v h = true /\
  parse c v (spec_format h p) m = Ok h /\
  from_slice c v (h_cks h ++ [h_len h; h_q h] ++ h_body h) = Ok h.
Proof.
  intros Hs Hv Hf Hm Hbuf. rewrite (gen_refines_reference sel gc v o pieces Hs Hv) in Hf.
  destruct (spec_tlsh v o (concat pieces)) as [h'|e] eqn:E; [|discriminate]. injection Hf as ->.
  destruct (generated_hash_ok v o _ h Hv E) as [Hok Hval].
  split; [exact Hok|]. split; [exact Hval|]. split.
  - apply parse_format_lemma; auto.
  - destruct (hash_roundtrip_lemma c v h buf (hash_ok_okb v h Hv Hok) (fun _ => Hval) Hbuf) as [_ [_ H]]. exact H.
Qed.

Lemma strict_valid_meaning v h : is_variant v -> hash_okb v h ->
  (strict_valid v h = true <-> h_len h < 170 /\ (v_bk v = B48 -> exists c, h_cks h = [c] /\ c <= 48)).
Proof.
  intros Hv [Hl _]. unfold strict_valid. rewrite andb_true_iff, is_valid_iff. change encoded_value_size with 170.
  destruct Hv; cbn [v_cks v_bk] in *;
    try (split; [intros [_ H]; split; [exact H|discriminate]|intros [H _]; split; [reflexivity|exact H]]).
  destruct (h_cks h) as [|c [|c' r]]; unfold lenN in Hl; change (v_cks V_Short) with 1 in Hl; cbn [length] in Hl; try lia.
  change (v_bk V_Short) with B48.
  assert (E : checksum_is_valid V_Short [c] = (c <=? 48)) by reflexivity. rewrite E, N.leb_le. split.
  - intros [Hc Hlen]. split; [exact Hlen|]. intros _. exists c. split; [reflexivity|exact Hc].
  - intros [Hlen Hc]. destruct (Hc eq_refl) as [c0 [E0 Hc0]]. injection E0 as <-. split; assumption.
Qed.
