(* C17: totality of the public API in the model, collected. *)
From Coq Require Import Lia.
From TlshV Require Import Model.Machine Gen.Tables Model.MLength Model.MHexStr Model.MHash Model.MGenerate
  Model.MFinalize Model.MCompare Model.MStream Model.MSerde Spec.SpecHex Spec.SpecDistance
  Proofs.ListN Proofs.HexLists Proofs.HashCodec Proofs.CodecProps Proofs.LengthProofs Proofs.GenUpdate Proofs.GenLen Proofs.Select
  Proofs.GenTotal Proofs.Distance Proofs.StreamProofs Proofs.SerdeProofs.

Lemma from_array_total c v b : lenN b = size_in_bytes v ->
  from_array c v b = strict_gate (hc_strict c) v (hash_of_bytes v b) /\ from_array c v b <> UB /\ from_array c v b <> Panic.
Proof.
  intros Hl. rewrite from_array_spec by exact Hl. split; [reflexivity|]. unfold strict_gate.
  destruct (hc_strict c && negb _); [split; discriminate|]. destruct (hc_strict c && negb _); split; discriminate.
Qed.

Lemma format_ascii_lemma c v h : is_variant v -> hash_ok v h ->
  display c v h = Ok (spec_format h PWithVersion) /\ ser c v true h = Ok (VStr (spec_format h PWithVersion)) /\
  Forall (fun x => x < 128) (spec_format h PWithVersion).
Proof.
  intros Hv Hh. pose proof (hash_ok_okb v h Hv Hh) as Hb. split; [apply display_spec; assumption|].
  split; [apply (ser_canonical c v h Hv Hh)|].
  destruct (format_shape_lemma v h PWithVersion Hv Hh) as [_ [t [Ht Hu]]]. rewrite Ht.
  apply Forall_app. split; [cbn [prefix_text]; repeat constructor; lia|].
  apply Forall_forall. intros x Hx. rewrite forallb_forall in Hu. pose proof (is_upper_hexdigit_ascii x (Hu x Hx)). lia.
Qed.

Lemma store_bytes_total v h buf : hash_okb v h ->
  (exists n, fst (store_bytes v h buf) = Ok n) \/ fst (store_bytes v h buf) = Err BufferIsTooSmall.
Proof. intros Hh. rewrite store_bytes_spec by exact Hh. destruct (lenN buf <? size_in_bytes v); cbn [fst]; eauto. Qed.

Lemma quartile_panic_iff v h i : hash_okb v h -> is_variant v -> (@quartile unit v h i = Panic <-> spec_nb (v_bk v) <= i).
Proof.
  intros Hh Hv. rewrite quartile_spec by assumption. destruct (N.ltb_spec i (spec_nb (v_bk v))); split; intros H0; try lia; try discriminate.
  reflexivity.
Qed.

Lemma update_all_total gc v pieces : is_variant v -> exists s, @update_all unit gc v (g_init gc v) pieces = Ok s.
Proof.
  intros Hv. destruct (@chunking_irrelevant unit gc v pieces (g_init gc v) (init_inv gc v Hv)) as [_ H].
  eexists. exact H.
Qed.

Lemma lying_reader_panics sc gc v trace : sc_retry sc = true -> sc_invariant sc = false -> is_variant v ->
  overclaims stream_buffer_size trace = true -> hash_stream sc gc v trace = Panic.
Proof.
  intros Hr Hi Hv Ho. unfold hash_stream.
  rewrite (lying_reader_lemma sc gc v _ trace Hr _ (init_inv gc v Hv) Ho).
  rewrite overclaim_fixed_is_panic by exact Hi. reflexivity.
Qed.

Theorem api_total_lemma :
  (forall c v s m, is_variant v -> bytes_all s -> parse c v s m <> Panic /\ parse c v s m <> UB) /\
  (forall c v b, from_slice c v b <> Panic /\ from_slice c v b <> UB) /\
  (forall c v h p buf, is_variant v -> hash_ok v h ->
     (exists n, fst (store_str c v h p buf) = Ok n) \/ fst (store_str c v h p buf) = Err BufferIsTooSmall) /\
  (forall v h buf, hash_okb v h ->
     (exists n, fst (store_bytes v h buf) = Ok n) \/ fst (store_bytes v h buf) = Err BufferIsTooSmall) /\
  (forall v h i, hash_okb v h -> is_variant v -> (@quartile unit v h i = Panic <-> spec_nb (v_bk v) <= i)) /\
  (forall gc v pieces, is_variant v -> exists s, @update_all unit gc v (g_init gc v) pieces = Ok s) /\
  (forall sel gc v o data, sel_contract sel -> is_variant v ->
     finalize sel gc v o (fresh gc v data) <> Panic /\ finalize sel gc v o (fresh gc v data) <> UB) /\
  (forall c u d len, len < two32 -> exists r, encode_new c u d len = Ok r) /\
  (forall c v a b m, is_variant v -> hash_okb v a -> hash_okb v b -> exists d, @compare unit c a b m = Ok d) /\
  (forall gc v trace, is_variant v -> hash_stream sc_fixed gc v trace <> UB /\
     (hash_stream sc_fixed gc v trace = Panic -> overclaims stream_buffer_size trace = true)) /\
  (forall hc cc v l r, is_variant v -> bytes_all l -> bytes_all r ->
     compare_with hc cc v l r <> Panic /\ compare_with hc cc v l r <> UB) /\
  (forall c v hr ev, is_variant v -> (match ev with VStr s | VBytes s => bytes_all s | VOther _ => True end) ->
     de false c v hr ev <> Panic /\ de false c v hr ev <> UB).
Proof.
  split; [exact parse_total_lemma|]. split; [exact from_slice_total|]. split; [exact store_total_lemma|].
  split; [exact store_bytes_total|]. split; [exact quartile_panic_iff|]. split; [exact update_all_total|].
  split; [exact finalize_never_panics_lemma|].
  split; [intros c u d len H; eexists; apply encode_spec_lemma; exact H|].
  split; [intros c v a b m Hv Ha Hb; eexists; apply (compare_is_reference_lemma c v); assumption|].
  split; [exact stream_total_lemma|]. split; [exact compare_with_total|]. exact de_total_lemma.
Qed.
