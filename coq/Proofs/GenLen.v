(* Length bookkeeping of the generator (C11) and histories (C03). *)
From Coq Require Import Lia ZArith ZifyBool ZifyN.
From TlshV Require Import Model.Machine Gen.Tables Model.MLength Model.MHash Model.MPearson
  Model.MGenerate Proofs.ListN Proofs.HashCodec Proofs.GenUpdate.

Ltac Zify.zify_post_hook ::= Z.div_mod_to_equations.

(* counters after feeding n more bytes: tail fills up to 4, then len counts up to 2^32-4 and saturates *)
Lemma feed_counts gc v data : forall s, ginv gc v s ->
  g_tail_len (feed gc v s data) = N.min 4 (g_tail_len s + lenN data) /\
  g_len (feed gc v s data) = N.min max_len (g_len s + (lenN data - (4 - g_tail_len s))).
Proof.
  unfold feed. induction data as [|x data IH]; intros s Hinv.
  - destruct Hinv as [_ [Htl [Hl _]]]. cbn [fold_left]. change (lenN []) with 0. lia.
  - cbn [fold_left]. rewrite lenN_cons.
    destruct (IH (feed1 gc v s x) (feed1_inv gc v s x Hinv)) as [H1 H2]. rewrite H1, H2. clear H1 H2 IH.
    destruct Hinv as [Ht [Htl [Hl [Hc Hb]]]]. pose proof max_len_val as Hm.
    unfold feed1. destruct (N.ltb_spec (g_tail_len s) 4) as [H4|H4].
    + unfold with_tail. cbn [g_tail_len g_len]. lia.
    + destruct (N.leb_spec max_len (g_len s)) as [Hmx|Hmx]; [lia|].
      destruct (tail4 _ Ht) as [t0 [t1 [t2 [t3 Et]]]]. rewrite Et.
      destruct (absorb_p gc v (g_cks s) (g_buckets s) (t0, t1, t2, t3) x) as [[c b] w].
      cbn [g_tail_len g_len]. lia.
Qed.

Theorem processed_len_exact gc v data : is_variant v ->
  processed_len (feed gc v (g_init gc v) data) = if lenN data <? two32 then Some (lenN data) else None.
Proof.
  intros Hv. destruct (feed_counts gc v data (g_init gc v) (init_inv gc v Hv)) as [H1 H2].
  unfold processed_len. rewrite H1, H2. cbn [g_init g_tail_len g_len].
  pose proof max_len_val as Hm. unfold two32.
  destruct (N.ltb_spec (lenN data) 4294967296) as [Hd|Hd].
  - destruct (N.ltb_spec (N.min max_len (0 + (lenN data - (4 - 0))) + N.min 4 (0 + lenN data)) 4294967296); [f_equal; lia|lia].
  - destruct (N.ltb_spec (N.min max_len (0 + (lenN data - (4 - 0))) + N.min 4 (0 + lenN data)) 4294967296); [lia|reflexivity].
Qed.

(* no counter ever wraps: len <= 2^32-4, tail_len <= 4, in every reachable state *)
Theorem counters_bounded gc v data : is_variant v ->
  g_len (feed gc v (g_init gc v) data) <= 4294967292 /\ g_tail_len (feed gc v (g_init gc v) data) <= 4.
Proof.
  intros Hv. pose proof (feed_inv gc v data _ (init_inv gc v Hv)) as [_ [Htl [Hl _]]].
  rewrite max_len_val in Hl. auto.
Qed.

(* ---- histories: update / finalize / processed_len / clone / pop / swap on a stack of generators ---- *)

Inductive hop :=
| HUpdate (piece : list N)
| HObserve            (* any read-only observation: finalize(options) for all options, processed_len *)
| HClone
| HPop
| HSwap.

(* concrete run: stack of generator states; each HObserve records the observed state *)
Fixpoint hrun (gc : gcfg) (v : variant) (ops : list hop) (stack : list gstate) (obs : list gstate)
  : outcome unit (list gstate * list gstate) :=
  match ops with
  | [] => Ok (stack, obs)
  | op :: rest =>
      match op, stack with
      | _, [] => Ok (stack, obs)
      | HUpdate p, top :: below =>
          do s' <- update gc v top p;
          hrun gc v rest (s' :: below) obs
      | HObserve, top :: _ => hrun gc v rest stack (obs ++ [top])     (* &self: the state is untouched *)
      | HClone, top :: below => hrun gc v rest (top :: top :: below) obs
      | HPop, top :: below => hrun gc v rest (match below with [] => stack | _ => below end) obs
      | HSwap, top :: below =>
          hrun gc v rest (match below with b :: bb => b :: top :: bb | [] => stack end) obs
      end
  end.

(* reference run: each generator instance is represented only by the bytes it has seen *)
Fixpoint href (ops : list hop) (stack : list (list N)) (obs : list (list N)) : list (list N) * list (list N) :=
  match ops with
  | [] => (stack, obs)
  | op :: rest =>
      match op, stack with
      | _, [] => (stack, obs)
      | HUpdate p, top :: below => href rest ((top ++ p) :: below) obs
      | HObserve, top :: _ => href rest stack (obs ++ [top])
      | HClone, top :: below => href rest (top :: top :: below) obs
      | HPop, top :: below => href rest (match below with [] => stack | _ => below end) obs
      | HSwap, top :: below => href rest (match below with b :: bb => b :: top :: bb | [] => stack end) obs
      end
  end.

Definition fresh (gc : gcfg) (v : variant) (seen : list N) : gstate := feed gc v (g_init gc v) seen.

Theorem history_observations gc v ops : is_variant v -> forall seen_stack seen_obs,
  hrun gc v ops (map (fresh gc v) seen_stack) (map (fresh gc v) seen_obs) =
  Ok (map (fresh gc v) (fst (href ops seen_stack seen_obs)),
      map (fresh gc v) (snd (href ops seen_stack seen_obs))).
Proof.
  intros Hv. induction ops as [|op rest IH]; intros st ob; [reflexivity|].
  destruct st as [|top below]; [destruct op; reflexivity|].
  destruct op; cbn [hrun href map].
  - unfold fresh at 1. rewrite update_feed by (apply feed_inv; apply init_inv; exact Hv). cbn [bind].
    rewrite <- feed_app. fold (fresh gc v (top ++ piece)).
    change (fresh gc v (top ++ piece) :: map (fresh gc v) below) with (map (fresh gc v) ((top ++ piece) :: below)).
    apply IH.
  - replace (map (fresh gc v) ob ++ [fresh gc v top]) with (map (fresh gc v) (ob ++ [top])) by (rewrite map_app; reflexivity).
    change (fresh gc v top :: map (fresh gc v) below) with (map (fresh gc v) (top :: below)). apply IH.
  - change (fresh gc v top :: fresh gc v top :: map (fresh gc v) below) with (map (fresh gc v) (top :: top :: below)).
    apply IH.
  - destruct below as [|b bb]; cbn [map].
    + change [fresh gc v top] with (map (fresh gc v) [top]). apply IH.
    + change (fresh gc v b :: map (fresh gc v) bb) with (map (fresh gc v) (b :: bb)). apply IH.
  - destruct below as [|b bb]; cbn [map].
    + change [fresh gc v top] with (map (fresh gc v) [top]). apply IH.
    + change (fresh gc v b :: fresh gc v top :: map (fresh gc v) bb) with (map (fresh gc v) (b :: top :: bb)). apply IH.
Qed.
