(* Property-level corollaries of Proofs/HashCodec.v (C04, C05, C06, C14, C15). *)
From Coq Require Import Lia ZArith ZifyBool ZifyN.
From TlshV Require Import Model.Machine Gen.Tables Model.MLength Model.MHexStr Model.MHash
  Spec.SpecHex Proofs.ListN Proofs.HexBytes Proofs.HexLists Proofs.HashCodec.

Ltac Zify.zify_post_hook ::= Z.div_mod_to_equations.

Lemma hash_okb_ok v h : is_variant v -> hash_okb v h -> hash_ok v h.
Proof.
  intros Hv [H1 [H2 [H3 [H4 [H5 H6]]]]]. destruct (variant_sizes v Hv) as [_ [_ [_ [_ [Hb _]]]]].
  unfold hash_ok. change (slen (h_cks h)) with (lenN (h_cks h)). change (slen (h_body h)) with (lenN (h_body h)).
  rewrite <- Hb. tauto.
Qed.

Lemma strict_gate_Ok s v h h' : strict_gate s v h = Ok h' -> h' = h.
Proof.
  unfold strict_gate. destruct (s && negb (checksum_is_valid v (h_cks h))); [discriminate|].
  destruct (s && negb (is_valid (h_len h))); [discriminate|]. intros H; injection H as <-; reflexivity.
Qed.

(* validity as the strict parser sees it *)
Definition strict_valid (v : variant) (h : hash) : bool :=
  checksum_is_valid v (h_cks h) && is_valid (h_len h).

Lemma strict_gate_Ok_iff s v h : strict_gate s v h = Ok h <-> (s = true -> strict_valid v h = true).
Proof.
  unfold strict_gate, strict_valid. destruct s; cbn [andb].
  - destruct (checksum_is_valid v (h_cks h)); destruct (is_valid (h_len h)); cbn [negb andb];
      (split; [intros H; try discriminate H; intros _; reflexivity
              |intros H; try reflexivity; specialize (H eq_refl); discriminate H]).
  - split; [intros _ H; discriminate H|reflexivity].
Qed.

Lemma checksum_is_valid_spec v h : is_variant v -> hash_okb v h ->
  checksum_is_valid v (h_cks h) = spec_checksum_valid v h.
Proof.
  intros Hv [Lc _]. unfold checksum_is_valid, spec_checksum_valid.
  destruct Hv; cbn [v_cks v_bk] in *; reflexivity.
Qed.

Lemma is_valid_spec h : is_valid (h_len h) = spec_length_valid h.
Proof. reflexivity. Qed.

(* any accepting parse agrees with the reference *)
Lemma parse_Ok_spec c v s m h : is_variant v -> bytes_all s ->
  parse c v s m = Ok h -> spec_parse v s m = inl h /\ (hc_strict c = true -> strict_valid v h = true).
Proof.
  intros Hv Hb H. pose proof (parse_strict_vs_lenient c v s m Hv Hb) as Hsl.
  rewrite (parse_lenient_spec (lenient_of c)) in Hsl by (assumption || reflexivity).
  destruct (spec_parse v s m) as [h'|e]; cbn [parse_outcome] in Hsl.
  - rewrite Hsl in H. pose proof (strict_gate_Ok _ _ _ _ H) as ->. split; [reflexivity|].
    apply strict_gate_Ok_iff. exact H.
  - destruct Hsl as [e' He]. rewrite He in H. discriminate.
Qed.

Lemma parse_of_spec c v s m h : is_variant v -> bytes_all s ->
  spec_parse v s m = inl h -> parse c v s m = strict_gate (hc_strict c) v h.
Proof.
  intros Hv Hb H. pose proof (parse_strict_vs_lenient c v s m Hv Hb) as Hsl.
  rewrite (parse_lenient_spec (lenient_of c)) in Hsl by (assumption || reflexivity).
  rewrite H in Hsl. exact Hsl.
Qed.

Lemma spec_format_bytes v h p : is_variant v -> hash_okb v h -> bytes_all (spec_format h p).
Proof.
  intros Hv Hh. rewrite spec_format_fields. apply bytes_all_app. split.
  - destruct p; cbn [prefix_text]; repeat constructor.
  - pose proof (fields_text_props h v Hh) as Hp. unfold bytes_all. rewrite Forall_forall. rewrite forallb_forall in Hp.
    intros x Hx. pose proof (is_upper_hexdigit_ascii x (Hp x Hx)). lia.
Qed.

Theorem parse_format_lemma c v h p m :
  is_variant v -> hash_ok v h -> (hc_strict c = true -> strict_valid v h = true) ->
  (m = None \/ m = Some p) ->
  parse c v (spec_format h p) m = Ok h.
Proof.
  intros Hv Hh Hs Hm. pose proof (hash_ok_okb v h Hv Hh) as Hb.
  rewrite (parse_of_spec c v _ m h Hv); [apply strict_gate_Ok_iff; exact Hs| |].
  - apply (spec_format_bytes v); assumption.
  - apply spec_parse_format; assumption.
Qed.

Lemma takeN_app_len {A} (a b : list A) n : n = lenN a -> takeN n (a ++ b) = a.
Proof. intros ->. apply takeN_app_exact. Qed.

Theorem store_then_parse_lemma c v h p m buf :
  is_variant v -> hash_ok v h -> (hc_strict c = true -> strict_valid v h = true) ->
  (m = None \/ m = Some p) -> str_len v p <= lenN buf ->
  fst (store_str c v h p buf) = Ok (str_len v p) /\
  parse c v (takeN (str_len v p) (snd (store_str c v h p buf))) m = Ok h.
Proof.
  intros Hv Hh Hs Hm Hl. pose proof (hash_ok_okb v h Hv Hh) as Hb.
  rewrite store_str_spec by assumption.
  destruct (N.ltb_spec (lenN buf) (str_len v p)); [lia|]. cbn [fst snd]. split; [reflexivity|].
  rewrite takeN_app_len by (symmetry; apply spec_format_length; assumption).
  apply parse_format_lemma; assumption.
Qed.

Theorem format_shape_lemma v h p :
  is_variant v -> hash_ok v h ->
  lenN (spec_format h p) = str_len v p /\
  exists t, spec_format h p = prefix_text p ++ t /\ forallb is_upper_hexdigit t = true.
Proof.
  intros Hv Hh. pose proof (hash_ok_okb v h Hv Hh) as Hb. split.
  - apply spec_format_length; assumption.
  - exists (fields_text h). split; [apply spec_format_fields|]. eapply fields_text_props; exact Hb.
Qed.

Theorem canonical_lemma c v s m h :
  is_variant v -> bytes_all s -> parse c v s m = Ok h ->
  exists p, resolve_prefix v s m = Some p /\
    display c v h = Ok ([84; 49] ++ map upper (digits_of s p)).
Proof.
  intros Hv Hb H. destruct (parse_Ok_spec c v s m h Hv Hb H) as [Hsp _].
  destruct (spec_parse_canonical v s m h Hv Hb Hsp) as [p [Hr [Hf Hok]]].
  exists p. split; [exact Hr|]. rewrite display_spec by assumption. rewrite Hf. reflexivity.
Qed.

Theorem same_hash_same_text_lemma c v s1 m1 s2 m2 h p1 p2 :
  is_variant v -> bytes_all s1 -> bytes_all s2 ->
  parse c v s1 m1 = Ok h -> parse c v s2 m2 = Ok h ->
  resolve_prefix v s1 m1 = Some p1 -> resolve_prefix v s2 m2 = Some p2 ->
  map upper (digits_of s1 p1) = map upper (digits_of s2 p2).
Proof.
  intros Hv B1 B2 H1 H2 R1 R2.
  destruct (canonical_lemma c v s1 m1 h Hv B1 H1) as [q1 [Q1 D1]].
  destruct (canonical_lemma c v s2 m2 h Hv B2 H2) as [q2 [Q2 D2]].
  rewrite R1 in Q1. rewrite R2 in Q2. injection Q1 as <-. injection Q2 as <-.
  rewrite D1 in D2. injection D2 as D2. exact D2.
Qed.

(* ---- C05 ---- *)

Theorem parse_total_lemma c v s m : is_variant v -> bytes_all s ->
  parse c v s m <> Panic /\ parse c v s m <> UB.
Proof.
  intros Hv Hb. pose proof (parse_strict_vs_lenient c v s m Hv Hb) as H.
  destruct (parse (lenient_of c) v s m) as [h|e| |]; try contradiction.
  - rewrite H. unfold strict_gate.
    destruct (hc_strict c && negb (checksum_is_valid v (h_cks h))); [split; discriminate|].
    destruct (hc_strict c && negb (is_valid (h_len h))); split; discriminate.
  - destruct H as [e' ->]. split; discriminate.
Qed.

Lemma digits_even v s m p : is_variant v -> resolve_prefix v s m = Some p ->
  Nat.even (length (digits_of s p)) = true.
Proof.
  intros Hv Hr. pose proof (digits_len v s m p Hv Hr) as Hl. apply lenN_length in Hl.
  rewrite Hl. unfold spec_len_in_str.
  replace (N.to_nat (2 * spec_size_in_bytes v + 2 - 2)) with (2 * N.to_nat (spec_size_in_bytes v))%nat by lia.
  rewrite Nat.even_mul. reflexivity.
Qed.

Lemma wellformed_spec_parse v s m : is_variant v ->
  (exists h, spec_parse v s m = inl h) <-> wellformed v s m = true.
Proof.
  intros Hv. unfold spec_parse, wellformed.
  destruct (resolve_prefix v s m) as [p|] eqn:Er; [|split; [intros [h H]; discriminate|discriminate]].
  destruct (prefix_ok s p); cbn [negb andb]; [|split; [intros [h H]; discriminate|discriminate]].
  pose proof (decode_hex_Some_iff (digits_of s p)) as Hd.
  pose proof (digits_even v s m p Hv Er) as Hev.
  destruct (decode_hex (digits_of s p)) as [raw|] eqn:Ed.
  - split; [|eauto]. intros _. apply Hd. eauto.
  - split; [intros [h H]; discriminate|]. intros Hf. exfalso.
    destruct Hd as [_ Hd]. destruct (Hd (conj Hev Hf)) as [raw Hraw]. discriminate.
Qed.

(* Ok iff well-formed; the value is the one the digits denote (lenient parser) *)
Theorem parse_exact_lemma c v s m : hc_strict c = false -> is_variant v -> bytes_all s ->
  ((exists h, parse c v s m = Ok h) <-> wellformed v s m = true) /\ (forall h, parse c v s m = Ok h -> spec_parse v s m = inl h).
Proof.
  intros Hs Hv Hb. rewrite parse_lenient_spec by assumption. split.
  - rewrite <- (wellformed_spec_parse v s m Hv).
    destruct (spec_parse v s m) as [h|e]; cbn [parse_outcome]; split; intros [h' H]; try discriminate; eauto.
  - intros h H. destruct (spec_parse v s m); cbn [parse_outcome] in H; [injection H as <-; reflexivity|discriminate].
Qed.

(* which errors apply to an input *)
Definition wrong_length (v : variant) (s : list N) (m : option prefix) : bool :=
  match resolve_prefix v s m with None => true | Some _ => false end.

Theorem parse_errors_lemma c v s m e : hc_strict c = false -> is_variant v -> bytes_all s ->
  parse c v s m = Err e ->
  (e = InvalidStringLength <-> wrong_length v s m = true) /\ (e = InvalidPrefix -> exists p, resolve_prefix v s m = Some p /\ p = PWithVersion /\ prefix_ok s p = false) /\ (e = InvalidCharacter -> exists p, resolve_prefix v s m = Some p /\ forallb is_hexdigit (digits_of s p) = false) /\ (e = InvalidStringLength \/ e = InvalidPrefix \/ e = InvalidCharacter).
Proof.
  intros Hs Hv Hb H. rewrite parse_lenient_spec in H by assumption.
  unfold spec_parse, wrong_length in *.
  destruct (resolve_prefix v s m) as [p|] eqn:Er.
  - destruct (prefix_ok s p) eqn:Ep; cbn [negb parse_outcome] in H.
    + destruct (decode_hex (digits_of s p)) as [raw|] eqn:Ed; cbn [parse_outcome] in H; [discriminate|].
      injection H as <-. repeat split; try discriminate; auto.
      intros _. exists p. split; [reflexivity|].
      destruct (forallb is_hexdigit (digits_of s p)) eqn:Ef; [|reflexivity]. exfalso.
      pose proof (decode_hex_Some_iff (digits_of s p)) as [_ Hd].
      destruct (Hd (conj (digits_even v s m p Hv Er) Ef)) as [raw Hraw]. rewrite Hraw in Ed. discriminate.
    + injection H as <-. repeat split; try discriminate; auto.
      intros _. exists p. split; [reflexivity|]. split; [|exact Ep].
      destruct p; [cbn in Ep; discriminate Ep|reflexivity].
  - cbn [parse_outcome] in H. injection H as <-. repeat split; try discriminate; auto.
Qed.

(* ---- C06 ---- *)

Lemma bytes_all_of_hash v h : hash_okb v h -> bytes_all (spec_bytes h).
Proof.
  intros [_ [_ [Bc [Bb [Hl Hq]]]]]. unfold spec_bytes. apply bytes_all_app. split; [exact Bc|].
  apply bytes_all_app. split; [|exact Bb]. repeat constructor; assumption.
Qed.

Theorem bytes_roundtrip_lemma c v b buf :
  hc_strict c = false -> lenN b = size_in_bytes v -> bytes_all b -> lenN buf = size_in_bytes v ->
  from_array c v b = Ok (hash_of_bytes v b) /\ from_slice c v b = Ok (hash_of_bytes v b) /\
  store_bytes v (hash_of_bytes v b) buf = (Ok (size_in_bytes v), b).
Proof.
  intros Hs Hl Hb Hbuf. rewrite from_slice_spec, from_array_spec by exact Hl.
  rewrite Hl, N.eqb_refl, Hs. unfold strict_gate. cbn [andb]. repeat split.
  rewrite store_bytes_spec by (apply hash_of_bytes_ok; assumption).
  rewrite Hbuf. destruct (N.ltb_spec (size_in_bytes v) (size_in_bytes v)); [lia|].
  rewrite spec_bytes_hash_of_bytes by exact Hl.
  unfold dropN. rewrite Hbuf, N.leb_refl, app_nil_r. reflexivity.
Qed.

Theorem hash_roundtrip_lemma c v h buf :
  hash_okb v h -> (hc_strict c = true -> strict_valid v h = true) -> lenN buf = size_in_bytes v ->
  store_bytes v h buf = (Ok (size_in_bytes v), spec_bytes h) /\
  from_array c v (spec_bytes h) = Ok h /\ from_slice c v (spec_bytes h) = Ok h.
Proof.
  intros Hh Hs Hbuf. pose proof (spec_bytes_length v h Hh) as Hl.
  rewrite from_slice_spec, from_array_spec by exact Hl. rewrite Hl, N.eqb_refl.
  rewrite hash_of_bytes_spec_bytes by exact Hh.
  rewrite store_bytes_spec by exact Hh. rewrite Hbuf.
  destruct (N.ltb_spec (size_in_bytes v) (size_in_bytes v)); [lia|].
  unfold dropN. rewrite Hbuf, N.leb_refl, app_nil_r.
  repeat split; apply strict_gate_Ok_iff; exact Hs.
Qed.

Theorem from_slice_length_lemma c v s :
  lenN s <> size_in_bytes v -> from_slice c v s = Err InvalidStringLength.
Proof.
  intros H. rewrite from_slice_spec. destruct (N.eqb_spec (lenN s) (size_in_bytes v)); [contradiction|reflexivity].
Qed.

Theorem from_slice_lenient_iff c v s : hc_strict c = false ->
  (from_slice c v s = Err InvalidStringLength <-> lenN s <> size_in_bytes v) /\
  (lenN s = size_in_bytes v -> from_slice c v s = Ok (hash_of_bytes v s)).
Proof.
  intros Hs. rewrite from_slice_spec. rewrite Hs. unfold strict_gate. cbn [andb].
  destruct (N.eqb_spec (lenN s) (size_in_bytes v)) as [H|H]; split; try tauto; try discriminate.
  all: split; try discriminate; try contradiction; auto.
Qed.

Lemma map_swap_app a b : map swap_nibbles (a ++ b) = map swap_nibbles a ++ map swap_nibbles b.
Proof. apply map_app. Qed.

Theorem hex_is_swapped_binary_lemma c v h : is_variant v -> hash_okb v h ->
  display c v h =
  Ok ([84; 49] ++ flat_map hex_hi_lo (map swap_nibbles (h_cks h ++ [h_len h; h_q h]) ++ h_body h)).
Proof.
  intros Hv Hh. rewrite display_spec by assumption. f_equal.
  destruct Hh as [_ [_ [Bc [Bb [Hl Hq]]]]].
  rewrite spec_format_fields. cbn [prefix_text]. f_equal. unfold fields_text.
  rewrite flat_map_app, map_app, flat_map_app. cbn [map flat_map].
  rewrite <- (flat_map_lo_hi_swap (map swap_nibbles (h_cks h))) by (apply bytes_all_map_swap; exact Bc).
  rewrite map_swap_swap by exact Bc.
  rewrite <- !(hex_lo_hi_swap (swap_nibbles _)) by (apply swap_nibbles_facts; assumption).
  destruct (swap_nibbles_facts _ Hl) as [-> _]. destruct (swap_nibbles_facts _ Hq) as [-> _].
  rewrite app_nil_r, <- !app_assoc. reflexivity.
Qed.

(* ---- C14 ---- *)

Theorem store_str_buffer_lemma c v h p buf :
  is_variant v -> hash_ok v h ->
  (lenN buf < str_len v p -> store_str c v h p buf = (Err BufferIsTooSmall, buf)) /\
  (str_len v p <= lenN buf ->
     fst (store_str c v h p buf) = Ok (str_len v p) /\
     takeN (str_len v p) (snd (store_str c v h p buf)) = spec_format h p /\
     dropN (str_len v p) (snd (store_str c v h p buf)) = dropN (str_len v p) buf /\
     lenN (snd (store_str c v h p buf)) = lenN buf).
Proof.
  intros Hv Hh. pose proof (hash_ok_okb v h Hv Hh) as Hb.
  rewrite store_str_spec by assumption.
  pose proof (spec_format_length v h p Hv Hb) as Hl.
  destruct (N.ltb_spec (lenN buf) (str_len v p)); split; try lia; intros _; cbn [fst snd]; [reflexivity|].
  split; [reflexivity|]. split; [apply takeN_app_len; symmetry; exact Hl|].
  split; [rewrite <- Hl at 1; apply dropN_app_exact|].
  rewrite lenN_app, lenN_dropN, Hl. lia.
Qed.

Theorem store_bytes_buffer_lemma v h buf :
  is_variant v -> hash_ok v h ->
  (lenN buf < size_in_bytes v -> store_bytes v h buf = (Err BufferIsTooSmall, buf)) /\
  (size_in_bytes v <= lenN buf ->
     fst (store_bytes v h buf) = Ok (size_in_bytes v) /\
     takeN (size_in_bytes v) (snd (store_bytes v h buf)) = spec_bytes h /\
     dropN (size_in_bytes v) (snd (store_bytes v h buf)) = dropN (size_in_bytes v) buf /\
     lenN (snd (store_bytes v h buf)) = lenN buf).
Proof.
  intros Hv Hh. pose proof (hash_ok_okb v h Hv Hh) as Hb.
  rewrite store_bytes_spec by assumption.
  pose proof (spec_bytes_length v h Hb) as Hl.
  destruct (N.ltb_spec (lenN buf) (size_in_bytes v)); split; try lia; intros _; cbn [fst snd]; [reflexivity|].
  split; [reflexivity|]. split; [apply takeN_app_len; symmetry; exact Hl|].
  split; [rewrite <- Hl at 1; apply dropN_app_exact|].
  rewrite lenN_app, lenN_dropN, Hl. lia.
Qed.

Theorem store_total_lemma c v h p buf : is_variant v -> hash_ok v h ->
  (exists n, fst (store_str c v h p buf) = Ok n) \/ fst (store_str c v h p buf) = Err BufferIsTooSmall.
Proof.
  intros Hv Hh. rewrite store_str_spec by (auto using hash_ok_okb).
  destruct (lenN buf <? str_len v p); cbn [fst]; eauto.
Qed.

(* ---- C15 (parser side) ---- *)

Theorem strict_accepts_text_lemma c v s m h : is_variant v -> bytes_all s ->
  (parse c v s m = Ok h <->
   parse (lenient_of c) v s m = Ok h /\ (hc_strict c = true -> strict_valid v h = true)).
Proof.
  intros Hv Hb. pose proof (parse_strict_vs_lenient c v s m Hv Hb) as H.
  destruct (parse (lenient_of c) v s m) as [h'|e| |]; try contradiction.
  - rewrite H. split.
    + intros Hg. pose proof (strict_gate_Ok _ _ _ _ Hg) as ->. split; [reflexivity|].
      apply strict_gate_Ok_iff; exact Hg.
    + intros [Heq Hval]. injection Heq as ->. apply strict_gate_Ok_iff; exact Hval.
  - destruct H as [e' ->]. split; [discriminate|intros [Hd _]; discriminate].
Qed.

Theorem strict_error_kinds_text_lemma c v s m h : is_variant v -> bytes_all s ->
  hc_strict c = true -> parse (lenient_of c) v s m = Ok h ->
  (checksum_is_valid v (h_cks h) = false -> parse c v s m = Err InvalidChecksum) /\
  (checksum_is_valid v (h_cks h) = true -> is_valid (h_len h) = false -> parse c v s m = Err LengthIsTooLarge).
Proof.
  intros Hv Hb Hs Hl. pose proof (parse_strict_vs_lenient c v s m Hv Hb) as H. rewrite Hl in H.
  rewrite H, Hs. unfold strict_gate. cbn [andb]. split.
  - intros ->. reflexivity.
  - intros -> ->. reflexivity.
Qed.

Theorem strict_accepts_bytes_lemma c v b h :
  (from_slice c v b = Ok h <->
   from_slice (lenient_of c) v b = Ok h /\ (hc_strict c = true -> strict_valid v h = true)).
Proof.
  rewrite !from_slice_spec. cbn [lenient_of hc_strict].
  destruct (lenN b =? size_in_bytes v); [|split; [discriminate|intros [Hd _]; discriminate]].
  unfold strict_gate at 2. cbn [andb]. split.
  - intros Hg. pose proof (strict_gate_Ok _ _ _ _ Hg) as ->. split; [reflexivity|].
    apply strict_gate_Ok_iff; exact Hg.
  - intros [Heq Hval]. injection Heq as <-. apply strict_gate_Ok_iff; exact Hval.
Qed.

Theorem strict_error_kinds_bytes_lemma c v b h :
  hc_strict c = true -> from_slice (lenient_of c) v b = Ok h ->
  (checksum_is_valid v (h_cks h) = false -> from_slice c v b = Err InvalidChecksum) /\
  (checksum_is_valid v (h_cks h) = true -> is_valid (h_len h) = false -> from_slice c v b = Err LengthIsTooLarge).
Proof.
  intros Hs. rewrite !from_slice_spec. cbn [lenient_of hc_strict].
  destruct (lenN b =? size_in_bytes v); [|discriminate].
  unfold strict_gate at 1. cbn [andb]. intros Heq. injection Heq as <-.
  rewrite Hs. unfold strict_gate. cbn [andb]. split.
  - intros ->. reflexivity.
  - intros -> ->. reflexivity.
Qed.
