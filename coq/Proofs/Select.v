(* Order statistics by ANY selection function meeting std's select_nth_unstable contract.
   Consequence: the `unstable` freedom of the standard library cannot change a hash. *)
From Coq Require Import Lia ZArith ZifyBool ZifyN Sorted Permutation.
From TlshV Require Import Model.Machine Spec.Types Proofs.ListN.

(* std's documented contract: a permutation with the k-th element in its sorted position,
   everything before it <= it <= everything after it *)
Definition sel_contract (sel : list N -> nat -> list N) : Prop :=
  forall l k, (k < length l)%nat ->
    Permutation (sel l k) l /\
    (forall x, In x (firstn k (sel l k)) -> x <= nth k (sel l k) 0) /\
    (forall x, In x (skipn (S k) (sel l k)) -> nth k (sel l k) 0 <= x).

Definition cnt_lt (l : list N) (p : N) : nat := length (filter (fun x => x <? p) l).
Definition cnt_le (l : list N) (p : N) : nat := length (filter (fun x => x <=? p) l).

Lemma perm_filter_length (f : N -> bool) l l' : Permutation l l' -> length (filter f l) = length (filter f l').
Proof.
  induction 1 as [|x l l' _ IH|x y l|l l' l'' _ IH1 _ IH2]; cbn [filter].
  - reflexivity.
  - destruct (f x); cbn [length]; lia.
  - destruct (f x), (f y); reflexivity.
  - lia.
Qed.

Lemma cnt_lt_perm l l' p : Permutation l l' -> cnt_lt l p = cnt_lt l' p.
Proof. apply perm_filter_length. Qed.
Lemma cnt_le_perm l l' p : Permutation l l' -> cnt_le l p = cnt_le l' p.
Proof. apply perm_filter_length. Qed.

Lemma cnt_lt_app a b p : cnt_lt (a ++ b) p = (cnt_lt a p + cnt_lt b p)%nat.
Proof. unfold cnt_lt. rewrite filter_app, app_length. reflexivity. Qed.
Lemma cnt_le_app a b p : cnt_le (a ++ b) p = (cnt_le a p + cnt_le b p)%nat.
Proof. unfold cnt_le. rewrite filter_app, app_length. reflexivity. Qed.

Lemma filter_length_le {A} (f : A -> bool) l : (length (filter f l) <= length l)%nat.
Proof. induction l as [|x l IH]; cbn [filter length]; [lia|]. destruct (f x); cbn [length]; lia. Qed.

Lemma filter_all {A} (f : A -> bool) l : (forall x, In x l -> f x = true) -> filter f l = l.
Proof.
  induction l as [|x l IH]; intros H; [reflexivity|]. cbn [filter].
  rewrite (H x (or_introl eq_refl)). f_equal. apply IH. intros y Hy. apply H. right. exact Hy.
Qed.

Lemma filter_none {A} (f : A -> bool) l : (forall x, In x l -> f x = false) -> filter f l = [].
Proof.
  induction l as [|x l IH]; intros H; [reflexivity|]. cbn [filter].
  rewrite (H x (or_introl eq_refl)). apply IH. intros y Hy. apply H. right. exact Hy.
Qed.

Lemma nth_firstn' {A} (l : list A) n i d : (i < n)%nat -> nth i (firstn n l) d = nth i l d.
Proof.
  revert l i. induction n as [|n IH]; intros l i Hi; [lia|].
  destruct l as [|x l]; [destruct i; reflexivity|]. destruct i as [|i]; [reflexivity|].
  cbn [firstn nth]. apply IH. lia.
Qed.

Lemma nth_skipn'' {A} (l : list A) n i d : nth i (skipn n l) d = nth (n + i) l d.
Proof.
  revert l. induction n as [|n IH]; intros l; [reflexivity|].
  destruct l as [|x l]; [destruct i; reflexivity|]. cbn [skipn Nat.add nth]. apply IH.
Qed.

Lemma skipn_nth_split {A} (l : list A) k d : (k < length l)%nat -> skipn k l = [nth k l d] ++ skipn (S k) l.
Proof.
  revert l. induction k as [|k IH]; intros l Hk; destruct l as [|x l]; cbn [length] in Hk; try lia.
  - reflexivity.
  - cbn [skipn nth]. apply IH. lia.
Qed.

(* insertion sort: sorted permutation *)
Lemma insert_perm x l : Permutation (insert_sorted x l) (x :: l).
Proof.
  induction l as [|y l IH]; cbn [insert_sorted]; [reflexivity|].
  destruct (x <=? y); [reflexivity|]. rewrite IH. apply perm_swap.
Qed.

Lemma isort_perm l : Permutation (isort l) l.
Proof.
  induction l as [|x l IH]; cbn [isort fold_right]; [reflexivity|].
  fold (isort l). rewrite insert_perm. constructor. exact IH.
Qed.

Lemma insert_sorted_sorted x l : StronglySorted N.le l -> StronglySorted N.le (insert_sorted x l).
Proof.
  induction 1 as [|y l Hs IH Hall]; cbn [insert_sorted].
  - constructor; constructor.
  - destruct (N.leb_spec x y) as [Hxy|Hxy].
    + constructor; [constructor; assumption|]. constructor; [exact Hxy|].
      rewrite Forall_forall in *. intros z Hz. specialize (Hall z Hz). lia.
    + constructor; [exact IH|]. rewrite Forall_forall in *. intros z Hz.
      apply (Permutation_in _ (insert_perm x l)) in Hz. destruct Hz as [<-|Hz]; [lia|auto].
Qed.

Lemma isort_sorted l : StronglySorted N.le (isort l).
Proof.
  induction l as [|x l IH]; cbn [isort fold_right]; [constructor|].
  apply insert_sorted_sorted. exact IH.
Qed.

Lemma isort_length l : length (isort l) = length l.
Proof. apply Permutation_length. apply isort_perm. Qed.

Lemma sorted_nth_le s : StronglySorted N.le s -> forall i j, (i <= j)%nat -> (j < length s)%nat ->
  nth i s 0 <= nth j s 0.
Proof.
  induction 1 as [|x s Hs IH Hall]; intros i j Hij Hj; [cbn in Hj; lia|].
  destruct i as [|i]; destruct j as [|j]; cbn [nth length] in *; try lia.
  - rewrite Forall_forall in Hall. apply Hall. apply nth_In. lia.
  - apply IH; lia.
Qed.

(* in a sorted list, if nth k < p then at least k+1 elements are < p *)
Lemma sorted_cnt_lt s k p : StronglySorted N.le s -> (k < length s)%nat -> nth k s 0 < p -> (k < cnt_lt s p)%nat.
Proof.
  intros Hs Hk Hp.
  rewrite <- (firstn_skipn (S k) s). rewrite cnt_lt_app.
  assert (Hf : cnt_lt (firstn (S k) s) p = S k).
  { unfold cnt_lt. rewrite filter_all; [rewrite firstn_length; lia|].
    intros x Hx. apply N.ltb_lt. apply In_nth with (d := 0) in Hx. destruct Hx as [i [Hi <-]].
    rewrite firstn_length in Hi. rewrite nth_firstn' by lia.
    pose proof (sorted_nth_le s Hs i k ltac:(lia) Hk). lia. }
  lia.
Qed.

(* in a sorted list, if p < nth k then at most k elements are <= p *)
Lemma sorted_cnt_le s k p : StronglySorted N.le s -> (k < length s)%nat -> p < nth k s 0 -> (cnt_le s p <= k)%nat.
Proof.
  intros Hs Hk Hp.
  rewrite <- (firstn_skipn k s). rewrite cnt_le_app.
  assert (Hf : cnt_le (skipn k s) p = 0%nat).
  { unfold cnt_le. rewrite filter_none; [reflexivity|].
    intros x Hx. apply N.leb_gt. apply In_nth with (d := 0) in Hx. destruct Hx as [i [Hi <-]].
    rewrite skipn_length in Hi. rewrite nth_skipn''.
    pose proof (sorted_nth_le s Hs k (k + i) ltac:(lia) ltac:(lia)). lia. }
  rewrite Hf. pose proof (filter_length_le (fun x => x <=? p) (firstn k s)). unfold cnt_le.
  rewrite firstn_length in H. lia.
Qed.

Definition kth (l : list N) (k : nat) : N := nth k (isort l) 0.

(* counting characterisation of the k-th order statistic *)
Lemma kth_char l k p : (k < length l)%nat -> (cnt_lt l p <= k)%nat -> (k < cnt_le l p)%nat -> kth l k = p.
Proof.
  intros Hk Hlt Hle. unfold kth.
  pose proof (isort_sorted l) as Hs. pose proof (isort_perm l) as Hp.
  assert (Hk' : (k < length (isort l))%nat) by (rewrite isort_length; exact Hk).
  assert (H1 : cnt_lt (isort l) p = cnt_lt l p) by (apply perm_filter_length; exact Hp).
  assert (H2 : cnt_le (isort l) p = cnt_le l p) by (apply perm_filter_length; exact Hp).
  destruct (N.lt_trichotomy (nth k (isort l) 0) p) as [H|[H|H]]; [|exact H|].
  - pose proof (sorted_cnt_lt _ k p Hs Hk' H). lia.
  - pose proof (sorted_cnt_le _ k p Hs Hk' H). lia.
Qed.

(* a selection result is the order statistic *)
Lemma partition_counts l' k : (k < length l')%nat ->
  (forall x, In x (firstn k l') -> x <= nth k l' 0) ->
  (forall x, In x (skipn (S k) l') -> nth k l' 0 <= x) ->
  (cnt_lt l' (nth k l' 0%N) <= k)%nat /\ (k < cnt_le l' (nth k l' 0%N))%nat.
Proof.
  intros Hk Hb Ha. set (p := nth k l' 0).
  assert (Hsplit : l' = firstn k l' ++ [p] ++ skipn (S k) l').
  { rewrite <- (firstn_skipn k l') at 1. f_equal. unfold p. apply skipn_nth_split. exact Hk. }
  rewrite Hsplit at 1 2. rewrite !cnt_lt_app, !cnt_le_app. split.
  - assert (H0 : cnt_lt (skipn (S k) l') p = 0%nat).
    { unfold cnt_lt. rewrite filter_none; [reflexivity|]. intros x Hx. apply N.ltb_ge. apply Ha. exact Hx. }
    assert (H1 : cnt_lt [p] p = 0%nat).
    { unfold cnt_lt. cbn [filter]. rewrite N.ltb_irrefl. reflexivity. }
    rewrite H0, H1. unfold cnt_lt. pose proof (filter_length_le (fun x => x <? p) (firstn k l')) as Hf.
    rewrite firstn_length in Hf. lia.
  - assert (H0 : cnt_le (firstn k l') p = k).
    { unfold cnt_le. rewrite filter_all; [rewrite firstn_length; lia|]. intros x Hx. apply N.leb_le. apply Hb. exact Hx. }
    assert (H1 : cnt_le [p] p = 1%nat).
    { unfold cnt_le. cbn [filter]. rewrite N.leb_refl. reflexivity. }
    rewrite H0, H1. lia.
Qed.

Lemma sel_is_kth sel l k : sel_contract sel -> (k < length l)%nat -> nth k (sel l k) 0 = kth l k.
Proof.
  intros Hc Hk. destruct (Hc l k Hk) as [Hp [Hb Ha]].
  assert (Hk' : (k < length (sel l k))%nat) by (rewrite (Permutation_length Hp); exact Hk).
  destruct (partition_counts (sel l k) k Hk' Hb Ha) as [H1 H2].
  symmetry. apply kth_char; [exact Hk| |].
  - rewrite <- (cnt_lt_perm _ _ _ Hp). exact H1.
  - rewrite <- (cnt_le_perm _ _ _ Hp). exact H2.
Qed.

(* the three nested selections of finalize_with_options *)
Lemma nested_selection sel l k2 k1 :
  sel_contract sel -> (k2 < length l)%nat -> (k1 < k2)%nat -> (k2 + 1 + k1 < length l)%nat ->
  let l' := sel l k2 in
  let l0 := firstn k2 l' in
  let l1 := skipn (S k2) l' in
  nth k2 l' 0 = kth l k2 /\
  nth k1 (sel l0 k1) 0 = kth l k1 /\
  nth k1 (sel l1 k1) 0 = kth l (k2 + 1 + k1) /\
  length l0 = k2 /\ length l1 = (length l - S k2)%nat.
Proof.
  intros Hc Hk2 Hk1 Hk3. cbn zeta.
  destruct (Hc l k2 Hk2) as [Hp [Hb Ha]].
  set (l' := sel l k2) in *. set (q2 := nth k2 l' 0) in *.
  assert (Hl' : length l' = length l) by (apply Permutation_length; exact Hp).
  set (l0 := firstn k2 l'). set (l1 := skipn (S k2) l').
  assert (L0 : length l0 = k2) by (unfold l0; rewrite firstn_length; lia).
  assert (L1 : length l1 = (length l - S k2)%nat) by (unfold l1; rewrite skipn_length; lia).
  assert (Hsplit : l' = l0 ++ [q2] ++ l1).
  { unfold l0, l1, q2. rewrite <- (firstn_skipn k2 l') at 1. f_equal. apply skipn_nth_split. lia. }
  split; [apply sel_is_kth; assumption|]. split; [|split; [|split; assumption]].
  - (* q1 *)
    assert (Hk1' : (k1 < length l0)%nat) by lia.
    destruct (Hc l0 k1 Hk1') as [Hp0 [Hb0 Ha0]].
    set (p := nth k1 (sel l0 k1) 0) in *.
    assert (Hk1'' : (k1 < length (sel l0 k1))%nat) by (rewrite (Permutation_length Hp0); exact Hk1').
    destruct (partition_counts (sel l0 k1) k1 Hk1'' Hb0 Ha0) as [H1 H2]. fold p in H1, H2.
    assert (Hpin : In p l0).
    { apply (Permutation_in _ Hp0). apply nth_In. exact Hk1''. }
    assert (Hpq : p <= q2) by (apply Hb; exact Hpin).
    symmetry. apply kth_char; [lia| |].
    + rewrite <- (cnt_lt_perm _ _ p Hp). rewrite Hsplit, !cnt_lt_app.
      assert (Z1 : cnt_lt [q2] p = 0%nat).
      { unfold cnt_lt. cbn [filter]. destruct (N.ltb_spec q2 p); [lia|reflexivity]. }
      assert (Z2 : cnt_lt l1 p = 0%nat).
      { unfold cnt_lt. rewrite filter_none; [reflexivity|]. intros x Hx. apply N.ltb_ge.
        specialize (Ha x Hx). lia. }
      rewrite Z1, Z2. rewrite <- (cnt_lt_perm _ _ p Hp0). lia.
    + rewrite <- (cnt_le_perm _ _ p Hp). rewrite Hsplit, !cnt_le_app.
      rewrite <- (cnt_le_perm _ _ p Hp0). lia.
  - (* q3 *)
    assert (Hk1' : (k1 < length l1)%nat) by lia.
    destruct (Hc l1 k1 Hk1') as [Hp1 [Hb1 Ha1]].
    set (p := nth k1 (sel l1 k1) 0) in *.
    assert (Hk1'' : (k1 < length (sel l1 k1))%nat) by (rewrite (Permutation_length Hp1); exact Hk1').
    destruct (partition_counts (sel l1 k1) k1 Hk1'' Hb1 Ha1) as [H1 H2]. fold p in H1, H2.
    assert (Hpin : In p l1).
    { apply (Permutation_in _ Hp1). apply nth_In. exact Hk1''. }
    assert (Hpq : q2 <= p) by (apply Ha; exact Hpin).
    symmetry. apply kth_char; [lia| |].
    + rewrite <- (cnt_lt_perm _ _ p Hp). rewrite Hsplit, !cnt_lt_app.
      assert (Z0 : (cnt_lt l0 p <= k2)%nat).
      { unfold cnt_lt. pose proof (filter_length_le (fun x => x <? p) l0). lia. }
      assert (Z1 : (cnt_lt [q2] p <= 1)%nat).
      { unfold cnt_lt. cbn [filter]. destruct (q2 <? p); cbn [length]; lia. }
      rewrite <- (cnt_lt_perm _ _ p Hp1). lia.
    + rewrite <- (cnt_le_perm _ _ p Hp). rewrite Hsplit, !cnt_le_app.
      assert (Z0 : cnt_le l0 p = k2).
      { unfold cnt_le. rewrite filter_all; [exact L0|]. intros x Hx. apply N.leb_le. specialize (Hb x Hx). lia. }
      assert (Z1 : cnt_le [q2] p = 1%nat).
      { unfold cnt_le. cbn [filter]. destruct (N.leb_spec q2 p); [reflexivity|lia]. }
      rewrite Z0, Z1. rewrite <- (cnt_le_perm _ _ p Hp1). lia.
Qed.

Lemma kth_mono l i j : (i <= j)%nat -> (j < length l)%nat -> kth l i <= kth l j.
Proof.
  intros Hij Hj. unfold kth. apply sorted_nth_le; [apply isort_sorted|exact Hij|rewrite isort_length; exact Hj].
Qed.

(* the executable instance (full sort) meets the contract *)
Lemma sel_sort_contract : sel_contract (fun l _ => isort l).
Proof.
  intros l k Hk. split; [apply isort_perm|].
  pose proof (isort_sorted l) as Hs. assert (Hk' : (k < length (isort l))%nat) by (rewrite isort_length; exact Hk).
  split; intros x Hx; apply In_nth with (d := 0) in Hx; destruct Hx as [i [Hi <-]].
  - rewrite firstn_length in Hi. rewrite nth_firstn' by lia. apply sorted_nth_le; [exact Hs|lia|exact Hk'].
  - rewrite skipn_length in Hi. rewrite nth_skipn''. apply sorted_nth_le; [exact Hs|lia|lia].
Qed.
