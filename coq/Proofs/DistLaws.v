(* C08: laws of the reference distance (reflexive, zero iff equal, symmetric, bounded, maximum attained,
   mode split, checksum clearing), transported to the comparison model by Distance.compare_is_reference_lemma. *)
From Coq Require Import Lia ZArith ZifyBool ZifyN.
From TlshV Require Import Model.Machine Gen.Tables Gen.Kernels Model.MLength Model.MHash Model.MLanes Model.MCompare
  Spec.SpecHex Spec.SpecDistance Proofs.ListN Proofs.HexBytes Proofs.HexLists Proofs.HashCodec Proofs.Lanes Proofs.DistSweeps
  Proofs.Distance.

(* ---- complete enumerations (2^16 each) on the reference part distances ---- *)
Definition law_pair (a b : N) : bool :=
    ((negb (byte_dist a b =? 0)) || (a =? b)) &&
    ((negb (q_dist a b =? 0)) || (a =? b)) &&
    ((negb (ld a b =? 0)) || (a =? b)) &&
    (q_dist a b <=? 168) && (ld a b <=? 1536) &&
    (byte_dist a b =? byte_dist b a) && (q_dist a b =? q_dist b a) && (ld a b =? ld b a).

Lemma law_sweep_ok : forallb (fun a => forallb (fun b => law_pair a b) bytes256) bytes256 = true.
Proof. vm_cast_no_check (@eq_refl bool true). Qed.

Lemma zero_imp (x a b : N) : negb (x =? 0) || (a =? b) = true -> x = 0 -> a = b.
Proof. intros H ->. rewrite N.eqb_refl in H. cbn [negb orb] in H. apply N.eqb_eq. exact H. Qed.

Lemma law_elim a b : a < 256 -> b < 256 ->
  (byte_dist a b = 0 -> a = b) /\ (q_dist a b = 0 -> a = b) /\ (ld a b = 0 -> a = b) /\
  q_dist a b <= 168 /\ ld a b <= 1536 /\
  byte_dist a b = byte_dist b a /\ q_dist a b = q_dist b a /\ ld a b = ld b a.
Proof.
  intros Ha Hb. pose proof law_sweep_ok as H.
  rewrite forallb_forall in H. specialize (H a (in_bytes256 _ Ha)).
  rewrite forallb_forall in H. specialize (H b (in_bytes256 _ Hb)).
  unfold law_pair in H.
  apply andb_prop in H as [H K7]. apply andb_prop in H as [H K6]. apply andb_prop in H as [H K5].
  apply andb_prop in H as [H K4]. apply andb_prop in H as [H K3]. apply andb_prop in H as [H K2].
  apply andb_prop in H as [K0 K1].
  repeat split.
  - exact (zero_imp _ _ _ K0).
  - exact (zero_imp _ _ _ K1).
  - exact (zero_imp _ _ _ K2).
  - apply N.leb_le; exact K3.
  - apply N.leb_le; exact K4.
  - apply N.eqb_eq; exact K5.
  - apply N.eqb_eq; exact K6.
  - apply N.eqb_eq; exact K7.
Qed.

(* ---- body ---- *)
Lemma body_dist_refl a : bytes_all a -> body_dist a a = 0.
Proof.
  induction 1 as [|x a Hx _ IH]; [reflexivity|]. rewrite body_dist_cons, IH.
  assert (byte_dist x x = 0).
  { pose proof kernel_ok_elim as _. unfold byte_dist, dibits. cbn [combine map fst snd sum].
    unfold dd, absdiff. rewrite !N.ltb_irrefl, !N.sub_diag. reflexivity. }
  lia.
Qed.

Lemma body_dist_sym a : forall b, bytes_all a -> bytes_all b -> body_dist a b = body_dist b a.
Proof.
  induction a as [|x a IH]; intros [|y b] Ha Hb; try reflexivity.
  inversion Ha; subst. inversion Hb; subst. rewrite !body_dist_cons. rewrite (IH b) by assumption.
  destruct (law_elim x y) as [_ [_ [_ [_ [_ [E _]]]]]]; try assumption. lia.
Qed.

Lemma body_dist_zero a : forall b, length a = length b -> bytes_all a -> bytes_all b -> body_dist a b = 0 -> a = b.
Proof.
  induction a as [|x a IH]; intros [|y b] HL Ha Hb H; try discriminate; [reflexivity|].
  inversion Ha; subst. inversion Hb; subst. rewrite body_dist_cons in H.
  destruct (law_elim x y) as [E _]; try assumption.
  f_equal; [apply E; lia | apply IH; try assumption; [cbn in HL; lia | lia]].
Qed.

Lemma body_dist_bound a : forall b, bytes_all a -> bytes_all b -> body_dist a b <= 24 * lenN a.
Proof.
  induction a as [|x a IH]; intros [|y b] Ha Hb; unfold lenN; cbn [length]; try (unfold body_dist; cbn; lia).
  - inversion Ha; subst. inversion Hb; subst. rewrite body_dist_cons.
    pose proof (byte_dist_le x y). pose proof (IH b). unfold lenN in *. lia.
Qed.

(* ---- checksum ---- *)
Lemma cks_dist_cons x a y b : cks_dist (x :: a) (y :: b) = (if x =? y then 0 else 1) + cks_dist a b.
Proof. reflexivity. Qed.

Lemma cks_dist_refl a : cks_dist a a = 0.
Proof. induction a as [|x a IH]; [reflexivity|]. rewrite cks_dist_cons, IH, N.eqb_refl. reflexivity. Qed.

Lemma cks_dist_sym a : forall b, cks_dist a b = cks_dist b a.
Proof.
  induction a as [|x a IH]; intros [|y b]; try reflexivity. rewrite !cks_dist_cons, (IH b), (N.eqb_sym x y). reflexivity.
Qed.

Lemma cks_dist_zero a : forall b, length a = length b -> cks_dist a b = 0 -> a = b.
Proof.
  induction a as [|x a IH]; intros [|y b] HL H; try discriminate; [reflexivity|].
  rewrite cks_dist_cons in H. destruct (N.eqb_spec x y) as [->|]; [|lia]. f_equal. apply IH; [cbn in HL|]; lia.
Qed.

Lemma cks_dist_bound a : forall b, cks_dist a b <= lenN a.
Proof.
  induction a as [|x a IH]; intros [|y b]; unfold lenN; cbn [length]; try (unfold cks_dist; cbn; lia).
  - rewrite cks_dist_cons. pose proof (IH b). unfold lenN in *. destruct (x =? y); lia.
Qed.

(* the number of differing checksum bytes *)
Lemma cks_dist_counts a b : cks_dist a b = lenN (filter (fun p => negb (fst p =? snd p)) (combine a b)).
Proof.
  revert b. induction a as [|x a IH]; intros [|y b]; try reflexivity.
  rewrite cks_dist_cons, IH. cbn [combine filter fst snd]. destruct (x =? y); cbn [negb]; unfold lenN; cbn [length]; lia.
Qed.

Lemma cks_dist_cleared (a b : list N) : cks_dist (map (fun _ => 0) a) (map (fun _ => 0) b) = 0.
Proof. revert b. induction a as [|x a IH]; intros [|y b]; try reflexivity. cbn [map]. rewrite cks_dist_cons, IH. reflexivity. Qed.

(* ---- whole distance ---- *)
Lemma spec_refl v a m : hash_okb v a -> spec_distance a a m = 0.
Proof.
  intros [_ [_ [_ [Bb [Hl Hq]]]]]. unfold spec_distance. rewrite body_dist_refl by assumption. rewrite cks_dist_refl.
  assert (q_dist (h_q a) (h_q a) = 0 /\ ld (h_len a) (h_len a) = 0) as [-> E].
  { assert (R : forall n x, n <> 0 -> ring n x x = 0).
    { intros n x Hn. unfold ring. replace (x + n - x) with n by lia. rewrite N.mod_same by assumption. reflexivity. }
    unfold q_dist, qd, ld. rewrite !R by discriminate. split; reflexivity. }
  destruct m; [rewrite E|]; reflexivity.
Qed.

Lemma spec_sym v a b m : hash_okb v a -> hash_okb v b -> spec_distance a b m = spec_distance b a m.
Proof.
  intros [_ [_ [_ [Ba [Hal Haq]]]]] [_ [_ [_ [Bb [Hbl Hbq]]]]]. unfold spec_distance.
  rewrite (body_dist_sym _ _ Ba Bb), (cks_dist_sym (h_cks a)).
  destruct (law_elim (h_q a) (h_q b) Haq Hbq) as [_ [_ [_ [_ [_ [_ [-> _]]]]]]].
  destruct (law_elim (h_len a) (h_len b) Hal Hbl) as [_ [_ [_ [_ [_ [_ [_ ->]]]]]]]. reflexivity.
Qed.

Lemma spec_zero_eq v a b : hash_okb v a -> hash_okb v b -> spec_distance a b CmpDefault = 0 -> a = b.
Proof.
  intros [Hac [Hab [_ [Ba [Hal Haq]]]]] [Hbc [Hbb [_ [Bb [Hbl Hbq]]]]] H. unfold spec_distance in H.
  destruct a as [ac al aq ab], b as [bc bl bq bb]. cbn [h_cks h_len h_q h_body] in *.
  destruct (law_elim aq bq Haq Hbq) as [_ [Eq _]]. destruct (law_elim al bl Hal Hbl) as [_ [_ [El _]]].
  f_equal.
  - apply cks_dist_zero; [unfold lenN in *; lia | lia].
  - apply El; lia.
  - apply Eq; lia.
  - apply body_dist_zero; try assumption; [unfold lenN in *; lia | lia].
Qed.

Lemma spec_bounded v a b m : is_variant v -> hash_okb v a -> hash_okb v b -> spec_distance a b m <= spec_max_distance v m.
Proof.
  intros Hv [Hac [Hab [_ [Ba [Hal Haq]]]]] [Hbc [Hbb [_ [Bb [Hbl Hbq]]]]]. unfold spec_distance, spec_max_distance.
  pose proof (body_dist_bound _ _ Ba Bb) as B1. pose proof (cks_dist_bound (h_cks a) (h_cks b)) as B2.
  destruct (law_elim (h_q a) (h_q b) Haq Hbq) as [_ [_ [_ [B3 _]]]].
  destruct (law_elim (h_len a) (h_len b) Hal Hbl) as [_ [_ [_ [_ [B4 _]]]]].
  rewrite Hab in B1. rewrite Hac in B2.
  assert (24 * size_body v = 6 * spec_nb (v_bk v)) as E by (destruct Hv; reflexivity).
  destruct m; lia.
Qed.

Lemma spec_mode_split a b : spec_distance a b CmpDefault = spec_distance a b CmpNoLength + ld (h_len a) (h_len b).
Proof. unfold spec_distance. lia. Qed.

Lemma spec_clear a b m :
  spec_distance (clear_checksum a) (clear_checksum b) m + cks_dist (h_cks a) (h_cks b) = spec_distance a b m.
Proof. unfold spec_distance, clear_checksum. cbn [h_cks h_len h_q h_body]. rewrite cks_dist_cleared. lia. Qed.

Lemma max_distance_eq v m : is_variant v -> max_distance v m = spec_max_distance v m.
Proof. intros Hv. destruct Hv, m; reflexivity. Qed.

Lemma clear_okb v a : hash_okb v a -> hash_okb v (clear_checksum a).
Proof.
  intros [H1 [H2 [H3 [H4 [H5 H6]]]]]. unfold hash_okb, clear_checksum. cbn [h_cks h_len h_q h_body].
  repeat split; try assumption.
  - unfold lenN in *. rewrite map_length. exact H1.
  - unfold bytes_all. apply Forall_forall. intros x Hx. apply in_map_iff in Hx as [? [<- _]]. lia.
Qed.

(* the maximum is attained: all-0 vs all-3 dibits, differing checksum bytes, Q nibbles 0 vs 8, length 0 vs 128 *)
Definition far_a (v : variant) : hash :=
  {| h_cks := repeat 0 (N.to_nat (v_cks v)); h_len := 0; h_q := 0; h_body := repeat 0 (N.to_nat (size_body v)) |}.
Definition far_b (v : variant) : hash :=
  {| h_cks := repeat 1 (N.to_nat (v_cks v)); h_len := 128; h_q := 136; h_body := repeat 255 (N.to_nat (size_body v)) |}.

Lemma far_ok v : is_variant v -> hash_okb v (far_a v) /\ hash_okb v (far_b v).
Proof.
  intros Hv. unfold hash_okb, far_a, far_b, lenN. cbn [h_cks h_len h_q h_body]. rewrite !repeat_length, !N2Nat.id.
  repeat split; try lia; apply Forall_forall; intros x Hx; apply repeat_spec in Hx; lia.
Qed.

Lemma max_attained v m : is_variant v -> spec_distance (far_a v) (far_b v) m = spec_max_distance v m.
Proof. intros Hv. destruct Hv, m; vm_compute; reflexivity. Qed.
