(* Sanity of the reference itself (Spec/): known answers produced by the official TLSH
   implementation, evaluated inside Coq; Pearson table is a permutation; closed forms of the
   length table.  These validate Spec/ against the outside world; they are not about /repo. *)
From Coq Require Import NArith List Lia Bool.
From TlshV Require Import Spec.Types Spec.SpecTables Spec.SpecLength Spec.SpecHex Spec.SpecGenerate.
Import ListNotations.
Open Scope N_scope.
Open Scope bool_scope.

Definition lorem_ipsum : list N := (76 :: 111 :: 114 :: 101 :: 109 :: 32 :: 105 :: 112 :: 115 :: 117 :: 109 :: 32 :: 100 :: 111 :: 108 :: 111 :: 114 :: 32 :: 115 :: 105 :: 116 :: 32 :: 97 :: 109 :: 101 :: 116 :: 44 :: 32 :: 99 :: 111 :: 110 :: 115 :: 101 :: 99 :: 116 :: 101 :: 116 :: 117 :: 114 :: 32 :: 97 :: 100 :: 105 :: 112 :: 105 :: 115 :: 99 :: 105 :: 110 :: 103 :: 32 :: 101 :: 108 :: 105 :: 116 :: 44 :: 32 :: 115 :: 101 :: 100 :: 32 :: 100 :: 111 :: 32 :: 101 :: 105 :: 117 :: 115 :: 109 :: 111 :: 100 :: 32 :: 116 :: 101 :: 109 :: 112 :: 111 :: 114 :: 32 :: 105 :: 110 :: 99 :: 105 :: 100 :: 105 :: 100 :: 117 :: 110 :: 116 :: 32 :: 117 :: 116 :: 32 :: 108 :: 97 :: 98 :: 111 :: 114 :: 101 :: 32 :: 101 :: 116 :: 32 :: 100 :: 111 :: 108 :: 111 :: 114 :: 101 :: 32 :: 109 :: 97 :: 103 :: 110 :: 97 :: 32 :: 97 :: 108 :: 105 :: 113 :: 117 :: 97 :: 46 :: 32 :: 85 :: 116 :: 32 :: 101 :: 110 :: 105 :: 109 :: 32 :: 97 :: 100 :: 32 :: 109 :: 105 :: 110 :: 105 :: 109 :: 32 :: 118 :: 101 :: 110 :: 105 :: 97 :: 109 :: 44 :: 32 :: 113 :: 117 :: 105 :: 115 :: 32 :: 110 :: 111 :: 115 :: 116 :: 114 :: 117 :: 100 :: 32 :: 101 :: 120 :: 101 :: 114 :: 99 :: 105 :: 116 :: 97 :: 116 :: 105 :: 111 :: 110 :: 32 :: 117 :: 108 :: 108 :: 97 :: 109 :: 99 :: 111 :: 32 :: 108 :: 97 :: 98 :: 111 :: 114 :: 105 :: 115 :: 32 :: 110 :: 105 :: 115 :: 105 :: 32 :: 117 :: 116 :: 32 :: 97 :: 108 :: 105 :: 113 :: 117 :: 105 :: 112 :: 32 :: 101 :: 120 :: 32 :: 101 :: 97 :: 32 :: 99 :: 111 :: 109 :: 109 :: 111 :: 100 :: 111 :: 32 :: 99 :: 111 :: 110 :: 115 :: 101 :: 113 :: 117 :: 97 :: 116 :: 46 :: 32 :: 68 :: 117 :: 105 :: 115 :: 32 :: 97 :: 117 :: 116 :: 101 :: 32 :: 105 :: 114 :: 117 :: 114 :: 101 :: 32 :: 100 :: 111 :: 108 :: 111 :: 114 :: 32 :: 105 :: 110 :: 32 :: 114 :: 101 :: 112 :: 114 :: 101 :: 104 :: 101 :: 110 :: 100 :: 101 :: 114 :: 105 :: 116 :: 32 :: 105 :: 110 :: 32 :: 118 :: 111 :: 108 :: 117 :: 112 :: 116 :: 97 :: 116 :: 101 :: 32 :: 118 :: 101 :: 108 :: 105 :: 116 :: 32 :: 101 :: 115 :: 115 :: 101 :: 32 :: 99 :: 105 :: 108 :: 108 :: 117 :: 109 :: 32 :: 100 :: 111 :: 108 :: 111 :: 114 :: 101 :: 32 :: 101 :: 117 :: 32 :: 102 :: 117 :: 103 :: 105 :: 97 :: 116 :: 32 :: 110 :: 117 :: 108 :: 108 :: 97 :: 32 :: 112 :: 97 :: 114 :: 105 :: 97 :: 116 :: 117 :: 114 :: 46 :: 32 :: 69 :: 120 :: 99 :: 101 :: 112 :: 116 :: 101 :: 117 :: 114 :: 32 :: 115 :: 105 :: 110 :: 116 :: 32 :: 111 :: 99 :: 99 :: 97 :: 101 :: 99 :: 97 :: 116 :: 32 :: 99 :: 117 :: 112 :: 105 :: 100 :: 97 :: 116 :: 97 :: 116 :: 32 :: 110 :: 111 :: 110 :: 32 :: 112 :: 114 :: 111 :: 105 :: 100 :: 101 :: 110 :: 116 :: 44 :: 32 :: 115 :: 117 :: 110 :: 116 :: 32 :: 105 :: 110 :: 32 :: 99 :: 117 :: 108 :: 112 :: 97 :: 32 :: 113 :: 117 :: 105 :: 32 :: 111 :: 102 :: 102 :: 105 :: 99 :: 105 :: 97 :: 32 :: 100 :: 101 :: 115 :: 101 :: 114 :: 117 :: 110 :: 116 :: 32 :: 109 :: 111 :: 108 :: 108 :: 105 :: 116 :: 32 :: 97 :: 110 :: 105 :: 109 :: 32 :: 105 :: 100 :: 32 :: 101 :: 115 :: 116 :: 32 :: 108 :: 97 :: 98 :: 111 :: 114 :: 117 :: 109 :: 46 :: nil)%N.

Definition o_default : options :=
  {| o_mode := Optimistic; o_pure_int := true; o_small := false; o_half := false; o_quarter := false |}.
Definition o_legacy_f32 : options :=
  {| o_mode := Optimistic; o_pure_int := false; o_small := false; o_half := false; o_quarter := false |}.

Definition text_of (r : hash + gen_error) : option (list N) :=
  match r with inl h => Some (spec_format h PWithVersion) | inr _ => None end.

Definition lorem_text_V_Short : list N := (84 :: 49 :: 69 :: 49 :: 70 :: 48 :: 50 :: 57 :: 66 :: 50 :: 70 :: 67 :: 65 :: 65 :: 52 :: 68 :: 53 :: 70 :: 69 :: 48 :: 52 :: 56 :: 52 :: 54 :: 49 :: 48 :: 53 :: 70 :: 65 :: 53 :: 69 :: 50 :: nil)%N.
Example known_answer_lorem_V_Short : text_of (spec_tlsh V_Short o_default lorem_ipsum) = Some lorem_text_V_Short.
Proof. vm_cast_no_check (@eq_refl (option (list N)) (Some lorem_text_V_Short)). Qed.
Example known_answer_lorem_f32_V_Short : text_of (spec_tlsh V_Short o_legacy_f32 lorem_ipsum) = Some lorem_text_V_Short.
Proof. vm_cast_no_check (@eq_refl (option (list N)) (Some lorem_text_V_Short)). Qed.

Definition lorem_text_V_Normal : list N := (84 :: 49 :: 68 :: 67 :: 70 :: 48 :: 68 :: 67 :: 51 :: 54 :: 53 :: 50 :: 48 :: 67 :: 49 :: 66 :: 48 :: 48 :: 55 :: 70 :: 68 :: 51 :: 50 :: 48 :: 55 :: 57 :: 66 :: 50 :: 50 :: 54 :: 53 :: 53 :: 57 :: 70 :: 68 :: 57 :: 57 :: 56 :: 65 :: 48 :: 50 :: 48 :: 48 :: 55 :: 50 :: 53 :: 69 :: 55 :: 53 :: 65 :: 70 :: 67 :: 69 :: 65 :: 67 :: 57 :: 57 :: 70 :: 53 :: 56 :: 56 :: 49 :: 49 :: 56 :: 52 :: 65 :: 52 :: 66 :: 49 :: 65 :: 65 :: 50 :: nil)%N.
Example known_answer_lorem_V_Normal : text_of (spec_tlsh V_Normal o_default lorem_ipsum) = Some lorem_text_V_Normal.
Proof. vm_cast_no_check (@eq_refl (option (list N)) (Some lorem_text_V_Normal)). Qed.
Example known_answer_lorem_f32_V_Normal : text_of (spec_tlsh V_Normal o_legacy_f32 lorem_ipsum) = Some lorem_text_V_Normal.
Proof. vm_cast_no_check (@eq_refl (option (list N)) (Some lorem_text_V_Normal)). Qed.

Definition lorem_text_V_NormalLong : list N := (84 :: 49 :: 68 :: 67 :: 51 :: 51 :: 68 :: 52 :: 70 :: 48 :: 68 :: 67 :: 51 :: 54 :: 53 :: 50 :: 48 :: 67 :: 49 :: 66 :: 48 :: 48 :: 55 :: 70 :: 68 :: 51 :: 50 :: 48 :: 55 :: 57 :: 66 :: 50 :: 50 :: 54 :: 53 :: 53 :: 57 :: 70 :: 68 :: 57 :: 57 :: 56 :: 65 :: 48 :: 50 :: 48 :: 48 :: 55 :: 50 :: 53 :: 69 :: 55 :: 53 :: 65 :: 70 :: 67 :: 69 :: 65 :: 67 :: 57 :: 57 :: 70 :: 53 :: 56 :: 56 :: 49 :: 49 :: 56 :: 52 :: 65 :: 52 :: 66 :: 49 :: 65 :: 65 :: 50 :: nil)%N.
Example known_answer_lorem_V_NormalLong : text_of (spec_tlsh V_NormalLong o_default lorem_ipsum) = Some lorem_text_V_NormalLong.
Proof. vm_cast_no_check (@eq_refl (option (list N)) (Some lorem_text_V_NormalLong)). Qed.
Example known_answer_lorem_f32_V_NormalLong : text_of (spec_tlsh V_NormalLong o_legacy_f32 lorem_ipsum) = Some lorem_text_V_NormalLong.
Proof. vm_cast_no_check (@eq_refl (option (list N)) (Some lorem_text_V_NormalLong)). Qed.

Definition lorem_text_V_Long : list N := (84 :: 49 :: 68 :: 67 :: 70 :: 48 :: 68 :: 67 :: 65 :: 52 :: 48 :: 53 :: 67 :: 48 :: 50 :: 65 :: 70 :: 49 :: 68 :: 52 :: 56 :: 54 :: 48 :: 67 :: 65 :: 53 :: 56 :: 57 :: 52 :: 65 :: 48 :: 53 :: 51 :: 48 :: 49 :: 68 :: 54 :: 48 :: 69 :: 57 :: 57 :: 49 :: 53 :: 49 :: 57 :: 56 :: 48 :: 54 :: 48 :: 65 :: 55 :: 48 :: 52 :: 52 :: 67 :: 54 :: 48 :: 56 :: 65 :: 49 :: 69 :: 56 :: 57 :: 65 :: 49 :: 49 :: 66 :: 68 :: 50 :: 66 :: 50 :: 56 :: 51 :: 54 :: 53 :: 50 :: 48 :: 67 :: 49 :: 66 :: 48 :: 48 :: 55 :: 70 :: 68 :: 51 :: 50 :: 48 :: 55 :: 57 :: 66 :: 50 :: 50 :: 54 :: 53 :: 53 :: 57 :: 70 :: 68 :: 57 :: 57 :: 56 :: 65 :: 48 :: 50 :: 48 :: 48 :: 55 :: 50 :: 53 :: 69 :: 55 :: 53 :: 65 :: 70 :: 67 :: 69 :: 65 :: 67 :: 57 :: 57 :: 70 :: 53 :: 56 :: 56 :: 49 :: 49 :: 56 :: 52 :: 65 :: 52 :: 66 :: 49 :: 65 :: 65 :: 50 :: nil)%N.
Example known_answer_lorem_V_Long : text_of (spec_tlsh V_Long o_default lorem_ipsum) = Some lorem_text_V_Long.
Proof. vm_cast_no_check (@eq_refl (option (list N)) (Some lorem_text_V_Long)). Qed.
Example known_answer_lorem_f32_V_Long : text_of (spec_tlsh V_Long o_legacy_f32 lorem_ipsum) = Some lorem_text_V_Long.
Proof. vm_cast_no_check (@eq_refl (option (list N)) (Some lorem_text_V_Long)). Qed.

Definition lorem_text_V_LongLong : list N := (84 :: 49 :: 68 :: 67 :: 51 :: 51 :: 68 :: 52 :: 70 :: 48 :: 68 :: 67 :: 65 :: 52 :: 48 :: 53 :: 67 :: 48 :: 50 :: 65 :: 70 :: 49 :: 68 :: 52 :: 56 :: 54 :: 48 :: 67 :: 65 :: 53 :: 56 :: 57 :: 52 :: 65 :: 48 :: 53 :: 51 :: 48 :: 49 :: 68 :: 54 :: 48 :: 69 :: 57 :: 57 :: 49 :: 53 :: 49 :: 57 :: 56 :: 48 :: 54 :: 48 :: 65 :: 55 :: 48 :: 52 :: 52 :: 67 :: 54 :: 48 :: 56 :: 65 :: 49 :: 69 :: 56 :: 57 :: 65 :: 49 :: 49 :: 66 :: 68 :: 50 :: 66 :: 50 :: 56 :: 51 :: 54 :: 53 :: 50 :: 48 :: 67 :: 49 :: 66 :: 48 :: 48 :: 55 :: 70 :: 68 :: 51 :: 50 :: 48 :: 55 :: 57 :: 66 :: 50 :: 50 :: 54 :: 53 :: 53 :: 57 :: 70 :: 68 :: 57 :: 57 :: 56 :: 65 :: 48 :: 50 :: 48 :: 48 :: 55 :: 50 :: 53 :: 69 :: 55 :: 53 :: 65 :: 70 :: 67 :: 69 :: 65 :: 67 :: 57 :: 57 :: 70 :: 53 :: 56 :: 56 :: 49 :: 49 :: 56 :: 52 :: 65 :: 52 :: 66 :: 49 :: 65 :: 65 :: 50 :: nil)%N.
Example known_answer_lorem_V_LongLong : text_of (spec_tlsh V_LongLong o_default lorem_ipsum) = Some lorem_text_V_LongLong.
Proof. vm_cast_no_check (@eq_refl (option (list N)) (Some lorem_text_V_LongLong)). Qed.
Example known_answer_lorem_f32_V_LongLong : text_of (spec_tlsh V_LongLong o_legacy_f32 lorem_ipsum) = Some lorem_text_V_LongLong.
Proof. vm_cast_no_check (@eq_refl (option (list N)) (Some lorem_text_V_LongLong)). Qed.

Example known_answer_doc_0 :
  text_of (spec_tlsh V_Normal o_default (76 :: 111 :: 118 :: 97 :: 107 :: 32 :: 119 :: 111 :: 110 :: 32 :: 116 :: 104 :: 101 :: 32 :: 115 :: 113 :: 117 :: 97 :: 100 :: 32 :: 112 :: 114 :: 105 :: 122 :: 101 :: 32 :: 99 :: 117 :: 112 :: 32 :: 102 :: 111 :: 114 :: 32 :: 115 :: 105 :: 120 :: 116 :: 121 :: 32 :: 98 :: 105 :: 103 :: 32 :: 106 :: 117 :: 109 :: 112 :: 115 :: 46 :: nil)%N) = Some (84 :: 49 :: 52 :: 65 :: 57 :: 48 :: 48 :: 50 :: 52 :: 57 :: 53 :: 52 :: 54 :: 57 :: 49 :: 69 :: 49 :: 49 :: 52 :: 52 :: 48 :: 52 :: 49 :: 50 :: 52 :: 49 :: 56 :: 48 :: 68 :: 57 :: 52 :: 50 :: 67 :: 49 :: 52 :: 53 :: 48 :: 70 :: 56 :: 52 :: 50 :: 51 :: 55 :: 55 :: 53 :: 65 :: 68 :: 69 :: 49 :: 53 :: 49 :: 48 :: 50 :: 49 :: 49 :: 52 :: 50 :: 48 :: 52 :: 53 :: 54 :: 53 :: 57 :: 51 :: 54 :: 50 :: 49 :: 65 :: 56 :: 49 :: 55 :: 51 :: nil)%N.
Proof. vm_compute. reflexivity. Qed.

Example known_answer_doc_1 :
  text_of (spec_tlsh V_Normal {| o_mode := Optimistic; o_pure_int := true; o_small := true; o_half := false; o_quarter := false |} (84 :: 104 :: 101 :: 32 :: 113 :: 117 :: 105 :: 99 :: 107 :: 32 :: 98 :: 114 :: 111 :: 119 :: 110 :: 32 :: 102 :: 111 :: 120 :: 32 :: 106 :: 117 :: 109 :: 112 :: 115 :: 32 :: 111 :: 118 :: 101 :: 114 :: 32 :: 116 :: 104 :: 101 :: 32 :: 108 :: 97 :: 122 :: 121 :: 32 :: 100 :: 111 :: 103 :: 46 :: nil)%N) = Some (84 :: 49 :: 57 :: 69 :: 57 :: 48 :: 48 :: 50 :: 52 :: 65 :: 50 :: 49 :: 49 :: 56 :: 49 :: 50 :: 57 :: 52 :: 54 :: 52 :: 56 :: 65 :: 49 :: 56 :: 56 :: 56 :: 52 :: 51 :: 56 :: 68 :: 57 :: 52 :: 66 :: 50 :: 57 :: 50 :: 67 :: 56 :: 67 :: 53 :: 49 :: 48 :: 54 :: 49 :: 50 :: 49 :: 49 :: 52 :: 49 :: 49 :: 54 :: 52 :: 51 :: 48 :: 54 :: 48 :: 48 :: 50 :: 49 :: 56 :: 48 :: 56 :: 50 :: 50 :: 49 :: 57 :: 67 :: 57 :: 56 :: 53 :: 53 :: 49 :: nil)%N.
Proof. vm_compute. reflexivity. Qed.

Example known_answer_doc_2 :
  text_of (spec_tlsh V_Normal {| o_mode := Optimistic; o_pure_int := true; o_small := false; o_half := true; o_quarter := false |} (65 :: 66 :: 67 :: 68 :: 69 :: 70 :: 71 :: 72 :: 73 :: 74 :: 75 :: 76 :: 77 :: 78 :: 79 :: 80 :: 81 :: 82 :: 83 :: 84 :: 65 :: 66 :: 67 :: 68 :: 69 :: 70 :: 71 :: 72 :: 73 :: 74 :: 75 :: 76 :: 77 :: 78 :: 79 :: 80 :: 81 :: 82 :: 83 :: 84 :: 65 :: 66 :: 67 :: 68 :: 69 :: 70 :: 71 :: 72 :: 73 :: 74 :: nil)%N) = Some (84 :: 49 :: 54 :: 48 :: 57 :: 48 :: 48 :: 48 :: 48 :: 56 :: 48 :: 67 :: 56 :: 51 :: 56 :: 70 :: 50 :: 65 :: 48 :: 70 :: 50 :: 67 :: 56 :: 50 :: 67 :: 48 :: 69 :: 67 :: 65 :: 50 :: 56 :: 50 :: 70 :: 51 :: 51 :: 56 :: 48 :: 56 :: 56 :: 51 :: 56 :: 66 :: 48 :: 48 :: 67 :: 69 :: 48 :: 51 :: 48 :: 48 :: 50 :: 50 :: 56 :: 67 :: 50 :: 70 :: 56 :: 48 :: 67 :: 56 :: 56 :: 48 :: 48 :: 69 :: 48 :: 56 :: 56 :: 48 :: 48 :: 48 :: 48 :: 48 :: nil)%N.
Proof. vm_compute. reflexivity. Qed.

Example known_answer_doc_3 :
  text_of (spec_tlsh V_Normal {| o_mode := Optimistic; o_pure_int := true; o_small := false; o_half := false; o_quarter := true |} (65 :: 66 :: 67 :: 68 :: 69 :: 65 :: 66 :: 67 :: 68 :: 69 :: 65 :: 66 :: 67 :: 68 :: 69 :: 65 :: 66 :: 67 :: 68 :: 69 :: 65 :: 66 :: 67 :: 68 :: 69 :: 65 :: 66 :: 67 :: 68 :: 69 :: 65 :: 66 :: 67 :: 68 :: 69 :: 65 :: 66 :: 67 :: 68 :: 69 :: 65 :: 66 :: 67 :: 68 :: 69 :: 65 :: 66 :: 67 :: 68 :: 69 :: nil)%N) = Some (84 :: 49 :: 52 :: 53 :: 57 :: 48 :: 52 :: 52 :: 48 :: 67 :: 51 :: 51 :: 48 :: 48 :: 48 :: 51 :: 67 :: 48 :: 48 :: 67 :: 48 :: 48 :: 51 :: 51 :: 48 :: 48 :: 48 :: 48 :: 48 :: 48 :: 67 :: 51 :: 48 :: 48 :: 70 :: 48 :: 48 :: 48 :: 67 :: 48 :: 48 :: 51 :: 48 :: 48 :: 67 :: 48 :: 51 :: 48 :: 48 :: 48 :: 48 :: 48 :: 48 :: 48 :: 67 :: 51 :: 48 :: 48 :: 48 :: 48 :: 48 :: 48 :: 48 :: 48 :: 48 :: 48 :: 48 :: 48 :: 67 :: 48 :: 48 :: 48 :: nil)%N.
Proof. vm_compute. reflexivity. Qed.

(* the rejections documented for the same inputs under the default options *)
Example known_rejections :
  spec_tlsh V_Normal o_default (84 :: 104 :: 101 :: 32 :: 113 :: 117 :: 105 :: 99 :: 107 :: 32 :: 98 :: 114 :: 111 :: 119 :: 110 :: 32 :: 102 :: 111 :: 120 :: 32 :: 106 :: 117 :: 109 :: 112 :: 115 :: 32 :: 111 :: 118 :: 101 :: 114 :: 32 :: 116 :: 104 :: 101 :: 32 :: 108 :: 97 :: 122 :: 121 :: 32 :: 100 :: 111 :: 103 :: 46 :: nil)%N = inr TooSmallInput /\
  spec_tlsh V_Normal o_default (65 :: 66 :: 67 :: 68 :: 69 :: 70 :: 71 :: 72 :: 73 :: 74 :: 75 :: 76 :: 77 :: 78 :: 79 :: 80 :: 81 :: 82 :: 83 :: 84 :: 65 :: 66 :: 67 :: 68 :: 69 :: 70 :: 71 :: 72 :: 73 :: 74 :: 75 :: 76 :: 77 :: 78 :: 79 :: 80 :: 81 :: 82 :: 83 :: 84 :: 65 :: 66 :: 67 :: 68 :: 69 :: 70 :: 71 :: 72 :: 73 :: 74 :: nil)%N = inr BucketsAreHalfEmpty /\
  spec_tlsh V_Normal o_default (65 :: 66 :: 67 :: 68 :: 69 :: 65 :: 66 :: 67 :: 68 :: 69 :: 65 :: 66 :: 67 :: 68 :: 69 :: 65 :: 66 :: 67 :: 68 :: 69 :: 65 :: 66 :: 67 :: 68 :: 69 :: 65 :: 66 :: 67 :: 68 :: 69 :: 65 :: 66 :: 67 :: 68 :: 69 :: 65 :: 66 :: 67 :: 68 :: 69 :: 65 :: 66 :: 67 :: 68 :: 69 :: 65 :: 66 :: 67 :: 68 :: 69 :: nil)%N = inr BucketsAreThreeQuarterEmpty /\
  spec_tlsh V_Normal {| o_mode := Conservative; o_pure_int := true; o_small := false; o_half := false; o_quarter := false |}
     (76 :: 111 :: 118 :: 97 :: 107 :: 32 :: 119 :: 111 :: 110 :: 32 :: 116 :: 104 :: 101 :: 32 :: 115 :: 113 :: 117 :: 97 :: 100 :: 32 :: 112 :: 114 :: 105 :: 122 :: 101 :: 32 :: 99 :: 117 :: 112 :: 32 :: 102 :: 111 :: 114 :: 32 :: 115 :: 105 :: 120 :: 116 :: 121 :: 32 :: 98 :: 105 :: 103 :: 32 :: 106 :: 117 :: 109 :: 112 :: 115 :: 46 :: nil)%N = inr TooSmallInput.
Proof. vm_compute. repeat split; reflexivity. Qed.

(* Pearson's table is a permutation of 0..255 *)
Example v_table_is_permutation :
  length v_table = 256%nat /\
  forallb (fun k => existsb (N.eqb k) v_table) (map N.of_nat (seq 0 256)) = true.
Proof. vm_compute. split; reflexivity. Qed.

(* closed forms of the length table: floor(1.5^(i+1)) for i < 16, floor(657 * 1.3^(i-15)) for 16 <= i < 22,
   then growth by a factor within [1.09987, 1.10015] per step; strictly increasing; 170 entries; last = MAX *)
Fixpoint pow_floor_check (num den : N) (scale : N) (l : list N) (acc_num acc_den : N) : bool :=
  match l with
  | [] => true
  | t :: r => let an := acc_num * num in let ad := acc_den * den in
              (t =? scale * an / ad) && pow_floor_check num den scale r an ad
  end.
Example topval_closed_forms :
  length topval = 170%nat /\
  pow_floor_check 3 2 1 (firstn 16 topval) 1 1 = true /\
  pow_floor_check 13 10 657 (firstn 6 (skipn 16 topval)) 1 1 = true /\
  forallb (fun p => (109987 * fst p <=? 100000 * snd p) && (100000 * snd p <=? 110015 * fst p))
          (combine (skipn 22 topval) (skipn 23 topval)) = true /\
  nth 169 topval 0 = spec_max_len.
Proof. vm_compute. repeat split; reflexivity. Qed.
