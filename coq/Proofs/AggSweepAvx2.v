From TlshV Require Import Model.Machine Model.MFinalize Model.MAgg Gen.AggKernels Proofs.AggSweeps.
Lemma agg_avx2_ok : agg8_ok agg_avx2_prog agg_avx2_results = true.
Proof. vm_cast_no_check (@eq_refl bool true). Qed.
