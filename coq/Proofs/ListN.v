(* Generic facts about the N-indexed list helpers of Model/Machine.v. *)
From Coq Require Import Lia.
From TlshV Require Import Model.Machine.

Lemma lenN_app {A} (a b : list A) : lenN (a ++ b) = lenN a + lenN b.
Proof. unfold lenN. rewrite app_length. lia. Qed.

Lemma lenN_cons {A} (x : A) l : lenN (x :: l) = 1 + lenN l.
Proof. unfold lenN. cbn [length]. lia. Qed.

Lemma lenN_nil {A} : lenN (@nil A) = 0.
Proof. reflexivity. Qed.

Lemma takeN_firstn {A} n (l : list A) : takeN n l = firstn (N.to_nat n) l.
Proof.
  unfold takeN, lenN. destruct (N.leb_spec (N.of_nat (length l)) n) as [H|H]; [|reflexivity].
  symmetry. apply firstn_all2. lia.
Qed.

Lemma dropN_skipn {A} n (l : list A) : dropN n l = skipn (N.to_nat n) l.
Proof.
  unfold dropN, lenN. destruct (N.leb_spec (N.of_nat (length l)) n) as [H|H]; [|reflexivity].
  symmetry. apply skipn_all2. lia.
Qed.

Lemma takeN_dropN {A} n (l : list A) : takeN n l ++ dropN n l = l.
Proof. rewrite takeN_firstn, dropN_skipn. apply firstn_skipn. Qed.

Lemma lenN_takeN {A} n (l : list A) : lenN (takeN n l) = N.min n (lenN l).
Proof. rewrite takeN_firstn. unfold lenN. rewrite firstn_length. lia. Qed.

Lemma lenN_dropN {A} n (l : list A) : lenN (dropN n l) = lenN l - n.
Proof. rewrite dropN_skipn. unfold lenN. rewrite skipn_length. lia. Qed.

Lemma skipn_skipn' {A} (x y : nat) (l : list A) : skipn x (skipn y l) = skipn (y + x) l.
Proof.
  revert l. induction y as [|y IH]; intros l; [reflexivity|].
  destruct l as [|a l]; [rewrite !skipn_nil; reflexivity|]. cbn [skipn Nat.add]. apply IH.
Qed.

Lemma dropN_dropN {A} a b (l : list A) : dropN a (dropN b l) = dropN (b + a) l.
Proof.
  rewrite !dropN_skipn. rewrite skipn_skipn'. f_equal. lia.
Qed.

(* l = l[..a] ++ l[a..b] ++ l[b..] *)
Lemma split3 {A} (l : list A) a b :
  a <= b -> l = takeN a l ++ takeN (b - a) (dropN a l) ++ dropN b l.
Proof.
  intros Hab.
  rewrite <- (takeN_dropN a l) at 1. f_equal.
  rewrite <- (takeN_dropN (b - a) (dropN a l)) at 1. f_equal.
  rewrite dropN_dropN. f_equal. lia.
Qed.

Lemma idx_Some_nth {A} (l : list A) i x : idx l i = Some x -> nth_error l (N.to_nat i) = Some x /\ i < lenN l.
Proof.
  unfold idx. destruct (N.ltb_spec i (lenN l)); [auto|discriminate].
Qed.

Lemma idx_lt {A} (l : list A) i : i < lenN l -> exists x, idx l i = Some x.
Proof.
  intros H. unfold idx. destruct (N.ltb_spec i (lenN l)); [|lia].
  destruct (nth_error l (N.to_nat i)) eqn:E; [eauto|].
  apply nth_error_None in E. unfold lenN in *. lia.
Qed.

Lemma idx_ge {A} (l : list A) i : lenN l <= i -> idx l i = None.
Proof. intros H. unfold idx. destruct (N.ltb_spec i (lenN l)); [lia|reflexivity]. Qed.

Lemma idx_cons_0 {A} (x : A) l : idx (x :: l) 0 = Some x.
Proof. reflexivity. Qed.

Lemma idx_cons_succ {A} (x : A) l i : idx (x :: l) (N.succ i) = idx l i.
Proof.
  unfold idx. rewrite lenN_cons.
  destruct (N.ltb_spec (N.succ i) (1 + lenN l)); destruct (N.ltb_spec i (lenN l)); try lia; [|reflexivity].
  rewrite N2Nat.inj_succ. reflexivity.
Qed.

Lemma in_N_seq (z n : N) : z < n -> In z (map N.of_nat (seq 0 (N.to_nat n))).
Proof.
  intros H. apply in_map_iff. exists (N.to_nat z). split; [lia|].
  apply in_seq. lia.
Qed.
