(* exhaustive(65536): the regenerated pseudo64 kernel is lane-safe and lane-wise equal to the reference byte distance *)
From Coq Require Import Lia.
From TlshV Require Import Model.Machine Gen.Tables Gen.Kernels Model.MLanes Model.MCompare Spec.SpecDistance
  Proofs.ListN Proofs.HexBytes Proofs.Lanes Proofs.SweepDefs.

Lemma pseudo64_ok : kernel_ok pseudo64_lanes pseudo64_out = true.
Proof. vm_cast_no_check (@eq_refl bool true). Qed.
