(* C18, the hand-written side: which source files hold the conveniences that are DOCUMENTED to
   need the heap, and which `std` names used elsewhere are audited as not allocating. *)
From Coq Require Import List String.
Import ListNotations.
Open Scope string_scope.

(* hash_stream / hash_file (and their _for forms): "the stream/file helpers' 1 MiB buffer".
   to_string comes from the blanket ToString impl of alloc (not from this crate) and the serde
   format crates are other crates, so neither has a file here. *)
Definition documented_allocating_files : list string := ["generate_easy_std.rs"].

(* std items the library uses outside those helpers; none of them allocates:
   CPU-feature detection caches in atomics, OnceLock<&'static dyn Fn> is a futex-based cell
   holding a reference, Error is a trait, io::Error is only carried (constructed by the OS
   error path of the reader, never by this crate). *)
Definition nonallocating_std_names : list string := [
  "std::arch::is_x86_feature_detected";
  "std::arch::is_arm_feature_detected";
  "is_x86_feature_detected!";
  "is_arm_feature_detected!";
  "is_aarch64_feature_detected!";
  "std::sync::OnceLock";
  "std::error::Error";
  "std::io::Error"
].
