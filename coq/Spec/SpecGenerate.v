(* Spec/SpecGenerate.v -- the TLSH reference algorithm, over the whole input at once.
   Independent of Model/ and Gen/.  ~120 lines; this is what a reader audits. *)
From Coq Require Import NArith List Bool.
From TlshV Require Import Spec.Types Spec.SpecTables Spec.SpecLength Spec.SpecF32.
Import ListNotations.
Open Scope N_scope.

(* Pearson step and the salted 4-byte mapping: h = T[salt]; h = T[h^a]; h = T[h^b]; h = T[h^c] *)
Definition vt (i : N) : N := nth (N.to_nat i) v_table 0.
Definition spec_pearson (salt a b c : N) : N :=
  vt (N.lxor (vt (N.lxor (vt (N.lxor (vt salt) a)) b)) c).

(* 48-bucket folding of the last table lookup *)
Definition fold48 (x : N) : N := if 240 <=? x then 48 else x mod 48.

Definition spec_bucket (bk : buckets_kind) (salt a b c : N) : N :=
  match bk with
  | B48 => fold48 (spec_pearson salt a b c)
  | _ => spec_pearson salt a b c
  end.

(* the sliding window: every 5 consecutive bytes (w0 oldest .. w4 newest) *)
Definition window := (N * N * N * N * N)%type.
Fixpoint windows (d : list N) : list window :=
  match d with
  | a :: r =>
      match r with
      | b :: c :: e :: f :: _ => (a, b, c, e, f) :: windows r
      | _ => []
      end
  | [] => []
  end.

Definition wnth (w : window) (i : N) : N :=
  let '(w0, w1, w2, w3, w4) := w in
  if i =? 0 then w0 else if i =? 1 then w1 else if i =? 2 then w2 else if i =? 3 then w3 else w4.

(* the six (salt, triplet) pairs of TLSH *)
Definition spec_triplets : list (N * (N * N * N)) :=
  [(2, (4, 3, 2)); (3, (4, 3, 1)); (5, (4, 2, 1)); (7, (4, 2, 0)); (11, (4, 3, 0)); (13, (4, 1, 0))].

Definition hits (bk : buckets_kind) (w : window) : list N :=
  map (fun t => let '(salt, (i, j, k)) := t in spec_bucket bk salt (wnth w i) (wnth w j) (wnth w k)) spec_triplets.

(* bucket k = number of (window, triplet) pairs mapped to k, as a 32-bit counter *)
Definition all_hits (bk : buckets_kind) (d : list N) : list N := flat_map (hits bk) (windows d).

Definition count_in (hs : list N) (k : N) : N := N.of_nat (count_occ N.eq_dec hs k) mod 4294967296.

Definition spec_count (bk : buckets_kind) (d : list N) (k : N) : N := count_in (all_hits bk d) k.

(* (the hit list is let-bound only so that evaluation computes it once) *)
Definition spec_counts (bk : buckets_kind) (d : list N) : list N :=
  let hs := all_hits bk d in
  map (fun k => count_in hs (N.of_nat k)) (seq 0 (N.to_nat (spec_nb bk))).

(* checksum: left fold of the chained Pearson step over (current, previous) byte of each window *)
Definition spec_cks_step (bk : buckets_kind) (cks : list N) (w : window) : list N :=
  let curr := wnth w 4 in
  let prev := wnth w 3 in
  match cks with
  | [c0] => [spec_bucket bk 0 curr prev c0]
  | [c0; c1; c2] =>
      let n0 := spec_bucket bk 0 curr prev c0 in
      let n1 := spec_pearson n0 curr prev c1 in
      let n2 := spec_pearson n1 curr prev c2 in
      [n0; n1; n2]
  | _ => cks
  end.

Definition spec_checksum (v : variant) (d : list N) : list N :=
  fold_left (spec_cks_step (v_bk v)) (windows d) (repeat 0 (N.to_nat (v_cks v))).

(* quartiles: order statistics n/4-1, n/2-1, 3n/4-1 of the sorted effective buckets *)
Definition spec_quartiles (nb : N) (counts : list N) : N * N * N :=
  let s := isort counts in
  (nth (N.to_nat (nb / 4 - 1)) s 0, nth (N.to_nat (nb / 2 - 1)) s 0, nth (N.to_nat (3 * nb / 4 - 1)) s 0).

Definition dibit (q1 q2 q3 x : N) : N :=
  if q3 <? x then 3 else if q2 <? x then 2 else if q1 <? x then 1 else 0.

Fixpoint chunks_of_4 (l : list N) : list (list N) :=
  match l with
  | a :: b :: c :: d :: r => [a; b; c; d] :: chunks_of_4 r
  | _ => []
  end.

(* bucket 4j+k lives in bits 2k of byte |body|-1-j *)
Definition spec_body (q1 q2 q3 : N) (counts : list N) : list N :=
  rev (map (fun ch => match ch with
                      | [a; b; c; d] => dibit q1 q2 q3 a + 4 * dibit q1 q2 q3 b
                                        + 16 * dibit q1 q2 q3 c + 64 * dibit q1 q2 q3 d
                      | _ => 0
                      end) (chunks_of_4 counts)).

Definition spec_qratio (pure_int : bool) (q q3 : N) : N :=
  if pure_int then (q * 100 / q3) mod 16 else qratio_f32 q q3.

Definition spec_min (bk : buckets_kind) : N := match bk with B48 => 10 | _ => 50 end.
Definition spec_min_conservative (bk : buckets_kind) : N := match bk with B48 => 10 | _ => 128 end.
Definition spec_min_nonzero (bk : buckets_kind) : N := match bk with B48 => 18 | B128 => 65 | B256 => 129 end.

Definition spec_too_small (bk : buckets_kind) (o : options) (n : N) : bool :=
  (n <? spec_min bk) || (match o_mode o with Conservative => n <? spec_min_conservative bk | Optimistic => false end).

Definition spec_len_code (n : N) : option N := if n =? 0 then Some 0 else spec_length_code n.

Definition spec_tlsh (v : variant) (o : options) (d : list N) : hash + gen_error :=
  let bk := v_bk v in
  let n := N.of_nat (length d) in
  if spec_max_len <? n then inr TooLargeInput
  else if spec_too_small bk o n && negb (o_small o) then inr TooSmallInput
  else
    let counts := spec_counts bk d in
    let '(q1, q2, q3) := spec_quartiles (spec_nb bk) counts in
    if (q3 =? 0) && negb (o_quarter o) then inr BucketsAreThreeQuarterEmpty
    else
      let '(q1, q2, q3) := if q3 =? 0 then (1, 1, 1) else (q1, q2, q3) in
      let nonzero := N.of_nat (length (filter (fun x => negb (x =? 0)) counts)) in
      if (nonzero <? spec_min_nonzero bk) && negb (o_half o || o_quarter o) then inr BucketsAreHalfEmpty
      else
        match spec_len_code n with
        | None => inr TooLargeInput
        | Some lv =>
            inl {| h_cks := spec_checksum v d; h_len := lv;
                   h_q := spec_qratio (o_pure_int o) q1 q3 + 16 * spec_qratio (o_pure_int o) q2 q3;
                   h_body := spec_body q1 q2 q3 counts |}
        end.
