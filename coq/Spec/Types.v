(* Spec/Types.v -- plain data types shared by the reference (Spec/) and the model (Model/). *)
From Coq Require Import NArith List.
Import ListNotations.
Open Scope N_scope.

Inductive buckets_kind := B48 | B128 | B256.

(* a hash variant: checksum size (1 or 3) and bucket count *)
Record variant := { v_cks : N; v_bk : buckets_kind }.

Definition V_Short := {| v_cks := 1; v_bk := B48 |}.
Definition V_Normal := {| v_cks := 1; v_bk := B128 |}.
Definition V_NormalLong := {| v_cks := 3; v_bk := B128 |}.
Definition V_Long := {| v_cks := 1; v_bk := B256 |}.
Definition V_LongLong := {| v_cks := 3; v_bk := B256 |}.
(* the five combinations `params!` instantiates *)
Definition all_variants := [V_Short; V_Normal; V_NormalLong; V_Long; V_LongLong].

Inductive is_variant : variant -> Prop :=
| IV_Short : is_variant V_Short
| IV_Normal : is_variant V_Normal
| IV_NormalLong : is_variant V_NormalLong
| IV_Long : is_variant V_Long
| IV_LongLong : is_variant V_LongLong.

Definition spec_nb (b : buckets_kind) : N := match b with B48 => 48 | B128 => 128 | B256 => 256 end.
Definition spec_body_size (v : variant) : N := spec_nb (v_bk v) / 4.
Definition spec_size_in_bytes (v : variant) : N := v_cks v + 2 + spec_body_size v.

(* a hash value: checksum bytes, length code, Q-ratio byte (Q2 in the high nibble), body bytes *)
Record hash := { h_cks : list N; h_len : N; h_q : N; h_body : list N }.

Inductive prefix := PEmpty | PWithVersion.

Inductive parse_error :=
| LengthIsTooLarge | InvalidPrefix | InvalidCharacter | InvalidStringLength | InvalidChecksum.

Inductive op_error := BufferIsTooSmall.

Inductive gen_error := TooLargeInput | TooSmallInput | BucketsAreHalfEmpty | BucketsAreThreeQuarterEmpty.

Inductive validity := TooSmall | ValidWhenOptimistic | Valid | TooLarge.
Inductive len_mode := Optimistic | Conservative.

Inductive cmp_mode := CmpDefault | CmpNoLength.

(* generator options *)
Record options := {
  o_mode : len_mode;
  o_pure_int : bool;     (* integer Q-ratio computation (TLSH 4.12.1+) vs. legacy f32 *)
  o_small : bool;        (* allow inputs below the minimum length *)
  o_half : bool;         (* allow half-empty buckets *)
  o_quarter : bool;      (* allow three-quarter-empty buckets *)
}.

(* insertion sort (used to define order statistics) *)
Fixpoint insert_sorted (x : N) (l : list N) : list N :=
  match l with
  | [] => [x]
  | y :: r => if x <=? y then x :: l else y :: insert_sorted x r
  end.
Definition isort (l : list N) : list N := fold_right insert_sorted [] l.
