(* Spec/SpecHex.v -- the reference hex grammar of a TLSH string and of the binary form.
   Independent of Model/ and Gen/. *)
From Coq Require Import NArith List Bool.
From TlshV Require Import Spec.Types.
Import ListNotations.
Open Scope N_scope.

Definition upper_digit (n : N) : N := if n <? 10 then 48 + n else 55 + n.   (* '0'..'9','A'..'F' *)

Definition hexdigit_val (c : N) : option N :=
  if (48 <=? c) && (c <=? 57) then Some (c - 48)
  else if (65 <=? c) && (c <=? 70) then Some (c - 55)
  else if (97 <=? c) && (c <=? 102) then Some (c - 87)
  else None.

Definition is_hexdigit (c : N) : bool := match hexdigit_val c with Some _ => true | None => false end.

(* ASCII upper-casing *)
Definition upper (c : N) : N := if (97 <=? c) && (c <=? 122) then c - 32 else c.

Definition is_upper_hexdigit (c : N) : bool := ((48 <=? c) && (c <=? 57)) || ((65 <=? c) && (c <=? 70)).

Definition hex_hi_lo (x : N) : list N := [upper_digit (x / 16); upper_digit (x mod 16)].
Definition hex_lo_hi (x : N) : list N := [upper_digit (x mod 16); upper_digit (x / 16)].
Definition swap_nibbles (x : N) : N := (x mod 16) * 16 + x / 16.

Definition prefix_text (p : prefix) : list N :=
  match p with PEmpty => [] | PWithVersion => [84; 49] end.   (* "T1" *)

(* reference text form: optional "T1", header bytes nibble-swapped, body bytes plain *)
Definition spec_format (h : hash) (p : prefix) : list N :=
  prefix_text p ++ flat_map hex_lo_hi (h_cks h) ++ hex_lo_hi (h_len h) ++ hex_lo_hi (h_q h)
  ++ flat_map hex_hi_lo (h_body h).

(* reference binary form *)
Definition spec_bytes (h : hash) : list N := h_cks h ++ [h_len h; h_q h] ++ h_body h.

(* plain hex decoding of a digit string (pairs, high nibble first) *)
Fixpoint decode_hex (s : list N) : option (list N) :=
  match s with
  | [] => Some []
  | a :: r =>
      match r with
      | [] => None
      | b :: t =>
          match hexdigit_val a, hexdigit_val b, decode_hex t with
          | Some h, Some l, Some d => Some (16 * h + l :: d)
          | _, _, _ => None
          end
      end
  end.

Definition slen (s : list N) : N := N.of_nat (length s).
Definition spec_len_in_str (v : variant) : N := 2 * spec_size_in_bytes v + 2.

(* which prefix mode applies; None = the length is wrong for the requested / auto-detected mode *)
Definition resolve_prefix (v : variant) (s : list N) (m : option prefix) : option prefix :=
  match m with
  | None =>
      if slen s =? spec_len_in_str v - 2 then Some PEmpty
      else if slen s =? spec_len_in_str v then Some PWithVersion
      else None
  | Some PEmpty => if slen s =? spec_len_in_str v - 2 then Some PEmpty else None
  | Some PWithVersion => if slen s =? spec_len_in_str v then Some PWithVersion else None
  end.

Definition digits_of (s : list N) (p : prefix) : list N :=
  match p with PEmpty => s | PWithVersion => skipn 2 s end.

Definition prefix_ok (s : list N) (p : prefix) : bool :=
  match p with
  | PEmpty => true
  | PWithVersion => match s with 84 :: 49 :: _ => true | _ => false end
  end.

Definition wellformed (v : variant) (s : list N) (m : option prefix) : bool :=
  match resolve_prefix v s m with
  | None => false
  | Some p => prefix_ok s p && forallb is_hexdigit (digits_of s p)
  end.

(* the hash denoted by the raw (plain-decoded) bytes: header bytes are nibble-swapped *)
Definition hash_of_raw (v : variant) (raw : list N) : hash :=
  let ck := N.to_nat (v_cks v) in
  {| h_cks := map swap_nibbles (firstn ck raw);
     h_len := swap_nibbles (nth ck raw 0);
     h_q := swap_nibbles (nth (S ck) raw 0);
     h_body := skipn (S (S ck)) raw |}.

(* reference parser (lenient): result or the specific error *)
Definition spec_parse (v : variant) (s : list N) (m : option prefix) : hash + parse_error :=
  match resolve_prefix v s m with
  | None => inr InvalidStringLength
  | Some p =>
      if negb (prefix_ok s p) then inr InvalidPrefix
      else match decode_hex (digits_of s p) with
           | None => inr InvalidCharacter
           | Some raw => inl (hash_of_raw v raw)
           end
  end.

(* validity conditions of the strict parser *)
Definition spec_checksum_valid (v : variant) (h : hash) : bool :=
  match v_bk v with
  | B48 => match h_cks h with c :: _ => c <=? 48 | [] => true end
  | _ => true
  end.
Definition spec_length_valid (h : hash) : bool := h_len h <? 170.

(* a well-typed hash value of the variant *)
Definition hash_ok (v : variant) (h : hash) : Prop :=
  slen (h_cks h) = v_cks v /\ slen (h_body h) = spec_body_size v /\
  Forall (fun x => x < 256) (h_cks h) /\ Forall (fun x => x < 256) (h_body h) /\
  h_len h < 256 /\ h_q h < 256.
