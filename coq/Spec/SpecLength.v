(* Spec/SpecLength.v -- the reference length code: the least code whose top value is >= len. *)
From Coq Require Import NArith List.
From TlshV Require Import Spec.SpecTables.
Import ListNotations.
Open Scope N_scope.

(* Least index i of [l] with len <= l[i]; None when no such entry exists. *)
Fixpoint least_code (l : list N) (len : N) : option N :=
  match l with
  | [] => None
  | t :: r => if len <=? t then Some 0 else option_map N.succ (least_code r len)
  end.

Definition spec_length_code (len : N) : option N := least_code topval len.
