(* Spec/SpecF32.v -- binary32 arithmetic used by the legacy Q-ratio mode, through the standard
   library's executable IEEE-754 specification (Floats.SpecFloat) at prec = 24, emax = 128.
   Rust semantics modelled: `u32 as f32` rounds to nearest even; `/` is IEEE division;
   `f32 as u32` truncates toward zero and saturates (NaN -> 0). *)
From Coq Require Import NArith ZArith Floats.SpecFloat.
Open Scope N_scope.

Definition f32_prec : Z := 24.
Definition f32_emax : Z := 128.

Definition f32_of_u32 (n : N) : spec_float := binary_normalize f32_prec f32_emax (Z.of_N n) 0 false.
Definition f32_div (x y : spec_float) : spec_float := SFdiv f32_prec f32_emax x y.

Definition u32_of_f32 (x : spec_float) : N :=
  match x with
  | S754_zero _ => 0
  | S754_nan => 0
  | S754_infinity s => if s then 0 else 4294967295
  | S754_finite s m e =>
      if s then 0
      else
        let v := match e with
                 | Z0 => Zpos m
                 | Zpos p => Z.shiftl (Zpos m) (Zpos p)
                 | Zneg p => Z.shiftr (Zpos m) (Zpos p)
                 end in
        N.min (Z.to_N v) 4294967295
  end.

(* (((q.wrapping_mul(100) as f32) / q3 as f32) as u32 % 16) as u8 *)
Definition qratio_f32 (q q3 : N) : N :=
  (u32_of_f32 (f32_div (f32_of_u32 ((q * 100) mod 4294967296)) (f32_of_u32 q3))) mod 16.
