(* Spec/SpecDistance.v -- the TLSH reference distance.  Independent of Model/ and Gen/. *)
From Coq Require Import NArith List Bool.
From TlshV Require Import Spec.Types.
Import ListNotations.
Open Scope N_scope.

Definition absdiff (x y : N) : N := if x <? y then y - x else x - y.

(* body: |x - y| per dibit pair, with 3 replaced by 6 *)
Definition dd (x y : N) : N := let d := absdiff x y in if d =? 3 then 6 else d.

Definition dibits (b : N) : list N := [b mod 4; (b / 4) mod 4; (b / 16) mod 4; (b / 64) mod 4].

Fixpoint sum (l : list N) : N := match l with [] => 0 | x :: r => x + sum r end.

Definition byte_dist (x y : N) : N :=
  sum (map (fun p => dd (fst p) (snd p)) (combine (dibits x) (dibits y))).

Definition body_dist (a b : list N) : N :=
  sum (map (fun p => byte_dist (fst p) (snd p)) (combine a b)).

(* ring distance on Z/n *)
Definition ring (n x y : N) : N := N.min ((x + n - y) mod n) ((y + n - x) mod n).

Definition qd (x y : N) : N := let d := ring 16 x y in if d <=? 1 then d else (d - 1) * 12.
Definition ld (x y : N) : N := let d := ring 256 x y in if d <=? 1 then d else d * 12.

Definition cks_dist (a b : list N) : N :=
  sum (map (fun p => if fst p =? snd p then 0 else 1) (combine a b)).

Definition q_dist (qa qb : N) : N := qd (qa mod 16) (qb mod 16) + qd (qa / 16) (qb / 16).

Definition spec_distance (a b : hash) (m : cmp_mode) : N :=
  body_dist (h_body a) (h_body b) + cks_dist (h_cks a) (h_cks b) + q_dist (h_q a) (h_q b)
  + match m with CmpDefault => ld (h_len a) (h_len b) | CmpNoLength => 0 end.

(* the published maximum *)
Definition spec_max_distance (v : variant) (m : cmp_mode) : N :=
  6 * spec_nb (v_bk v) + v_cks v + 168 + match m with CmpDefault => 1536 | CmpNoLength => 0 end.
